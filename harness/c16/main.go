// C16 harness: scalar/array typing of the resolver.
//
// Correspondence: abstract programs (events) are rendered to AWK source and
// parsed by the implementation (parser.ParseProgram + VerifResolverTables); the
// same abstract program goes to the extracted Coq model (modelrun resolve).
// Verdict, variable table (scope, type, index of every variable and parameter),
// function table and the error are compared exactly: the implementation
// processes names in sorted order, which is the model's resolve_impl.
//
// Search (implementation only): verdict and types against an independent
// union-find inference (infer.go); verdict/types/behaviour across permutations
// of the top-level items and consistent renamings; 8 repeated parses identical;
// executed programs against a reference semantics with arrays by reference and
// scalars by copy (exec.go).
package main

import (
	"encoding/json"
	"fmt"
	"os"
	"regexp"
	"sort"
	"strings"

	"github.com/benhoyt/goawk/parser"
	"verif/harness/hx"
)

// ---- running the implementation ----

func nativeFuncs(ns []Native) map[string]any {
	if len(ns) == 0 {
		return nil
	}
	m := map[string]any{}
	for _, n := range ns {
		switch {
		case n.NotFunc == "nil":
			m[n.Name] = nil
		case n.NotFunc == "int":
			m[n.Name] = 42
		case n.NotFunc == "string":
			m[n.Name] = "not a function"
		case n.NotFunc != "":
			m[n.Name] = []int{1, 2}
		case n.Variadic:
			m[n.Name] = func(a ...string) string { return "" }
		case n.In == 2:
			m[n.Name] = func(a, b string) string { return a }
		default:
			m[n.Name] = func(a float64) float64 { return a }
		}
	}
	return m
}

type implResult struct {
	Ok     bool
	Tables string // VerifResolverTables
	Err    string // canonical error
	Raw    string // Go error message
	Panic  string
	prog   *parser.Program
}

func (r implResult) verdict() string {
	switch {
	case r.Panic != "":
		return "panic"
	case r.Ok:
		return "ok"
	}
	return "err"
}

var errPatterns = []struct {
	re  *regexp.Regexp
	fmt func(m []string) string
}{
	{regexp.MustCompile(`^function "(\w+)" already defined$`), func(m []string) string { return "already " + hx.HexS(m[1]) }},
	{regexp.MustCompile(`^global var "(\w+)" can't also be a function$`), func(m []string) string { return "globalfunc " + hx.HexS(m[1]) }},
	{regexp.MustCompile(`^can't call local variable "(\w+)" as function$`), func(m []string) string { return "calllocal " + hx.HexS(m[1]) }},
	{regexp.MustCompile(`^undefined function "(\w+)"$`), func(m []string) string { return "undefined " + hx.HexS(m[1]) }},
	{regexp.MustCompile(`^"(\w+)" called with more arguments than declared$`), func(m []string) string { return "toomanyargs " + hx.HexS(m[1]) }},
	{regexp.MustCompile(`^native function "(\w+)" is not a function$`), func(m []string) string { return "notfunc " + hx.HexS(m[1]) }},
	{regexp.MustCompile(`^can't use (scalar|array) "(\w+)" as (scalar|array)$`), func(m []string) string { return "use " + m[1] + " " + hx.HexS(m[2]) + " " + m[3] }},
	{regexp.MustCompile(`^can't pass (scalar|array) "(\w+)" as (scalar|array) param$`), func(m []string) string {
		return "passvar " + m[1] + " " + hx.HexS(m[2]) + " " + m[3]
	}},
	{regexp.MustCompile(`^can't pass scalar .* as array param$`), func(m []string) string { return "passexpr" }},
	{regexp.MustCompile(`^too many iterations trying to resolve variable types$`), func(m []string) string { return "iter" }},
}

func canonError(msg string) string {
	for _, p := range errPatterns {
		if m := p.re.FindStringSubmatch(msg); m != nil {
			return p.fmt(m)
		}
	}
	return "other " + hx.HexS(msg)
}

func parseImpl(src string, natives []Native) (res implResult) {
	defer func() {
		if r := recover(); r != nil {
			res = implResult{Panic: fmt.Sprint(r)}
		}
	}()
	var cfg *parser.ParserConfig
	if f := nativeFuncs(natives); f != nil {
		cfg = &parser.ParserConfig{Funcs: f}
	}
	prog, err := parser.ParseProgram([]byte(src), cfg)
	if err != nil {
		msg := err.Error()
		if pe, ok := err.(*parser.ParseError); ok {
			msg = pe.Message
		}
		return implResult{Err: canonError(msg), Raw: err.Error()}
	}
	return implResult{Ok: true, Tables: prog.VerifResolverTables(), prog: prog}
}

// ---- tables ----

type varEntry struct {
	Scope, Index, Type int
}

var entryRe = regexp.MustCompile(`\(([0-9a-f-]+) ([0-9a-f-]+) (\d+) (-?\d+) (\d+)\)`)

func parseVars(tables string) map[vkey]varEntry {
	m := map[vkey]varEntry{}
	i := strings.Index(tables, "(funcs")
	if i < 0 {
		i = len(tables)
	}
	for _, g := range entryRe.FindAllStringSubmatch(tables[:i], -1) {
		var e varEntry
		fmt.Sscan(g[3], &e.Scope)
		fmt.Sscan(g[4], &e.Index)
		fmt.Sscan(g[5], &e.Type)
		m[vkey{string(hx.UnHex(g[1])), string(hx.UnHex(g[2]))}] = e
	}
	return m
}

func varsPart(tables string) string {
	i := strings.Index(tables, "(funcs")
	if i < 0 {
		return tables
	}
	return tables[:i]
}

// ---- one case = one concrete program (a base program or a variant of one) ----

type kase struct {
	p       *Prog
	base    int    // index of the base program's case (== own index for a base)
	variant string // "", "perm", "rename-suffix", "rename-reverse", "rename-swap"
	rmap    map[string]string
	src     string
	wire    string
	impl    implResult
	unstable string // non-empty: the 8 parses differed
	inf     inference
}

func detail(k *kase, extra map[string]any) map[string]any {
	d := map[string]any{"note": k.p.Note, "family": k.p.Family, "variant": k.variant, "source": k.src, "wire": k.wire,
		"natives": k.p.Natives, "impl_verdict": k.impl.verdict(), "impl_error": k.impl.Raw, "impl_tables": k.impl.Tables,
		"impl_panic": k.impl.Panic}
	for a, b := range extra {
		d[a] = b
	}
	return d
}

func allPerms(n int) [][]int {
	if n == 0 {
		return [][]int{{}}
	}
	var out [][]int
	for _, p := range allPerms(n - 1) {
		for i := 0; i <= len(p); i++ {
			q := append(append(append([]int{}, p[:i]...), n-1), p[i:]...)
			out = append(out, q)
		}
	}
	return out
}

func userNames(p *Prog) []string {
	set := map[string]bool{}
	fixed := func(s string) bool {
		if s == "" || specialVars[s] || s == guardVar || s == "O_" || s == "M_" || s == "N_" || s == "K_" {
			return true
		}
		for _, a := range positionNames {
			if a == s {
				return true
			}
		}
		for _, a := range builtinArrays {
			if a == s {
				return true
			}
		}
		for _, n := range p.Natives {
			if n.Name == s {
				return true
			}
		}
		return false
	}
	q := p.renamed(func(s string) string {
		if !fixed(s) {
			set[s] = true
		}
		return s
	})
	_ = q
	var names []string
	for s := range set {
		names = append(names, s)
	}
	sort.Strings(names)
	return names
}

func renamings(p *Prog, r *hx.Rand) (out []struct {
	name string
	m    map[string]string
}) {
	names := userNames(p)
	if len(names) == 0 {
		return nil
	}
	suffix, reverse, swap := map[string]string{}, map[string]string{}, map[string]string{}
	perm := make([]int, len(names))
	for i := range perm {
		perm[i] = i
	}
	for i := len(perm) - 1; i > 0; i-- {
		j := r.Intn(i + 1)
		perm[i], perm[j] = perm[j], perm[i]
	}
	for i, n := range names {
		suffix[n] = n + "_z"
		reverse[n] = fmt.Sprintf("v%03d", len(names)-i)
		swap[n] = names[perm[i]]
	}
	return []struct {
		name string
		m    map[string]string
	}{{"rename-suffix", suffix}, {"rename-reverse", reverse}, {"rename-swap", swap}}
}

func applyMap(m map[string]string) func(string) string {
	return func(s string) string {
		if t, ok := m[s]; ok {
			return t
		}
		return s
	}
}

func main() {
	o := hx.ParseFlags()
	if o.Replay != "" {
		os.Exit(replay(o))
	}
	rep := hx.NewReport("C16", o.Seed, o.Tier)
	rep.Rule = "systematic families (chains of 1..130 functions with the type known at the caller / callee / after the call / both ends, diamonds, self and mutual recursion, unused and forwarded-only parameters, fewer/more arguments, locals as arrays, length(x), every scalar-use form x every array-use form, special variables, ARGV/ENVIRON/FIELDS, name clashes, native functions, several BEGIN/END/pattern items) + random programs over small name pools (plain, hostile, executable); each base program with every permutation of its top-level items if <= 4 items (sampled above) and 3 consistent renamings; distinct = distinct AWK source text; non-trivial = has at least one function call"
	r := hx.NewRand(o.Seed)

	nRandom := o.N
	if nRandom == 0 {
		nRandom = 330
		if o.Tier == "thorough" {
			nRandom = 16000
		}
	}
	var bases []*Prog
	bases = append(bases, systematic()...)
	bases = append(bases, positionPrograms()...)
	for i := 0; i < nRandom; i++ {
		switch i % 3 {
		case 0:
			bases = append(bases, randomProg(r, 1+r.Intn(4), false, false))
		case 1:
			bases = append(bases, randomProg(r, 1+r.Intn(4), true, false))
		default:
			bases = append(bases, randomProg(r, 1+r.Intn(3), false, true))
		}
	}

	// expand to cases
	var ks []*kase
	for _, p := range bases {
		bi := len(ks)
		ks = append(ks, &kase{p: p, base: bi})
		n := len(p.Items)
		if n > 8 || strings.HasPrefix(p.Family, "position-") {
			// deep chains: only the reversed order is in the systematic list already
			continue
		}
		perms := allPerms(n)
		if n > 4 {
			// sample 12 permutations
			var s [][]int
			for i := 0; i < 12; i++ {
				s = append(s, perms[r.Intn(len(perms))])
			}
			perms = s
		}
		for _, pm := range perms {
			ident := true
			for i, j := range pm {
				if i != j {
					ident = false
				}
			}
			if ident {
				continue
			}
			ks = append(ks, &kase{p: p.permuted(pm), base: bi, variant: "perm"})
		}
		for _, rn := range renamings(p, r) {
			ks = append(ks, &kase{p: p.renamed(applyMap(rn.m)), base: bi, variant: rn.name, rmap: rn.m})
		}
	}

	// run the implementation (8 times each: Go map order is randomised) and the independent inference
	for _, k := range ks {
		k.src = k.p.Source()
		k.wire = k.p.Wire()
		k.impl = parseImpl(k.src, k.p.Natives)
		for i := 0; i < 7; i++ {
			again := parseImpl(k.src, k.p.Natives)
			if again.verdict() != k.impl.verdict() || again.Tables != k.impl.Tables {
				k.unstable = fmt.Sprintf("first: %s %s %s | later: %s %s %s", k.impl.verdict(), k.impl.Raw, k.impl.Tables,
					again.verdict(), again.Raw, again.Tables)
			}
		}
		k.inf = infer(k.p)
	}

	// model
	var lines []string
	type ref struct{ k, kind int }
	var refs []ref
	for i, k := range ks {
		// the implementation goes through names in sorted order: its outcome is resolve_impl, exactly
		lines = append(lines, "impl "+k.wire)
		refs = append(refs, ref{i, 0})
		lines = append(lines, "wf "+k.wire)
		refs = append(refs, ref{i, 1})
		// any other processing order: same verdict, same tables (the theorems' claim, run)
		lines = append(lines, fmt.Sprintf("resolve %d ", i%7)+k.wire)
		refs = append(refs, ref{i, 2})
	}
	answers, err := hx.ModelEval(o.ModelRun, lines)
	if err != nil {
		rep.HarnessError("%v", err)
		rep.Write(o.Out)
		return
	}
	model := make([][3]string, len(ks))
	for i, a := range answers {
		model[refs[i].k][refs[i].kind] = a
	}

	for i, k := range ks {
		// ---------------- correspondence ----------------
		rep.CorrEvals++
		rep.Count("family:" + k.p.Family)
		rep.Count("variant:" + k.variant)
		rep.Count("impl:" + k.impl.verdict())
		hasCall := strings.Contains(k.wire, " c ")
		if hasCall {
			rep.Distinct(k.src)
		}
		if i%1499 == 0 {
			rep.Sample(map[string]string{"family": k.p.Family, "source": k.src, "impl": k.impl.verdict() + " " + k.impl.Err + k.impl.Tables, "model": model[i][0]})
		}
		mm := func(note string) {
			rep.Mismatch(hx.Mismatch{Class: k.p.Family, Input: k.src + " ## " + k.wire, Impl: k.impl.verdict() + " " + k.impl.Err + " " + k.impl.Tables,
				Model: model[i][0] + " ## other order: " + model[i][2], Note: note})
		}
		m := model[i][0]
		switch {
		case strings.HasPrefix(m, "driver-error"):
			rep.HarnessError("model: %s on %s", m, k.wire)
		case k.impl.Panic != "":
			if m != "panic" {
				mm("implementation panicked")
			}
		case k.impl.Ok:
			if !strings.HasPrefix(m, "ok cc=1 ") {
				mm("implementation accepts; model: rejected or compile_check false")
			} else if strings.TrimPrefix(m, "ok cc=1 ") != k.impl.Tables {
				mm("tables differ")
			}
		default:
			if m != "err "+k.impl.Err {
				mm("implementation rejects; the model's outcome (same processing order) differs")
			}
		}
		// another processing order in the model: the verdict, and the tables of an accepted program, are the same
		if o2 := model[i][2]; strings.HasPrefix(o2, "driver-error") {
			rep.HarnessError("model: %s on %s", o2, k.wire)
		} else if strings.HasPrefix(m, "ok ") != strings.HasPrefix(o2, "ok ") || (strings.HasPrefix(m, "ok ") && m != o2) {
			rep.Mismatch(hx.Mismatch{Class: k.p.Family, Input: k.src + " ## " + k.wire, Impl: "model, sorted order: " + m,
				Model: "model, seed order: " + o2, Note: "the model's outcome depends on the processing order"})
		}
		// model precondition vs the harness's own notion of a valid program
		if (model[i][1] == "1") != k.inf.Valid {
			rep.HarnessError("wf disagreement: model wf=%s, harness valid=%v (%s) on %s", model[i][1], k.inf.Valid, k.inf.Why, k.src)
		}

		// ---------------- search oracles (implementation only) ----------------
		rep.SearchEvals++
		if k.impl.Panic != "" {
			rep.Fail(hx.Failure{Class: k.p.Family + "/panic", Oracle: "ParseProgram does not panic", Detail: detail(k, map[string]any{"kind": "verdict", "expect": "no panic"})})
			continue
		}
		if k.unstable != "" {
			rep.Fail(hx.Failure{Class: k.p.Family + "/unstable", Oracle: "8 parses of the same source give the same verdict and tables",
				Detail: detail(k, map[string]any{"kind": "stable", "runs": k.unstable})})
		}
		if k.inf.Valid {
			want := "err"
			if k.inf.Sat {
				want = "ok"
			}
			if k.impl.verdict() != want {
				why := "accepted-unsatisfiable"
				if want == "ok" {
					why = "rejected-satisfiable:" + strings.Fields(k.impl.Err + " ?")[0]
				}
				rep.Fail(hx.Failure{Class: k.p.Family + "/" + why, Oracle: "verdict = satisfiability of the usage constraints (union-find)",
					Detail: detail(k, map[string]any{"kind": "verdict", "expect": want})})
			} else if k.impl.Ok {
				// types: forced by the constraints, otherwise scalar; every variable present
				vars := parseVars(k.impl.Tables)
				for _, v := range k.inf.Vars {
					e, ok := vars[v]
					want := k.inf.Forced[v]
					if want == TUnknown {
						want = TScalar
					}
					if !ok || e.Type != int(want) {
						rep.Fail(hx.Failure{Class: k.p.Family + "/type", Oracle: "type of each variable = the type the constraints force, else scalar",
							Detail: detail(k, map[string]any{"kind": "types", "func": v.Fn, "var": v.V, "expect": int(want), "got": e.Type, "present": ok})})
						break
					}
				}
			}
		}
		if k.variant != "" {
			b := ks[k.base]
			what := "permutation of the top-level items"
			if k.variant != "perm" {
				what = "consistent renaming"
			}
			if b.impl.verdict() != k.impl.verdict() {
				rep.Fail(hx.Failure{Class: k.p.Family + "/" + k.variant + "-verdict", Oracle: "verdict invariant under " + what,
					Detail: detail(k, map[string]any{"kind": "variant", "base_source": b.src, "base_verdict": b.impl.verdict(), "base_error": b.impl.Raw, "rename": k.rmap})})
			} else if k.impl.Ok {
				same := variantSame(b.impl.Tables, k.impl.Tables, k.rmap, k.variant)
				if !same {
					rep.Fail(hx.Failure{Class: k.p.Family + "/" + k.variant + "-types", Oracle: "types and indexes invariant under " + what,
						Detail: detail(k, map[string]any{"kind": "variant", "base_source": b.src, "base_verdict": "ok", "base_tables": b.impl.Tables, "rename": k.rmap})})
				}
			}
		}
	}
	execOracle(ks, rep)
	rep.Write(o.Out)
}

// variantSame: the variant's variable table equals the base's after renaming: same
// variables, scopes and types; same indexes unless the renaming changes the name
// order of the globals.
func variantSame(baseTables, varTables string, rmap map[string]string, variant string) bool {
	bv, kv := parseVars(baseTables), parseVars(varTables)
	ren := applyMap(rmap)
	same := len(bv) == len(kv)
	for key, e := range bv {
		e2, ok := kv[vkey{ren(key.Fn), ren(key.V)}]
		if !ok || e2.Type != e.Type || e2.Scope != e.Scope {
			same = false
		}
		if ok && (variant == "perm" || key.Fn != "") && e2.Index != e.Index {
			same = false
		}
	}
	return same
}

// ---- replay ----

func replay(o hx.Opts) int {
	raw, err := os.ReadFile(o.Replay)
	if err != nil {
		fmt.Println("replay:", err)
		return 2
	}
	var doc struct {
		Failure struct {
			Class  string         `json:"class"`
			Oracle string         `json:"oracle"`
			Detail map[string]any `json:"detail"`
		} `json:"failure"`
	}
	if err := json.Unmarshal(raw, &doc); err != nil {
		fmt.Println("replay:", err)
		return 2
	}
	d := doc.Failure.Detail
	if d == nil {
		fmt.Println("replay: no failure.detail in", o.Replay)
		return 2
	}
	str := func(k string) string { s, _ := d[k].(string); return s }
	var natives []Native
	if b, err := json.Marshal(d["natives"]); err == nil {
		json.Unmarshal(b, &natives)
	}
	src := str("source")
	res := parseImpl(src, natives)
	fmt.Printf("class:  %s\noracle: %s\nprogram:\n%s\nimplementation now: %s %s %s %s\n", doc.Failure.Class, doc.Failure.Oracle, src, res.verdict(), res.Raw, res.Panic, res.Tables)
	switch str("kind") {
	case "verdict":
		fmt.Printf("expected verdict: %s\n", str("expect"))
		if res.verdict() != str("expect") && !(str("expect") == "no panic" && res.Panic == "") {
			return 1
		}
	case "types":
		vars := parseVars(res.Tables)
		e, ok := vars[vkey{str("func"), str("var")}]
		fmt.Printf("expected type of %q in %q: %v, got %v (present %v)\n", str("var"), str("func"), d["expect"], e.Type, ok)
		if want, _ := d["expect"].(float64); !ok || e.Type != int(want) {
			return 1
		}
	case "stable":
		for i := 0; i < 64; i++ {
			again := parseImpl(src, natives)
			if again.verdict() != res.verdict() || again.Tables != res.Tables {
				fmt.Printf("another parse: %s %s %s\n", again.verdict(), again.Raw, again.Tables)
				return 1
			}
		}
	case "variant":
		b := parseImpl(str("base_source"), natives)
		fmt.Printf("base program:\n%s\nbase now: %s %s %s\n", str("base_source"), b.verdict(), b.Raw, b.Tables)
		if b.verdict() != res.verdict() {
			return 1
		}
		if res.Ok {
			rmap := map[string]string{}
			if m, ok := d["rename"].(map[string]any); ok {
				for a, b := range m {
					rmap[a], _ = b.(string)
				}
			}
			if !variantSame(b.Tables, res.Tables, rmap, str("variant")) {
				fmt.Println("variable tables differ (after renaming)")
				return 1
			}
		}
	case "exec":
		out, errs := runProgram(src)
		fmt.Printf("output now:\n%s%s\nexpected:\n%s\n", out, errs, str("expect"))
		if out != str("expect") || errs != "" {
			return 1
		}
	}
	return 0
}
