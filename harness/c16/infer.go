// Independent scalar/array inference for the search oracle: the property's own
// equations (a variable or parameter has one type; direct uses fix it; a variable
// passed as an argument has the type of the parameter), solved by union-find.
// Written from the property text, not from the resolver or the Coq model.
package main

import "sort"

var specialVars = map[string]bool{"ARGC": true, "CONVFMT": true, "FILENAME": true, "FNR": true, "FS": true,
	"INPUTMODE": true, "NF": true, "NR": true, "OFMT": true, "OFS": true, "ORS": true, "OUTPUTMODE": true,
	"RLENGTH": true, "RS": true, "RSTART": true, "RT": true, "SUBSEP": true}
var builtinArrays = []string{"ARGV", "ENVIRON", "FIELDS"}

type vkey struct{ Fn, V string } // Fn "" = global

type uf struct {
	parent map[vkey]vkey
	typ    map[vkey]Ty // of roots
	bad    bool
}

func (u *uf) find(k vkey) vkey {
	p, ok := u.parent[k]
	if !ok {
		u.parent[k] = k
		return k
	}
	if p == k {
		return k
	}
	r := u.find(p)
	u.parent[k] = r
	return r
}
func (u *uf) set(k vkey, t Ty) {
	if t == TUnknown {
		u.find(k)
		return
	}
	r := u.find(k)
	if u.typ[r] != TUnknown && u.typ[r] != t {
		u.bad = true
	}
	u.typ[r] = t
}
func (u *uf) union(a, b vkey) {
	ra, rb := u.find(a), u.find(b)
	if ra == rb {
		return
	}
	ta, tb := u.typ[ra], u.typ[rb]
	if ta != TUnknown && tb != TUnknown && ta != tb {
		u.bad = true
	}
	u.parent[ra] = rb
	if tb == TUnknown {
		u.typ[rb] = ta
	}
}

type inference struct {
	Valid  bool   // the property's precondition holds (defined functions, arities, no name clashes)
	Why    string // first reason for !Valid
	Sat    bool
	Forced map[vkey]Ty // types the constraints force (only meaningful if Sat)
	Vars   []vkey      // all variables and parameters
}

func infer(p *Prog) inference {
	res := inference{Valid: true, Forced: map[vkey]Ty{}}
	invalid := func(why string) {
		if res.Valid {
			res.Valid, res.Why = false, why
		}
	}
	fdefs := map[string]*Item{}
	for _, f := range p.funcs() {
		if _, dup := fdefs[f.Name]; dup {
			invalid("function defined twice")
			continue
		}
		fdefs[f.Name] = f
	}
	natives := map[string]Native{}
	for _, n := range p.Natives {
		natives[n.Name] = n
	}
	u := &uf{parent: map[vkey]vkey{}, typ: map[vkey]Ty{}}
	scalarConst := vkey{"\x00", "scalar"}
	u.set(scalarConst, TScalar)
	for _, a := range builtinArrays {
		u.set(vkey{"", a}, TArray)
		if _, ok := fdefs[a]; ok {
			invalid("built-in array is a function")
		}
	}
	isParam := func(f *Item, v string) bool {
		if f == nil {
			return false
		}
		for _, q := range f.Params {
			if q == v {
				return true
			}
		}
		return false
	}
	scopeOf := func(f *Item, v string) vkey {
		if isParam(f, v) {
			return vkey{f.Name, v}
		}
		if specialVars[v] {
			return scalarConst
		}
		if _, isFunc := fdefs[v]; isFunc {
			invalid("global variable is a function")
		}
		return vkey{"", v}
	}
	var walk func(f *Item, es []Event)
	walk = func(f *Item, es []Event) {
		for _, e := range es {
			if !e.IsCall {
				u.set(scopeOf(f, e.V), e.T)
				continue
			}
			callee, isAwk := fdefs[e.F]
			nat, isNat := natives[e.F]
			switch {
			case isParam(f, e.F):
				invalid("parameter called as function")
			case isAwk:
				if len(e.Args) > len(callee.Params) {
					invalid("too many arguments")
				}
			case isNat && nat.NotFunc != "":
				invalid("native entry is not a function")
			case isNat:
				if !nat.Variadic && len(e.Args) > nat.In {
					invalid("too many arguments")
				}
			default:
				invalid("undefined function")
			}
			for i, a := range e.Args {
				if a.IsVar {
					k := scopeOf(f, a.V)
					if isAwk && i < len(callee.Params) {
						u.union(k, vkey{callee.Name, callee.Params[i]})
					} else if !isAwk && isNat {
						u.set(k, TScalar)
					} else {
						u.find(k)
					}
					continue
				}
				if isAwk && i < len(callee.Params) {
					u.set(vkey{callee.Name, callee.Params[i]}, TScalar) // an expression is a scalar
				}
				walk(f, a.Es)
			}
		}
	}
	for _, f := range p.funcs() {
		if fdefs[f.Name] != f {
			continue
		}
		for _, q := range f.Params {
			u.find(vkey{f.Name, q})
		}
		walk(f, f.events(p.Exec))
	}
	walk(nil, p.mainEvents())
	res.Sat = !u.bad
	for k := range u.parent {
		if k == scalarConst {
			continue
		}
		res.Vars = append(res.Vars, k)
		res.Forced[k] = u.typ[u.find(k)]
	}
	sort.Slice(res.Vars, func(i, j int) bool {
		if res.Vars[i].Fn != res.Vars[j].Fn {
			return res.Vars[i].Fn < res.Vars[j].Fn
		}
		return res.Vars[i].V < res.Vars[j].V
	})
	return res
}
