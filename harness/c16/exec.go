// Reference semantics for the executable family: straight-line bodies, calls
// with arrays passed by reference and scalars by copy, missing arguments fresh,
// recursion cut by the DEPTH_ guard.  Types come from the independent
// inference (infer.go).  The implementation's output must equal the reference
// output, and must not change when only function definitions are reordered.
package main

import (
	"bytes"
	"fmt"
	"strconv"
	"strings"

	"github.com/benhoyt/goawk/interp"
	"verif/harness/hx"
)

type cell struct {
	isArr bool
	arr   map[string]string
	s     string
}

type refInterp struct {
	p       *Prog
	inf     inference
	fdefs   map[string]*Item
	globals map[string]*cell
	depth   int
	out     strings.Builder
	steps   int
}

func (ri *refInterp) isArray(fn, v string) bool { return ri.inf.Forced[vkey{fn, v}] == TArray }

func (ri *refInterp) newCell(arr bool) *cell {
	c := &cell{isArr: arr}
	if arr {
		c.arr = map[string]string{}
	}
	return c
}

type frame struct {
	f      *Item
	locals map[string]*cell
}

func (ri *refInterp) lookup(fr *frame, v string) *cell {
	if fr != nil {
		if c, ok := fr.locals[v]; ok {
			return c
		}
	}
	c, ok := ri.globals[v]
	if !ok {
		c = ri.newCell(ri.isArray("", v))
		ri.globals[v] = c
	}
	return c
}

func (ri *refInterp) length(c *cell) string {
	if c.isArr {
		return strconv.Itoa(len(c.arr))
	}
	return strconv.Itoa(len(c.s))
}

func (ri *refInterp) argValue(fr *frame, a ArgX) string {
	switch a.Kind {
	case "v":
		return ri.lookup(fr, a.V).s
	case "k":
		return []string{"1", "s1", "5"}[a.Form%3]
	case "x":
		if a.Form%4 == 0 {
			return ri.lookup(fr, a.V).s + "t"
		}
		return ri.lookup(fr, a.V).s
	case "i":
		c := ri.lookup(fr, a.V)
		key := "1"
		if a.Form%2 == 1 {
			key = ri.lookup(fr, a.W).s
		}
		if _, ok := c.arr[key]; !ok {
			c.arr[key] = ""
		}
		return c.arr[key]
	case "c":
		ri.call(fr, a.Call)
		return ""
	case "l":
		return ri.length(ri.lookup(fr, a.V))
	}
	panic("arg")
}

func (ri *refInterp) call(fr *frame, s *Stmt) {
	callee := ri.fdefs[s.F]
	nf := &frame{f: callee, locals: map[string]*cell{}}
	for i, q := range callee.Params {
		arr := ri.isArray(callee.Name, q)
		switch {
		case i >= len(s.Args):
			nf.locals[q] = ri.newCell(arr)
		case arr:
			nf.locals[q] = ri.lookup(fr, s.Args[i].V) // by reference
		default:
			nf.locals[q] = &cell{s: ri.argValue(fr, s.Args[i])} // by copy
		}
	}
	if ri.depth > 2 {
		return
	}
	ri.depth++
	ri.body(nf, callee.Body)
	ri.depth--
}

func (ri *refInterp) body(fr *frame, b []*Stmt) {
	for _, s := range b {
		ri.steps++
		switch s.Kind {
		case "s":
			c := ri.lookup(fr, s.V)
			c.s += s.Tag
		case "a":
			c := ri.lookup(fr, s.V)
			c.arr["k"] += s.Tag
		case "l":
			n := ri.length(ri.lookup(fr, s.V))
			w := ri.lookup(fr, s.W)
			w.s += n
		case "c":
			if s.Form%nCallForms == 1 {
				w := ri.lookup(fr, s.W)
				ri.call(fr, s)
				w.s = ""
			} else {
				ri.call(fr, s)
			}
		case "o":
			c := ri.lookup(fr, s.V)
			if _, ok := c.arr["k"]; !ok {
				c.arr["k"] = ""
			}
			ri.lookup(fr, "O_").s += c.arr["k"]
		case "m":
			c := ri.lookup(fr, s.V)
			if _, ok := c.arr["k"]; ok {
				ri.lookup(fr, "M_").s += s.Tag
			}
		case "f":
			c := ri.lookup(fr, s.V)
			ri.lookup(fr, "K_") // the loop variable exists; its value depends on the iteration order
			for range c.arr {
				ri.lookup(fr, "N_").s += s.Tag
			}
		case "p":
			c := ri.lookup(fr, s.V)
			if s.Form == 0 {
				n := ri.length(c)
				if _, ok := c.arr["k"]; !ok {
					c.arr["k"] = ""
				}
				fmt.Fprintf(&ri.out, "%s %s %s\n", s.V, n, c.arr["k"])
			} else {
				fmt.Fprintf(&ri.out, "%s %s\n", s.V, c.s)
			}
		}
	}
}

func reference(p *Prog, inf inference) string {
	ri := &refInterp{p: p, inf: inf, fdefs: map[string]*Item{}, globals: map[string]*cell{}}
	for _, f := range p.funcs() {
		ri.fdefs[f.Name] = f
	}
	for _, kind := range []string{"begin", "action", "end"} {
		if kind == "action" {
			continue // no input records
		}
		for i := range p.Items {
			if p.Items[i].Kind == kind {
				ri.body(nil, p.Items[i].Body)
			}
		}
	}
	return ri.out.String()
}

// addDump appends an END item printing every global whose type the constraints force.
func addDump(p *Prog) {
	inf := infer(p)
	if !inf.Valid || !inf.Sat {
		return
	}
	var b []*Stmt
	for _, v := range inf.Vars {
		if v.Fn != "" || v.V == guardVar || v.V == "ARGV" || v.V == "ENVIRON" || v.V == "FIELDS" || v.V == "K_" {
			continue
		}
		switch inf.Forced[v] {
		case TArray:
			b = append(b, &Stmt{Kind: "p", V: v.V, Form: 0})
		case TScalar:
			b = append(b, &Stmt{Kind: "p", V: v.V, Form: 1})
		}
	}
	p.Items = append(p.Items, Item{Kind: "end", Body: b})
}

func runProgram(src string) (out string, errs string) {
	defer func() {
		if r := recover(); r != nil {
			errs = fmt.Sprint("panic: ", r)
		}
	}()
	res := hx.RunAwk(src, &interp.Config{Stdin: bytes.NewReader(nil), NoExec: true, NoFileWrites: true}, nil)
	if res.Panic != nil {
		return string(res.Out), fmt.Sprint("panic: ", res.Panic)
	}
	if res.Err != nil {
		return string(res.Out), "error: " + res.Err.Error()
	}
	return string(res.Out), ""
}

func mainOrder(p *Prog) string {
	var sb strings.Builder
	for _, it := range p.Items {
		if it.Kind != "func" {
			sb.WriteString(it.text(p.Exec) + "\n")
		}
	}
	return sb.String()
}

func execOracle(ks []*kase, rep *hx.Report) {
	outs := map[int]string{}
	for i, k := range ks {
		if !k.p.Exec || !k.impl.Ok || !k.inf.Valid || !k.inf.Sat {
			continue
		}
		rep.SearchEvals++
		rep.Count("exec:run")
		out, errs := runProgram(k.src)
		outs[i] = out
		want := reference(k.p, k.inf)
		if errs != "" || out != want {
			rep.Fail(hx.Failure{Class: k.p.Family + "/exec", Oracle: "output = reference semantics (arrays by reference, scalars by copy, no run-time scalar/array confusion)",
				Detail: detail(k, map[string]any{"kind": "exec", "expect": want, "got": out, "run_error": errs})})
			continue
		}
		if k.variant == "perm" {
			if bout, ok := outs[k.base]; ok && mainOrder(k.p) == mainOrder(ks[k.base].p) && bout != out {
				rep.Fail(hx.Failure{Class: k.p.Family + "/exec-perm", Oracle: "output invariant under reordering of function definitions",
					Detail: detail(k, map[string]any{"kind": "exec", "expect": bout, "got": out, "base_source": ks[k.base].src})})
			}
		}
	}
}
