// Program generators for C16: systematic families first, then random programs.
package main

import (
	"fmt"

	"verif/harness/hx"
)

func sUse(v string, form int) *Stmt     { return &Stmt{Kind: "s", V: v, Form: form, Tag: "s"} }
func aUse(v string, form int) *Stmt     { return &Stmt{Kind: "a", V: v, W: "i_", Form: form, Tag: "a"} }
func lUse(v string, form int) *Stmt     { return &Stmt{Kind: "l", V: v, W: "L_", Form: form} }
func call(f string, args ...ArgX) *Stmt { return &Stmt{Kind: "c", F: f, Args: args} }
func av(v string) ArgX                  { return ArgX{Kind: "v", V: v} }
func ak() ArgX                          { return ArgX{Kind: "k"} }
func ax(v string, form int) ArgX        { return ArgX{Kind: "x", V: v, Form: form} }
func ai(v string) ArgX                  { return ArgX{Kind: "i", V: v} }
func ac(s *Stmt) ArgX                   { return ArgX{Kind: "c", Call: s} }
func fn(name string, params []string, body ...*Stmt) Item {
	return Item{Kind: "func", Name: name, Params: params, Body: body}
}
func begin(body ...*Stmt) Item { return Item{Kind: "begin", Body: body} }
func end(body ...*Stmt) Item   { return Item{Kind: "end", Body: body} }

// chain: f0(a){f1(a)} ... f(n-1)(a){far}; BEGIN{near; f0(x)}
// known: "caller" (x used in BEGIN before the call), "callee" (a used in the last function),
// "after" (x used in BEGIN after the call), "none", "both" (caller and callee, maybe conflicting)
func chain(n int, known string, t1, t2 Ty, reverse bool) *Prog {
	p := &Prog{Family: fmt.Sprintf("chain-%s", known)}
	useOf := func(v string, t Ty) *Stmt {
		switch t {
		case TArray:
			return aUse(v, 0)
		case TScalar:
			return sUse(v, 0)
		}
		return lUse(v, 1)
	}
	var fs []Item
	for i := 0; i < n; i++ {
		name := fmt.Sprintf("f%d", i)
		if i < n-1 {
			fs = append(fs, fn(name, []string{"a"}, call(fmt.Sprintf("f%d", i+1), av("a"))))
		} else if known == "callee" || known == "both" {
			fs = append(fs, fn(name, []string{"a"}, useOf("a", t2)))
		} else {
			fs = append(fs, fn(name, []string{"a"}))
		}
	}
	if reverse {
		for i, j := 0, len(fs)-1; i < j; i, j = i+1, j-1 {
			fs[i], fs[j] = fs[j], fs[i]
		}
	}
	p.Items = fs
	var b []*Stmt
	if known == "caller" || known == "both" {
		b = append(b, useOf("x", t1))
	}
	b = append(b, call("f0", av("x")))
	if known == "after" {
		b = append(b, useOf("x", t1))
	}
	p.Items = append(p.Items, begin(b...))
	return p
}

func systematic() []*Prog {
	var ps []*Prog
	add := func(fam string, items ...Item) *Prog {
		p := &Prog{Family: fam, Items: items}
		ps = append(ps, p)
		return p
	}
	A, B := []string{"a"}, []string{"a", "b"}
	// chains of several lengths, array/scalar/length at either end, agreeing and conflicting
	for _, n := range []int{1, 2, 3, 5} {
		for _, k := range []string{"caller", "callee", "after", "none"} {
			for _, t := range []Ty{TArray, TScalar, TUnknown} {
				ps = append(ps, chain(n, k, t, t, false))
			}
		}
		for _, t1 := range []Ty{TArray, TScalar} {
			for _, t2 := range []Ty{TArray, TScalar} {
				ps = append(ps, chain(n, "both", t1, t2, n%2 == 1))
			}
		}
	}
	// diamonds
	for _, t := range []Ty{TArray, TScalar} {
		for _, u := range []Ty{TArray, TScalar, TUnknown} {
			var hbody, mbody []*Stmt
			if t == TArray {
				hbody = append(hbody, aUse("a", 0))
			} else {
				hbody = append(hbody, sUse("a", 0))
			}
			switch u {
			case TArray:
				mbody = append(mbody, aUse("x", 0))
			case TScalar:
				mbody = append(mbody, sUse("x", 0))
			}
			mbody = append(mbody, call("f", av("x")), call("g", av("x")))
			add("diamond", fn("f", A, call("h", av("a"))), fn("g", A, call("h", av("a"))), fn("h", A, hbody...), begin(mbody...))
			add("diamond-two-vars", fn("f", A, call("h", av("a"))), fn("g", A, call("h", av("a"))), fn("h", A, hbody...),
				begin(append([]*Stmt{call("f", av("x")), call("g", av("y"))}, mbody[:len(mbody)-2]...)...))
		}
	}
	// self recursion and mutual recursion
	for form := 0; form < 3; form++ {
		add("self-recursion", fn("f", A, call("f", av("a")), aUse("a", form)), begin(call("f", av("x"))))
		add("self-recursion", fn("f", A, call("f", av("a"))), begin(aUse("x", form), call("f", av("x"))))
		add("self-recursion-conflict", fn("f", A, call("f", av("a")), aUse("a", form)), begin(sUse("x", form), call("f", av("x"))))
		add("self-recursion-swap", fn("f", B, call("f", av("b"), av("a")), aUse("a", form)), begin(call("f", av("x"), av("y"))))
		add("self-recursion-swap-conflict", fn("f", B, call("f", av("b"), av("a")), aUse("a", form), sUse("b", form)), begin(call("f", av("x"), av("y"))))
		add("mutual-recursion", fn("f", A, call("g", av("a"))), fn("g", A, call("f", av("a")), aUse("a", form)), begin(call("f", av("x"))))
		add("mutual-recursion", fn("f", A, call("g", av("a"))), fn("g", A, call("f", av("a"))), begin(call("f", av("x")), aUse("x", form)))
	}
	// recursion that hands a parameter on in a DIFFERENT position: parameter src is passed where
	// parameter dst is expected and that is src's only typing evidence (dst is used directly, src is
	// not); every arity 2..4, every ordered pair of positions, array/scalar/length use of dst, self
	// recursion and mutual recursion through 1 or 2 other functions, callers that omit src, pass a
	// fresh global, pass a constant, or pass a variable of the conflicting type
	for np := 2; np <= 4; np++ {
		names := []string{"p0", "p1", "p2", "p3"}[:np]
		for src := 0; src < np; src++ {
			for dst := 0; dst < np; dst++ {
				if src == dst {
					continue
				}
				for ut := 0; ut < 3; ut++ {
					for hops := 0; hops < 3; hops++ {
						for caller := 0; caller < 4; caller++ {
							if (np+src+dst+ut+hops+caller)%2 == 1 && np > 2 {
								continue // half of the larger arities: keeps the quick tier fast
							}
							var use *Stmt
							switch ut {
							case 0:
								use = aUse(names[dst], (src+dst)%3)
							case 1:
								use = sUse(names[dst], 0)
							default:
								use = lUse(names[dst], 1)
							}
							// arguments of the recursive call: constants up to dst, src at dst
							rargs := func() []ArgX {
								var as []ArgX
								for i := 0; i < dst; i++ {
									as = append(as, ak())
								}
								return append(as, av(names[src]))
							}
							var items []Item
							if hops == 0 {
								items = append(items, fn("f", names, call("f", rargs()...), use))
							} else {
								// f -> g (-> h) -> f, each forwarding its own parameter q at position dst
								mid := []string{"g", "h"}[:hops]
								fwd := func(to, v string) *Stmt {
									var as []ArgX
									for i := 0; i < dst; i++ {
										as = append(as, ak())
									}
									return call(to, append(as, av(v))...)
								}
								items = append(items, fn("f", names, fwd(mid[0], names[src]), use))
								for i, m := range mid {
									to := "f"
									if i+1 < len(mid) {
										to = mid[i+1]
									}
									items = append(items, fn(m, names, fwd(to, names[dst])))
								}
							}
							var margs []ArgX
							for i := 0; i < np; i++ {
								switch {
								case i == dst:
									margs = append(margs, av("t"))
								case i == src && caller == 1:
									margs = append(margs, av("u"))
								case i == src && caller == 2:
									margs = append(margs, ak())
								default:
									margs = append(margs, ak())
								}
							}
							var mb []*Stmt
							if caller == 0 {
								// src omitted when it is trailing; otherwise a constant is passed
								if src > dst {
									margs = margs[:src]
								}
							}
							if caller == 3 {
								margs[src] = av("u")
								if ut == 0 {
									mb = append(mb, sUse("u", 0))
								} else {
									mb = append(mb, aUse("u", 0))
								}
							}
							mb = append(mb, call("f", margs...))
							if (src+dst+hops)%2 == 0 {
								items = append(items, begin(mb...))
							} else {
								items = append([]Item{begin(mb...)}, items...)
							}
							add(fmt.Sprintf("recursion-shift-%dhop", hops), items...)
						}
					}
				}
			}
		}
	}
	// the example of resolve.go's comment (5 mutually recursive functions)
	add("mutual-recursion-5",
		fn("f1", A, call("f5", av("z1")), call("f2", av("a"))),
		fn("f2", []string{"b"}, call("f4", av("z2")), call("f3", av("b"))),
		fn("f3", []string{"c"}, call("f3", av("z3")), call("f4", av("c"))),
		fn("f4", []string{"d"}, call("f2", av("z4")), call("f5", av("d"))),
		fn("f5", []string{"i"}, call("f1", av("z5")), aUse("i", 0)),
		begin(aUse("x", 0), call("f5", av("x"))))
	add("unused-param-comment-example",
		fn("f1", []string{"A"}), fn("f2", []string{"x", "A"}, aUse("x", 2), call("f1", av("a")), call("f2", av("a"))))
	// unused and forwarded-only parameters, fewer arguments than parameters
	add("unused-param", fn("f", A), begin(call("f", av("x"))))
	add("unused-param", fn("f", A), begin(call("f", av("x")), aUse("x", 0)))
	add("unused-param", fn("f", A), begin(call("f", av("x")), call("f", ak())))
	add("unused-param-array-and-expr", fn("f", A), begin(aUse("x", 0), call("f", av("x")), call("f", ak())))
	add("unused-param-array-and-expr", fn("f", A), begin(call("f", ak()), aUse("x", 0), call("f", av("x"))))
	add("forwarded-only", fn("f", A, call("g", av("a"))), fn("g", A), begin(call("f", av("x"))))
	add("forwarded-only", fn("f", A, call("g", av("a"))), fn("g", A), begin(call("f", av("x")), aUse("x", 0)))
	add("forwarded-only-expr", fn("f", A, call("g", av("a"))), fn("g", A), begin(aUse("x", 0), call("f", av("x")), call("g", ak())))
	add("fewer-args", fn("f", B, aUse("b", 0), sUse("a", 0)), begin(call("f", av("x"))))
	add("fewer-args", fn("f", B, aUse("b", 0), sUse("a", 0)), begin(call("f")))
	add("fewer-args", fn("f", B, aUse("a", 0)), begin(call("f")))
	add("more-args", fn("f", A), begin(call("f", av("x"), av("y"))))
	add("more-args-nested", fn("f", A), begin(call("f", ac(call("f", ak(), ak())))))
	// locals used as arrays
	add("local-array", fn("f", B, aUse("b", 0), call("g", av("b"))), fn("g", A, aUse("a", 0)), begin(call("f", ak())))
	add("local-array", fn("f", B, call("g", av("b"))), fn("g", A, aUse("a", 0)), begin(call("f", ak())))
	add("local-array-conflict", fn("f", B, sUse("b", 0), call("g", av("b"))), fn("g", A, aUse("a", 0)), begin(call("f", ak())))
	add("local-shadows-global", fn("f", []string{"x"}, aUse("x", 0)), begin(sUse("x", 0), call("f", av("y"))))
	// length(x)
	for form := 0; form < 2; form++ {
		add("length", begin(lUse("x", form)))
		add("length", begin(lUse("x", form), aUse("x", 0)))
		add("length", begin(lUse("x", form), sUse("x", 0)))
		add("length", fn("f", A, lUse("a", form)), begin(call("f", av("x")), aUse("x", 0)))
		add("length", fn("f", A, lUse("a", form)), begin(call("f", av("x"))))
		add("length-arg", fn("f", A, aUse("a", 0)), begin(call("f", ArgX{Kind: "l", V: "x"})))
	}
	// expressions as arguments
	for form := 0; form < 4; form++ {
		add("expr-arg", fn("f", A, sUse("a", 0)), begin(call("f", ax("x", form))))
		add("expr-arg-array-param", fn("f", A, aUse("a", 0)), begin(call("f", ax("x", form))))
		add("expr-arg-array-param-late", fn("f", A, call("g", av("a"))), fn("g", A, aUse("a", 0)), begin(call("f", ax("x", form))))
	}
	add("index-arg", fn("f", A, sUse("a", 0)), begin(call("f", ai("x"))))
	add("index-arg", fn("f", A, sUse("a", 0)), begin(call("f", ai("x")), sUse("x", 0)))
	add("nested-call-arg", fn("f", A, sUse("a", 0)), fn("g", A, aUse("a", 0)), begin(call("f", ac(call("g", av("x"))))))
	add("nested-call-arg", fn("f", A, aUse("a", 0)), fn("g", A, aUse("a", 0)), begin(call("f", ac(call("g", av("x"))))))
	// every use form, against every use form
	for f1 := 0; f1 < nScalarForms; f1++ {
		for f2 := 0; f2 < nArrayForms; f2++ {
			add("use-forms-conflict", begin(sUse("x", f1), aUse("x", f2)))
			add("use-forms-conflict", begin(aUse("x", f2), sUse("x", f1)))
			add("use-forms", begin(aUse("x", f2), sUse("y", f1)))
			add("use-forms-param", fn("f", A, aUse("a", f2)), begin(sUse("x", f1), call("f", av("x"))))
		}
	}
	// special variables and the built-in arrays
	for _, v := range []string{"NR", "NF", "FS", "SUBSEP", "RT"} {
		add("special", begin(sUse(v, 0)))
		add("special-as-array", begin(aUse(v, 0)))
		add("special-passed", fn("f", A, sUse("a", 0)), begin(call("f", av(v))))
		add("special-passed-array", fn("f", A, aUse("a", 0)), begin(call("f", av(v))))
		add("special-param", fn("f", []string{v}, aUse(v, 0)), begin(call("f", av("x")), sUse(v, 0)))
		add("special-length", begin(lUse(v, 1)))
	}
	for _, v := range []string{"ARGV", "ENVIRON", "FIELDS"} {
		add("builtin-array", begin(aUse(v, 0)))
		add("builtin-array-as-scalar", begin(sUse(v, 0)))
		add("builtin-array-passed", fn("f", A, aUse("a", 0)), begin(call("f", av(v))))
		add("builtin-array-passed-scalar", fn("f", A, sUse("a", 0)), begin(call("f", av(v))))
		add("builtin-array-passed-unused", fn("f", A), begin(call("f", av(v))))
		add("builtin-array-param", fn("f", []string{v}, sUse(v, 0)), begin(call("f", ak())))
		add("builtin-array-function", fn(v, nil), begin(call(v)))
	}
	// name clashes and undefined things
	add("undefined-function", begin(call("nosuch", av("x"))))
	add("undefined-function-in-uncalled", fn("f", nil, call("nosuch")), begin(sUse("x", 0)))
	add("global-is-function", fn("f", nil), begin(sUse("f", 2)))
	add("global-is-function", fn("f", nil), begin(aUse("f", 1)))
	add("global-is-function-arg", fn("f", A), begin(call("f", av("f"))))
	add("global-is-function-length", fn("f", A), begin(lUse("f", 1)))
	add("call-local", fn("f", []string{"g"}, call("g")), fn("g", nil), begin(call("f", ak())))
	add("call-local-undefined", fn("f", []string{"g"}, call("g")), begin(call("f", ak())))
	add("param-named-as-function", fn("f", []string{"g"}, aUse("g", 0)), fn("g", nil), begin(call("f", av("x")), call("g")))
	add("duplicate-function", fn("f", nil), fn("f", A), begin(call("f")))
	add("function-named-special", fn("NR", A, aUse("a", 0)), begin(call("NR", av("x")), sUse("NR", 0)))
	add("two-errors", fn("f", A, aUse("a", 0), sUse("a", 0)), fn("g", A, call("nosuch")), begin(sUse("x", 0)))
	add("two-type-errors", fn("f", A, aUse("a", 0), sUse("a", 0)), fn("g", A, sUse("a", 0), aUse("a", 0)))
	// native (Go) functions
	nat := []Native{{"nat1", 1, false, ""}, {"nat2", 2, false, ""}, {"natv", 1, true, ""}, {"over", 1, false, ""}}
	withNat := func(fam string, items ...Item) {
		add(fam, items...).Natives = nat
	}
	withNat("native", begin(call("nat1", av("x"))))
	withNat("native", begin(call("nat1", av("x")), aUse("x", 0)))
	withNat("native", begin(aUse("x", 0), call("nat2", ak(), av("x"))))
	withNat("native-too-many", begin(call("nat1", av("x"), av("y"))))
	withNat("native-variadic", begin(call("natv", av("x"), av("y"), ak(), av("z"))))
	withNat("native-variadic", begin(call("natv")))
	withNat("native-overridden", fn("over", B, aUse("a", 0)), begin(call("over", av("x"), ak())))
	withNat("native-overridden", fn("over", B, aUse("a", 0)), begin(call("over", ak())))
	withNat("native-param", fn("f", A, call("nat1", av("a"))), begin(aUse("x", 0), call("f", av("x"))))
	withNat("native-expr", begin(call("nat2", ai("x"), ax("y", 0))))
	withNat("native-as-variable", begin(sUse("nat1", 0)))
	// Funcs entries that are not functions (nil, an int, a string, a slice): called and not called
	for _, kind := range []string{"nil", "int", "string", "slice"} {
		bad := []Native{{"nat1", 1, false, ""}, {"notf", 0, false, kind}, {"zz", 0, false, kind}}
		withBad := func(fam string, items ...Item) { add(fam, items...).Natives = bad }
		withBad("nonfunc-native-not-called", begin(call("nat1", av("x"))))
		withBad("nonfunc-native-not-called", fn("f", A, aUse("a", 0)), begin(call("f", av("x"))))
		withBad("nonfunc-native-called", begin(call("notf")))
		withBad("nonfunc-native-called", begin(call("notf", av("x"), ak())))
		withBad("nonfunc-native-called", begin(aUse("x", 0), call("zz", av("x"))))
		withBad("nonfunc-native-called-in-function", fn("f", A, call("notf", av("a"))), begin(sUse("x", 0)))
		withBad("nonfunc-native-called-nested", fn("f", A, sUse("a", 0)), begin(call("f", ac(call("zz", ak())))))
		withBad("nonfunc-native-called-after-type-error", begin(aUse("x", 0), sUse("x", 0), call("notf")))
		withBad("nonfunc-native-called-before-type-error", begin(call("notf"), aUse("x", 0), sUse("x", 0)))
		withBad("nonfunc-native-overridden", fn("notf", A, aUse("a", 0)), begin(call("notf", av("x"))))
		withBad("nonfunc-native-as-variable", begin(sUse("notf", 0), aUse("zz", 0)))
		withBad("nonfunc-native-as-parameter", fn("f", []string{"notf"}, call("notf")), begin(call("f", ak())))
	}
	// multiple BEGIN / END / pattern-action items
	add("multi-items", begin(aUse("x", 0)), begin(sUse("x", 0)))
	add("multi-items", end(sUse("x", 0)), begin(aUse("x", 0)))
	add("multi-items", Item{Kind: "action", PatVar: "x"}, begin(aUse("x", 0)))
	add("multi-items", Item{Kind: "action", PatVar: "p", Body: []*Stmt{aUse("x", 0)}}, end(call("f", av("x"))), fn("f", A, lUse("a", 0)))
	// executable: two or more array parameters that no caller supplies (local arrays): each is a
	// fresh array of its own; arrays the caller does pass are the caller's
	{
		aw := func(v, tag string) *Stmt { return &Stmt{Kind: "a", V: v, Form: 0, Tag: tag} }
		ob := func(v string) *Stmt { return &Stmt{Kind: "o", V: v} }
		in := func(v, tag string) *Stmt { return &Stmt{Kind: "m", V: v, Tag: tag} }
		fi := func(v, tag string) *Stmt { return &Stmt{Kind: "f", V: v, Tag: tag} }
		ln := func(v string) *Stmt { return &Stmt{Kind: "l", V: v, W: "L_", Form: 0} }
		AB, EAB, ABC := []string{"a", "b"}, []string{"e", "a", "b"}, []string{"a", "b", "c"}
		ex := func(fam string, items ...Item) {
			p := &Prog{Family: "exec-" + fam, Items: items, Exec: true}
			addDump(p)
			ps = append(ps, p)
		}
		ex("two-local-arrays", fn("f", AB, aw("a", "A"), aw("b", "B"), ob("a"), ob("b")), begin(call("f"), call("f")))
		ex("two-local-arrays-membership", fn("f", AB, aw("a", "A"), in("b", "x"), in("a", "y"), ln("b"), ln("a")), begin(call("f")))
		ex("two-local-arrays-forin", fn("f", AB, aw("b", "B"), fi("a", "x"), fi("b", "y"), aw("a", "A"), fi("a", "z")), begin(call("f")))
		ex("three-local-arrays", fn("f", ABC, aw("a", "A"), aw("b", "B"), aw("c", "C"), ob("a"), ob("b"), ob("c"), ln("c")), begin(call("f")))
		ex("local-arrays-forwarded", fn("f", AB, call("g", av("a"), av("b")), ob("a"), ob("b")),
			fn("g", []string{"x", "y"}, aw("x", "X"), aw("y", "Y"), in("y", "m")), begin(call("f")))
		ex("local-arrays-forwarded-swapped", fn("f", AB, call("g", av("b"), av("a")), ob("a"), ob("b"), aw("a", "A"), call("g", av("a"), av("b")), ob("a"), ob("b")),
			fn("g", []string{"x", "y"}, aw("x", "X"), ob("y")), begin(call("f")))
		ex("local-arrays-recursion", fn("f", AB, aw("a", "A"), call("f"), aw("b", "B"), ob("a"), ob("b"), ln("a")), begin(call("f")))
		ex("one-passed-two-local", fn("f", EAB, aw("e", "E"), aw("a", "A"), aw("b", "B"), ob("e"), ob("a"), ob("b")),
			begin(call("f"), call("f", av("E")), call("f", av("E")), ob("E")))
		ex("passed-empty-vs-missing", fn("f", EAB, in("e", "e"), aw("a", "A"), in("b", "b"), aw("b", "B"), in("e", "f"), ob("a")),
			begin(call("f"), call("f", av("E")), ln("E")))
		ex("local-array-and-local-scalar", fn("f", ABC, aw("a", "A"), sUse("b", 0), aw("c", "C"), ob("a"), ob("c"), ln("b")), begin(call("f"), call("f")))
		ex("locals-in-two-functions", fn("f", AB, aw("a", "A"), call("g"), aw("b", "B"), ob("a"), ob("b")),
			fn("g", AB, aw("b", "Q"), aw("a", "P"), ob("b"), ob("a")), begin(call("f"), call("g")))
	}
	// deep chains around the cut-off of 100 extra passes
	for _, n := range []int{30, 60, 80, 99, 100, 101, 102, 105, 130} {
		for _, rev := range []bool{false, true} {
			mark := func(p *Prog, needsMoreThan100 bool) {
				if needsMoreThan100 {
					// the type has to travel against the call order through more than 100 functions
					p.Family = "chain-deep(>100 passes)"
				}
				ps = append(ps, p)
			}
			mark(chain(n, "caller", TArray, TArray, rev), n > 100)
			mark(chain(n, "caller", TScalar, TScalar, rev), n > 100)
			mark(chain(n, "callee", TArray, TArray, rev), false)
			mark(chain(n, "after", TArray, TArray, rev), n >= 100)
			mark(chain(n, "both", TArray, TScalar, rev), false)
			mark(chain(n, "both", TArray, TArray, rev), false)
		}
	}
	return ps
}

// ---- random programs ----

var varPool = []string{"g0", "g1", "g2", "g3", "g4"}
var spicePool = []string{"NR", "NF", "ARGV", "ENVIRON", "SUBSEP", "f0", "f1", "nat1"}
var paramPool = []string{"a", "b", "c", "g0", "NR", "f1"}

type rgen struct {
	r      *hx.Rand
	fnames []string
	nparam map[string]int
	nats   []Native
	hostil bool
	xforms int
}

func (g *rgen) pickVar(params []string) string {
	k := g.r.Intn(20)
	switch {
	case k < 9 && len(params) > 0:
		return params[g.r.Intn(len(params))]
	case k == 19 && g.hostil:
		return g.r.Pick(spicePool)
	}
	return g.r.Pick(varPool)
}

func (g *rgen) pickFunc() string {
	k := g.r.Intn(40)
	if k == 0 && g.hostil {
		return g.r.Pick([]string{"nosuch", "a", "g0"})
	}
	if k < 4 && len(g.nats) > 0 {
		return g.nats[g.r.Intn(len(g.nats))].Name
	}
	if len(g.fnames) == 0 {
		if len(g.nats) > 0 {
			return g.nats[0].Name
		}
		return "nosuch"
	}
	return g.r.Pick(g.fnames)
}

func (g *rgen) arity(f string) int {
	if n, ok := g.nparam[f]; ok {
		return n
	}
	for _, n := range g.nats {
		if n.Name == f {
			if n.Variadic {
				return 4
			}
			return n.In
		}
	}
	return 1
}

func (g *rgen) callStmt(params []string, depth int) *Stmt {
	f := g.pickFunc()
	n := g.arity(f)
	na := n
	switch g.r.Intn(12) {
	case 0:
		na = g.r.Intn(n + 1) // fewer arguments
	case 1:
		if g.hostil && g.r.Intn(4) == 0 {
			na = n + 1 // too many
		}
	}
	s := &Stmt{Kind: "c", F: f, Form: g.r.Intn(6) / 5, W: "r_"}
	for i := 0; i < na; i++ {
		k := g.r.Intn(20)
		v := g.pickVar(params)
		switch {
		case k < 13:
			s.Args = append(s.Args, av(v))
		case k < 15:
			s.Args = append(s.Args, ArgX{Kind: "k", Form: g.r.Intn(3)})
		case k < 17:
			s.Args = append(s.Args, ax(v, g.r.Intn(g.xforms)))
		case k == 17:
			s.Args = append(s.Args, ArgX{Kind: "i", V: v, W: g.pickVar(params), Form: g.r.Intn(2)})
		case k == 18 && depth < 2:
			s.Args = append(s.Args, ac(g.callStmt(params, depth+1)))
		default:
			s.Args = append(s.Args, ArgX{Kind: "l", V: v})
		}
	}
	return s
}

func (g *rgen) body(params []string, maxStmts int, exec bool) []*Stmt {
	n := g.r.Intn(maxStmts + 1)
	var b []*Stmt
	for i := 0; i < n; i++ {
		k := g.r.Intn(20)
		v := g.pickVar(params)
		tag := fmt.Sprintf("%c", 'a'+g.r.Intn(26))
		switch {
		case k < 10:
			b = append(b, g.callStmt(params, 0))
		case k < 13 && exec && g.r.Intn(2) == 0:
			// observations of an array: element read, membership, for-in
			b = append(b, &Stmt{Kind: g.r.Pick([]string{"o", "o", "m", "f"}), V: v, Tag: tag})
		case k < 13:
			form := 0
			if !exec {
				form = g.r.Intn(nArrayForms)
			}
			b = append(b, &Stmt{Kind: "a", V: v, W: g.pickVar(params), Form: form, Tag: tag})
		case k < 16:
			form := 0
			if !exec {
				form = g.r.Intn(nScalarForms)
			}
			b = append(b, &Stmt{Kind: "s", V: v, Form: form, Tag: tag})
		default:
			form := 0
			if !exec {
				form = g.r.Intn(nLengthForms)
			}
			b = append(b, &Stmt{Kind: "l", V: v, W: "L_", Form: form})
		}
	}
	return b
}

// randomProg: up to maxF functions and 1-2 main items, over small name pools so
// that variables, parameters and functions interact.
func randomProg(r *hx.Rand, maxF int, hostile, exec bool) *Prog {
	g := &rgen{r: r, nparam: map[string]int{}, hostil: hostile, xforms: 4}
	if exec {
		g.xforms = 2
	}
	p := &Prog{Family: "random", Exec: exec}
	if hostile {
		p.Family = "random-hostile"
	}
	if exec {
		p.Family = "random-exec"
	}
	if !exec && r.Intn(4) == 0 {
		g.nats = []Native{{"nat1", 1, false, ""}, {"nat2", 2, false, ""}, {"natv", 1, true, ""}}
		if hostile && r.Intn(3) == 0 {
			g.nats = append(g.nats, Native{"f0", 1, false, ""})
		}
		if hostile && r.Intn(3) == 0 {
			g.nats = append(g.nats, Native{"notf", 0, false, r.Pick([]string{"nil", "int", "string"})})
		}
		p.Natives = g.nats
	}
	nf := r.Intn(maxF + 1)
	locals := exec && r.Intn(2) == 0
	if locals {
		p.Family = "random-exec-locals"
		nf = 1 + r.Intn(maxF)
	}
	params := make([][]string, nf)
	for i := 0; i < nf; i++ {
		name := fmt.Sprintf("f%d", i)
		if hostile && r.Intn(40) == 0 && i > 0 {
			name = "f0" // duplicate definition
		}
		g.fnames = append(g.fnames, name)
		np := r.Intn(4)
		seen := map[string]bool{name: true}
		for j := 0; j < np; j++ {
			q := paramPool[r.Intn(3)]
			if hostile && r.Intn(6) == 0 {
				q = r.Pick(paramPool)
			}
			if !seen[q] {
				seen[q] = true
				params[i] = append(params[i], q)
			}
		}
		g.nparam[name] = len(params[i])
		if exec && locals {
			// 2-3 further parameters that no caller supplies: local variables
			for _, q := range []string{"la", "lb", "lc"}[:2+r.Intn(2)] {
				params[i] = append(params[i], q)
			}
		}
	}
	for i := 0; i < nf; i++ {
		p.Items = append(p.Items, fn(g.fnames[i], params[i], g.body(params[i], 4, exec)...))
	}
	nm := 1 + r.Intn(5)/4
	for i := 0; i < nm; i++ {
		kind := "begin"
		if !exec {
			kind = []string{"begin", "begin", "end", "action"}[r.Intn(4)]
		}
		it := Item{Kind: kind, Body: g.body(nil, 5, exec)}
		if kind == "action" && r.Bool() {
			it.PatVar = g.pickVar(nil)
		}
		p.Items = append(p.Items, it)
	}
	// shuffle the items so that functions are defined before and after their uses
	for i := len(p.Items) - 1; i > 0; i-- {
		j := r.Intn(i + 1)
		p.Items[i], p.Items[j] = p.Items[j], p.Items[i]
	}
	if exec {
		addDump(p)
	}
	return p
}
