// Expression positions: every place of the grammar where an expression can stand,
// in particular every argument position of every builtin.  A statement of kind
// "h" puts a hole expression (a variable, an array element, a user call) into one
// position; its events are those of the surrounding construct before the hole,
// the hole's own, and those after it, in the order the resolver walks them.
// Programs built from them carry typing evidence ONLY inside that position.
package main

import (
	"fmt"
	"strings"
)

type position struct {
	Name      string
	Text      string  // one %s: the hole
	Pre, Post []Event // events of the construct around the hole
	Lvalue    bool    // the hole must be an lvalue (no call)
	Length    bool    // length(x): a bare variable is "unknown", not scalar
	InFunc    bool    // only valid inside a function body
}

// names used by the templates; never renamed (see userNames)
var positionNames = []string{"P_", "T_", "D_", "I_", "S_", "X_", "g_"}

var positions = []position{
	{Name: "split-1", Text: `split(%s, P_)`, Post: []Event{use("P_", TArray)}},
	{Name: "split-3", Text: `split("a b", P_, %s)`, Pre: []Event{use("P_", TArray)}},
	{Name: "split-1-of-3", Text: `split(%s, P_, ":")`, Post: []Event{use("P_", TArray)}},
	{Name: "sub-1", Text: `sub(%s, "b")`},
	{Name: "sub-2", Text: `sub(/a/, %s)`},
	{Name: "sub-2-of-3", Text: `sub(/a/, %s, T_)`, Post: []Event{use("T_", TScalar)}},
	{Name: "sub-3", Text: `sub(/a/, "b", %s)`, Lvalue: true},
	{Name: "gsub-1", Text: `gsub(%s, "b")`},
	{Name: "gsub-2", Text: `gsub(/a/, %s)`},
	{Name: "gsub-3", Text: `gsub(/a/, "b", %s)`, Lvalue: true},
	{Name: "substr-1", Text: `X_ = substr(%s, 1)`, Pre: []Event{use("X_", TScalar)}},
	{Name: "substr-2", Text: `X_ = substr("abc", %s)`, Pre: []Event{use("X_", TScalar)}},
	{Name: "substr-3", Text: `X_ = substr("abc", 1, %s)`, Pre: []Event{use("X_", TScalar)}},
	{Name: "index-1", Text: `X_ = index(%s, "a")`, Pre: []Event{use("X_", TScalar)}},
	{Name: "index-2", Text: `X_ = index("a", %s)`, Pre: []Event{use("X_", TScalar)}},
	{Name: "match-1", Text: `match(%s, /a/)`},
	{Name: "match-2", Text: `match("a", %s)`},
	{Name: "length", Text: `X_ = length(%s)`, Pre: []Event{use("X_", TScalar)}, Length: true},
	{Name: "sprintf-1", Text: `X_ = sprintf(%s)`, Pre: []Event{use("X_", TScalar)}},
	{Name: "sprintf-2", Text: `X_ = sprintf("%%s", %s)`, Pre: []Event{use("X_", TScalar)}},
	{Name: "sprintf-3", Text: `X_ = sprintf("%%s%%s", 1, %s)`, Pre: []Event{use("X_", TScalar)}},
	{Name: "tolower", Text: `X_ = tolower(%s)`, Pre: []Event{use("X_", TScalar)}},
	{Name: "int", Text: `X_ = int(%s)`, Pre: []Event{use("X_", TScalar)}},
	{Name: "atan2-2", Text: `X_ = atan2(1, %s)`, Pre: []Event{use("X_", TScalar)}},
	{Name: "system", Text: `if (0) system(%s)`},
	{Name: "close", Text: `close(%s)`},
	{Name: "getline-target", Text: `getline %s < "/dev/null"`, Lvalue: true},
	{Name: "getline-file", Text: `getline T_ < %s`, Pre: []Event{use("T_", TScalar)}},
	{Name: "getline-plain-file", Text: `getline < %s`},
	{Name: "getline-command", Text: `if (0) %s | getline`},
	{Name: "getline-command-target", Text: `if (0) "true" | getline %s`, Lvalue: true},
	{Name: "print-arg", Text: `print %s > "/dev/null"`},
	{Name: "print-arg-2", Text: `print 1, %s > "/dev/null"`},
	{Name: "print-paren-arg", Text: `print(1, %s) > "/dev/null"`},
	{Name: "printf-format", Text: `printf %s > "/dev/null"`},
	{Name: "printf-arg", Text: `printf "%%s", %s > "/dev/null"`},
	{Name: "print-redirect", Text: `if (0) print "x" > %s`},
	{Name: "print-append", Text: `if (0) print "x" >> %s`},
	{Name: "print-pipe", Text: `if (0) print "x" | %s`},
	{Name: "printf-redirect", Text: `if (0) printf "x" > %s`},
	{Name: "delete-index", Text: `delete D_[%s]`, Pre: []Event{use("D_", TArray)}},
	{Name: "delete-index-2", Text: `delete D_[1, %s]`, Pre: []Event{use("D_", TArray)}},
	{Name: "in-index", Text: `if (%s in I_) {}`, Post: []Event{use("I_", TArray)}},
	{Name: "in-multi-index", Text: `if ((1, %s) in I_) {}`, Post: []Event{use("I_", TArray)}},
	{Name: "subscript", Text: `S_[%s] = 1`, Post: []Event{use("S_", TArray)}},
	{Name: "subscript-2", Text: `S_[1, %s] = 1`, Post: []Event{use("S_", TArray)}},
	{Name: "subscript-read", Text: `X_ = S_[%s]`, Pre: []Event{use("X_", TScalar)}, Post: []Event{use("S_", TArray)}},
	{Name: "call-arg", Text: `g_(%s "")`},
	{Name: "call-arg-2", Text: `g_(1, %s "")`},
	{Name: "if", Text: `if (%s) {}`},
	{Name: "else-body", Text: `if (0) {} else X_ = %s`, Pre: []Event{use("X_", TScalar)}},
	{Name: "while", Text: `while (%s) break`},
	{Name: "do-while", Text: `do {} while (%s)`},
	{Name: "for-init", Text: `for (X_ = %s; 0;) {}`, Pre: []Event{use("X_", TScalar)}},
	{Name: "for-cond", Text: `for (; %s;) break`},
	{Name: "for-post", Text: `for (; 0; X_ = %s) {}`, Pre: []Event{use("X_", TScalar)}},
	{Name: "forin-body", Text: `for (X_ in I_) T_ = %s`, Pre: []Event{use("X_", TScalar), use("I_", TArray), use("T_", TScalar)}},
	{Name: "cond-test", Text: `X_ = %s ? 1 : 2`, Pre: []Event{use("X_", TScalar)}},
	{Name: "cond-true", Text: `X_ = 1 ? %s : 2`, Pre: []Event{use("X_", TScalar)}},
	{Name: "cond-false", Text: `X_ = 1 ? 2 : %s`, Pre: []Event{use("X_", TScalar)}},
	{Name: "assign-rhs", Text: `X_ = %s`, Pre: []Event{use("X_", TScalar)}},
	{Name: "augassign-rhs", Text: `X_ += %s`, Pre: []Event{use("X_", TScalar)}},
	{Name: "assign-lhs", Text: `%s = 1`, Lvalue: true},
	{Name: "augassign-lhs", Text: `%s += 1`, Lvalue: true},
	{Name: "incr", Text: `%s++`, Lvalue: true},
	{Name: "pre-decr", Text: `--%s`, Lvalue: true},
	{Name: "unary-minus", Text: `X_ = -%s`, Pre: []Event{use("X_", TScalar)}},
	{Name: "not", Text: `X_ = !%s`, Pre: []Event{use("X_", TScalar)}},
	{Name: "binary-left", Text: `X_ = %s + 1`, Pre: []Event{use("X_", TScalar)}},
	{Name: "binary-right", Text: `X_ = 1 - %s`, Pre: []Event{use("X_", TScalar)}},
	{Name: "concat", Text: `X_ = "a" %s`, Pre: []Event{use("X_", TScalar)}},
	{Name: "compare", Text: `X_ = (1 < %s)`, Pre: []Event{use("X_", TScalar)}},
	{Name: "and", Text: `X_ = 0 && %s`, Pre: []Event{use("X_", TScalar)}},
	{Name: "or", Text: `X_ = 1 || %s`, Pre: []Event{use("X_", TScalar)}},
	{Name: "match-op", Text: `X_ = %s ~ /a/`, Pre: []Event{use("X_", TScalar)}},
	{Name: "match-op-right", Text: `X_ = "a" ~ %s`, Pre: []Event{use("X_", TScalar)}},
	{Name: "group", Text: `X_ = (%s)`, Pre: []Event{use("X_", TScalar)}},
	{Name: "field", Text: `X_ = $(%s)`, Pre: []Event{use("X_", TScalar)}},
	{Name: "field-assign", Text: `$(%s) = 1`},
	{Name: "exit", Text: `if (0) exit %s`},
	{Name: "return", Text: `return %s`, InFunc: true},
	{Name: "block", Text: `{ X_ = %s }`, Pre: []Event{use("X_", TScalar)}},
}

// hole kinds: "var" (v), "idx" (v["k"]), "call" (F(W))
func (s *Stmt) holeText() string {
	switch s.HKind {
	case "var":
		return s.V
	case "idx":
		return s.V + `["k"]`
	case "call":
		return s.F + "(" + s.W + ")"
	}
	panic("hole " + s.HKind)
}

func (s *Stmt) holeEvents(p position) []Event {
	switch s.HKind {
	case "var":
		if p.Length {
			return []Event{use(s.V, TUnknown)}
		}
		return []Event{use(s.V, TScalar)}
	case "idx":
		return []Event{use(s.V, TArray)}
	case "call":
		return []Event{{IsCall: true, F: s.F, Args: []Arg{{IsVar: true, V: s.W}}}}
	}
	panic("hole " + s.HKind)
}

func (s *Stmt) posText() string { return fmt.Sprintf(positions[s.Pos].Text, s.holeText()) }

func (s *Stmt) posEvents() []Event {
	p := positions[s.Pos]
	var es []Event
	es = append(es, p.Pre...)
	es = append(es, s.holeEvents(p)...)
	es = append(es, p.Post...)
	return es
}

// positionPrograms: for every position and every hole kind, programs whose only
// typing evidence for the interesting variable sits in that position.
func positionPrograms() []*Prog {
	var ps []*Prog
	gfn := fn("g_", []string{"a", "b"})
	for pi, pos := range positions {
		hole := func(kind, v, f, w string) *Stmt { return &Stmt{Kind: "h", Pos: pi, HKind: kind, V: v, F: f, W: w} }
		add := func(variant string, items ...Item) {
			items = append(items, gfn)
			ps = append(ps, &Prog{Family: "position-" + variant, Items: items, Note: pos.Name})
		}
		// where the statement stands: in BEGIN, or in a function that BEGIN calls
		place := func(s *Stmt, before, after []*Stmt) []Item {
			body := append(append(append([]*Stmt{}, before...), s), after...)
			if pos.InFunc {
				return []Item{fn("h_", nil, body...), begin(call("h_"))}
			}
			return []Item{begin(body...)}
		}
		arr, sca := aUse("v", 1), sUse("v", 2)
		// a variable: fresh; an array elsewhere (before / after / in another item)
		add("var-fresh", place(hole("var", "v", "", ""), nil, nil)...)
		add("var-array-before", place(hole("var", "v", "", ""), []*Stmt{arr}, nil)...)
		add("var-array-after", place(hole("var", "v", "", ""), nil, []*Stmt{arr})...)
		add("var-array-elsewhere", append(place(hole("var", "v", "", ""), nil, nil), end(arr))...)
		// an array element: fresh; a scalar elsewhere
		add("idx-fresh", place(hole("idx", "v", "", ""), nil, nil)...)
		add("idx-scalar-before", place(hole("idx", "v", "", ""), []*Stmt{sca}, nil)...)
		add("idx-scalar-after", place(hole("idx", "v", "", ""), nil, []*Stmt{sca})...)
		if pos.Lvalue {
			continue
		}
		// a user call: the argument's type is known only through the callee
		fa := fn("f", []string{"t"}, aUse("t", 0))
		fs := fn("f", []string{"t"}, sUse("t", 0))
		add("call-array-param", append(place(hole("call", "", "f", "q"), nil, nil), fa)...)
		add("call-array-param-then-length", append(place(hole("call", "", "f", "q"), nil, []*Stmt{lUse("q", 0)}), fa)...)
		add("call-array-param-scalar-arg", append(place(hole("call", "", "f", "q"), []*Stmt{sUse("q", 2)}, nil), fa)...)
		add("call-scalar-param-array-arg", append(place(hole("call", "", "f", "q"), nil, []*Stmt{aUse("q", 1)}), fs)...)
		add("call-undefined", place(hole("call", "", "nosuch", "q"), nil, nil)...)
	}
	// patterns
	for _, kind := range []string{"var", "idx", "call"} {
		for _, two := range []bool{false, true} {
			mk := func(v, f, w string) *Stmt { return &Stmt{Kind: "h", Pos: -1, HKind: kind, V: v, F: f, W: w} }
			items := func(extra ...Item) []Item {
				it := Item{Kind: "action", Pat: mk("v", "f", "q")}
				if two {
					it.Pat2 = mk("v", "f", "q")
					it.Pat = &Stmt{Kind: "h", Pos: -1, HKind: "var", V: "X_"}
				}
				return append([]Item{it}, extra...)
			}
			fam := "position-pattern-" + kind
			switch kind {
			case "var":
				ps = append(ps, &Prog{Family: fam, Items: items(), Note: "pattern"})
				ps = append(ps, &Prog{Family: fam + "-array-elsewhere", Items: items(end(aUse("v", 1))), Note: "pattern"})
			case "idx":
				ps = append(ps, &Prog{Family: fam, Items: items(), Note: "pattern"})
				ps = append(ps, &Prog{Family: fam + "-scalar-elsewhere", Items: items(begin(sUse("v", 2))), Note: "pattern"})
			default:
				ps = append(ps, &Prog{Family: fam, Items: items(fn("f", []string{"t"}, aUse("t", 0))), Note: "pattern"})
				ps = append(ps, &Prog{Family: fam + "-scalar-arg", Items: items(fn("f", []string{"t"}, aUse("t", 0)), begin(sUse("q", 2))), Note: "pattern"})
			}
		}
	}
	return ps
}

func patText(it *Item) string {
	var parts []string
	for _, p := range []*Stmt{it.Pat, it.Pat2} {
		if p != nil {
			parts = append(parts, p.holeText())
		}
	}
	return strings.Join(parts, ", ")
}

func patEvents(it *Item) []Event {
	var es []Event
	for _, p := range []*Stmt{it.Pat, it.Pat2} {
		if p != nil {
			es = append(es, p.holeEvents(position{})...)
		}
	}
	return es
}
