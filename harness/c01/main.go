// C01 harness. Correspondence: the Coq compiler model, applied to the resolved syntax tree
// dumped from the implementation, must emit exactly the opcode words and constant tables of
// parser.Program.Compiled. Search (implementation only): a program and its equivalent
// respellings (statement shortcuts defeated, conditions unfused, $3 as $(3), A[1] as A["1"],
// concatenation chains regrouped, x++ as x += 1) must produce the same output, status and error.
package main

import (
	"fmt"
	"os"
	"strings"

	"github.com/benhoyt/goawk/interp"
	"github.com/benhoyt/goawk/parser"
	"verif/harness/awkgen"
	"verif/harness/hx"
)

const input = "a b c\n1 2 3\nx10 y z\n\n4.5 aab 7 8\n"

type outcome struct {
	out    string
	status int
	err    string
	panic_ string
}

func run(src string) outcome { return runOn(src, input) }

func runOn(src, in string) outcome {
	rr := hx.RunAwk(src, &interp.Config{Stdin: strings.NewReader(in), Environ: []string{}, NoExec: true, NoFileWrites: true}, nil)
	o := outcome{out: string(rr.Out), status: rr.Status}
	if rr.Err != nil {
		o.err = rr.Err.Error()
	}
	if rr.Panic != nil {
		o.panic_ = fmt.Sprint(rr.Panic)
	}
	return o
}

func (o outcome) String() string {
	return fmt.Sprintf("status=%d err=%q panic=%q out=%q", o.status, o.err, o.panic_, o.out)
}

var rewrites = []struct {
	name string
	o    awkgen.Opts
}{
	{"paren-stmts", awkgen.Opts{ParenStmts: true}},
	{"paren-conds", awkgen.Opts{ParenConds: true}},
	{"group-field", awkgen.Opts{GroupField: true}},
	{"str-index", awkgen.Opts{StrIndex: true}},
	{"group-cat", awkgen.Opts{GroupCat: true}},
	{"incr-as-aug", awkgen.Opts{IncrAsAug: true}},
	{"all", awkgen.Opts{ParenStmts: true, ParenConds: true, GroupField: true, StrIndex: true, GroupCat: true, IncrAsAug: true}},
}

// hand-written programs of the integer fragment for the execution correspondence (evaluation order, lvalues, control flow)
var toyProbes = []string{
	`BEGIN { i = 1; A0[i++] = i++; print 0 + i, 0 + A0[1], 0 + A0[2], length(A0) }`,
	`BEGIN { g0 = 5; g1 = g0++ + g0++; g2 = ++g0 - g0--; print 0 + g0, 0 + g1, 0 + g2 }`,
	`function f0(p0, p1) { p0 += 2; p1++; g0 += p0; return p0 * 10 % 97 + p1 } BEGIN { g1 = f0(g0 = 3, g0 + 1) + f0(7); print 0 + g0, 0 + g1, 0 + f0() }`,
	`BEGIN { g0 = 0; g1 = (g0 = 1) || (g0 = 2); g2 = (g0 == 1) && (g3 = 9); print 0 + g0, 0 + g1, 0 + g2, 0 + g3; g1 = 0 && (g0 = 5); g2 = g1 ? (g0 = 6) : (g0 += 10); print 0 + g0, 0 + g1, 0 + g2 }`,
	`BEGIN { for (i = 0; i < 5; i++) { if (i == 1) continue; if (i == 4) break; A1[i] = i * 2 % 97; w = 0; while (w < 3) { w++; if (w == 2) continue; g0 += w } } print 0 + g0, length(A1); for (k in A1) { s += A1[k] + (k + 0); c++ } print 0 + s, 0 + c }`,
	`BEGIN { do { n++; if (n == 2) continue; if (n > 3) break; g0 += n } while (n < 10); print 0 + n, 0 + g0; A0[1] = 1; A0[2] = 2; delete A0[1]; print (1 in A0), (2 in A0), length(A0); delete A0; print length(A0) }`,
	`function f0(p0) { if (p0 > 0 && p0 < 12) return f0(p0 - 1) + (p0 % 3); return 0 } function f1(p0, p1) { if (p0) return; p1 = 4; return p1 } BEGIN { print 0 + f0(7), 0 + f1(1), 0 + f1(0); exit (g0 = 3) + 1; print 99 }`,
	`BEGIN { print 0 + 7 % 3, 0 + (-7) % 3, 0 + (7 - 7 % 2) / 2, 0 + -g0; g1 = 5; print 0 + g1 % (g1 - 5) }`,
	`BEGIN { A0[0]; A0[3] += 2; A0[3]++; ++A0[4]; A0[4] %= 1; g0 = A0[(g1 = 3) % 5]--; print 0 + g0, 0 + g1, 0 + A0[3], 0 + A0[4], length(A0), (0 in A0) }`,
	`function f0(p0) { g0++; return p0 + g0 } BEGIN { g1 = f0(g0) + f0(g0) * 2 % 97; print 0 + g0, 0 + g1; g2 = (g0 = 10) + f0(g0--); print 0 + g0, 0 + g2 }`,
	`function f0(p0) { return f0(p0 + 1) } BEGIN { print 1; f0(0); print 2 }`,
	// omitted arguments / locals are null at every call depth, also past the initial size of the VM's stack
	`function s(n, u, v, w) { if (n > 0) return s(n - 1); return u + v + w } BEGIN { print 0 + s(3), 0 + s(40), 0 + s(200), 0 + s(25) }`,
	`function c(n, cnt) { cnt += 5; if (n > 0) return c(n - 1); return cnt } function d(n, a, b) { if (n > 0) { a = n % 3; return d(n - 1) + (b + 0) } return a + b } BEGIN { print 0 + c(60), 0 + c(2), 0 + d(120), 0 + d(30) }`,
}

// hand-written probes for the shortcut paths, each with spellings that must agree
var probes = [][]string{
	{`BEGIN { x = log(-1); if (x < 1) print "lt"; else print "not-lt" }`, `BEGIN { x = log(-1); if ((x < 1)) print "lt"; else print "not-lt" }`},
	{`BEGIN { x = log(-1); while (x >= 1) { print "ge"; break }; print "done" }`, `BEGIN { x = log(-1); while ((x >= 1)) { print "ge"; break }; print "done" }`},
	{`BEGIN { x = log(-1); for (;x <= 1;) { print "le"; break }; print (x > 1) ? "gt" : "not-gt" }`, `BEGIN { x = log(-1); for (;(x <= 1);) { print "le"; break }; print ((x > 1)) ? "gt" : "not-gt" }`},
	{`{ getline $2; print; print NF }`, `{ if ((getline t) > 0) $2 = t; print; print NF }`},
	{`{ $3 = "q"; print $3 $1 }`, `{ $(3) = "q"; print $(3) $(1) }`},
	{`BEGIN { A[1] = 5; A[2,3] = 6; print A["1"], A[2 SUBSEP 3], (1 in A), ((2,3) in A); delete A[1]; print length(A) }`,
		`BEGIN { A["1"] = 5; A["2","3"] = 6; print A[1], A["2" SUBSEP "3"], ("1" in A), (("2","3") in A); delete A["1"]; print length(A) }`},
	{`BEGIN { x = 5; x++; x--; x += 2; x -= 1; x *= 3; x /= 2; x %= 5; x ^= 2; print x }`, `BEGIN { x = 5; (x++); (x--); (x += 2); (x -= 1); (x *= 3); (x /= 2); (x %= 5); (x ^= 2); print x }`},
	{`{ $2++; $2 += 2; A[$1]++; A[$1] *= 3; NF += 1; print; print A[$1], NF }`, `{ ($2++); ($2 += 2); (A[$1]++); (A[$1] *= 3); (NF += 1); print; print A[$1], NF }`},
	{`function f(a, b, R) { R["k"] = a; b++; return a b } BEGIN { print f(1), f(1, 2), f(1, 2, A), A["k"] }`, `function f(a, b, R) { (R["k"] = a); (b++); return (a b) } BEGIN { print f(1), f(1, 2), f(1, 2, A), A["k"] }`},
	{`BEGIN { s = "aXbXc"; n = gsub(/X/, "-", s); print n, s; $0 = "p q"; sub(/p/, "[&]"); print; sub(/zzz/, "y", $2); print NF }`, `BEGIN { s = "aXbXc"; n = (gsub(/X/, "-", s)); print n, s; $0 = "p q"; (sub(/p/, "[&]")); print; (sub(/zzz/, "y", $2)); print NF }`},
	{`function s(n, u, v, w) { if (n > 0) return s(n - 1); return "[" u "|" v "|" w "]" } BEGIN { print s(1), s(25), s(40), s(200) }`,
		`function s(n, u, v, w) { if (n > 0) return s(n - 1, "", "", ""); return "[" u "|" v "|" w "]" } BEGIN { print s(1, "", "", ""), s(25, "", "", ""), s(40, "", "", ""), s(200, "", "", "") }`},
	{`{ { } }`, `{}`, `{ ; }`, `{ { } { { } } }`},
	{`/a/ { { } { } } END { { } }`, `/a/ {} END {}`, `/a/ { ; } END { ; }`},
	{`BEGIN { { } } END { if (0) { } ; print NR }`, `BEGIN {} END { if (0) ; print NR }`},
	{`BEGIN { a = 1; b = "x"; c = 2.5; print a b c a, a b, (a b) c }`, `BEGIN { a = 1; b = "x"; c = 2.5; print ((a b) c) a, a b, (a b) c }`},
}

// runToy: the implementation on a BEGIN-only integer program, rendered like ocaml/c01/driver.ml renders a model run
func runToy(src string) string {
	rr := hx.RunAwk(src, &interp.Config{Stdin: strings.NewReader(""), Environ: []string{}, NoExec: true, NoFileWrites: true}, nil)
	if rr.Panic != nil {
		return fmt.Sprintf("panic %v", rr.Panic)
	}
	var lines []string
	for _, l := range strings.Split(strings.TrimSuffix(string(rr.Out), "\n"), "\n") {
		if l == "" && len(rr.Out) == 0 {
			continue
		}
		lines = append(lines, strings.Join(strings.Split(l, " "), ","))
	}
	out := strings.Join(lines, ";")
	if rr.Err != nil {
		code := map[string]string{"division by zero": "1", "division by zero in mod": "2"}[rr.Err.Error()]
		if code == "" {
			if strings.Contains(rr.Err.Error(), "exceeded maximum call depth") {
				code = "4"
			} else {
				code = "other(" + rr.Err.Error() + ")"
			}
		}
		return fmt.Sprintf("err:%s status=%d out=%s", code, 0, out)
	}
	// running off the end and `exit` are not told apart (after exit the rest of BEGIN, incl. the final dump, is not run)
	return fmt.Sprintf("end status=%d out=%s", rr.Status, out)
}

func main() {
	o := hx.ParseFlags()
	rep := hx.NewReport("C01", o.Seed, o.Tier)
	rep.Rule = "grammar-directed programs (functions with scalar/array params, BEGIN, pattern/range rules, END; every statement kind, lvalue kind x scope, operator, builtin and call shape of awkgen); correspondence: model compiler output = Go compiler output, word for word; search: each program vs 7 respellings + hand-written shortcut probes; distinct = distinct program text; non-trivial = compiled program has more than 8 opcode words"
	r := hx.NewRand(o.Seed)
	if os.Getenv("C01_DUMP_EXEC") != "" { // debugging aid: show generated integer-fragment programs and what they do
		for i := 0; i < 400; i++ {
			src := execProgram(r)
			if _, err := parser.ParseProgram([]byte(src), nil); err != nil {
				fmt.Printf("---- unparsable: %v\n%s\n", err, src)
			} else if i < 3 {
				fmt.Printf("---- ok: %s\n%s\n", runToy(src), src)
			}
		}
		return
	}
	nCompile, nExec := 1500, 700
	if o.Tier == "thorough" {
		nCompile, nExec = 60000, 25000
	}
	if o.N > 0 {
		nCompile, nExec = o.N, o.N/2
	}

	// ---- correspondence: compile ----
	var lines []string
	var srcs []string
	add := func(src string) {
		prog, err := parser.ParseProgram([]byte(src), nil)
		if err != nil {
			rep.Count("parse-error")
			if rep.Hist["parse-error"] <= 3 {
				rep.Sample(map[string]string{"generator-produced-unparsable": src, "err": err.Error()})
			}
			return
		}
		lines = append(lines, "compile\t"+prog.VerifDumpAST(false), "render\t"+prog.VerifDumpCompiled())
		srcs = append(srcs, src)
	}
	for i := 0; i < nCompile; i++ {
		p := awkgen.NewProgram(r, i%3 == 0, 1+r.Intn(3))
		opts := awkgen.Opts{}
		if i%5 == 4 {
			opts = rewrites[r.Intn(len(rewrites))].o
		}
		add(p.Render(opts))
	}
	for _, pr := range probes {
		for _, s := range pr {
			add(s)
		}
	}
	ans, err := hx.ModelEval(o.ModelRun, lines)
	if err != nil {
		rep.HarnessError("%v", err)
	} else {
		for i, src := range srcs {
			model, impl := ans[2*i], ans[2*i+1]
			rep.CorrEvals++
			if strings.HasPrefix(model, "unmod") {
				rep.Unmodelled++
				rep.Count("unmodelled:" + model)
				continue
			}
			if strings.Count(impl, " ") > 12 {
				rep.Distinct(src)
			}
			if i%199 == 0 {
				rep.Sample(map[string]string{"program": src, "compiled": impl})
			}
			if model != impl {
				rep.Mismatch(hx.Mismatch{Class: "compile", Input: src, Impl: impl, Model: model})
			}
		}
	}

	// ---- correspondence: execution on the integer fragment (both model semantics vs the implementation) ----
	nToy := 400
	if o.Tier == "thorough" {
		nToy = 20000
	}
	if o.N > 0 {
		nToy = o.N
	}
	{
		var tl, ts, ti []string
		for i := 0; i < nToy; i++ {
			src := execProgram(r)
			prog, err := parser.ParseProgram([]byte(src), nil)
			if err != nil {
				rep.Count("exec:parse-error")
				if rep.Hist["exec:parse-error"] <= 3 {
					rep.Sample(map[string]string{"exec-generator-produced-unparsable": src, "err": err.Error()})
				}
				continue
			}
			tl = append(tl, "exec\t"+prog.VerifDumpAST(false)+"\t300000")
			ts = append(ts, src)
			ti = append(ti, runToy(src))
		}
		for _, pr := range toyProbes {
			prog, err := parser.ParseProgram([]byte(pr), nil)
			if err != nil {
				rep.HarnessError("exec probe does not parse: %v: %s", err, pr)
				continue
			}
			tl = append(tl, "exec\t"+prog.VerifDumpAST(false)+"\t300000")
			ts = append(ts, pr)
			ti = append(ti, runToy(pr))
		}
		// call-depth boundary family (depthProgram): deepest nesting = limit-3 .. limit+3, every shape; the limit the sweep is
		// centred on is the one the implementation names in its own error message (the model's comes from Gen/Consts.v,
		// regenerated from interp.go every run), so both sides of the boundary are compared whatever the constant is
		{
			limit := 1000
			rr := hx.RunAwk("function f(n) { return f(n + 1) } BEGIN { f(1) }", &interp.Config{Stdin: strings.NewReader(""), Environ: []string{}, NoExec: true, NoFileWrites: true}, nil)
			if rr.Err != nil {
				if j := strings.LastIndex(rr.Err.Error(), "depth of "); j >= 0 {
					fmt.Sscanf(rr.Err.Error()[j+len("depth of "):], "%d", &limit)
				}
			}
			nDepth := 6
			if o.Tier == "thorough" {
				nDepth = 60
			}
			for k := 0; k < nDepth; k++ {
				for d := limit - 3; d <= limit+3; d++ {
					src := depthProgram(r, d)
					prog, err := parser.ParseProgram([]byte(src), nil)
					if err != nil {
						rep.HarnessError("depth-boundary program does not parse: %v: %s", err, src)
						continue
					}
					rep.Count("exec:depth-boundary-programs")
					tl = append(tl, "exec\t"+prog.VerifDumpAST(false)+"\t300000")
					ts = append(ts, src)
					ti = append(ti, runToy(src))
				}
			}
		}
		ans, err := hx.ModelEval(o.ModelRun, tl)
		if err != nil {
			rep.HarnessError("%v", err)
		} else {
			for i, src := range ts {
				rep.CorrEvals++
				m := ans[i]
				if strings.HasPrefix(m, "unmod") {
					rep.Unmodelled++
					rep.Count("exec:" + m)
					continue
				}
				if strings.HasPrefix(m, "driver-error") {
					rep.HarnessError("%s on %s", m, src)
					continue
				}
				if strings.Contains(m, "unmod") { // one of the two semantics left the fragment while running
					rep.Unmodelled++
					rep.Count("exec:unmod-at-run-time")
					continue
				}
				rep.Count("exec:compared")
				kind := ti[i][:strings.IndexByte(ti[i]+" ", ' ')]
				rep.Count("exec:outcome:" + strings.SplitN(kind, ":", 2)[0])
				rep.Distinct(src)
				if i%97 == 0 {
					rep.Sample(map[string]string{"exec-program": src, "implementation": ti[i], "model": m})
				}
				want := "ast=[" + ti[i] + "] vm=[" + ti[i] + "]"
				if m != want {
					cl := "exec:tree-semantics-vs-implementation"
					if !strings.HasPrefix(m, "ast=["+ti[i]+"]") && strings.HasSuffix(m, "vm=["+ti[i]+"]") {
						cl = "exec:tree-semantics-only-differs"
					} else if strings.HasPrefix(m, "ast=["+ti[i]+"]") {
						cl = "exec:vm-semantics-only-differs"
					}
					rep.Mismatch(hx.Mismatch{Class: cl, Input: src, Impl: ti[i], Model: m})
					// Both model semantics agree with each other and the implementation differs: the program is a
					// concrete input on which running it does not yield what direct evaluation of the tree yields.
					if k := strings.Index(m, "] vm=["); strings.HasPrefix(m, "ast=[") && k > 0 && strings.HasSuffix(m, "]") &&
						m[5:k] == m[k+6:len(m)-1] {
						rep.Fail(hx.Failure{Class: "exec:implementation-differs-from-tree-evaluation",
							Oracle: "output, exit status and error outcome = direct evaluation of the syntax tree (AstSem.exec_stmts)",
							Detail: map[string]any{"program": src, "implementation": ti[i], "tree_evaluation": m[5:k]}})
					}
				}
			}
		}
	}

	// ---- search: metamorphic respellings on the implementation ----
	check := func(class, base string, variants map[string]string) {
		b := run(base)
		rep.SearchEvals++
		if b.panic_ != "" {
			rep.Fail(hx.Failure{Class: "panic", Oracle: "no-panic", Detail: map[string]any{"program": base, "input": input, "got": b.String()}})
		}
		for name, v := range variants {
			if v == base {
				continue
			}
			rep.SearchEvals++
			g := run(v)
			if g != b {
				rep.Fail(hx.Failure{Class: class + ":" + name, Oracle: "equivalent spellings behave identically",
					Detail: map[string]any{"program": base, "respelled": v, "input": input, "base": b.String(), "respelled_result": g.String()}})
			}
		}
	}
	for i := 0; i < nExec; i++ {
		p := awkgen.NewProgram(r, true, 1+r.Intn(3))
		base := p.Render(awkgen.Opts{})
		vs := map[string]string{}
		for _, rw := range rewrites {
			vs[rw.name] = p.Render(rw.o)
		}
		check("generated", base, vs)
		rep.Count("exec-programs")
	}
	for i, pr := range probes {
		vs := map[string]string{}
		for j, s := range pr[1:] {
			vs[fmt.Sprintf("alt%d", j)] = s
		}
		check(fmt.Sprintf("probe%d", i), pr[0], vs)
	}
	// every comparison operator x operand kinds at a loop bottom (direct fused jump) vs the unfused spelling
	{
		ops := []string{"<", "<=", ">", ">=", "==", "!="}
		operands := []string{"1", "2.5", `"3"`, `"abc"`, `"10x"`, "$1", "$2", "$3", "u", `""`, "x10"}
		k := 0
		for _, op := range ops {
			for _, a := range operands {
				for _, b := range operands {
					k++
					if o.Tier != "thorough" && k%3 != int(o.Seed%3) {
						continue
					}
					mk := func(cond string) string {
						return fmt.Sprintf(`{ x10 = "x10"; n = 0; do { n++; if (n >= 3) break } while (%s); m = 0; for (i = 0; %s; i++) { m++; if (m >= 2) break }; print n, m }`, cond, cond)
					}
					check("loop-bottom-cmp", mk(a+" "+op+" "+b), map[string]string{"paren-conds": mk("(" + a + " " + op + " " + b + ")")})
				}
			}
		}
	}
	// every statement-position shortcut opcode (Assign*, AugAssign*, Incr* x Global/Local/Special/Field/ArrayGlobal/ArrayLocal)
	// against the generic expression-position path and against the spelled-out assignment, with operands (7, 3) that
	// make a swapped or misdirected operand visible for the non-commutative operators
	{
		targets := []struct{ name, lv string }{
			{"global", "g"}, {"local", "loc"}, {"special", "NR"}, {"field", "$2"}, {"field-expr", "$(one + 1)"},
			{"array-global", `G["k"]`}, {"array-local", `R["k"]`}, {"array-local-num", `R[5]`}, {"array-global-multi", `G[1, 2]`},
		}
		prog := func(stmt string) string {
			return fmt.Sprintf(`function f(R, loc,   one) { one = 1; loc = 7; R["k"] = 7; R[5] = 7; %s; return loc ":" R["k"] ":" R[5] ":" v }
BEGIN { one = 1; g = 7; G["k"] = 7; G[1, 2] = 7; NR = 7; $0 = "7 7 7"; r = f(H, 0); %s; print r, g, G["k"], G[1, 2], NR, $0, NF, v, H["k"], H[5] }`,
				stmt, stmt)
		}
		for _, t := range targets {
			for _, op := range []string{"+", "-", "*", "/", "%", "^"} {
				base := prog(fmt.Sprintf("%s %s= 3", t.lv, op))
				check("lvalue-shortcut:aug:"+t.name, base, map[string]string{
					"paren":    prog(fmt.Sprintf("(%s %s= 3)", t.lv, op)),
					"expanded": prog(fmt.Sprintf("%s = %s %s 3", t.lv, t.lv, op)),
					"via-temp": prog(fmt.Sprintf("tmp = 3; %s = %s %s tmp", t.lv, t.lv, op)),
				})
				// the value of the expression form is the assigned value
				check("lvalue-shortcut:aug-value:"+t.name, prog(fmt.Sprintf("v = (%s %s= 3)", t.lv, op)), map[string]string{
					"expanded": prog(fmt.Sprintf("%s = %s %s 3; v = %s", t.lv, t.lv, op, t.lv)),
				})
			}
			for _, inc := range []struct{ stmt, expanded, val string }{
				{"%s++", "%s = %s + 1", "v = %s++"}, {"%s--", "%s = %s - 1", "v = %s--"},
				{"++%s", "%s = %s + 1", "v = ++%s"}, {"--%s", "%s = %s - 1", "v = --%s"},
			} {
				lv := t.lv
				base := prog(fmt.Sprintf(inc.stmt, lv))
				check("lvalue-shortcut:incr:"+t.name, base, map[string]string{
					"paren":    prog("(" + fmt.Sprintf(inc.stmt, lv) + ")"),
					"expanded": prog(fmt.Sprintf(inc.expanded, lv, lv)),
				})
				post := strings.HasPrefix(inc.stmt, "%s")
				exp := fmt.Sprintf(inc.expanded, lv, lv) + "; v = " + lv
				if post {
					exp = "v = " + lv + " + 0; " + fmt.Sprintf(inc.expanded, lv, lv)
				}
				check("lvalue-shortcut:incr-value:"+t.name, prog(fmt.Sprintf(inc.val, lv)), map[string]string{"expanded": prog(exp)})
			}
			check("lvalue-shortcut:assign:"+t.name, prog(fmt.Sprintf("%s = 3 - one", t.lv)), map[string]string{
				"paren": prog(fmt.Sprintf("(%s = 3 - one)", t.lv)),
			})
			check("lvalue-shortcut:assign-value:"+t.name, prog(fmt.Sprintf("v = (%s = 3 - one)", t.lv)), map[string]string{
				"expanded": prog(fmt.Sprintf("%s = 3 - one; v = %s", t.lv, t.lv)),
			})
		}
	}
	// control transfers out of user functions over LONG inputs: next / nextfile / exit / return executed inside a function
	// (at depth 1 and 50 calls deep, from a for-in body, from a loop) must leave the machine exactly as the inline
	// spelling does, also after thousands of records (call depth, frames and local arrays are restored every time)
	{
		var lb strings.Builder
		for i := 1; i <= 2600; i++ {
			fmt.Fprintf(&lb, "%d\n", i)
		}
		long := lb.String()
		pairs := [][2]string{
			{`{ n++; if ($1 % 2) next; kept++ } END { print n, kept }`,
				`function skip() { next } { n++; if ($1 % 2) skip(); kept++ } END { print n, kept }`},
			{`{ n++; if ($1 % 2) next; kept++ } END { print n, kept }`,
				`function outer(d) { if (d > 0) outer(d - 1); else next } { n++; if ($1 % 2) outer(49); kept++ } END { print n, kept }`},
			{`{ n++; if ($1 % 3 == 0) next; A[$1 % 7]++ } END { for (k in A) s += A[k]; print n, s }`,
				`function bump(R, k) { if (k % 3 == 0) next; R[k % 7]++ } { n++; bump(A, $1) } END { for (k in A) s += A[k]; print n, s }`},
			{`{ n++; for (k in B) if ($1 % 5 == 0) next; B[$1 % 3] = 1; m++ } END { print n, m }`,
				`function scan(R, v,   k) { for (k in R) if (v % 5 == 0) next } { n++; scan(B, $1); B[$1 % 3] = 1; m++ } END { print n, m }`},
			{`{ n++; if (n == 2500) exit 3 } END { print n; for (i = 0; i < 3; i++) t += i; print t }`,
				`function stop(c) { exit c } function add(a, b) { return a + b } { n++; if (n == 2500) stop(3) } END { print n; for (i = 0; i < 3; i++) t = add(t, i); print t }`},
			{`{ n++; if ($1 % 2) nextfile; kept++ } END { print n, kept + 0 }`,
				`function nf() { nextfile } { n++; if ($1 % 2) nf(); kept++ } END { print n, kept + 0 }`},
			{`{ n++; x = ($1 % 2) ? 1 : 2; s += x } END { print n, s }`,
				`function pick(v,   i) { for (i = 0; i < 5; i++) if (v % 2) return 1; return 2 } { n++; s += pick($1) } END { print n, s }`},
		}
		for i, pr := range pairs {
			b, g := runOn(pr[0], long), runOn(pr[1], long)
			rep.SearchEvals += 2
			rep.Count("long-input-pairs")
			if b != g {
				rep.Fail(hx.Failure{Class: fmt.Sprintf("control-transfer-from-function-over-long-input:%d", i), Oracle: "equivalent spellings behave identically",
					Detail: map[string]any{"program": pr[0], "respelled": pr[1], "input": "the numbers 1..2600, one per line", "base": b.String(), "respelled_result": g.String()}})
			}
		}
	}
	// compile-time treatment of CONSTANT operands (the compiler turns a constant integral subscript into its decimal
	// string and a constant integral field index into FieldInt): a literal must behave exactly like a variable holding
	// the same number, under every CONVFMT in force when the subscript is evaluated, in every subscript context
	{
		lits := []string{"0", "7", "0.123", "1.5", "2.75", "0.126", "1e6", "100000", "1e15", "1e18", "9223372036854775807",
			"9223372036854775808", "1e19", "1e30", "1e300", "0.1", "3.0", "1e-5", "123456789.5", "1e999"}
		fmts := []string{"", "%.2g", "%.3f", "%d", "%.10g", "%5.1f"}
		ctxs := []struct{ name, body string }{
			{"set-get", `a[%[1]s] = "x"; k = %[2]s; print (k in a), length(a), a[k]; for (j in a) print "key", j`},
			{"get", `k = %[2]s; a[k] = "x"; print a[%[1]s], length(a); for (j in a) print "key", j`},
			{"in", `k = %[2]s; a[k] = "x"; print (%[1]s in a), length(a)`},
			{"delete", `k = %[2]s; a[k] = "x"; delete a[%[1]s]; print length(a)`},
			{"aug", `k = %[2]s; a[k] = 5; a[%[1]s] += 10; print a[k], length(a)`},
			{"incr", `k = %[2]s; a[k] = 5; a[%[1]s]++; ++a[%[1]s]; print a[k], length(a)`},
			{"multi", `k = %[2]s; a[7, k] = "x"; print ((7, %[1]s) in a), length(a); for (j in a) { split(j, q, SUBSEP); print q[1] ":" q[2] }`},
			{"multi-first", `k = %[2]s; a[k, "z"] = "x"; a[%[1]s, "z"] = "y"; print length(a); for (j in a) { split(j, q, SUBSEP); print q[1] ":" q[2] }`},
			{"local-array", `k = %[2]s; f(a, k); print length(a); for (j in a) print "key", j`},
			{"split-elem", `k = %[2]s; n = split("p q", a); a[%[1]s] = "x"; print ((k) in a), length(a)`},
		}
		cnt := 0
		for _, lit := range lits {
			for _, cf := range fmts {
				for _, c := range ctxs {
					cnt++
					if o.Tier != "thorough" && cnt%2 != int(o.Seed%2) {
						continue
					}
					pre := ""
					if cf != "" {
						pre = fmt.Sprintf("CONVFMT = %q; ", cf)
					}
					mk := func(sub string) string {
						return "function f(R, v) { R[" + sub + "] = 1; R[v] = 2 }\nBEGIN { " + pre + fmt.Sprintf(c.body, sub, lit) + " }"
					}
					// the variable spelling of the literal: a global assigned in the same program
					vsub := "kk"
					varProg := "function f(R, v) { R[kk] = 1; R[v] = 2 }\nBEGIN { kk = " + lit + "; " + pre + fmt.Sprintf(c.body, vsub, lit) + " }"
					check("constant-subscript:"+c.name, mk(lit), map[string]string{
						"via-variable": varProg,
						"paren":        mk("(" + lit + ")"),
						"plus-zero":    mk(lit + " + 0"),
					})
					rep.Count("constant-subscript-cases")
				}
			}
		}
		// constant field indexes
		for _, lit := range []string{"0", "1", "2", "3.0", "1.9", "2.5", "0.5", "1e0", "7"} {
			mk := func(ix string) string {
				return fmt.Sprintf(`{ kk = %s; print $%s; $%s = "w"; print; print NF; $%s++; print; x = $%s; print x }`, lit, ix, ix, ix, ix)
			}
			check("constant-field-index", mk(lit), map[string]string{"via-variable": mk("kk"), "paren": mk("(" + lit + ")")})
			rep.Count("constant-field-cases")
		}
	}
	// getline into every lvalue kind (Getline{Global,Local,Special,Field,Array*} opcodes): the line read must get the same
	// kind of value (a numeric string when it looks like a number) whatever the target is; observed through comparison
	// with a number, truth value, ordering and concatenation, for number-looking lines in non-canonical spellings
	{
		lines := "10.0\n1e1\n 10 \nabc\n0.0\n10\n+5\n0x1A\n.5e1\n-0\n\n 0 \n9 \n"
		targets := []struct{ name, lv string }{
			{"global", "g"}, {"local", "v"}, {"array-global", `G["k"]`}, {"array-local", `R["k"]`}, {"array-local-num", "R[5]"},
			{"field", "$2"}, {"field-expr", "$(one + 1)"}, {"array-global-multi", "G[1, 2]"},
		}
		forms := []struct{ name, read string }{
			{"plain", "(getline %s) > 0"},
			{"pipe", `("printf '10.0\\n1e1\\n 10 \\nabc\\n0.0\\n010\\n'" | getline %s) > 0`},
		}
		for _, f := range forms {
			// read is the loop condition: the direct form reads into the target, the expanded form into a global
			// temporary that is then assigned to the target
			mk := func(lv string, expanded bool) string {
				read := fmt.Sprintf(f.read, lv)
				if expanded {
					read = "(" + fmt.Sprintf(f.read, "tmp") + ") && ((" + lv + " = tmp) || 1)"
				}
				return fmt.Sprintf(`function rd(R, v,   n) { while (%s) { n++; print ((%s == 10) ? "eq" : "ne"), ((%s) ? "t" : "f"), ((%s < 9) ? "lt" : "ge"), ((%s == "10") ? "seq" : "sne"), "[" %s "]"; if (n > 40) break } return n }
BEGIN { one = 1; print rd(H) }`, read, lv, lv, lv, lv, lv)
			}
			b := runOn(mk("g", false), lines)
			for _, t := range targets {
				g := runOn(mk(t.lv, false), lines)
				e := runOn(mk(t.lv, true), lines)
				rep.SearchEvals += 2
				rep.Count("getline-target-cases")
				// (1) reading into a target = reading into a temporary and assigning it
				if g != e {
					rep.Fail(hx.Failure{Class: "getline-target:" + f.name + ":" + t.name + ":expanded", Oracle: "equivalent spellings behave identically",
						Detail: map[string]any{"program": mk(t.lv, false), "respelled": mk(t.lv, true), "input": lines, "base": g.String(), "respelled_result": e.String()}})
				}
				// (2) variables and array elements of either scope hold the value read in the same way (fields are
				// excluded: a field that is ASSIGNED is a string afterwards in goawk, F-C05-3, whatever assigns it)
				if !strings.HasPrefix(t.name, "field") && b != g {
					rep.Fail(hx.Failure{Class: "getline-target:" + f.name + ":" + t.name, Oracle: "equivalent spellings behave identically",
						Detail: map[string]any{"program": mk("g", false), "respelled": mk(t.lv, false), "input": lines, "base": b.String(), "respelled_result": g.String()}})
				}
			}
		}
	}
	// the one known divergence between a chain and its regrouping (conversion happens after ALL operands are evaluated)
	check("concat-chain-convfmt-side-effect",
		`function f() { CONVFMT = "%.2g"; return "" } BEGIN { a = 0.123456789; s = a "x" f(); print s }`,
		map[string]string{"group-cat": `function f() { CONVFMT = "%.2g"; return "" } BEGIN { a = 0.123456789; s = (a "x") f(); print s }`})
	rep.Write(o.Out)
}
