// Generator of BEGIN-only programs inside the integer fragment of Model/ExecToy.v, for the
// execution correspondence of C01: every value is an integer of modest size (multiplications
// and plain assignments are reduced modulo a prime), uninitialised values only reach numeric
// contexts (print of e + 0, subscripts that are arithmetic), a for-in key is only used as a
// subscript or as k + 0, and for-in bodies are insensitive to the iteration order. Inside
// these limits it uses every statement kind, every lvalue kind x scope the fragment has,
// short-circuit operators, ?:, assignment and increment expressions with side effects in
// operands, break/continue, calls with missing arguments, early return and exit.
package main

import (
	"fmt"
	"strings"

	"verif/harness/hx"
)

type xgen struct {
	r       *hx.Rand
	sb      strings.Builder
	nloop   int      // fresh loop / accumulator variables
	params  []string // scalar parameters and locals of the function being generated
	inFunc  bool
	callee  int // functions f0..f(callee-1) may be called
	nparams []int
	loops   int // nesting of loops around the current statement
	budget  int
}

var xglobals = []string{"g0", "g1", "g2", "g3"}
var xarrays = []string{"A0", "A1"}

func (g *xgen) pick(xs []string) string { return xs[g.r.Intn(len(xs))] }

func (g *xgen) scalar() string {
	if g.inFunc && len(g.params) > 0 && g.r.Intn(3) > 0 {
		return g.pick(g.params)
	}
	return g.pick(xglobals)
}

// a subscript: always the result of an arithmetic operation (a number, never null or a string)
func (g *xgen) index(d int) string {
	switch g.r.Intn(5) {
	case 0:
		return fmt.Sprint(g.r.Intn(5))
	case 1:
		return fmt.Sprintf("(%s %% 5)", g.expr(d-1))
	case 2:
		return fmt.Sprintf("(%s + 0)", g.scalar())
	case 3:
		if g.r.Intn(12) == 0 {
			return fmt.Sprintf("(%s %% 3), %d", g.expr(d-1), g.r.Intn(2)) // multi-dimensional: not in the fragment (IndexMulti) -> unmod
		}
		return fmt.Sprintf("(%s - 2)", g.scalar())
	}
	return fmt.Sprintf("(%s %% 4 + 1)", g.scalar())
}

func (g *xgen) elem(d int) string {
	ix := g.index(d)
	for strings.Contains(ix, ", ") { // keep multi-dimensional subscripts rare
		if g.r.Intn(8) == 0 {
			break
		}
		ix = g.index(d)
	}
	return fmt.Sprintf("%s[%s]", g.pick(xarrays), ix)
}

func (g *xgen) lvalue(d int) string {
	if g.r.Intn(3) == 0 {
		return g.elem(d)
	}
	return g.scalar()
}

func (g *xgen) call(d int) string {
	f := g.r.Intn(g.callee)
	n := g.r.Intn(g.nparams[f] + 1) // possibly fewer arguments than parameters
	args := make([]string, n)
	for i := range args {
		args[i] = g.expr(d - 1)
	}
	return fmt.Sprintf("f%d(%s)", f, strings.Join(args, ", "))
}

func (g *xgen) expr(d int) string {
	if d <= 0 || g.r.Intn(4) == 0 {
		switch g.r.Intn(4) {
		case 0:
			return fmt.Sprint(g.r.Intn(13))
		case 1:
			return g.elem(0)
		default:
			return g.scalar()
		}
	}
	a, b := g.expr(d-1), g.expr(d-1)
	switch g.r.Intn(26) {
	case 0:
		return fmt.Sprintf("(%s + %s)", a, b)
	case 1:
		return fmt.Sprintf("(%s - %s)", a, b)
	case 2:
		return fmt.Sprintf("((%s * %s) %% 97)", a, b)
	case 3:
		return fmt.Sprintf("(%s %% %d)", a, 2+g.r.Intn(7))
	case 4:
		return fmt.Sprintf("(%s %% %s)", a, b) // may divide by zero: a run-time error
	case 5:
		if pureText(a) { // the dividend is written twice
			return fmt.Sprintf("((%s - %s %% 3) / 3)", a, a)
		}
		return fmt.Sprintf("(%s + %s)", a, b)
	case 6:
		return fmt.Sprintf("(- %s)", a)
	case 7:
		return fmt.Sprintf("(+ %s)", a)
	case 8:
		return fmt.Sprintf("(!%s)", a)
	case 9:
		return fmt.Sprintf("(%s %s %s)", a, g.pick([]string{"<", "<=", ">", ">=", "==", "!="}), b)
	case 10:
		return fmt.Sprintf("(%s && %s)", a, b)
	case 11:
		return fmt.Sprintf("(%s || %s)", a, b)
	case 12:
		return fmt.Sprintf("(%s ? %s : %s)", a, b, g.expr(d-1))
	case 13:
		return fmt.Sprintf("(%s = %s %% 1009)", g.lvalue(d-1), a)
	case 14:
		return fmt.Sprintf("(%s %s %s)", g.lvalue(d-1), g.pick([]string{"+=", "-="}), a)
	case 15:
		return fmt.Sprintf("(%s %%= %d)", g.lvalue(d-1), 2+g.r.Intn(9))
	case 16:
		return fmt.Sprintf("%s++", g.lvalue(d-1))
	case 17:
		return fmt.Sprintf("++%s", g.lvalue(d-1))
	case 18:
		return fmt.Sprintf("%s--", g.lvalue(d-1))
	case 19:
		return fmt.Sprintf("--%s", g.lvalue(d-1))
	case 20:
		ix := g.index(d - 1)
		if strings.Contains(ix, ", ") {
			ix = "(" + ix + ")"
		}
		return fmt.Sprintf("(%s in %s)", ix, g.pick(xarrays))
	case 21:
		return fmt.Sprintf("length(%s)", g.pick(xarrays))
	case 22, 23:
		if g.callee > 0 {
			return g.call(d)
		}
		return fmt.Sprintf("(%s + 1)", a)
	case 24:
		return fmt.Sprintf("(%s)", a)
	}
	return fmt.Sprintf("(%s < %s)", a, b)
}

func pureText(s string) bool {
	return !strings.Contains(s, "++") && !strings.Contains(s, "--") && !strings.Contains(s, "=") && !strings.Contains(s, "f")
}

func (g *xgen) ind(n int) string { return strings.Repeat("  ", n) }

func (g *xgen) fresh(p string) string { g.nloop++; return fmt.Sprintf("%s%d", p, g.nloop) }

func (g *xgen) block(lvl, d int) {
	n := 1 + g.r.Intn(3)
	for i := 0; i < n && g.budget > 0; i++ {
		g.stmt(lvl, d)
	}
}

func (g *xgen) stmt(lvl, d int) {
	g.budget--
	in := g.ind(lvl)
	w := func(f string, a ...any) { fmt.Fprintf(&g.sb, f, a...) }
	k := g.r.Intn(30)
	if d <= 0 && k >= 8 && k <= 17 {
		k = g.r.Intn(8)
	}
	switch k {
	case 0, 1, 2:
		w("%s%s = %s %% 1009\n", in, g.lvalue(2), g.expr(3))
	case 3:
		w("%s%s\n", in, g.expr(3)) // an expression statement (its value is dropped)
	case 4:
		w("%s%s %s %s\n", in, g.lvalue(2), g.pick([]string{"+=", "-="}), g.expr(2))
	case 5:
		w("%s%s%s\n", in, g.lvalue(1), g.pick([]string{"++", "--"}))
	case 6, 7:
		n := 1 + g.r.Intn(3)
		es := make([]string, n)
		for i := range es {
			es[i] = "0 + " + g.expr(3)
		}
		w("%sprint %s\n", in, strings.Join(es, ", "))
	case 8, 9:
		w("%sif (%s) {\n", in, g.expr(2))
		g.block(lvl+1, d-1)
		if g.r.Bool() {
			w("%s} else {\n", in)
			g.block(lvl+1, d-1)
		}
		w("%s}\n", in)
	case 10:
		v := g.fresh("w")
		w("%s%s = 0\n%swhile (%s < %d) {\n%s  %s++\n", in, v, in, v, 2+g.r.Intn(4), in, v)
		g.loops++
		g.block(lvl+1, d-1)
		g.loops--
		w("%s}\n", in)
	case 11:
		v := g.fresh("w")
		w("%s%s = 0\n%sdo {\n%s  %s++\n", in, v, in, in, v)
		g.loops++
		g.block(lvl+1, d-1)
		g.loops--
		w("%s} while (%s < %d)\n", in, v, 1+g.r.Intn(4))
	case 12:
		v := g.fresh("w")
		w("%sfor (%s = 0; %s < %d; %s++) {\n", in, v, v, 1+g.r.Intn(5), v)
		g.loops++
		g.block(lvl+1, d-1)
		g.loops--
		w("%s}\n", in)
	case 13:
		v := g.fresh("w")
		w("%sfor (;;) {\n%s  if (++%s > %d) break\n", in, in, v, 1+g.r.Intn(4))
		g.loops++
		g.block(lvl+1, d-1)
		g.loops--
		w("%s}\n", in)
	case 14:
		// for-in: the body is insensitive to the order in which the keys come
		a, s, c := g.pick(xarrays), g.fresh("s"), g.fresh("c")
		kv := g.fresh("k")
		w("%sfor (%s in %s) {\n", in, kv, a)
		if g.r.Intn(3) == 0 {
			w("%s  if (%s[%s] %% 2) continue\n", in, a, kv)
		}
		w("%s  %s += %s[%s] + (%s + 0) %% 7\n%s  %s++\n", in, s, a, kv, kv, in, c)
		if g.r.Intn(3) == 0 {
			w("%s  if ((%s + 0) %% 2) %s += %s\n", in, kv, s, fmt.Sprint(g.r.Intn(5)))
		}
		w("%s}\n%sprint 0 + %s, 0 + %s\n", in, in, s, c)
	case 15:
		// for-in left by break after a fixed number of iterations (nothing in it depends on the key)
		a, c := g.pick(xarrays), g.fresh("c")
		w("%sfor (%s in %s) {\n%s  %s++\n%s  if (%s >= %d) break\n%s}\n", in, g.fresh("k"), a, in, c, in, c, 1+g.r.Intn(3), in)
	case 16:
		w("%sdelete %s\n", in, g.elem(1))
	case 17:
		if g.r.Intn(4) == 0 {
			w("%sdelete %s\n", in, g.pick(xarrays))
		} else {
			w("%s{\n", in)
			g.block(lvl+1, d-1)
			w("%s}\n", in)
		}
	case 18, 19:
		if g.loops > 0 {
			w("%sif (%s) %s\n", in, g.expr(2), g.pick([]string{"break", "continue"}))
		} else {
			w("%s;\n", in)
		}
	case 20:
		if g.inFunc {
			if g.r.Bool() {
				w("%sif (%s) return %s\n", in, g.expr(2), g.expr(2))
			} else {
				w("%sif (%s) return\n", in, g.expr(2))
			}
		} else if g.r.Intn(6) == 0 {
			w("%sif (%s) exit %s\n", in, g.expr(2), g.pick([]string{"", "3", "(g1 % 5)"}))
		} else {
			w("%s%s = %s %% 1009\n", in, g.scalar(), g.expr(2))
		}
	default:
		w("%s%s = %s %% 1009\n", in, g.lvalue(2), g.expr(3))
	}
}

// execProgram: functions f0.. (each may call the ones before it; one bounded recursion), then BEGIN blocks
func execProgram(r *hx.Rand) string {
	g := &xgen{r: r}
	nf := r.Intn(4)
	for f := 0; f < nf; f++ {
		np := r.Intn(3)
		nl := r.Intn(2)
		g.params = nil
		for i := 0; i < np+nl; i++ {
			g.params = append(g.params, fmt.Sprintf("p%d", i))
		}
		g.nparams = append(g.nparams, np)
		g.inFunc, g.callee, g.budget = true, f, 8
		fmt.Fprintf(&g.sb, "function f%d(%s) {\n", f, strings.Join(g.params, ", "))
		if np > 0 && r.Intn(4) == 0 {
			// bounded recursion on the first parameter
			fmt.Fprintf(&g.sb, "  if (p0 > 0 && p0 < 12) return f%d(p0 - 1) + (p0 %% 3)\n", f)
			g.callee = f
		}
		g.block(1, 2)
		if r.Intn(3) > 0 {
			fmt.Fprintf(&g.sb, "  return %s\n", g.expr(2))
		}
		g.sb.WriteString("}\n")
	}
	g.inFunc, g.callee, g.params = false, nf, nil
	nb := 1 + r.Intn(2)
	for b := 0; b < nb; b++ {
		g.budget = 14
		g.sb.WriteString("BEGIN {\n")
		g.block(1, 3)
		g.sb.WriteString("}\n")
	}
	// the final state, through output: scalars, and the arrays over the subscript domain
	g.sb.WriteString("BEGIN {\n  print 0 + g0, 0 + g1, 0 + g2, 0 + g3\n")
	for _, a := range xarrays {
		fmt.Fprintf(&g.sb, "  print length(%s)\n  for (z = -4; z <= 6; z++) if (z in %s) print z, 0 + %s[z]\n", a, a, a)
	}
	g.sb.WriteString("}\n")
	return g.sb.String()
}

// depthProgram: the call-depth boundary family. The deepest nesting of user calls is exactly `d` (the caller picks d around
// the limit the translator reads from interp.go, Gen/Consts.v maxCallDepth): the run must end in the call-depth error iff
// d > limit, and otherwise print the value computed on the way back. Dimensions: direct / 2-cycle / 3-cycle recursion; the
// recursive call in return-expression, operand, argument, condition, subscript, assignment-rhs or statement position; the
// chain entered from BEGIN directly or through `w` wrapper functions (so the count, not the callee, decides); counting down
// or up. Everything stays inside the integer fragment so that AstSem.exec_stmts and VM.run are both compared with goawk.
func depthProgram(r *hx.Rand, d int) string {
	var sb strings.Builder
	w := r.Intn(3)       // wrapper levels in front of the chain
	n := d - w           // levels contributed by the chain itself
	cyc := 1 + r.Intn(3) // functions in the cycle
	pos := r.Intn(7)
	up := r.Intn(2) == 0
	name := func(i int) string { return fmt.Sprintf("r%d", i%cyc) }
	for i := 0; i < cyc; i++ {
		next := name(i + 1)
		// the chain function is entered with k = levels still to go (down) or levels done so far (up, stops at g3)
		stop, arg := "k <= 1", "k - 1"
		if up {
			stop, arg = "k >= g3", "k + 1"
		}
		call := fmt.Sprintf("%s(%s)", next, arg)
		fmt.Fprintf(&sb, "function %s(k, t) {\n  g0++\n  if (%s) return 1\n", name(i), stop)
		switch pos {
		case 0:
			fmt.Fprintf(&sb, "  return %s + 1\n", call)
		case 1:
			fmt.Fprintf(&sb, "  t = 1 + %s\n  return t\n", call)
		case 2:
			fmt.Fprintf(&sb, "  %s\n  g1++\n  return g1 + 1\n", call)
		case 3:
			fmt.Fprintf(&sb, "  if (%s > 0) g1++\n  return g1 + 1\n", call)
		case 4:
			fmt.Fprintf(&sb, "  A[%s %% 3] += 1\n  return A[k %% 3] + A[(k + 1) %% 3] + 1\n", call)
		case 5:
			fmt.Fprintf(&sb, "  return id(%s) + 1\n", call)
		default:
			fmt.Fprintf(&sb, "  return (k %% 2 ? %s : %s) + (0 && %s) + 1\n", call, call, call)
		}
		sb.WriteString("}\n")
	}
	if pos == 5 {
		sb.WriteString("function id(x) { return x }\n")
	}
	entry := "r0"
	for i := 0; i < w; i++ {
		fmt.Fprintf(&sb, "function w%d(k) { g2++; return %s(k) + 0 }\n", i, entry)
		entry = fmt.Sprintf("w%d", i)
	}
	start := n
	if up {
		start = 1
	}
	fmt.Fprintf(&sb, "BEGIN {\n  g3 = %d\n  print 7\n", n)
	if r.Intn(2) == 0 {
		fmt.Fprintf(&sb, "  g1 = 0; %s(%d)\n  print 0 + g0, 0 + g1, 0 + g2\n", entry, start)
	} else {
		fmt.Fprintf(&sb, "  print %s(%d), 0 + g0, 0 + g1, 0 + g2\n", entry, start)
	}
	if pos == 4 { // (length(A) of a name never used as an array would be the string builtin, outside the fragment)
		sb.WriteString("  print length(A)\n  for (z = 0; z < 3; z++) print z, 0 + A[z]\n")
	}
	sb.WriteString("}\n")
	return sb.String()
}
