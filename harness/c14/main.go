// C14 harness: a reused Interpreter behaves like a fresh one.
//
// Search oracle (the property verbatim, public API only): a history of 1-4 Execute/ExecuteContext calls on
// one Interpreter (own input, Vars, modes incl. CSV header, Args, sandbox flags; ending normally / exit n /
// run-time error in a function, in a for-in, deep in a recursion / cancelled context), then optional
// ResetVars/ResetRand, then a PROBE run; the probe's (output, status, error) must equal that of the same probe
// on interp.New + Execute.  Without ResetVars/ResetRand only probes whose output cannot depend on the
// program's variables or the random state are compared.
//
// Correspondence (extracted Coq model Model/Reuse.v vs implementation, through interp/verif_c14.go): the same
// history is replayed step by step on a second Interpreter (resetCore, prologue, setExecuteConfig, executeAll);
// after every step struct interp is dumped by reflection and compared, field by field, with the model's
// result for that step computed from the previous dump; finally the set of observable fields that differ
// between the reused interpreter and a new one, both prepared for the probe, is compared with the model's
// prediction.
package main

import (
	"bytes"
	"context"
	"encoding/json"
	"errors"
	"fmt"
	"io/fs"
	"os"
	"sort"
	"strings"
	"sync"

	"github.com/benhoyt/goawk/interp"
	"github.com/benhoyt/goawk/parser"
	"verif/harness/hx"
)

const progA = `
function fmts(   s, re, parts, n, x, t) {
  printf "c1=[%c] c2=[%c] c3=[%5c] c4=[%-3c|] c5=[%.1c] c6=[%c]\n", 233, "\303\251x", 8364, "\342\202\254uro", 200, 65
  printf "s=[%.2s] [%5s] [%-4s|] d=[%d] [%5.3d] i=[%i] o=[%o] x=[%x] X=[%X] u=[%u] e=[%.2e] f=[%8.3f] g=[%g] G=[%G] pct=[%%] star=[%*d] [%.*f]\n", "\303\251\303\251x", "ab", "\303\251", 42.9, 7, -3, 8, 255, 255, 3, 12345.678, 3.14159, 0.0001, 1e10, 4, 7, 2, 2.71828
  s = sprintf("%c%c", 200, "\303\251"); printf "sp=[%s] len=%d\n", s, length(s)
  re = "\303\251+."; t = "a\303\251\303\251bc"
  printf "dyn match=%d RSTART=%d RLENGTH=%d\n", match(t, re), RSTART, RLENGTH
  n = split(t, parts, re); printf "split=%d [%s] [%s]\n", n, parts[1], parts[2]
  gsub(re, "<&>", t); printf "gsub=[%s] tilde=%d\n", t, ("x\303\251y" ~ re)
  printf "index=%d substr=[%s] length=%d\n", index("\303\251y", "y"), substr("\303\251yz", 2, 1), length("\303\251yz")
  x = 0.1234567; printf "conv=[%s]\n", x ""
  print x, "ofmt"
}
function f(a, arr,   i) {
  arr[a] = a
  if (mode == "err_fn") return 1/zero
  if (mode == "cancel_fn") { while (1) i++ }
  if (a > 0 && mode == "p_all") return f(a-1, arr) + 1
  return length(arr)
}
function deep(n,   loc) {
  loc[n] = 1
  if (n <= 0) { if (mode == "err_deep") return 1/zero; return 0 }
  return deep(n-1) + 1
}
BEGIN {
  if (mode == "exit") exit 3
  if (mode == "err_fn") { x = f(1, A) }
  if (mode == "err_forin") { A[1]; A[2]; for (k in A) { B[k] = 1/zero } }
  if (mode == "cancel_loop") { while (1) n++ }
  if (mode == "cancel_fn") f(1, A)
  if (mode == "cancel_forin") { A[1]; for (k in A) { while (1) n++ } }
  if (mode == "err_deep") deep(500)
  if (mode == "setvars") {
    FS = ":"; OFS = "-"; ORS = "|\n"; RS = ";"; SUBSEP = "!"; CONVFMT = "%.2g"; OFMT = "%.3g"
    x = "leak"; A["k"] = 1; srand(7); r = rand(); match("xabcx", /abc/); $0 = "p q r"; NF = 5; NR = 77
  }
  if (mode == "setre") { FS = "[ab]+"; RS = "x+|y" }
  if (mode == "setmodes") { INPUTMODE = "csv header"; OUTPUTMODE = "tsv" }
  if (mode == "io") {
    while ((getline l < aux) > 0) c++
    getline l2 < aux2
    print "w" > outf
    printf "%s", "e" > "/dev/stderr"
  }
  if (mode == "getline_begin") { getline; getline y }
  if (mode == "getline_stdin") { getline gs < "-" }
  if (mode == "pipe_in") { "echo p1; echo p2" | getline pl }
  if (mode == "p_streams") {
    while ((getline sl < "-") > 0) printf "stdin=[%s]\n", sl
    if ((getline fl < aux) > 0) printf "file=[%s]\n", fl
    printf "o1\n" > outf; close(outf); if ((getline ol < outf) > 0) printf "outf=[%s]\n", ol
    if (usepipe) { "echo p1; echo p2" | getline pl2; printf "pipe=[%s]\n", pl2 }
  }
  if (mode == "p_all") {
    printf "NR=%d FNR=%d NF=%d\n", NR, FNR, NF
    printf "rec0=[%s]\n", $0
    printf "FILENAME=[%s] RSTART=%d RLENGTH=%d ARGC=%d\n", FILENAME, RSTART, RLENGTH, ARGC
    n = 0; for (k in ARGV) n++; printf "ARGVn=%d ARGV0=[%s] ARGV1=[%s]\n", n, ARGV[0], ARGV[1]
    n = 0; for (k in ENVIRON) n++; printf "ENVn=%d marker=[%s] K=[%s]\n", n, ENVIRON["C14_MARKER"], ENVIRON["K"]
    printf "chars=%d\n", length("\303\251x")
    printf "to-stderr\n" > "/dev/stderr"
    printf "IM=[%s] OM=[%s]\n", INPUTMODE, OUTPUTMODE
    printf "FS=[%s] OFS=[%s] ORS=[%s] RS=[%s] RT=[%s] SUBSEP=[%s] CONVFMT=[%s] OFMT=[%s]\n", FS, OFS, ORS, RS, RT, SUBSEP, CONVFMT, OFMT
    printf "x=[%s] r=[%s] cnt=[%s] last=[%s] y=[%s] c=[%s] l2=[%s]\n", x, r, cnt, last, y, c, l2
    n = 0; for (k in A) n++; m = 0; for (k in B) m++; printf "An=%d Bn=%d FIELDSn=%d\n", n, m, length(FIELDS)
    printf "rand=[%s] srand=[%s]\n", rand(), srand()
    printf "f=%d\n", f(3, C)
    print "print", 0.123456789, "uses-OFS-ORS-OFMT"
    if ((getline l3 < aux) > 0) printf "aux-first=[%s]\n", l3
  }
  if (mode == "p_run") {
    printf "chars=%d\n", length("\303\251x")
    printf "NR=%d FNR=%d NF=%d\n", NR, FNR, NF
    printf "rec0=[%s]\n", $0
    printf "FILENAME=[%s] RSTART=%d RLENGTH=%d ARGC=%d\n", FILENAME, RSTART, RLENGTH, ARGC
    printf "IM=[%s] OM=[%s]\n", INPUTMODE, OUTPUTMODE
  }
  if (mode == "p_at_begin") printf "at=[%s]\n", @"a"
  if (mode == "p_getline_nf") { g = getline gx; printf "NF=%d\n", NF; printf "f1=[%s]\n", $1; printf "gx=[%s]\n", gx }
  if (mode == "p_deep") printf "deep=%d\n", deep(990)
  if (mode == "p_long") { for (i = 0; i < 3000; i++) sum += i; printf "sum=%d\n", sum }
  if (mode == "p_err") { printf "before\n"; x = 1/zero }
  if (mode == "fmt" || mode == "p_fmt") fmts()
}
mode == "bad_FS" { FS = "a(" }
mode == "bad_RS" { RS = "a(" }
mode == "bad_NF" { NF = -1 }
mode == "bad_ARGC" { ARGC = 1e9 }
mode == "bad_INPUTMODE" { INPUTMODE = "bogus" }
mode == "bad_OUTPUTMODE" { OUTPUTMODE = "csv separator=xx" }
mode == "hdr" { cnt++; last = @"a" }
mode == "count" { cnt++; if (NR == stop) exit 4 }
mode == "err_main" { if (NR == 2) x = 1/zero }
mode == "range" && /s/, /e/ { inr++ }
mode == "nextfile" { nextfile }
mode == "p_all" || mode == "p_run" { printf "rec NR=%d FNR=%d NF=%d FILENAME=[%s] f1=[%s]\n", NR, FNR, NF, FILENAME, $1 }
mode == "p_at_main" { printf "at=[%s]\n", @"a" }
END {
  if (mode == "endset") { $0 = "a,b" }
  if (mode == "p_all" || mode == "p_run") printf "end NR=%d NF=%d\n", NR, NF
  if (mode == "p_at_end") printf "at=[%s]\n", @"b"
}
`

// a second, smaller program: no functions, different numbers of globals and arrays
const progB = `
BEGIN {
  if (mode == "exit") exit 3
  if (mode == "setvars") { FS = ":"; OFS = "-"; ORS = "|\n"; x = "leak"; A["k"] = 1; srand(7); NR = 5; $0 = "p q" }
  if (mode == "err_forin") { A[1]; for (k in A) { x = 1/zero } }
  if (mode == "cancel_loop") { while (1) n++ }
  if (mode == "getline_stdin") { getline gs < "-" }
  if (mode == "p_streams") {
    while ((getline sl < "-") > 0) printf "stdin=[%s]\n", sl
    if ((getline fl < aux) > 0) printf "file=[%s]\n", fl
    printf "o1\n" > outf; close(outf); if ((getline ol < outf) > 0) printf "outf=[%s]\n", ol
  }
  if (mode == "p_all") {
    printf "ENVmarker=[%s] chars=%d\n", ENVIRON["C14_MARKER"], length("\303\251x")
    printf "NR=%d FNR=%d NF=%d rec0=[%s] FILENAME=[%s] ARGC=%d\n", NR, FNR, NF, $0, FILENAME, ARGC
    printf "FS=[%s] OFS=[%s] ORS=[%s] x=[%s] An=%d rand=[%s]\n", FS, OFS, ORS, x, length(A), rand()
    print "p", "q"
  }
  if (mode == "p_run") printf "NR=%d FNR=%d NF=%d rec0=[%s] FILENAME=[%s] ARGC=%d IM=[%s]\n", NR, FNR, NF, $0, FILENAME, ARGC, INPUTMODE
  if (mode == "p_at_begin") printf "at=[%s]\n", @"a"
  if (mode == "p_getline_nf") { g = getline gx; printf "NF=%d\n", NF; printf "f1=[%s]\n", $1 }
  if (mode == "p_long") { for (i = 0; i < 3000; i++) sum += i; printf "sum=%d\n", sum }
  if (mode == "p_err") { printf "before\n"; x = 1/zero }
}
mode == "bad_FS" { FS = "a(" }
mode == "bad_RS" { RS = "a(" }
mode == "hdr" { cnt++; last = @"a" }
mode == "count" { cnt++; if (NR == stop) exit 4 }
mode == "err_main" { if (NR == 2) x = 1/zero }
mode == "p_all" || mode == "p_run" { printf "rec NR=%d NF=%d f1=[%s]\n", NR, NF, $1 }
mode == "p_at_main" { printf "at=[%s]\n", @"a" }
END {
  if (mode == "endset") { $0 = "a,b" }
  if (mode == "p_all" || mode == "p_run") printf "end NR=%d NF=%d\n", NR, NF
  if (mode == "p_at_end") printf "at=[%s]\n", @"b"
}
`

// a third program that calls a native Go function (Config.Funcs, the same map in every run as documented)
const progF = `
BEGIN {
  if (mode == "exit") exit 3
  if (mode == "setvars") { OFS = "-"; x = nf(5); NR = 5 }
  if (mode == "err_forin") { A[1]; for (k in A) { x = 1/zero } }
  if (mode == "p_all") { printf "nf=%s x=[%s] OFS=[%s] NR=%d\n", nf(3), x, OFS, NR; print "p", "q" }
  if (mode == "p_run") printf "nf=%s NR=%d ARGC=%d\n", nf(4), NR, ARGC
}
mode == "count" { cnt++; if (NR == stop) exit 4 }
mode == "p_all" || mode == "p_run" { printf "rec NR=%d nf=%s\n", NR, nf(NR) }
`

var funcsF = map[string]any{
	"nf":    func(x float64) float64 { return 2*x + 1 },
	"nfail": func() (float64, error) { return 0, errors.New("native failure") },
}

// a fourth program made of range patterns (several, overlapping, one that never closes); it ignores `mode`:
// the INPUT decides how a run ends -- at end of input, by exit in an action / in a function / in a pattern,
// by a run-time error (division by zero, bad dynamic regex, error from a native function), by a cancelled
// context inside a loop, after nextfile, with a getline stream open -- and where (which ranges are open).
const progR = `
function stopf() { exit 5 }
function isstop() { if ($0 == "pexit") exit 6; return 0 }
/<</, />>/ { printf "r1:%s\n", $0 }
/^a/, /^c/ { printf "r2:%s\n", $0 }
$1 == "<<", $1 == "x" { printf "r3:%s\n", $0 }
NR == 2, 0 { printf "r4:%s\n", $0 }
$0 == "stop" { exit }
$0 == "fstop" { stopf() }
isstop() { }
$0 == "err" { x = 1/zero }
$0 == "badre" { y = ($0 ~ "a(") }
$0 == "nerr" { nfail() }
$0 == "nf" { nextfile }
$0 == "loop" { while (1) n++ }
$0 == "getl" { getline l < aux }
END { printf "records %d\n", NR }
`

var progSrc = map[string]string{"A": progA, "B": progB, "F": progF, "R": progR}

// RunSpec is one Execute/ExecuteContext call; it is also the replay format.
type RunSpec struct {
	Mode       string   `json:"mode"`
	Input      string   `json:"input"`
	InputMode  int      `json:"input_mode"`
	Header     bool     `json:"header"`
	Sep        int      `json:"sep"`
	Comment    int      `json:"comment"`
	OutputMode int      `json:"output_mode"`
	OutSep     int      `json:"out_sep"`
	Args       []string `json:"args"`
	Vars       []string `json:"vars"`
	Environ    []string `json:"environ"`
	Argv0      string   `json:"argv0"`
	NoExec     bool     `json:"no_exec"`
	NoWrites   bool     `json:"no_file_writes"`
	NoReads    bool     `json:"no_file_reads"`
	NoArgVars  bool     `json:"no_arg_vars"`
	Chars      bool     `json:"chars"`
	Newline    int      `json:"newline"`
	OpenFile   string   `json:"open_file"`   // "" Config.OpenFile nil; "os" os.OpenFile given explicitly; "deny" a function that refuses every file
	Pipe       bool     `json:"pipe"`        // the probe also reads from a command
	NilStdin   bool     `json:"nil_stdin"`   // Config.Stdin nil: os.Stdin (the harness points it at a file holding Input)
	NilOutput  bool     `json:"nil_output"`  // Config.Output nil: buffered os.Stdout (pointed at a file, content appended to the outcome)
	NilError   bool     `json:"nil_error"`   // Config.Error nil: os.Stderr (likewise)
	NilEnviron bool     `json:"nil_environ"` // Config.Environ nil: the process environment (contains C14_MARKER=m1)
	Shell      bool     `json:"shell"`       // Config.ShellCommand = {"/bin/echo"} instead of the default
	Funcs      bool     `json:"funcs"`       // Config.Funcs = the map program F was parsed with
	Ctx        string   `json:"ctx"`         // "" Execute; "bg" ExecuteContext(Background); "live" WithCancel; "cancelled" WithCancel+cancel
}

type Case struct {
	Prog      string    `json:"prog"`
	History   []RunSpec `json:"history"`
	ResetVars bool      `json:"reset_vars"`
	ResetRand bool      `json:"reset_rand"`
	Probe     RunSpec   `json:"probe"`
}

var histModes = []string{"exit", "err_fn", "err_forin", "cancel_loop", "cancel_fn", "cancel_forin", "err_deep",
	"setvars", "setre", "setmodes", "io", "getline_begin", "getline_stdin", "pipe_in",
	"bad_FS", "bad_RS", "bad_NF", "bad_ARGC", "bad_INPUTMODE", "bad_OUTPUTMODE", "fmt", "hdr", "count", "err_main", "range", "nextfile", "endset"}
var histModesB = []string{"exit", "err_forin", "cancel_loop", "setvars", "getline_stdin", "bad_FS", "bad_RS", "hdr", "count", "err_main", "endset"}
var probeModes = []string{"p_all", "p_run", "p_at_begin", "p_at_main", "p_at_end", "p_getline_nf", "p_deep", "p_streams", "p_long", "p_err", "p_fmt"}
var probeModesB = []string{"p_all", "p_run", "p_at_begin", "p_at_main", "p_at_end", "p_getline_nf", "p_streams", "p_long", "p_err"}

var inputs = []string{"", "a,b\n1,2\n3,4\n", "x y z\ns\nm\ne\nw\n", "b,a,c\n\"q,1\",2,3\n", "one\n", "a\tb\n5\t6\n", "1,2,3\n", "k:v;k2:v2;", "#c\na,b\n7,8\n"}

func (s RunSpec) vars() []string {
	v := []string{"mode", s.Mode, "aux", "aux.txt", "aux2", "aux2.txt", "outf", "out.txt", "stop", "2"}
	if s.Pipe {
		v = append(v, "usepipe", "1")
	}
	return append(v, s.Vars...)
}

// syncBuf is the Output and Error writer of every run. It is locked and has no ReadFrom: with
// `cmd | getline` goawk attaches Config.Error to the child's stderr, which os/exec copies from its own goroutine
// (io.Copy into a bytes.Buffer would use ReadFrom and lose what the interpreter writes meanwhile).
type syncBuf struct {
	mu sync.Mutex
	b  []byte
}

func (w *syncBuf) Write(p []byte) (int, error) {
	w.mu.Lock()
	defer w.mu.Unlock()
	w.b = append(w.b, p...)
	return len(p), nil
}
func (w *syncBuf) String() string {
	w.mu.Lock()
	defer w.mu.Unlock()
	return string(w.b)
}

func denyOpen(name string, flag int, perm os.FileMode) (*os.File, error) {
	return nil, &fs.PathError{Op: "open", Path: name, Err: fs.ErrPermission}
}

func (s RunSpec) config(in *strings.Reader, out *syncBuf) *interp.Config {
	c := s.config0(in, out)
	switch s.OpenFile {
	case "os":
		c.OpenFile = os.OpenFile
	case "deny":
		c.OpenFile = denyOpen
	}
	if s.NilStdin {
		c.Stdin = nil
	}
	if s.NilOutput {
		c.Output = nil
	}
	if s.NilError {
		c.Error = nil
	}
	if s.NilEnviron {
		c.Environ = nil
	}
	if s.Shell {
		c.ShellCommand = []string{"/bin/echo"}
	}
	if s.Funcs {
		c.Funcs = funcsF
	}
	return c
}

func (s RunSpec) config0(in *strings.Reader, out *syncBuf) *interp.Config {
	return &interp.Config{
		Stdin: in, Output: out, Error: out, Argv0: s.Argv0, Args: s.Args, NoArgVars: s.NoArgVars, Vars: s.vars(),
		NoExec: s.NoExec, NoFileWrites: s.NoWrites, NoFileReads: s.NoReads, Environ: append([]string{}, s.Environ...),
		InputMode: interp.IOMode(s.InputMode), CSVInput: interp.CSVInputConfig{Separator: rune(s.Sep), Comment: rune(s.Comment), Header: s.Header},
		OutputMode: interp.IOMode(s.OutputMode), CSVOutput: interp.CSVOutputConfig{Separator: rune(s.OutSep)},
		Chars: s.Chars, NewlineOutput: interp.NewlineMode(s.Newline),
	}
}

func (s RunSpec) context() (context.Context, context.CancelFunc) {
	switch s.Ctx {
	case "bg":
		return context.Background(), func() {}
	case "live":
		return context.WithCancel(context.Background())
	case "cancelled":
		c, cancel := context.WithCancel(context.Background())
		cancel()
		return c, cancel
	}
	return nil, func() {}
}

type outcome struct {
	Out    string
	Status int
	Err    string
	Panic  string
}

func (o outcome) String() string {
	return fmt.Sprintf("out=%q status=%d err=%q panic=%q", o.Out, o.Status, o.Err, o.Panic)
}

// withStd points os.Stdin / os.Stdout / os.Stderr at files for the runs that leave the corresponding Config
// field nil, and returns what the run wrote to the two output files.
func withStd(s RunSpec, run func()) (extra string) {
	oldIn, oldOut, oldErr := os.Stdin, os.Stdout, os.Stderr
	var fo, fe *os.File
	if s.NilStdin {
		os.WriteFile("stdin.tmp", []byte(s.Input), 0o644)
		if f, err := os.Open("stdin.tmp"); err == nil {
			os.Stdin = f
			defer f.Close()
		}
	}
	if s.NilOutput {
		fo, _ = os.Create("stdout.tmp")
		os.Stdout = fo
	}
	if s.NilError {
		fe, _ = os.Create("stderr.tmp")
		os.Stderr = fe
	}
	defer func() {
		os.Stdin, os.Stdout, os.Stderr = oldIn, oldOut, oldErr
		if fo != nil {
			fo.Close()
			b, _ := os.ReadFile("stdout.tmp")
			extra += "[os.Stdout]" + string(b)
		}
		if fe != nil {
			fe.Close()
			b, _ := os.ReadFile("stderr.tmp")
			extra += "[os.Stderr]" + string(b)
		}
	}()
	run()
	return
}

// execPublic runs one spec through the public API.
func execPublic(ip *interp.Interpreter, s RunSpec) (res outcome) {
	extra := withStd(s, func() { res = execPublic0(ip, s) })
	res.Out += extra
	return
}

func execPublic0(ip *interp.Interpreter, s RunSpec) (res outcome) {
	var out syncBuf
	defer func() {
		if r := recover(); r != nil {
			res = outcome{Out: out.String(), Panic: fmt.Sprint(r)}
		}
	}()
	cfg := s.config(strings.NewReader(s.Input), &out)
	ctx, cancel := s.context()
	defer cancel()
	var st int
	var err error
	if ctx == nil {
		st, err = ip.Execute(cfg)
	} else {
		st, err = ip.ExecuteContext(ctx, cfg)
	}
	res = outcome{Out: out.String(), Status: st}
	if err != nil {
		res.Err = err.Error()
	}
	return
}

func execProgram(prog *parser.Program, s RunSpec) (res outcome) {
	extra := withStd(s, func() { res = execProgram0(prog, s) })
	res.Out += extra
	return
}

func execProgram0(prog *parser.Program, s RunSpec) (res outcome) {
	var out syncBuf
	defer func() {
		if r := recover(); r != nil {
			res = outcome{Out: out.String(), Panic: fmt.Sprint(r)}
		}
	}()
	st, err := interp.ExecProgram(prog, s.config(strings.NewReader(s.Input), &out))
	res = outcome{Out: out.String(), Status: st}
	if err != nil {
		res.Err = err.Error()
	}
	return
}

func parse(name string) *parser.Program {
	var pcfg *parser.ParserConfig
	if name == "F" || name == "R" {
		pcfg = &parser.ParserConfig{Funcs: funcsF}
	}
	prog, err := parser.ParseProgram([]byte(progSrc[name]), pcfg)
	if err != nil {
		panic(fmt.Sprintf("program %s: %v", name, err))
	}
	return prog
}

// ---------- generators ----------

func genSpec(r *hx.Rand, mode string, probe bool) RunSpec {
	s := RunSpec{Mode: mode, Input: r.Pick(inputs), Argv0: r.Pick([]string{"", "awk", "goawk"})}
	switch r.Intn(6) {
	case 0, 1:
		s.InputMode, s.Header = 1, r.Bool()
	case 2:
		s.InputMode, s.Header = 2, r.Intn(3) == 0
	}
	if s.InputMode != 0 && r.Intn(4) == 0 {
		s.Sep = int(r.Pick([]string{";", "|", ":"})[0])
	}
	if s.InputMode != 0 && r.Intn(4) == 0 {
		s.Comment = '#'
	}
	switch r.Intn(5) {
	case 0:
		s.OutputMode = 1
	case 1:
		s.OutputMode = 2
	}
	if s.OutputMode != 0 && r.Intn(3) == 0 {
		s.OutSep = ';'
	}
	switch r.Intn(8) {
	case 0:
		s.Args = []string{"d1.txt"}
	case 1:
		s.Args = []string{"d2.csv", "d1.txt"}
	case 2:
		s.Args = []string{"v=1", "-"}
	case 3:
		s.Args = []string{"nonexistent.txt"}
	case 4:
		s.Args = []string{"x=arg", "d1.txt", ""}
	}
	if r.Intn(4) == 0 {
		vs := [][]string{{"x", "fromvars"}, {"OFS", ":"}, {"FS", ","}, {"CONVFMT", "%.3g"}, {"NR", "10"}, {"RSTART", "4"},
			{"undefinedvar", "1"}, {"ORS", "!\n", "SUBSEP", "@"}, {"FILENAME", "fn"}, {"RT", "rt"}, {"NF", "3"}, {"RS", ";"}, {"FS", "ab+"}}
		s.Vars = vs[r.Intn(len(vs))]
	}
	if r.Intn(5) == 0 {
		s.Environ = []string{"HOME", "/h", "K", "v"}
	}
	s.NoExec, s.NoWrites, s.NoReads = r.Intn(4) == 0, r.Intn(5) == 0, r.Intn(6) == 0
	s.NoArgVars, s.Chars = r.Intn(5) == 0, r.Intn(4) == 0
	if r.Intn(6) == 0 {
		s.Newline = 1 + r.Intn(2)
	}
	switch r.Intn(10) {
	case 0:
		s.OpenFile = "deny"
	case 1:
		s.OpenFile = "os"
	}
	s.NilEnviron = r.Intn(4) == 0
	s.Shell = r.Intn(8) == 0
	s.NilStdin, s.NilOutput, s.NilError = r.Intn(12) == 0, r.Intn(14) == 0, r.Intn(14) == 0
	if probe && mode == "p_streams" {
		s.Pipe = r.Intn(3) == 0
	}
	switch r.Intn(6) {
	case 0:
		s.Ctx = "bg"
	case 1:
		s.Ctx = "live"
	}
	if strings.HasPrefix(mode, "cancel_") {
		s.Ctx = "cancelled"
	}
	if !probe && r.Intn(40) == 0 {
		// a configuration that setExecuteConfig rejects
		switch r.Intn(4) {
		case 0:
			s.Vars = append(s.Vars, "odd")
		case 1:
			s.InputMode, s.Header = 0, true
		case 2:
			s.InputMode, s.Sep, s.Comment = 1, '#', '#'
		case 3:
			s.Newline = 7
		}
	}
	return s
}

func genCases(o hx.Opts, r *hx.Rand) []Case {
	var cs []Case
	// systematic: every history mode x every probe, full reset and no reset
	for _, pn := range []string{"A", "B"} {
		hm, pm := histModes, probeModes
		if pn == "B" {
			hm, pm = histModesB, probeModesB
		}
		for _, h := range hm {
			for _, p := range pm {
				for _, full := range []bool{true, false} {
					hs := RunSpec{Mode: h, Input: "a,b\n1,2\n3,4\n", InputMode: 1, Header: true}
					if strings.HasPrefix(h, "cancel_") {
						hs.Ctx = "cancelled"
					}
					if h == "range" || h == "setvars" || h == "setre" || h == "io" {
						hs.InputMode, hs.Header, hs.Input = 0, false, "x y z\ns\nm\ne\nw\n"
					}
					if h == "endset" {
						hs.Header = false
					}
					ps := RunSpec{Mode: p, Input: "1,2,3\n4,5\n", InputMode: 1}
					if (h == "count" || h == "exit") && (p == "p_long" || p == "p_err" || p == "p_deep" || p == "p_run") {
						// the earlier run used ExecuteContext with a context the caller cancels afterwards; the probe
						// uses plain Execute, or ExecuteContext(Background)
						for _, pc := range []string{"", "bg"} {
							hs2, ps2 := hs, ps
							hs2.Ctx, ps2.Ctx = "live", pc
							cs = append(cs, Case{Prog: pn, History: []RunSpec{hs2}, ResetVars: full, ResetRand: full, Probe: ps2})
						}
					}
					if h == "pipe_in" && p == "p_streams" {
						ps.Pipe = true
					}
					if (h == "io" || h == "getline_stdin") && (p == "p_streams" || p == "p_all") && pn == "A" {
						// Config.OpenFile differs between the earlier run and the probe
						for _, of := range [][2]string{{"", "deny"}, {"deny", ""}, {"os", "deny"}} {
							hs2, ps2 := hs, ps
							hs2.OpenFile, ps2.OpenFile = of[0], of[1]
							if p == "p_all" {
								ps2.Args = []string{"d2.csv"}
							}
							if p != "p_all" || full {
								cs = append(cs, Case{Prog: pn, History: []RunSpec{hs2}, ResetVars: full, ResetRand: full, Probe: ps2})
							}
						}
					}
					if strings.HasPrefix(h, "bad_") {
						hs.InputMode, hs.Header, hs.Input = 0, false, "bad\nrec2\n"
					}
					if p == "p_all" && full && (h == "exit" || h == "count" || h == "err_main") {
						// Config.Environ nil (process environment) vs slice, in the earlier run and in the probe
						for _, ne := range [][2]bool{{true, true}, {false, true}, {true, false}} {
							hs2, ps2 := hs, ps
							hs2.NilEnviron, ps2.NilEnviron = ne[0], ne[1]
							if !ne[0] {
								hs2.Environ = []string{"K", "v"}
							}
							if !ne[1] {
								ps2.Environ = []string{"K", "v2"}
							}
							cs = append(cs, Case{Prog: pn, History: []RunSpec{hs2}, ResetVars: full, ResetRand: full, Probe: ps2})
						}
					}
					if p == "p_all" && !full && !strings.HasPrefix(h, "bad_") {
						continue
					}
					if !(p == "p_all" && !full) {
						cs = append(cs, Case{Prog: pn, History: []RunSpec{hs}, ResetVars: full, ResetRand: full, Probe: ps})
					}
					if p == "p_all" || p == "p_at_begin" || p == "p_at_end" {
						ps2 := ps
						ps2.InputMode, ps2.Input = 0, "x y\n"
						if p == "p_at_end" {
							ps2.InputMode, ps2.Header, ps2.Input = 1, true, ""
						}
						cs = append(cs, Case{Prog: pn, History: []RunSpec{hs}, ResetVars: full, ResetRand: full, Probe: ps2})
					}
				}
			}
		}
	}
	for _, hc := range []bool{false, true} {
		for _, pc := range []bool{false, true} {
			for v := 0; v < 4; v++ {
				hs := RunSpec{Mode: "fmt", Input: "a b\n", Chars: hc}
				ps := RunSpec{Mode: "p_fmt", Input: "a b\n", Chars: pc}
				switch v {
				case 1:
					hs.Vars = []string{"CONVFMT", "%.2g", "OFMT", "%.3g"}
				case 2:
					ps.Vars = []string{"CONVFMT", "%.2g", "OFMT", "%.3g"}
				case 3:
					hs.OutputMode, hs.InputMode, ps.OutputMode = 1, 1, 2
				}
				cs = append(cs, Case{Prog: "A", History: []RunSpec{hs}, ResetVars: true, ResetRand: true, Probe: ps})
				cs = append(cs, Case{Prog: "A", History: []RunSpec{hs, hs}, ResetVars: false, ResetRand: false, Probe: ps})
			}
		}
	}
	for _, h := range []string{"exit", "setvars", "err_forin", "count"} {
		for _, p := range []string{"p_all", "p_run"} {
			for _, full := range []bool{true, false} {
				hs := RunSpec{Mode: h, Input: "a\nb\nc\n", Funcs: true}
				ps := RunSpec{Mode: p, Input: "1\n2\n", Funcs: true}
				cs = append(cs, Case{Prog: "F", History: []RunSpec{hs}, ResetVars: full, ResetRand: full, Probe: ps})
				// the first call is rejected before the native functions are set up
				bad := hs
				bad.Vars = []string{"odd"}
				cs = append(cs, Case{Prog: "F", History: []RunSpec{bad, hs}, ResetVars: full, ResetRand: full, Probe: ps})
			}
		}
	}
	// program R: earlier runs that end in every way a run can end, at every point with ranges open
	rEnd := []string{"", "stop", "fstop", "pexit", "err", "badre", "nerr", "nf", "loop", "getl\nstop"}
	rOpen := []string{"<<\na\n", "<<\n", "b\na\n<<\n", "", "q\n"}
	rSpec := func(end, open string) RunSpec {
		hs := RunSpec{Mode: "r_" + strings.ReplaceAll(end, "\n", "+"), Input: open + end + "\n", Funcs: true}
		if end == "" {
			hs.Mode, hs.Input = "r_eof", open
		}
		if end == "loop" {
			hs.Ctx = "cancelled"
		}
		return hs
	}
	rProbe := RunSpec{Mode: "p_range", Input: "a\nb\n<<\nc\n>>\nd\n", Funcs: true}
	for _, end := range rEnd {
		for _, open := range rOpen {
			for _, full := range []bool{true, false} {
				hs := rSpec(end, open)
				cs = append(cs, Case{Prog: "R", History: []RunSpec{hs}, ResetVars: full, ResetRand: full, Probe: rProbe})
				ps2 := rProbe
				ps2.Chars, ps2.Ctx, ps2.Input = true, "bg", "x\n<<\nx\ny\n"
				cs = append(cs, Case{Prog: "R", History: []RunSpec{hs}, ResetVars: full, ResetRand: full, Probe: ps2})
			}
		}
	}
	nR := 150
	if o.Tier == "thorough" {
		nR = 3000
	}
	for i := 0; i < nR; i++ {
		c := Case{Prog: "R", ResetVars: r.Bool(), Probe: rProbe}
		c.ResetRand = c.ResetVars
		for j, k := 0, 1+r.Intn(3); j < k; j++ {
			hs := rSpec(rEnd[r.Intn(len(rEnd))], rOpen[r.Intn(len(rOpen))])
			if hs.Ctx == "" {
				hs.Ctx = r.Pick([]string{"", "", "bg", "live"})
			}
			hs.Chars = r.Intn(3) == 0
			c.History = append(c.History, hs)
		}
		c.Probe.Input = r.Pick([]string{"a\nb\n<<\nc\n>>\nd\n", "x\ny\n", "<<\nx\n", "c\n>>\n<< 1\nx 2\n", ""})
		c.Probe.Ctx = r.Pick([]string{"", "bg", "live"})
		cs = append(cs, c)
	}
	n := o.N
	if n == 0 {
		n = 1200
		if o.Tier == "thorough" {
			n = 20000
		}
	}
	for i := 0; i < n; i++ {
		pn := "A"
		hm, pm := histModes, probeModes
		if r.Intn(4) == 0 {
			pn, hm, pm = "B", histModesB, probeModesB
		}
		c := Case{Prog: pn}
		k := 1 + r.Intn(4)
		for j := 0; j < k; j++ {
			c.History = append(c.History, genSpec(r, r.Pick(hm), false))
		}
		switch r.Intn(6) {
		case 0:
			c.ResetVars, c.ResetRand = false, false
		case 1:
			c.ResetVars, c.ResetRand = true, false
		case 2:
			c.ResetVars, c.ResetRand = false, true
		default:
			c.ResetVars, c.ResetRand = true, true
		}
		c.Probe = genSpec(r, r.Pick(pm), true)
		c.Probe.Ctx = r.Pick([]string{"", "", "bg", "live"})
		cs = append(cs, c)
	}
	return cs
}

// comparable: can the probe's outcome be compared although variables / random state carry over?
func comparable(c Case) bool {
	if c.ResetVars && c.ResetRand {
		return true
	}
	p := c.Probe
	if len(p.Vars) != 0 {
		return false
	}
	for _, a := range p.Args {
		if strings.Contains(a, "=") && !p.NoArgVars {
			return false
		}
	}
	if c.Prog == "R" {
		return true // program R assigns no variable and its cases pass no Vars / var=value arguments
	}
	if p.Mode == "p_fmt" {
		// depends on CONVFMT / OFMT / OFS / ORS: comparable when no earlier run touched a variable
		for _, h := range c.History {
			if h.Mode != "fmt" || len(h.Vars) != 0 || len(h.Args) != 0 {
				return false
			}
		}
		return true
	}
	switch p.Mode {
	case "p_all":
		return false
	case "p_run", "p_at_main", "p_at_end", "p_getline_nf", "p_streams":
		// record reading must not depend on FS/RS: CSV or TSV input only
		return p.InputMode == 1 || p.InputMode == 2
	case "p_at_begin", "p_deep", "p_long", "p_err":
		return true
	}
	return false
}

// label of the first line on which two outputs differ
func firstDiff(a, b outcome) string {
	if a.Panic != b.Panic {
		return "panic"
	}
	if a.Err != b.Err {
		e := a.Err
		if e == "" {
			e = b.Err
		}
		if strings.HasPrefix(e, "no field names") {
			return "error[no field names]"
		}
		return "error"
	}
	la, lb := strings.Split(a.Out, "\n"), strings.Split(b.Out, "\n")
	for i := 0; i < len(la) || i < len(lb); i++ {
		x, y := "", ""
		if i < len(la) {
			x = la[i]
		}
		if i < len(lb) {
			y = lb[i]
		}
		if x != y {
			l := x
			if l == "" {
				l = y
			}
			if j := strings.IndexAny(l, "= "); j > 0 {
				l = l[:j]
			}
			return "line[" + l + "]"
		}
	}
	if a.Status != b.Status {
		return "status"
	}
	return "same"
}

// ---------- search oracle ----------

func searchOne(c Case, rep *hx.Report, check bool) (hist []outcome) {
	prog := parse(c.Prog)
	reused, _ := interp.New(prog)
	for _, h := range c.History {
		hist = append(hist, execPublic(reused, h))
	}
	if c.ResetVars {
		reused.ResetVars()
	}
	if c.ResetRand {
		reused.ResetRand()
	}
	got := execPublic(reused, c.Probe)
	if got.Panic != "" {
		// whatever carried over, a run on a reused interpreter must not panic
		js, _ := json.Marshal(c)
		rep.SearchEvals++
		rep.Fail(hx.Failure{Class: c.Probe.Mode + ":panic", Oracle: "no panic in a run on a reused interpreter",
			Detail: map[string]any{"case": json.RawMessage(js), "program": progSrc[c.Prog], "expected_fresh": "no panic", "got_reused": got.String()}})
		return
	}
	if !check {
		return
	}
	fresh, _ := interp.New(prog)
	want := execPublic(fresh, c.Probe)
	rep.SearchEvals++
	// New + Execute on a new interpreter = ExecProgram (the reference the property names)
	if c.Probe.Ctx == "" {
		if ep := execProgram(prog, c.Probe); ep != want {
			js, _ := json.Marshal(c)
			rep.Fail(hx.Failure{Class: "execprogram:" + firstDiff(ep, want), Oracle: "New + Execute = ExecProgram on the same Config",
				Detail: map[string]any{"case": json.RawMessage(js), "program": progSrc[c.Prog], "ExecProgram": ep.String(), "New+Execute": want.String()}})
		}
	}
	if got == want {
		return
	}
	d := firstDiff(want, got)
	reset := "after ResetVars+ResetRand"
	if !c.ResetVars || !c.ResetRand {
		reset = "without full reset"
	}
	js, _ := json.Marshal(c)
	kind := c.Probe.Mode
	if strings.HasPrefix(kind, "p_at_") {
		kind = "p_at"
	}
	rep.Fail(hx.Failure{
		Class:  kind + ":" + d,
		Oracle: "reuse_eq_fresh: outcome of the probe run on the reused interpreter = on a new interpreter",
		Detail: map[string]any{"case": json.RawMessage(js), "resets": reset, "program": progSrc[c.Prog], "expected_fresh": want.String(), "got_reused": got.String()},
	})
	return
}

// ---------- correspondence ----------

type corr struct {
	modelrun    string
	fields      []string
	nilsens     map[string]bool
	frameBad    []hx.Mismatch
	runMut      map[string]bool // Model/Reuse.run_mutable: the generated may_run + method-mutated objects + arrays.locals
	frameChecks int
	env         string
	reqs        []string
	want        []string // expected answer ("" = only must not be a driver error), parallel to reqs
	class       []string
}

func (k *corr) add(class, req, want string) {
	k.reqs = append(k.reqs, req)
	k.want = append(k.want, want)
	k.class = append(k.class, class)
}

func (k *corr) dump(ip *interp.Interpreter) map[string]string { return k.dumpX(ip, false) }

// dumpX: deep = recompute the digests of the program objects (done for the first dump of an interpreter
// and for the dump after the history, which is where a run could have changed them)
func (k *corr) dumpX(ip *interp.Interpreter, deep bool) map[string]string {
	m := map[string]string{}
	for _, f := range interp.VerifC14Dump(ip, k.nilsens, deep) {
		m[f.Name] = f.Val
	}
	return m
}

func (k *corr) state(m map[string]string) string {
	var sb strings.Builder
	fmt.Fprintf(&sb, "%d", len(k.fields))
	for _, f := range k.fields {
		v, ok := m[f]
		if !ok {
			v = "n"
		}
		sb.WriteString(" " + f + " " + v)
	}
	return sb.String()
}

func hexList(xs []string) string {
	var sb strings.Builder
	fmt.Fprintf(&sb, "%d", len(xs))
	for _, x := range xs {
		sb.WriteString(" " + hx.HexS(x))
	}
	return sb.String()
}
func b(x bool) string {
	if x {
		return "b1"
	}
	return "b0"
}

// cfgWire renders the Config for the model; nativeFuncs is the rendering of the (empty, non-nil) slice
// that initNativeFuncs builds for Funcs == nil.
func cfgWire(c *interp.Config) string {
	pairs := func(xs []string) string {
		n := len(xs) / 2
		var sb strings.Builder
		fmt.Fprintf(&sb, "%d", n)
		for i := 0; i < 2*n; i++ {
			sb.WriteString(" " + hx.HexS(xs[i]))
		}
		return sb.String()
	}
	parts := []string{
		b(len(c.Vars)%2 != 0), b(len(c.Environ)%2 != 0),
		fmt.Sprintf("i%d i%d i%d %s", int(c.InputMode), c.CSVInput.Separator, c.CSVInput.Comment, b(c.CSVInput.Header)),
		fmt.Sprintf("i%d i%d", int(c.OutputMode), c.CSVOutput.Separator),
		optVal(c.OpenFile == nil, c.OpenFile),
		hx.HexS(c.Argv0), hexList(c.Args), b(c.NoArgVars), pairs(c.Vars), b(c.Chars), pairs(effectiveEnviron(c)),
		optVal(len(c.ShellCommand) == 0, c.ShellCommand),
		b(c.NoExec), b(c.NoFileWrites), b(c.NoFileReads),
		interp.VerifC14Val(c.Stdin, false), interp.VerifC14Val(c.Output, false), interp.VerifC14Val(c.Error, false),
		"l0",
		fmt.Sprintf("i%d", int(c.NewlineOutput)),
	}
	return strings.Join(parts, " ")
}

// effectiveEnviron: Config.Environ, or for nil the pairs setExecuteConfig takes from os.Environ()
func effectiveEnviron(c *interp.Config) []string {
	if c.Environ != nil {
		return c.Environ
	}
	var kv []string
	for _, e := range os.Environ() {
		if k, v, ok := strings.Cut(e, "="); ok {
			kv = append(kv, k, v)
		}
	}
	return kv
}

func optVal(isNil bool, x any) string {
	if isNil {
		return "N"
	}
	return "S " + interp.VerifC14Val(x, false)
}

func entryWire(ctx context.Context) string {
	if ctx == nil {
		return "x"
	}
	done := ctx.Done() // creates the channel lazily: call it before rendering ctx
	return fmt.Sprintf("c %s %s %s", b(ctx != context.Background() && ctx != context.TODO()),
		interp.VerifC14Val(ctx, false), interp.VerifC14Val(done, false))
}

func errCode(err error) string {
	if err == nil {
		return ""
	}
	m := err.Error()
	switch {
	case strings.HasPrefix(m, "length of config.Vars"):
		return "varsodd"
	case strings.HasPrefix(m, "length of config.Environ"):
		return "environodd"
	case strings.HasPrefix(m, "input mode configuration not valid"):
		return "incfgdefault"
	case strings.HasPrefix(m, "output mode configuration not valid"):
		return "outcfgdefault"
	case strings.HasPrefix(m, "invalid CSV field separator"):
		return "csvsep"
	case strings.HasPrefix(m, "invalid newline output mode"):
		return "newline"
	}
	return "var"
}

func pcWire(d map[string]string) string {
	return strings.Join([]string{d["program"], d["functions"], d["nums"], d["strs"], d["regexes"], d["scalarIndexes"], d["arrayIndexes"]}, " ")
}

// stepExec performs Execute/ExecuteContext step by step on ip, recording one model request per step.
// It returns the outcome (must equal the public API's) and whether setExecuteConfig succeeded.
func (k *corr) stepExec(ip *interp.Interpreter, s RunSpec, run bool, tag string) (res outcome, prepared bool, cfgline, entry string) {
	var out syncBuf
	defer func() {
		if r := recover(); r != nil {
			res = outcome{Out: out.String(), Panic: fmt.Sprint(r)}
		}
	}()
	cfg := s.config(strings.NewReader(s.Input), &out)
	ctx, cancel := s.context()
	defer cancel()
	before := k.dump(ip)
	interp.VerifC14ResetCore(ip)
	d1 := k.dump(ip)
	k.add(tag+"resetCore", "resetcore "+k.state(before), "ok "+k.state(d1))
	entry = entryWire(ctx)
	interp.VerifC14Prologue(ip, ctx)
	d2 := k.dump(ip)
	k.add(tag+"prologue", "prologue "+entry+" "+k.state(d1), "ok "+k.state(d2))
	cfgline = cfgWire(cfg)
	err := interp.VerifC14SetConfig(ip, cfg)
	d3 := k.dump(ip)
	want := "ok " + k.state(d3)
	if err != nil {
		want = "err " + errCode(err) + " " + k.state(d3)
	}
	k.add(tag+"setExecuteConfig", "setcfg "+k.env+" "+cfgline+" "+k.state(d2), want)
	if err != nil {
		return outcome{Err: err.Error()}, false, cfgline, entry
	}
	if !run {
		return outcome{}, true, cfgline, entry
	}
	st, rerr := interp.VerifC14Run(ip)
	res = outcome{Out: out.String(), Status: st}
	if rerr != nil {
		res.Err = rerr.Error()
	}
	// the frame hypothesis of the theorems, checked on this run: executeAll changed no field outside
	// run_mutable and did not resize globals / the global arrays
	after := k.dump(ip)
	k.frameChecks++
	var bad []string
	for _, f := range k.fields {
		if f == "stdin" || f == "output" || f == "errorOutput" {
			continue // rendered as the CONTENT of the caller's reader/writers, which a run consumes / produces
		}
		if after[f] != d3[f] && !k.runMut[f] {
			bad = append(bad, f)
		}
	}
	for _, f := range []string{"globals", "arrays"} {
		if strings.Fields(after[f])[0] != strings.Fields(d3[f])[0] {
			bad = append(bad, "len("+f+")")
		}
	}
	if len(bad) > 0 {
		k.frameBad = append(k.frameBad, hx.Mismatch{Class: "run-frame", Input: fmt.Sprintf("%+v", s),
			Impl: "executeAll changed " + strings.Join(bad, " "), Model: "a run changes only fields of run_mutable and keeps len(globals), len(global arrays)"})
	}
	return res, true, cfgline, entry
}

func (k *corr) corrOne(c Case, rep *hx.Report, pub []outcome) {
	prog := parse(c.Prog)
	ip, _ := interp.New(prog)
	defer interp.VerifC14Forget(ip)
	d0 := k.dumpX(ip, true)
	pc := pcWire(d0)
	k.add("newInterp", "new "+k.env+" "+pc, "ok "+k.state(d0))
	for i, h := range c.History {
		res, _, _, _ := k.stepExec(ip, h, true, "")
		if pub != nil && res != pub[i] {
			// Execute/ExecuteContext is modelled as resetCore; prologue; setExecuteConfig; executeAll: if the public
			// call behaves differently from that sequence, the model of the entry points no longer matches
			rep.Mismatch(hx.Mismatch{Class: "execute-steps", Input: fmt.Sprintf("run %d of %+v", i, c),
				Impl: "Execute/ExecuteContext: " + pub[i].String(), Model: "resetCore; prologue; setExecuteConfig; executeAll: " + res.String()})
		}
	}
	g := k.dumpX(ip, true)
	if c.ResetRand {
		ip.ResetRand()
		d := k.dump(ip)
		k.add("ResetRand", "resetrand "+k.env+" "+k.state(g), "ok "+k.state(d))
	}
	if c.ResetVars {
		before := k.dump(ip)
		ip.ResetVars()
		d := k.dump(ip)
		k.add("resetVars", "resetvars "+k.state(before), "ok "+k.state(d))
	}
	// prepare reused and new interpreter for the probe with the SAME Config object, dump both, compare the
	// set of observable fields that differ with the model's prediction
	var out syncBuf
	cfg := c.Probe.config(strings.NewReader(c.Probe.Input), &out)
	ctx, cancel := c.Probe.context()
	defer cancel()
	fresh, _ := interp.New(prog)
	defer interp.VerifC14Forget(fresh)
	prep := func(x *interp.Interpreter) error {
		interp.VerifC14ResetCore(x)
		interp.VerifC14Prologue(x, ctx)
		return interp.VerifC14SetConfig(x, cfg)
	}
	e1, e2 := prep(ip), prep(fresh)
	entry := entryWire(ctx)
	req := fmt.Sprintf("predict %s %s %s %s %s %s %s", k.env, pc, entry, cfgWire(cfg), b(c.ResetVars), b(c.ResetRand), k.state(g))
	if e1 != nil || e2 != nil {
		if (e1 == nil) != (e2 == nil) || (e1 != nil && e1.Error() != e2.Error()) {
			rep.Mismatch(hx.Mismatch{Class: "prepare-error", Input: fmt.Sprintf("%+v", c), Impl: fmt.Sprint(e1, " / ", e2), Model: "same error on both"})
		}
		k.add("predict", req, "none")
		return
	}
	dr, df := k.dump(ip), k.dump(fresh)
	obs := k.obsFields(entry)
	var diff []string
	for _, f := range obs {
		if dr[f] != df[f] {
			diff = append(diff, f)
		}
	}
	k.add("predict", req, strings.TrimSpace("ok "+strings.Join(diff, " ")))
}

// corrSelected: the step-wise correspondence replays the case a second time and sends ~12 states to the
// model, so in the quick tier it runs on the systematic cases with probe p_run / p_at_begin (every history
// mode, both programs, with and without resets) and on the first 250 random cases; thorough: all.
var nRandomCorr = 0

func corrSelected(c Case, i int, tier string) bool {
	// not modelled: program F (the rendering of its nativeFuncs) and the os.Stdin/Stdout/Stderr defaults
	if c.Prog == "F" || c.Prog == "R" {
		return false
	}
	for _, s := range append(append([]RunSpec{}, c.History...), c.Probe) {
		if s.NilStdin || s.NilOutput || s.NilError {
			return false
		}
	}
	if tier == "thorough" {
		return true
	}
	systematic := len(c.History) == 1 && c.History[0].Argv0 == "" && c.Probe.Argv0 == "" && len(c.Probe.Args) == 0 && c.History[0].Vars == nil && !c.History[0].NoExec
	if systematic && i < 2000 {
		return c.Probe.Mode == "p_run" || (c.Probe.Mode == "p_at_begin" && c.ResetVars && c.Probe.InputMode == 1) ||
			(c.Probe.Mode == "p_streams" && c.ResetVars)
	}
	nRandomCorr++
	return nRandomCorr <= 250
}

var obsCache = map[string][]string{}

func (k *corr) obsFields(entry string) []string {
	key := "x"
	if entry != "x" {
		key = "c b0 n n"
	}
	if v, ok := obsCache[key]; ok {
		return v
	}
	ans, err := hx.ModelEval(k.modelrun, []string{"obs " + key})
	if err != nil || !strings.HasPrefix(ans[0], "ok") {
		panic(fmt.Sprint("obs request failed: ", err, ans))
	}
	v := strings.Fields(ans[0])[1:]
	obsCache[key] = v
	return v
}

func featureKey(c Case) string {
	var hs []string
	for _, h := range c.History {
		hs = append(hs, fmt.Sprintf("%s/%d%v/%s/%d", h.Mode, h.InputMode, h.Header, h.Ctx, len(h.Args)))
	}
	return fmt.Sprintf("%s|%s|%v%v|%s/%d%v/%s", c.Prog, strings.Join(hs, ","), c.ResetVars, c.ResetRand, c.Probe.Mode, c.Probe.InputMode, c.Probe.Header, c.Probe.Ctx)
}

func setupFiles() string {
	dir, err := os.MkdirTemp("", "c14h")
	if err != nil {
		panic(err)
	}
	must := func(e error) {
		if e != nil {
			panic(e)
		}
	}
	must(os.WriteFile(dir+"/d1.txt", []byte("l1 a\nl2 b\nl3 c\n"), 0o644))
	must(os.WriteFile(dir+"/d2.csv", []byte("a,b\n10,20\n30,40\n"), 0o644))
	must(os.WriteFile(dir+"/aux.txt", []byte("aux1\naux2\n"), 0o644))
	must(os.WriteFile(dir+"/aux2.txt", []byte("second1\nsecond2\n"), 0o644))
	must(os.Chdir(dir))
	return dir
}

func main() {
	o := hx.ParseFlags()
	rep := hx.NewReport("C14", o.Seed, o.Tier)
	rep.Rule = "systematic: every history mode (exit, error in function / for-in / deep recursion / main rule, cancelled context in loop / function / for-in, assignments to all special variables, regex FS/RS, INPUTMODE/OUTPUTMODE, open file streams, getline, getline < \"-\" with stdin data left over, cmd | getline left open, the same printf/sprintf formats (every conversion incl. %c with width/precision/*) and dynamic regexes in the earlier run and in the probe under different Chars / output modes / CONVFMT-OFMT, a program of overlapping range patterns whose earlier runs end at EOF / by exit in an action, a function, a pattern / by division by zero, a bad dynamic regex, a native-function error / by a cancelled context / after nextfile / with a getline stream open, each with several ranges open, a run-time error raised while assigning FS / RS / NF / ARGC / INPUTMODE / OUTPUTMODE, ExecuteContext with a live context cancelled after the run followed by a long / failing context-free probe, CSV header run, range pattern, nextfile, $0 assigned in END) x every probe (incl. p_streams: getline < \"-\" / file / rewritten output file / command again) x {full reset, no reset} on two programs, Config.OpenFile nil / os.OpenFile / deny-all differing between earlier run and probe, plus random histories of 1-4 runs with random Config (modes, header, separators, Args incl. files / var=value / missing file, Vars, Environ, sandbox flags, Chars, newline mode, Execute vs ExecuteContext, rejected configurations) and random ResetVars/ResetRand; every field of interp.Config takes at least two values incl. the nil/zero one within histories (Environ nil = process environment with a marker variable vs slice, Stdin/Output/Error nil = os.Stdin/Stdout/Stderr pointed at files, ShellCommand default vs /bin/echo, OpenFile nil/os/deny, Funcs on a third program, Args/Argv0/NoArgVars/Vars/Chars/modes/flags/newline); a run on a reused interpreter must never panic (checked also when outcomes are not comparable); distinct = distinct (program, history modes+input modes+ctx+args, resets, probe mode+input mode+ctx); non-trivial = at least one run before the probe"
	out := o.Out
	if out != "" && !strings.HasPrefix(out, "/") {
		wd, _ := os.Getwd()
		out = wd + "/" + out
	}
	modelrun := o.ModelRun
	if modelrun != "" && !strings.HasPrefix(modelrun, "/") {
		wd, _ := os.Getwd()
		modelrun = wd + "/" + modelrun
	}
	var replayCase *Case
	if o.Replay != "" {
		raw, err := os.ReadFile(o.Replay)
		if err != nil {
			fmt.Println("replay:", err)
			os.Exit(2)
		}
		var doc struct {
			Failure struct {
				Detail struct {
					Case Case `json:"case"`
				} `json:"detail"`
			} `json:"failure"`
		}
		if err := json.Unmarshal(raw, &doc); err != nil || doc.Failure.Detail.Case.Prog == "" {
			fmt.Println("replay: no failure.detail.case in", o.Replay, err)
			os.Exit(2)
		}
		replayCase = &doc.Failure.Detail.Case
	}
	dir := setupFiles()
	defer os.RemoveAll(dir)
	os.Setenv("C14_MARKER", "m1") // observed by the probes when Config.Environ is nil

	if replayCase != nil {
		searchOne(*replayCase, rep, true)
		js, _ := json.MarshalIndent(replayCase, "", " ")
		fmt.Printf("replaying case:\n%s\n", js)
		if len(rep.Failures) > 0 {
			f := rep.Failures[0]
			if strings.HasPrefix(f.Class, "execprogram:") {
				fmt.Printf("STILL FAILS class=%s oracle=%s\n ExecProgram:   %v\n New + Execute: %v\n", f.Class, f.Oracle, f.Detail["ExecProgram"], f.Detail["New+Execute"])
			} else {
				fmt.Printf("STILL FAILS class=%s oracle=%s\n expected (new interpreter): %v\n got (reused interpreter):      %v\n", f.Class, f.Oracle, f.Detail["expected_fresh"], f.Detail["got_reused"])
			}
			os.RemoveAll(dir)
			os.Exit(1)
		}
		fmt.Println("passes now")
		return
	}

	r := hx.NewRand(o.Seed*0x2545F491 + 77) // hx streams of consecutive seeds are shifts of each other: spread them
	cases := genCases(o, r)

	k := &corr{modelrun: modelrun}
	if modelrun != "" {
		ans, err := hx.ModelEval(modelrun, []string{"fields", "nilsens", "runmutable"})
		if err != nil || !strings.HasPrefix(ans[0], "ok") || !strings.HasPrefix(ans[1], "ok") || !strings.HasPrefix(ans[2], "ok") {
			rep.HarnessError("modelrun fields/nilsens: %v %v", err, ans)
			rep.Write(out)
			return
		}
		k.fields = strings.Fields(ans[0])[1:]
		k.runMut = map[string]bool{}
		for _, f := range strings.Fields(ans[2])[1:] {
			k.runMut[f] = true
		}
		k.nilsens = map[string]bool{}
		for _, f := range strings.Fields(ans[1])[1:] {
			k.nilsens[f] = true
		}
		// the dump must have exactly the model's fields
		ip, _ := interp.New(parse("A"))
		d := k.dumpX(ip, true)
		var have []string
		for f := range d {
			have = append(have, f)
		}
		sort.Strings(have)
		want := append([]string{}, k.fields...)
		sort.Strings(want)
		if strings.Join(have, " ") != strings.Join(want, " ") {
			rep.Mismatch(hx.Mismatch{Class: "field-list", Input: "struct interp (reflect)", Impl: strings.Join(have, " "), Model: strings.Join(want, " ")})
		}
		shell, openFile := interp.VerifC14Defaults()
		k.env = strings.Join([]string{d["random"], shell, openFile, interp.VerifC14Val(bytes.Buffer{}, false), "b0"}, " ")
	}

	for i, c := range cases {
		// search oracle (public API only)
		pub := searchOne(c, rep, comparable(c))
		rep.Count("probe:" + c.Probe.Mode)
		rep.Count(fmt.Sprintf("history-len:%d", len(c.History)))
		rep.Count(fmt.Sprintf("reset:vars=%v,rand=%v", c.ResetVars, c.ResetRand))
		for _, h := range c.History {
			rep.Count("history:" + h.Mode)
		}
		if len(c.History) > 0 {
			rep.Distinct(featureKey(c))
		}
		if i%211 == 0 {
			rep.Sample(c)
		}
		if modelrun == "" || !corrSelected(c, i, o.Tier) {
			continue
		}
		k.corrOne(c, rep, pub)
	}

	if modelrun != "" {
		rep.CorrEvals += k.frameChecks
		rep.Hist["step:run-frame"] += k.frameChecks
		for _, m := range k.frameBad {
			rep.Mismatch(m)
		}
		if os.Getenv("C14_DUMPREQ") != "" {
			os.WriteFile(os.Getenv("C14_DUMPREQ"), []byte(strings.Join(k.reqs, "\n")+"\n"), 0o644)
		}
		ans, err := hx.ModelEval(modelrun, k.reqs)
		if err != nil {
			rep.HarnessError("%v", err)
		} else {
			for i := range k.reqs {
				rep.CorrEvals++
				rep.Count("step:" + k.class[i])
				switch {
				case ans[i] == "unmod":
					rep.Unmodelled++
				case strings.HasPrefix(ans[i], "driver-error"):
					rep.HarnessError("modelrun: %s on %.300s", ans[i], k.reqs[i])
				case ans[i] != k.want[i]:
					rep.Mismatch(hx.Mismatch{Class: k.class[i], Input: clip(k.reqs[i]), Impl: diffStates(k.want[i], ans[i], true), Model: diffStates(k.want[i], ans[i], false)})
				}
			}
		}
	}
	rep.Write(out)
}

func clip(s string) string {
	if len(s) > 1500 {
		return s[:1500] + "..."
	}
	return s
}

// diffStates: the tokens around the first difference of two answer lines
func diffStates(impl, model string, wantImpl bool) string {
	if len(impl) < 600 && len(model) < 600 {
		if wantImpl {
			return impl
		}
		return model
	}
	a, bb := strings.Fields(impl), strings.Fields(model)
	i := 0
	for i < len(a) && i < len(bb) && a[i] == bb[i] {
		i++
	}
	lo := i - 6
	if lo < 0 {
		lo = 0
	}
	pick := a
	if !wantImpl {
		pick = bb
	}
	hi := i + 8
	if hi > len(pick) {
		hi = len(pick)
	}
	if lo > len(pick) {
		lo = len(pick)
	}
	return fmt.Sprintf("@token %d: ... %s ...", i, strings.Join(pick[lo:hi], " "))
}
