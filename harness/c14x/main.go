package main

import (
	"bytes"
	"fmt"
	"strings"

	"github.com/benhoyt/goawk/interp"
	"github.com/benhoyt/goawk/parser"
)

func run(ip *interp.Interpreter, cfg interp.Config, in string) string {
	var out bytes.Buffer
	cfg.Stdin = strings.NewReader(in)
	cfg.Output = &out
	cfg.Error = &out
	cfg.Environ = []string{}
	st, err := ip.Execute(&cfg)
	return fmt.Sprintf("out=%q status=%d err=%v", out.String(), st, err)
}

func try(name, src string, hist []struct {
	cfg interp.Config
	in  string
}, probe interp.Config, pin string) {
	prog, err := parser.ParseProgram([]byte(src), nil)
	if err != nil {
		panic(err)
	}
	a, _ := interp.New(prog)
	for _, h := range hist {
		fmt.Println("  hist:", run(a, h.cfg, h.in))
	}
	a.ResetVars()
	a.ResetRand()
	ra := run(a, probe, pin)
	b, _ := interp.New(prog)
	rb := run(b, probe, pin)
	fmt.Printf("%s\n  reused: %s\n  fresh:  %s\n  same=%v\n", name, ra, rb, ra == rb)
}

type H = struct {
	cfg interp.Config
	in  string
}

func main() {
	// F-C14-1
	src := `mode=="h" { n++ } mode=="p" { print @"b" } END { if (mode=="p2") print @"b" }`
	try("fieldNames", src, []H{{interp.Config{InputMode: interp.CSVMode, CSVInput: interp.CSVInputConfig{Header: true}, Vars: []string{"mode", "h"}}, "a,b\n1,2\n"}},
		interp.Config{Vars: []string{"mode", "p"}}, "x y\n")
	try("fieldNames-csv-nohdr", src, []H{{interp.Config{InputMode: interp.CSVMode, CSVInput: interp.CSVInputConfig{Header: true}, Vars: []string{"mode", "h"}}, "a,b\n1,2\n"}},
		interp.Config{InputMode: interp.CSVMode, Vars: []string{"mode", "p"}}, "x,y\n")
	try("fieldNames-hdr-empty-input", src, []H{{interp.Config{InputMode: interp.CSVMode, CSVInput: interp.CSVInputConfig{Header: true}, Vars: []string{"mode", "h"}}, "a,b\n1,2\n"}},
		interp.Config{InputMode: interp.CSVMode, CSVInput: interp.CSVInputConfig{Header: true}, Vars: []string{"mode", "p2"}}, "")
	// reparseCSV
	src2 := `BEGIN { if (mode=="p") { getline x; print NF, x; print $1 } } END { if (mode=="h") $0 = "a,b" }`
	try("reparseCSV", src2, []H{{interp.Config{InputMode: interp.CSVMode, Vars: []string{"mode", "h"}}, "q\n"}},
		interp.Config{InputMode: interp.CSVMode, Vars: []string{"mode", "p"}}, "1,2,3\n")
	// exit status, mid function error, for-in
	src3 := `function f(a, arr) { arr[1]=1; if (mode=="e") return substr("x", 1, 1) + $(-1000000000) ; return 1 }
BEGIN { if (mode=="e") { for (k in ENVIRON) ; x = f(1); } if (mode=="x") exit 3; if (mode=="p") { print NR, NF, $0, RSTART, RLENGTH, ARGC, FILENAME, length(ARGV), rand(), srand(), f(2) } }`
	try("exit", src3, []H{{interp.Config{Vars: []string{"mode", "x"}}, ""}}, interp.Config{Vars: []string{"mode", "p"}}, "")
	src4 := `function f(a, arr) { arr[1]=1; getline <"/nonexistent/x" ; $(-5) = 1; return 1 }
BEGIN { if (mode=="e") { x = f(1); } if (mode=="p") { print NR, NF, $0, RSTART, RLENGTH, ARGC, FILENAME, length(ARGV), rand(), srand(), f(2) } }`
	_ = src4
}
