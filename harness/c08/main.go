// C08 harness: CSV/TSV input and output.
//
// Correspondence (implementation vs extracted Coq model):
//   read    - the real csvSplitter under the real bufio.Scanner (through interp.ExecProgram with a
//             chunk-delivering Stdin, and through the VerifCSVScan hook with tiny buffers)
//             vs Model.Csv.read_csv: every record's $0 and fields, header names, final status
//   write   - print in CSV/TSV output mode vs write_record
//   join    - $0 rebuilt after a field assignment vs join_fields
//   reparse - fields after `$0 = s` in CSV input mode vs read_csv with a zero-capacity buffer
//   valid   - acceptance of (separator, comment) by Config / INPUTMODE vs validate_csv_input
//   spec    - the Coq specification rfc_records vs the reference reader of this file
// Search (the property's own equations on the implementation, no model involved):
//   fields = reference RFC 4180 reader; $0 = the record's own bytes; chunked = whole;
//   write -> read round trip; rebuild $0 -> reparse round trip; no panic; separator validation.
// encoding/csv.Reader{LazyQuotes, FieldsPerRecord:-1} is run as a third opinion (histogram only).
package main

import (
	"bufio"
	"bytes"
	"encoding/csv"
	"encoding/json"
	"fmt"
	"io"
	"os"
	"sort"
	"strings"
	"unicode/utf8"

	"github.com/benhoyt/goawk/interp"
	"github.com/benhoyt/goawk/parser"
	"verif/harness/hx"
)

const (
	apiCap = 64 * 1024        // interp.inputBufSize
	apiMax = 10 * 1024 * 1024 // interp.maxRecordLength
)

var bomBytes = []byte{0xEF, 0xBB, 0xBF}

// ---------------------------------------------------------------------------
// running the implementation

type chunkReader struct{ chunks [][]byte }

func (c *chunkReader) Read(p []byte) (int, error) {
	for len(c.chunks) > 0 && len(c.chunks[0]) == 0 {
		c.chunks = c.chunks[1:]
	}
	if len(c.chunks) == 0 {
		return 0, io.EOF
	}
	n := copy(p, c.chunks[0])
	c.chunks[0] = c.chunks[0][n:]
	return n, nil
}

func cloneChunks(ch [][]byte) [][]byte {
	out := make([][]byte, 0, len(ch))
	for _, c := range ch {
		if len(c) > 0 {
			out = append(out, append([]byte(nil), c...))
		}
	}
	return out
}

var funcs = map[string]any{
	"H": func(s string) string { return hx.HexS(s) },
}

const readSrc = `{ printf "R:%s:", H($0); for (i = 1; i <= NF; i++) printf "%s%s", (i > 1 ? "," : ""), H($i); printf ";" }
END { n = 0; for (k in FIELDS) n++; if (n > 0) { printf "H:"; for (i = 1; i <= n; i++) printf "%s%s", (i > 1 ? "," : ""), H(FIELDS[i]); printf ";" } }`

var readProg *parser.Program

func mustParse(src string, fs map[string]any) *parser.Program {
	p, err := parser.ParseProgram([]byte(src), &parser.ParserConfig{Funcs: fs})
	if err != nil {
		panic(fmt.Sprintf("harness program does not parse: %v\n%s", err, src))
	}
	return p
}

type readCase struct {
	Data    []byte
	Chunks  [][]byte
	Sep     rune
	Comment rune
	Header  bool
	Via     string // "api" (ExecProgram, 64 KiB buffer) or "hook" (VerifCSVScan, Cap/Max)
	Cap     int
	Max     int
	Kind    string // generator that produced it (histogram)
}

func (k readCase) line() string {
	h := "0"
	if k.Header {
		h = "1"
	}
	var sb strings.Builder
	fmt.Fprintf(&sb, "read %d %d %s %d %d", k.Sep, k.Comment, h, k.Cap, k.Max)
	for _, c := range k.Chunks {
		if len(c) > 0 {
			sb.WriteByte(' ')
			sb.WriteString(hx.Hex(c))
		}
	}
	return sb.String()
}

// canonical result: "H:n1,n2;" (if a header row was read) then "R:<$0>:<f1>,<f2>;" per record,
// then "|" and the final status.  After a panic only "|panic" (buffered output is lost).
func hexList(fs []string) string {
	hs := make([]string, len(fs))
	for i, f := range fs {
		hs[i] = hx.HexS(f)
	}
	return strings.Join(hs, ",")
}

func runRead(k readCase) (res string) {
	defer func() {
		if r := recover(); r != nil {
			res = "|panic"
		}
	}()
	if k.Via == "hook" {
		recs, names, have, err := interp.VerifCSVScan(&chunkReader{cloneChunks(k.Chunks)}, make([]byte, k.Cap), k.Max, k.Sep, k.Comment, k.Header)
		var sb strings.Builder
		if have {
			sb.WriteString("H:" + hexList(names) + ";")
		}
		for _, r := range recs {
			sb.WriteString("R:" + hx.HexS(r.Token) + ":" + hexList(r.Fields) + ";")
		}
		switch {
		case err == nil:
			sb.WriteString("|eof")
		case err == bufio.ErrTooLong:
			sb.WriteString("|toolong")
		default:
			sb.WriteString("|err:" + err.Error())
		}
		return sb.String()
	}
	var out, errb bytes.Buffer
	mode := interp.CSVMode
	if k.Sep == '\t' {
		mode = interp.TSVMode
	}
	cfg := &interp.Config{Stdin: &chunkReader{cloneChunks(k.Chunks)}, Output: &out, Error: &errb, Funcs: funcs, Environ: []string{},
		InputMode: mode, CSVInput: interp.CSVInputConfig{Separator: k.Sep, Comment: k.Comment, Header: k.Header}}
	_, err := interp.ExecProgram(readProg, cfg)
	s := out.String()
	if i := strings.Index(s, "H:"); i >= 0 {
		s = s[i:] + s[:i]
	}
	switch {
	case err == nil:
		return s + "|eof"
	case strings.Contains(err.Error(), "token too long"):
		return s + "|toolong"
	default:
		return s + "|err:" + err.Error()
	}
}

// ---------------------------------------------------------------------------
// reference reader: RFC 4180 with lenient quotes, written from the grammar with byte offsets.

type refRec struct {
	Fields []string
	Text   string // the record's own bytes without its line terminator ($0)
	End    int    // offset just after the record's terminator in the input
	AtEOF  bool   // ended by the end of the input, not by a line terminator
}

func refRead(data []byte, sep, comment rune) []refRec {
	sepb := []byte(string(sep))
	var comb []byte
	if comment != 0 {
		comb = []byte(string(comment))
	}
	pos := 0
	if bytes.HasPrefix(data, bomBytes) {
		pos = 3
	}
	end := len(data)
	trailCR := end > pos && data[end-1] == '\r' // a lone CR closing the input belongs to no field
	if trailCR {
		end--
	}
	d := data[:end]
	var out []refRec
	for pos < end {
		if comb != nil && bytes.HasPrefix(d[pos:], comb) {
			if i := bytes.IndexByte(d[pos:], '\n'); i >= 0 {
				pos += i + 1
			} else {
				pos = end
			}
			continue
		}
		if d[pos] == '\n' {
			pos++
			continue
		}
		if d[pos] == '\r' && pos+1 < end && d[pos+1] == '\n' {
			pos += 2
			continue
		}
		start := pos
		var fields []string
		crlfInQuotes := false
		textEnd := -1
		atEOF := false
		for textEnd < 0 {
			var f []byte
			more := false // another field follows
			if pos < end && d[pos] == '"' {
				pos++
				for {
					if pos >= end {
						textEnd, atEOF = end, true
						break
					}
					ch := d[pos]
					if ch == '"' {
						rest := d[pos+1:]
						if len(rest) > 0 && rest[0] == '"' {
							f = append(f, '"')
							pos += 2
						} else if bytes.HasPrefix(rest, sepb) {
							pos += 1 + len(sepb)
							more = true
							break
						} else if len(rest) == 0 {
							pos = end
							textEnd, atEOF = end, true
							break
						} else if rest[0] == '\n' {
							textEnd = pos + 1
							pos += 2
							break
						} else if len(rest) >= 2 && rest[0] == '\r' && rest[1] == '\n' {
							textEnd = pos + 1
							pos += 3
							break
						} else {
							f = append(f, '"')
							pos++
						}
					} else if ch == '\r' && pos+1 < end && d[pos+1] == '\n' {
						f = append(f, '\n')
						crlfInQuotes = true
						pos += 2
					} else {
						f = append(f, ch)
						pos++
					}
				}
			} else {
				for {
					if pos >= end {
						textEnd, atEOF = end, true
						break
					}
					if bytes.HasPrefix(d[pos:], sepb) {
						pos += len(sepb)
						more = true
						break
					}
					if d[pos] == '\n' {
						textEnd = pos
						if len(f) > 0 && f[len(f)-1] == '\r' {
							f = f[:len(f)-1]
							textEnd = pos - 1
						}
						pos++
						break
					}
					f = append(f, d[pos])
					pos++
				}
			}
			fields = append(fields, string(f))
			if more {
				textEnd = -1
			}
		}
		text := data[start:textEnd]
		recEnd := pos
		if atEOF {
			if trailCR {
				text = data[start:]
				recEnd = len(data)
			}
			// a quoted field still open at the end of the input may end in a line break: it is
			// the last line's terminator all the same and is not part of $0
			if bytes.HasSuffix(text, []byte("\r\n")) {
				text = text[:len(text)-2]
			} else if bytes.HasSuffix(text, []byte("\n")) {
				text = text[:len(text)-1]
			}
		}
		if crlfInQuotes {
			text = bytes.ReplaceAll(text, []byte{'\r'}, nil)
		}
		out = append(out, refRec{Fields: fields, Text: string(text), End: recEnd, AtEOF: atEOF})
	}
	return out
}

func refString(recs []refRec, header bool) string {
	var sb strings.Builder
	for i, r := range recs {
		if i == 0 && header {
			sb.WriteString("H:" + hexList(r.Fields) + ";")
			continue
		}
		sb.WriteString("R:" + hx.HexS(r.Text) + ":" + hexList(r.Fields) + ";")
	}
	return sb.String() + "|eof"
}

// parsed form of a canonical result
type parsed struct {
	names  string
	toks   []string
	fields []string
	final  string
}

func parseRes(s string) parsed {
	var p parsed
	i := strings.LastIndex(s, "|")
	p.final = s[i+1:]
	for _, ev := range strings.Split(s[:i], ";") {
		if ev == "" {
			continue
		}
		if strings.HasPrefix(ev, "H:") {
			p.names = ev[2:]
			continue
		}
		parts := strings.SplitN(ev[2:], ":", 2)
		p.toks = append(p.toks, parts[0])
		p.fields = append(p.fields, parts[1])
	}
	return p
}

func (p parsed) fieldsKey() string { return p.names + "/" + strings.Join(p.fields, ";") + "|" + p.final }

// ---------------------------------------------------------------------------
// generators

type ioCfg struct {
	Sep, Comment rune
	Header       bool
}

var sepPool = []rune{',', ',', ',', ';', '|', '\t', 'é', '€', 0x1F600, ' ', 'a'}
var commentPool = []rune{0, 0, '#', '#', 'é', ';', 'b', 0x20AC}

func randCfg(r *hx.Rand) ioCfg {
	c := ioCfg{Sep: sepPool[r.Intn(len(sepPool))], Comment: commentPool[r.Intn(len(commentPool))], Header: r.Intn(3) == 0}
	if c.Comment == c.Sep {
		c.Comment = 0
	}
	return c
}

func randPlain(r *hx.Rand) string {
	alpha := []string{"a", "b", "c", "xyz", "1", "é", " ", "\t", "-", "\\.", "€"}
	n := r.Intn(4)
	var sb strings.Builder
	for i := 0; i < n; i++ {
		sb.WriteString(r.Pick(alpha))
	}
	return sb.String()
}

// a CSV-shaped document: rows of plain / quoted fields, line ends of every kind, blank and
// comment lines, optional BOM, optionally damaged afterwards
func genStructured(r *hx.Rand, c ioCfg) []byte {
	var b bytes.Buffer
	if r.Intn(4) == 0 {
		b.Write(bomBytes)
	}
	sep := string(c.Sep)
	rows := r.Intn(4)
	for i := 0; i <= rows; i++ {
		switch r.Intn(8) {
		case 0:
			b.WriteString(r.Pick([]string{"\n", "\r\n", "\n\n"}))
			continue
		case 1:
			if c.Comment != 0 {
				b.WriteString(string(c.Comment) + randPlain(r) + r.Pick([]string{"\n", "\r\n", sep + "\"\n"}))
				continue
			}
		}
		nf := 1 + r.Intn(3)
		for j := 0; j < nf; j++ {
			if j > 0 {
				b.WriteString(sep)
			}
			switch r.Intn(6) {
			case 0:
				// quoted with specials inside
				b.WriteByte('"')
				m := r.Intn(4)
				for q := 0; q < m; q++ {
					b.WriteString(r.Pick([]string{"a", `""`, sep, "\n", "\r\n", "\r", "b", " ", string(c.Comment), "é"}))
				}
				b.WriteByte('"')
			case 1:
				b.WriteString(`"` + randPlain(r) + `"`)
			case 2:
				// lenient: bare quote inside an unquoted or quoted field
				b.WriteString(r.Pick([]string{`a"b`, `"a"b"`, `"a" `, `""`, `"""`, `a""`}))
			default:
				b.WriteString(randPlain(r))
			}
		}
		if i == rows {
			b.WriteString(r.Pick([]string{"\n", "\r\n", "", "", "\r", "\r\r", "\n\r"}))
		} else {
			b.WriteString(r.Pick([]string{"\n", "\n", "\r\n"}))
		}
	}
	d := b.Bytes()
	if r.Intn(5) == 0 && len(d) > 0 {
		// truncate (e.g. inside a quoted field) or damage one byte
		if r.Bool() {
			d = d[:r.Intn(len(d))]
		} else {
			d[r.Intn(len(d))] = []byte{'"', '\n', '\r', 0xEF, 0xC3, ','}[r.Intn(6)]
		}
	}
	return append([]byte(nil), d...)
}

func genHostile(r *hx.Rand, c ioCfg) []byte {
	pieces := []string{"a", "b", `"`, `""`, string(c.Sep), "\n", "\r\n", "\r", " ", "é", "\xEF\xBB\xBF", "\n\xEF\xBB\xBF", "\xEF", "\xEF\xBB", "\xff", "\xc3", "#", ",", "\x00"}
	if c.Comment != 0 {
		pieces = append(pieces, string(c.Comment), "\n"+string(c.Comment))
	}
	n := r.Intn(10)
	var b bytes.Buffer
	if r.Intn(4) == 0 {
		b.Write(bomBytes)
	}
	for i := 0; i < n; i++ {
		b.WriteString(r.Pick(pieces))
	}
	return b.Bytes()
}

func splitAt(d []byte, cuts []int) [][]byte {
	var out [][]byte
	prev := 0
	for _, c := range cuts {
		if c <= prev || c >= len(d) {
			continue
		}
		out = append(out, d[prev:c])
		prev = c
	}
	return append(out, d[prev:])
}

// every composition of d into non-empty chunks (2^(n-1) of them)
func allCompositions(d []byte) [][][]byte {
	n := len(d)
	if n == 0 {
		return [][][]byte{nil}
	}
	var out [][][]byte
	for mask := 0; mask < 1<<(n-1); mask++ {
		var cuts []int
		for i := 0; i < n-1; i++ {
			if mask&(1<<i) != 0 {
				cuts = append(cuts, i+1)
			}
		}
		out = append(out, splitAt(d, cuts))
	}
	return out
}

// whole, every single split point, one byte at a time, and a few random multi-splits
func standardChunkings(r *hx.Rand, d []byte, maxSingle int) [][][]byte {
	out := [][][]byte{{d}}
	n := len(d)
	if n <= 1 {
		return out
	}
	step := 1
	if n-1 > maxSingle {
		step = (n - 1 + maxSingle - 1) / maxSingle
	}
	for i := 1; i < n; i += step {
		out = append(out, splitAt(d, []int{i}))
	}
	ones := make([]int, 0, n-1)
	for i := 1; i < n; i++ {
		ones = append(ones, i)
	}
	out = append(out, splitAt(d, ones))
	for k := 0; k < 2; k++ {
		var cuts []int
		for i := 1; i < n; i++ {
			if r.Intn(4) == 0 {
				cuts = append(cuts, i)
			}
		}
		out = append(out, splitAt(d, cuts))
	}
	return out
}

// ---------------------------------------------------------------------------
// classes of failing inputs (what a known finding is keyed by)

func hasBOM(d []byte) bool { return bytes.HasPrefix(d, bomBytes) }

// offset just after the first record or header row (incl. terminator); len(d) if there is none
func firstRowEnd(d []byte, c ioCfg) int {
	recs := refRead(d, c.Sep, c.Comment)
	if len(recs) == 0 {
		return len(d)
	}
	return recs[0].End
}

// number of bytes buffered at the first call of the split function that sees >= 3 bytes
// (the Scanner calls it after every read; a read delivers at most the free buffer space)
func firstCallWith3(k readCase) int {
	cp, acc := k.Cap, 0
	chunks := cloneChunks(k.Chunks)
	for len(chunks) > 0 {
		if acc == cp {
			if cp >= k.Max {
				return -1
			}
			n := cp * 2
			if n == 0 {
				n = 4096
			}
			if n > k.Max {
				n = k.Max
			}
			cp = n
		}
		n := len(chunks[0])
		if n > cp-acc {
			n = cp - acc
		}
		acc += n
		chunks[0] = chunks[0][n:]
		if len(chunks[0]) == 0 {
			chunks = chunks[1:]
		}
		if acc >= 3 {
			return acc
		}
	}
	return -1
}

// when the split function first sees >= 3 bytes (never at EOF: EOF is only known after a
// further read), is the first row still incomplete, i.e. not yet followed by its newline?
func firstReadInsideFirstRow(k readCase) bool {
	acc := firstCallWith3(k)
	recs := refRead(k.Data, k.Sep, k.Comment)
	if len(recs) == 0 || recs[0].AtEOF {
		return acc >= 0 // only the call at EOF can finish (or rule out) the first row
	}
	return acc >= 0 && acc < recs[0].End
}

// the first record's consumed range reaches within 3 bytes of the buffer capacity
func firstRecordAtCapacity(k readCase) bool {
	e := firstRowEnd(k.Data, ioCfg{k.Sep, k.Comment, k.Header})
	c := k.Cap
	for c < e {
		if c >= k.Max {
			return false
		}
		c *= 2
		if c == 0 {
			c = 4096
		}
		if c > k.Max {
			c = k.Max
		}
	}
	return e > c-3
}

func chunkKind(k readCase) string {
	switch {
	case len(k.Chunks) <= 1:
		return "whole"
	case len(k.Chunks) == 2:
		return "two-reads"
	case len(k.Chunks) == len(k.Data):
		return "byte-at-a-time"
	}
	return "multi"
}

const (
	clsBomFirst   = "leading BOM, no header row: $0 of the first record"
	clsBomPanic   = "leading BOM, no header row: first record ends within 3 bytes of the buffer capacity"
	clsBomSplit   = "leading BOM and the first row is not complete (with its newline) when >= 3 bytes are first buffered"
	clsEmptyRow   = "row is a single empty field"
	clsReadPlain  = "csv input"
	clsReadBOM    = "csv input with leading BOM"
	clsRoundTrip  = "csv output then input"
	orcFields     = "fields = RFC 4180 reader with lenient quotes"
	orcText       = "$0 = the record's own bytes without its line terminator"
	orcNoPanic    = "no panic"
	orcChunkF     = "chunked = whole (fields, header names, status)"
	orcChunkT     = "chunked = whole ($0)"
	orcRoundTrip  = "fields read back = fields printed"
	orcRebuild    = "fields of reparsed rebuilt $0 = fields assigned"
	orcValid      = "separator/comment accepted iff valid"
	orcStatus     = "input is read to the end without error"
)

func readClass(k readCase) string {
	if hasBOM(k.Data) {
		return clsReadBOM
	}
	return clsReadPlain
}

func readDetail(k readCase, want, got string) map[string]any {
	chs := []string{}
	for _, c := range k.Chunks {
		chs = append(chs, hx.Hex(c))
	}
	return map[string]any{"kind": "read", "program": readSrc, "input_hex": hx.Hex(k.Data), "input": fmt.Sprintf("%q", k.Data), "chunks_hex": chs,
		"separator": int(k.Sep), "comment": int(k.Comment), "header": k.Header, "via": k.Via, "cap": k.Cap, "max": k.Max,
		"want": want, "got": got, "model_line": k.line(),
		"format": "H:<header names>; R:<$0 hex>:<field hex,...>; |final"}
}

// oracles on one whole-delivery result
func oracleWhole(k readCase, got string, rep *hx.Report) {
	c := ioCfg{k.Sep, k.Comment, k.Header}
	recs := refRead(k.Data, c.Sep, c.Comment)
	want := refString(recs, c.Header)
	rep.SearchEvals++
	if got == "|panic" {
		cls := readClass(k)
		if hasBOM(k.Data) && !k.Header && firstRecordAtCapacity(k) {
			cls = clsBomPanic
		}
		rep.Fail(hx.Failure{Class: cls, Oracle: orcNoPanic, Detail: readDetail(k, want, got)})
		return
	}
	g, w := parseRes(got), parseRes(want)
	if g.final != "eof" {
		// a record longer than the maximum is the only legitimate error
		if !(g.final == "toolong" && longestRow(recs, k.Data) >= k.Max) {
			rep.Fail(hx.Failure{Class: readClass(k), Oracle: orcStatus, Detail: readDetail(k, want, got)})
		}
		return
	}
	if g.fieldsKey() != w.fieldsKey() {
		cls := readClass(k)
		if hasBOM(k.Data) && firstReadInsideFirstRow(k) {
			cls = clsBomSplit
		}
		rep.Fail(hx.Failure{Class: cls, Oracle: orcFields, Detail: readDetail(k, want, got)})
		return
	}
	for i := range w.toks {
		if g.toks[i] != w.toks[i] {
			cls := readClass(k)
			if i == 0 && hasBOM(k.Data) && !k.Header {
				cls = clsBomFirst
			}
			rep.Fail(hx.Failure{Class: cls, Oracle: orcText, Detail: readDetail(k, want, got)})
			return
		}
	}
}

func longestRow(recs []refRec, d []byte) int {
	m, prev := 0, 0
	for _, r := range recs {
		if r.End-prev > m {
			m = r.End - prev
		}
		prev = r.End
	}
	if len(d)-prev > m {
		m = len(d) - prev
	}
	return m
}

// chunked delivery against whole delivery of the same bytes
func oracleChunk(k readCase, got, whole string, rep *hx.Report) {
	rep.SearchEvals++
	if got == whole {
		return
	}
	if got == "|panic" || whole == "|panic" {
		cls := readClass(k)
		if hasBOM(k.Data) && !k.Header && firstRecordAtCapacity(k) {
			cls = clsBomPanic
		}
		rep.Fail(hx.Failure{Class: cls, Oracle: orcNoPanic, Detail: readDetail(k, whole, got)})
		return
	}
	g, w := parseRes(got), parseRes(whole)
	if g.fieldsKey() != w.fieldsKey() {
		cls := readClass(k)
		if hasBOM(k.Data) && firstReadInsideFirstRow(k) {
			cls = clsBomSplit
		}
		rep.Fail(hx.Failure{Class: cls, Oracle: orcChunkF, Detail: readDetail(k, whole, got)})
		return
	}
	for i := range w.toks {
		if g.toks[i] != w.toks[i] {
			cls := readClass(k)
			if i == 0 && hasBOM(k.Data) && !k.Header {
				cls = clsBomFirst
			}
			rep.Fail(hx.Failure{Class: cls, Oracle: orcChunkT, Detail: readDetail(k, whole, got)})
			return
		}
	}
}

// third opinion: Go's own reader on the same bytes (not an oracle)
func thirdOpinion(k readCase, rep *hx.Report) {
	d := k.Data
	if hasBOM(d) {
		d = d[3:]
	}
	rd := csv.NewReader(bytes.NewReader(d))
	rd.Comma, rd.Comment, rd.LazyQuotes, rd.FieldsPerRecord = k.Sep, k.Comment, true, -1
	recs, err := rd.ReadAll()
	if err != nil {
		rep.Count("third-opinion:encoding/csv returns an error")
		return
	}
	ref := refRead(k.Data, k.Sep, k.Comment)
	same := len(recs) == len(ref)
	for i := 0; same && i < len(ref); i++ {
		same = strings.Join(recs[i], "\x00") == strings.Join(ref[i].Fields, "\x00") && len(recs[i]) == len(ref[i].Fields)
	}
	if same {
		rep.Count("third-opinion:encoding/csv agrees with the reference reader")
	} else {
		rep.Count("spec-question:encoding/csv fields differ from the reference reader")
		if rep.Hist["spec-question:encoding/csv fields differ from the reference reader"] <= 3 {
			rep.Sample(map[string]string{"spec_question_input": fmt.Sprintf("%q sep=%q comment=%q", k.Data, k.Sep, k.Comment),
				"encoding_csv": fmt.Sprintf("%q", recs), "reference": refString(ref, false)})
		}
	}
}

// ---------------------------------------------------------------------------
// output side

type writeCase struct {
	Sep  rune
	Rows [][]string
}

func randField(r *hx.Rand, sep rune, withCR bool) string {
	switch r.Intn(12) {
	case 0:
		return ""
	case 1:
		return r.Pick([]string{" ", " a", "a ", "\t", " x", " y", "\u0085", "\\.", "\\", "."})
	case 2:
		return r.Pick([]string{`"`, `""`, `a"b`, `"a"`, `"`+string(sep), string(sep) + `"`})
	case 3:
		return r.Pick([]string{"\n", "a\nb", "\n\n", "x\n", "\n" + string(sep), `"` + "\n" + `"`})
	case 4:
		return string(sep) + r.Pick([]string{"", "a", string(sep)})
	case 5:
		return r.Pick([]string{"#", "#x", "\xEF\xBB\xBF", "\xEF\xBB\xBFa", "\xff", "\xc3", "\x00"})
	case 6:
		if withCR {
			return r.Pick([]string{"\r", "a\rb", "a\r\nb", "\r\n", "x\r"})
		}
	}
	alpha := []string{"a", "b", "é", " ", "1", ".", "-", string(sep), `"`, "\n", "xyz", "€"}
	n := 1 + r.Intn(5)
	var sb strings.Builder
	for i := 0; i < n; i++ {
		sb.WriteString(r.Pick(alpha))
	}
	return sb.String()
}

func hasCR(rows [][]string) bool {
	for _, row := range rows {
		for _, f := range row {
			if strings.Contains(f, "\r") {
				return true
			}
		}
	}
	return false
}

func outMode(sep rune) (interp.IOMode, interp.CSVOutputConfig) {
	if sep == '\t' {
		return interp.TSVMode, interp.CSVOutputConfig{}
	}
	return interp.CSVMode, interp.CSVOutputConfig{Separator: sep}
}

func inMode(sep rune) (interp.IOMode, interp.CSVInputConfig) {
	if sep == '\t' {
		return interp.TSVMode, interp.CSVInputConfig{}
	}
	return interp.CSVMode, interp.CSVInputConfig{Separator: sep}
}

// print every row in CSV/TSV output mode; returns the bytes written
func runPrint(k writeCase) (out []byte, status string) {
	var sb strings.Builder
	sb.WriteString("BEGIN {\n")
	for i, row := range k.Rows {
		sb.WriteString("  print ")
		for j := range row {
			if j > 0 {
				sb.WriteString(", ")
			}
			fmt.Fprintf(&sb, "A(%d,%d)", i, j)
		}
		sb.WriteString("\n")
	}
	sb.WriteString("}\n")
	fs := map[string]any{"A": func(i, j int) string { return k.Rows[i][j] }}
	mode, oc := outMode(k.Sep)
	rr := hx.RunAwk(sb.String(), &interp.Config{Funcs: fs, Environ: []string{}, OutputMode: mode, CSVOutput: oc}, &parser.ParserConfig{Funcs: fs})
	if rr.Panic != nil {
		return nil, "panic"
	}
	if rr.Err != nil {
		return nil, "err:" + rr.Err.Error()
	}
	return rr.Out, "ok"
}

func printSrc(k writeCase) string {
	return fmt.Sprintf("BEGIN { for each row: print A(row,0), A(row,1), ... } in output mode csv separator=%q; rows_hex in detail", k.Sep)
}

func rowsHex(rows [][]string) [][]string {
	out := make([][]string, len(rows))
	for i, row := range rows {
		out[i] = make([]string, len(row))
		for j, f := range row {
			out[i][j] = hx.HexS(f)
		}
	}
	return out
}

func rowsString(rows [][]string) string {
	var sb strings.Builder
	for _, row := range rows {
		sb.WriteString("R:" + hexList(row) + ";")
	}
	return sb.String()
}

// rebuild $0 by field assignment in CSV output mode, then assign it back in CSV input mode
const rebuildSrc = `BEGIN {
  for (r = 0; r < N; r++) {
    $0 = ""
    n = K(r)
    for (j = 1; j <= n; j++) $j = A(r, j - 1)
    s = $0
    $0 = s
    printf "J:%s:%d:", H(s), NF
    for (j = 1; j <= NF; j++) printf "%s%s", (j > 1 ? "," : ""), H($j)
    printf ";\n"
  }
}`

func runRebuild(k writeCase) ([]string, string) {
	fs := map[string]any{"A": func(i, j int) string { return k.Rows[i][j] }, "K": func(i int) int { return len(k.Rows[i]) },
		"H": func(s string) string { return hx.HexS(s) }}
	om, oc := outMode(k.Sep)
	im, ic := inMode(k.Sep)
	rr := hx.RunAwk(rebuildSrc, &interp.Config{Funcs: fs, Environ: []string{}, Vars: []string{"N", fmt.Sprint(len(k.Rows))},
		OutputMode: om, CSVOutput: oc, InputMode: im, CSVInput: ic}, &parser.ParserConfig{Funcs: fs})
	if rr.Panic != nil {
		return nil, "panic"
	}
	if rr.Err != nil {
		return nil, "err:" + rr.Err.Error()
	}
	lines := strings.Split(strings.TrimSuffix(string(rr.Out), "\n"), "\n")
	if len(k.Rows) == 0 {
		lines = nil
	}
	return lines, "ok"
}

// ---------------------------------------------------------------------------
// getline var in CSV/TSV input mode: the next record goes to the variable, the current
// record keeps its $0, NF, $1..$NF and @"name"

const getlineSrc = `{ printf "R:%s:", H($0); for (i = 1; i <= NF; i++) printf "%s%s", (i > 1 ? "," : ""), H($i); printf ";"
  r = (getline v)
  if (r > 0) {
    printf "G:%s:%s:%d:", H(v), H($0), NF; for (i = 1; i <= NF; i++) printf "%s%s", (i > 1 ? "," : ""), H($i); printf ";"
    if (1 in FIELDS) { x = FIELDS[1]; printf "N:%s;", H(@x) }
  } else printf "E;"
}`

var getlineProg *parser.Program

const clsGetline = "getline var in csv input mode"
const orcGetline = "getline var leaves $0, NF, the fields and @\"name\" of the current record as they were"

func runGetline(k readCase) (res string) {
	defer func() {
		if r := recover(); r != nil {
			res = "|panic"
		}
	}()
	var out, errb bytes.Buffer
	mode := interp.CSVMode
	if k.Sep == '\t' {
		mode = interp.TSVMode
	}
	cfg := &interp.Config{Stdin: &chunkReader{cloneChunks(k.Chunks)}, Output: &out, Error: &errb, Funcs: funcs, Environ: []string{},
		InputMode: mode, CSVInput: interp.CSVInputConfig{Separator: k.Sep, Comment: k.Comment, Header: k.Header}}
	_, err := interp.ExecProgram(getlineProg, cfg)
	if err != nil {
		return out.String() + "|err:" + err.Error()
	}
	return out.String() + "|eof"
}

// what the getline program must print, given the records (header row removed) of the input
func getlineWant(names string, toks, fields []string) string {
	var sb strings.Builder
	for i := 0; i < len(toks); i += 2 {
		sb.WriteString("R:" + toks[i] + ":" + fields[i] + ";")
		if i+1 >= len(toks) {
			sb.WriteString("E;")
			break
		}
		nf := strings.Count(fields[i], ",") + 1
		fmt.Fprintf(&sb, "G:%s:%s:%d:%s;", toks[i+1], toks[i], nf, fields[i])
		if names != "" {
			// @x with x = the first header name: the field at the first position with that name... the
			// name-to-index map takes the LAST column of a repeated name
			hs := strings.Split(names, ",")
			fs := strings.Split(fields[i], ",")
			idx := 0
			for j, h := range hs {
				if h == hs[0] {
					idx = j
				}
			}
			v := "-"
			if idx < len(fs) {
				v = fs[idx]
			}
			sb.WriteString("N:" + v + ";")
		}
	}
	return sb.String() + "|eof"
}

func genGetlineCases(r *hx.Rand) []readCase {
	docs := []string{"a,b\nc,d\ne,f\ng,h\n", "a,b,c\nd\ne,f\ng,h,i,j\nk\n", "a\nb,c,d\ne\nf,g\n", "n1,n2\n1,2\n3\n4,5,6\n7,8\n",
		"x,\"y\nz\"\n\"p\"\"q\",r,s\n\nt\n#u\nv,w\n", "a,b\n", "a,b\nc,d", "h,h\n1,2\n3,4\n", "a,b\r\nc\r\nd,e,f\r\n"}
	var out []readCase
	add := func(d []byte, c ioCfg, kind string) {
		for _, ch := range [][][]byte{{d}, splitAt(d, onesCuts(len(d))), splitAt(d, []int{len(d) / 2})} {
			out = append(out, readCase{Data: d, Chunks: ch, Sep: c.Sep, Comment: c.Comment, Header: c.Header, Via: "api", Cap: apiCap, Max: apiMax, Kind: kind})
		}
	}
	for _, d := range docs {
		for _, c := range []ioCfg{{',', 0, false}, {',', '#', true}} {
			add([]byte(d), c, "getline-seed")
		}
	}
	for i := 0; i < 25; i++ {
		c := randCfg(r)
		add(genStructured(r, c), c, "getline-structured")
	}
	return out
}

func onesCuts(n int) []int {
	var cuts []int
	for i := 1; i < n; i++ {
		cuts = append(cuts, i)
	}
	return cuts
}

// ---------------------------------------------------------------------------
// where a row goes: every kind of print destination in CSV/TSV output mode

type destCase struct {
	Kind string // see destKinds
	Sep  rune
	Rows [][]string
	Pre  string // what the file holds before ">>"
	Name string // which row set
}

var destKinds = []string{"stdout bytes.Buffer", "stdout *bufio.Writer 65536", "stdout *bufio.Writer 4096", "stdout *bufio.Writer 16",
	"stdout *bufio.Writer 4095", "stdout Flush-method writer", "stdout *os.File", "print > file", "print >> file", "print | cat > file", "interleaved stdout / > file"}

const clsSmallBufio = "CSV output to a *bufio.Writer smaller than 4096 bytes"

// a writer with a Flush method that is not a *bufio.Writer
type flushWriter struct{ w *bufio.Writer }

func (f *flushWriter) Write(p []byte) (int, error) { return f.w.Write(p) }
func (f *flushWriter) Flush() error                { return f.w.Flush() }

func (k destCase) toFile(i int) bool {
	switch k.Kind {
	case "print > file", "print >> file", "print | cat > file":
		return true
	case "interleaved stdout / > file":
		return i%2 == 1
	}
	return false
}

func (k destCase) src() string {
	var sb strings.Builder
	sb.WriteString("BEGIN {\n")
	for i, row := range k.Rows {
		sb.WriteString("  print ")
		for j := range row {
			if j > 0 {
				sb.WriteString(", ")
			}
			fmt.Fprintf(&sb, "A(%d,%d)", i, j)
		}
		if k.toFile(i) {
			switch k.Kind {
			case "print >> file":
				sb.WriteString(" >> P")
			case "print | cat > file":
				sb.WriteString(" | C")
			default:
				sb.WriteString(" > P")
			}
		}
		sb.WriteString("\n")
	}
	sb.WriteString("}\n")
	return sb.String()
}

// runDest: what reached standard output and what reached the file, after the run
func runDest(k destCase) (stdout, file []byte, status string) {
	defer func() {
		if r := recover(); r != nil {
			status = fmt.Sprintf("panic: %v", r)
		}
	}()
	dir, err := os.MkdirTemp("", "c08dest")
	if err != nil {
		return nil, nil, "harness: " + err.Error()
	}
	defer os.RemoveAll(dir)
	path := dir + "/out.csv"
	if k.Kind == "print >> file" {
		if err := os.WriteFile(path, []byte(k.Pre), 0o644); err != nil {
			return nil, nil, "harness: " + err.Error()
		}
	}
	fs := map[string]any{"A": func(i, j int) string { return k.Rows[i][j] }}
	prog, err := parser.ParseProgram([]byte(k.src()), &parser.ParserConfig{Funcs: fs})
	if err != nil {
		return nil, nil, "harness: parse: " + err.Error()
	}
	mode, oc := outMode(k.Sep)
	var buf, errb bytes.Buffer
	cfg := &interp.Config{Funcs: fs, Environ: []string{}, OutputMode: mode, CSVOutput: oc, Error: &errb, Stdin: strings.NewReader(""),
		Vars: []string{"P", path, "C", "cat > '" + path + "'"}}
	var after func()
	switch k.Kind {
	case "stdout *bufio.Writer 65536", "stdout *bufio.Writer 4096", "stdout *bufio.Writer 16", "stdout *bufio.Writer 4095":
		var n int
		fmt.Sscanf(k.Kind, "stdout *bufio.Writer %d", &n)
		w := bufio.NewWriterSize(&buf, n)
		cfg.Output = w
		after = func() { w.Flush() }
	case "stdout Flush-method writer":
		cfg.Output = &flushWriter{bufio.NewWriterSize(&buf, 64)}
	case "stdout *os.File":
		f, err := os.Create(dir + "/stdout")
		if err != nil {
			return nil, nil, "harness: " + err.Error()
		}
		cfg.Output = f
		after = func() {
			f.Close()
			b, _ := os.ReadFile(dir + "/stdout")
			buf.Write(b)
		}
	default:
		cfg.Output = &buf
	}
	_, err = interp.ExecProgram(prog, cfg)
	if after != nil {
		after()
	}
	if err != nil {
		return buf.Bytes(), nil, "err: " + err.Error()
	}
	file, _ = os.ReadFile(path)
	if errb.Len() > 0 {
		return buf.Bytes(), file, "stderr: " + errb.String()
	}
	return buf.Bytes(), file, "ok"
}

// the model requests: one per destination that received rows
func (k destCase) modelLines() (stdoutLine, fileLine string) {
	flag, layers := "0", "-"
	switch k.Kind {
	case "stdout *bufio.Writer 65536", "stdout *bufio.Writer 4096", "stdout *bufio.Writer 16", "stdout *bufio.Writer 4095":
		flag, layers = "1", strings.TrimPrefix(k.Kind, "stdout *bufio.Writer ")
	case "stdout Flush-method writer":
		layers = "64"
	}
	var so, fo strings.Builder
	fmt.Fprintf(&so, "emit %d 0 %s %s -", k.Sep, flag, layers)
	fmt.Fprintf(&fo, "emit %d 0 0 65536 %s", k.Sep, hx.HexS(k.Pre)) // outFileStream / outCmdStream: a 64 KiB bufio.Writer
	for i, row := range k.Rows {
		b := &so
		if k.toFile(i) {
			b = &fo
		}
		b.WriteString(" /")
		for _, f := range row {
			b.WriteString(" " + hx.HexS(f))
		}
	}
	return so.String(), fo.String()
}

func (k destCase) detail(want, got string) map[string]any {
	return map[string]any{"kind": "dest", "destination": k.Kind, "rowset": k.Name, "program": k.src(), "separator": int(k.Sep), "rows_hex": rowsHex(k.Rows),
		"rows": trunc(fmt.Sprintf("%q", k.Rows)), "pre_hex": hx.HexS(k.Pre), "want": trunc(want), "got": trunc(got),
		"note": "A(i,j) = field j of row i; P = a temporary file, C = \"cat > P\"; want/got = the rows read back in CSV/TSV input mode from standard output (S:) and from the file (F:)"}
}

func (k destCase) class() string {
	if k.Kind == "stdout *bufio.Writer 16" || k.Kind == "stdout *bufio.Writer 4095" {
		return clsSmallBufio
	}
	return "csv output to " + k.Kind
}

// the rows that must be read back from standard output and from the file
func (k destCase) wantRows() (so, fo [][]string) {
	if k.Pre != "" {
		for _, r := range refRead([]byte(k.Pre), k.Sep, 0) {
			fo = append(fo, r.Fields)
		}
	}
	for i, row := range k.Rows {
		if k.toFile(i) {
			fo = append(fo, row)
		} else {
			so = append(so, row)
		}
	}
	return
}

func readBackRows(data []byte, sep rune) string {
	if len(data) == 0 {
		return "|eof"
	}
	p := parseRes(runRead(readCase{Data: data, Chunks: [][]byte{data}, Sep: sep, Via: "api", Cap: apiCap, Max: apiMax}))
	var sb strings.Builder
	for _, f := range p.fields {
		sb.WriteString("R:" + f + ";")
	}
	return sb.String() + "|" + p.final
}

// search oracle: every row printed to a destination is read back from it, in order
func oracleDest(k destCase, stdout, file []byte, status string, rep *hx.Report) {
	rep.SearchEvals++
	so, fo := k.wantRows()
	want := "S:" + rowsString(so) + "|eof F:" + rowsString(fo) + "|eof"
	if status != "ok" {
		orc := orcStatus
		if strings.HasPrefix(status, "panic") {
			orc = orcNoPanic
		}
		rep.Fail(hx.Failure{Class: k.class(), Oracle: orc, Detail: k.detail(want, status)})
		return
	}
	got := "S:" + readBackRows(stdout, k.Sep) + " F:" + readBackRows(file, k.Sep)
	if got != want {
		rep.Fail(hx.Failure{Class: k.class(), Oracle: orcRoundTrip, Detail: k.detail(want, got)})
	}
}

func genDestCases(r *hx.Rand, thorough bool) []destCase {
	big := func(n int) string { return strings.Repeat("x", n) }
	type rs struct {
		name string
		rows [][]string
		all  bool // through every destination kind (else only the main ones: large rows are slow in the model)
	}
	sets := []rs{
		{"one row", [][]string{{"a", "b"}}, true},
		{"lone empty field", [][]string{{""}}, true},
		{"lone empty field between rows", [][]string{{"a"}, {""}, {"b", "c d"}, {""}}, true},
		{"ten rows", [][]string{{"1", "a"}, {"2", "b"}, {"3", "c"}, {"4", "d"}, {"5", "e"}, {"6", "f"}, {"7", "g"}, {"8", "h"}, {"9", "i"}, {"10", "j"}}, true},
		{"quotes separators line breaks", [][]string{{"a,b", "c\"d", "e\nf"}, {" x", "\t", ""}, {"\n"}, {"", ""}}, true},
		{"row of 4095 bytes", [][]string{{big(4092), "y"}, {"z"}}, true},
		{"row of 4097 bytes", [][]string{{big(4094), "y"}, {""}, {"z"}}, true},
		{"row of 5000 bytes", [][]string{{"k"}, {big(5000), "y"}, {"z"}}, true},
		{"row of 70000 bytes", [][]string{{"k"}, {big(70000), "y"}, {""}, {"z"}}, false},
		{"two rows of 40000 bytes", [][]string{{big(40000)}, {big(40000), "q"}, {"z"}}, false},
	}
	n := 3
	if thorough {
		n = 40
	}
	for i := 0; i < n; i++ {
		nr := 1 + r.Intn(5)
		rows := make([][]string, nr)
		for a := range rows {
			nf := 1 + r.Intn(3)
			for b := 0; b < nf; b++ {
				rows[a] = append(rows[a], strings.ReplaceAll(randField(r, ',', false), "\xEF\xBB\xBF", "B"))
			}
		}
		sets = append(sets, rs{fmt.Sprintf("random %d", i), rows, true})
	}
	var out []destCase
	for si, set := range sets {
		for _, kind := range destKinds {
			main := kind == "stdout bytes.Buffer" || kind == "stdout *bufio.Writer 65536" || kind == "print > file" || kind == "interleaved stdout / > file"
			if !set.all && !main && !(kind == "print | cat > file" && si%2 == 0) {
				continue
			}
			if kind == "print | cat > file" && !thorough && si%3 != 0 && set.all {
				continue // a process per case: only some row sets in the quick tier
			}
			sep := []rune{',', '\t', ';'}[(si+len(kind))%3]
			k := destCase{Kind: kind, Sep: sep, Rows: set.rows, Name: set.name}
			if kind == "print >> file" {
				k.Pre = "p" + string(sep) + "q\n"
			}
			out = append(out, k)
		}
	}
	return out
}

// ---------------------------------------------------------------------------
// separator validation

type validCase struct {
	Sep, Comment rune
	ViaVar       bool // through INPUTMODE="csv separator=.. comment=.." instead of Config
}

func runValid(k validCase) string {
	var rr hx.RunResult
	if k.ViaVar {
		m := "csv separator=" + string(k.Sep)
		if k.Comment != 0 {
			m += " comment=" + string(k.Comment)
		}
		rr = hx.RunAwk(`BEGIN { INPUTMODE = M }`, &interp.Config{Funcs: map[string]any{}, Environ: []string{}, Vars: []string{"M", m}}, nil)
	} else {
		rr = hx.RunAwk(`BEGIN { }`, &interp.Config{Environ: []string{}, InputMode: interp.CSVMode,
			CSVInput: interp.CSVInputConfig{Separator: k.Sep, Comment: k.Comment}}, nil)
	}
	switch {
	case rr.Panic != nil:
		return "panic"
	case rr.Err == nil:
		return "1"
	case strings.Contains(rr.Err.Error(), "invalid CSV field separator or comment delimiter"):
		return "0"
	}
	return "err:" + rr.Err.Error()
}

func specValid(sep, comment rune) bool {
	ok := func(r rune) bool {
		return r != 0 && r != '"' && r != '\r' && r != '\n' && r != 0xFFFD && r >= 0 && r <= 0x10FFFF && !(r >= 0xD800 && r <= 0xDFFF)
	}
	return ok(sep) && (comment == 0 || ok(comment)) && sep != comment
}

// ---------------------------------------------------------------------------

type spec struct{ cfg ioCfg; data []byte }

func main() {
	o := hx.ParseFlags()
	readProg = mustParse(readSrc, funcs)
	getlineProg = mustParse(getlineSrc, funcs)
	if o.Replay != "" {
		os.Exit(replay(o))
	}
	rep := hx.NewReport("C08", o.Seed, o.Tier)
	rep.Rule = "read: every string of length <= 4 (5 in thorough) over {a , \" LF CR} under every chunking, the same with a BOM in front, CSV-shaped and hostile random documents (7 separators incl. 2-4 byte ones, 5 comment characters, header on/off, BOM, all line-end kinds, truncation) x {whole, each single split, byte-at-a-time, random multi-split} through ExecProgram, the same documents through the VerifCSVScan hook with buffers of 1..16 bytes, and documents around the 64 KiB buffer size; write/join/reparse: random rows over hostile field values; distinct = distinct model request line; non-trivial = non-empty input"
	r := hx.NewRand(o.Seed)
	thorough := o.Tier == "thorough"

	// ---- read cases, grouped per (config, data): index 0 of a group is the whole delivery ----
	var reads []readCase
	var groups [][]int
	addGroup := func(c ioCfg, d []byte, chunkings [][][]byte, via string, cp, mx int, kind string) {
		var g []int
		for _, ch := range chunkings {
			g = append(g, len(reads))
			reads = append(reads, readCase{Data: d, Chunks: ch, Sep: c.Sep, Comment: c.Comment, Header: c.Header, Via: via, Cap: cp, Max: mx, Kind: kind})
		}
		groups = append(groups, g)
	}
	// exhaustive small strings
	alpha := []byte{'a', ',', '"', '\n', '\r'}
	maxLen := 4
	if thorough {
		maxLen = 6
	}
	var small [][]byte
	var rec func(cur []byte)
	rec = func(cur []byte) {
		small = append(small, append([]byte(nil), cur...))
		if len(cur) == maxLen {
			return
		}
		for _, a := range alpha {
			rec(append(cur, a))
		}
	}
	rec(nil)
	for _, s := range small {
		c := ioCfg{Sep: ',', Header: false}
		if len(s) <= 4 || thorough && len(s) <= 5 {
			addGroup(c, s, allCompositions(s), "api", apiCap, apiMax, "exhaustive")
		} else {
			addGroup(c, s, [][][]byte{{s}}, "api", apiCap, apiMax, "exhaustive")
		}
		if len(s) <= 3 {
			withBom := append(append([]byte(nil), bomBytes...), s...)
			for _, h := range []bool{false, true} {
				addGroup(ioCfg{Sep: ',', Header: h}, withBom, standardChunkings(r, withBom, 100), "api", apiCap, apiMax, "exhaustive-bom")
			}
			addGroup(ioCfg{Sep: ',', Header: true}, s, allCompositions(s), "api", apiCap, apiMax, "exhaustive-header")
		}
	}
	// hand-written seeds (the encoding/csv table shapes, the inputs of the repaired BOM defects F-C08-1/2/4, a BOM in mid-file)
	seeds := []string{"\xEF\xBB\xBFa,b\nc,d\n", "\xEF\xBB\xBFa,b\n", "\xEF\xBB\xBF\"a\nb\",c\nd\n", "\xEF\xBB\xBF#x\na,b\nc\n", "\xEF\xBB\xBF\n\na\nb\n",
		"a,b\r", "\"a\r\nb\"\rc\r\nd", "a,\"b\"\"c\",d\n", "a,\"b\nc\"d,e\n", "#c\n\n\r\na\n", "a, \"b\"\n", "\"a \"\"b\"\" c\"\n", "a\"b,c\n", "\"a\"b\",c\n",
		"1,alice\n\xEF\xBB\xBF2,bob\n3,carol\n", "x\n\xEF\xBB\xBF\"p,q\",r\ny\n", "#c\n\xEF\xBB\xBFa\nb\n", "\"abc", "\"abc\r", "a,b,\n", ",\n", "\"\"\n", "\"\",\"\"\r\n", "x,\"y\r\n\r\nz\"\r\n", "\xEF\xBB", "\xEF\xBB\xBF", "\xEF\xBB\xBF\r", "§,é\n"}
	for _, s := range seeds {
		for _, c := range []ioCfg{{',', 0, false}, {',', '#', false}, {',', '#', true}} {
			addGroup(c, []byte(s), standardChunkings(r, []byte(s), 100), "api", apiCap, apiMax, "seed")
			addGroup(c, []byte(s), standardChunkings(r, []byte(s), 100), "hook", 4, 64, "seed-hook")
		}
	}
	// around the buffer size (64 KiB): growth, compaction and the BOM capacity overrun
	big := func(n int) []byte { return bytes.Repeat([]byte("x"), n) }
	var bigDocs [][]byte
	for _, n := range []int{apiCap - 8, apiCap - 5, apiCap - 4, apiCap - 3, apiCap - 1} {
		bigDocs = append(bigDocs, append(append(append([]byte(nil), bomBytes...), big(n-3)...), "\nc,d\n"...))
	}
	bigDocs = append(bigDocs,
		append(append(big(apiCap-2), ",y\n"...), "p,q\n"...),
		append(append([]byte("a,b\n"), append(big(apiCap/2+10), '\n')...), append(big(apiCap/2+10), "\nz\n"...)...),
		append(append([]byte("\xEF\xBB\xBFa,b\n"), big(2*apiCap)...), "\nlast\n"...))
	for _, d := range bigDocs {
		chs := [][][]byte{{d}, splitAt(d, []int{len(d) / 2}), splitAt(d, []int{apiCap - 7, apiCap + 1})}
		addGroup(ioCfg{Sep: ','}, d, chs, "api", apiCap, apiMax, "around-buffer-size")
	}

	nRandom := 200
	if o.N > 0 {
		nRandom = o.N
	}
	if thorough {
		nRandom *= 30
	}
	for i := 0; i < nRandom; i++ {
		c := randCfg(r)
		var d []byte
		kind := "structured"
		if r.Intn(3) == 0 {
			d, kind = genHostile(r, c), "hostile"
		} else {
			d = genStructured(r, c)
		}
		addGroup(c, d, standardChunkings(r, d, 40), "api", apiCap, apiMax, kind)
		// the same splitter under tiny buffers: compaction, growth, ErrTooLong, stale bytes
		cp := []int{0, 1, 2, 3, 4, 5, 8, 16}[r.Intn(8)]
		mx := []int{8, 16, 64, 4096}[r.Intn(4)]
		addGroup(c, d, standardChunkings(r, d, 12), "hook", cp, mx, kind+"-hook")
	}
	readImpl := make([]string, len(reads))
	lines := make([]string, 0, len(reads))
	for i, k := range reads {
		readImpl[i] = runRead(k)
		lines = append(lines, k.line())
	}

	// ---- spec cases: Coq rfc_records vs the reference reader (one per group) ----
	specStart := len(lines)
	var specs []spec
	for _, g := range groups {
		k := reads[g[0]]
		d := k.Data
		if len(d) > 4096 {
			d = d[:4096] // the specification function is quadratic (appends at the end); keep it short
		}
		specs = append(specs, spec{ioCfg{k.Sep, k.Comment, k.Header}, d})
		lines = append(lines, fmt.Sprintf("rfc %d %d %s", k.Sep, k.Comment, hx.Hex(d)))
	}

	// ---- the two reference formulations the theorems are stated about (inputs with a leading
	// BOM included: since the BOM repairs $0 no longer depends on the buffer) ----
	areadStart := len(lines)
	var areadIdx []int
	for i, k := range reads {
		if len(k.Data) <= 4096 {
			areadIdx = append(areadIdx, i)
			l := strings.Replace(k.line(), "read ", "aread ", 1)
			// aread has no buffer parameters: drop cap and max
			parts := strings.SplitN(l, " ", 7)
			l = strings.Join(append(parts[:4], parts[6:]...), " ")
			lines = append(lines, l)
		}
	}
	readallStart := len(lines)
	var readallIdx []int
	for _, g := range groups {
		k := reads[g[0]]
		if len(k.Data) <= 4096 {
			readallIdx = append(readallIdx, g[0])
			h := "0"
			if k.Header {
				h = "1"
			}
			lines = append(lines, fmt.Sprintf("readall %d %d %s %s", k.Sep, k.Comment, h, hx.Hex(k.Data)))
		}
	}

	// ---- write / join / reparse ----
	nWrite := 120
	if thorough {
		nWrite *= 30
	}
	var writes []writeCase
	fixedRows := [][][]string{{{""}}, {{"", ""}}, {{"a"}, {""}, {"b"}}, {{"#x", "y"}}, {{" a", "b "}}, {{"\\."}}, {{"a,b", "c\"d", "e\nf"}}, {{"\xEF\xBB\xBFa", "b"}},
		{{"a\r\nb"}}, {{"\r"}}, {}, {{"x"}, {"\xEF\xBB\xBFy"}}, {{"\"\n\""}}, {{"\n"}}, {{"é", "€"}}}
	for _, rows := range fixedRows {
		for _, sep := range []rune{',', '\t', ';', 'é'} {
			writes = append(writes, writeCase{sep, rows})
		}
	}
	for i := 0; i < nWrite; i++ {
		sep := sepPool[r.Intn(len(sepPool))]
		withCR := r.Intn(5) == 0
		nr := 1 + r.Intn(4)
		rows := make([][]string, nr)
		for a := range rows {
			nf := 1 + r.Intn(4)
			for b := 0; b < nf; b++ {
				rows[a] = append(rows[a], randField(r, sep, withCR))
			}
		}
		writes = append(writes, writeCase{sep, rows})
	}
	type wres struct {
		out      []byte
		status   string
		rb       string // read back
		rebuild  []string
		rstatus  string
		wStart   int // first model line of this case
		joinAt   int
		reparseN int
	}
	wr := make([]wres, len(writes))
	for i, k := range writes {
		w := &wr[i]
		w.out, w.status = runPrint(k)
		w.wStart = len(lines)
		for _, row := range k.Rows {
			l := fmt.Sprintf("write %d 0", k.Sep)
			for _, f := range row {
				l += " " + hx.HexS(f)
			}
			lines = append(lines, l)
		}
		if w.status == "ok" {
			w.rb = runRead(readCase{Data: w.out, Chunks: [][]byte{w.out}, Sep: k.Sep, Via: "api", Cap: apiCap, Max: apiMax})
		}
		w.rebuild, w.rstatus = runRebuild(k)
		w.joinAt = len(lines)
		for ri, row := range k.Rows {
			l := fmt.Sprintf("join %d 0", k.Sep)
			for _, f := range row {
				l += " " + hx.HexS(f)
			}
			lines = append(lines, l)
			// reparse of the joined text as the implementation produced it
			joined := ""
			if w.rstatus == "ok" && ri < len(w.rebuild) {
				parts := strings.SplitN(w.rebuild[ri], ":", 4)
				if len(parts) == 4 {
					joined = string(hx.UnHex(parts[1]))
				}
			}
			lines = append(lines, readCase{Chunks: [][]byte{[]byte(joined)}, Sep: k.Sep, Cap: 0, Max: apiMax}.line())
		}
	}

	// ---- getline var ----
	getlines := genGetlineCases(r)
	getlineImpl := make([]string, len(getlines))
	getlineAt := len(lines)
	for i, k := range getlines {
		getlineImpl[i] = runGetline(k)
		lines = append(lines, k.line())
	}

	// ---- output destinations ----
	dests := genDestCases(r, thorough)
	type dres struct {
		stdout, file []byte
		status       string
		soAt, foAt   int
	}
	dr := make([]dres, len(dests))
	for i, k := range dests {
		d := &dr[i]
		d.stdout, d.file, d.status = runDest(k)
		sl, fl := k.modelLines()
		d.soAt = len(lines)
		lines = append(lines, sl)
		d.foAt = len(lines)
		lines = append(lines, fl)
	}

	// ---- separator validation ----
	var valids []validCase
	runes := []rune{0, '"', '\r', '\n', ',', '#', '\t', ' ', 'a', 0x7F, 0x80, 0xE9, 0x7FF, 0x800, 0xD7FF, 0xD800, 0xDFFF, 0xE000, 0xFFFD, 0xFFFE, 0xFFFF, 0x10000, 0x10FFFF, 0x110000, -1, 0x7FFFFFFF}
	for _, s := range runes {
		for _, c := range runes {
			if s != 0 { // Separator 0 in Config means "default", it never reaches the validation
				valids = append(valids, validCase{s, c, false})
			}
			if utf8.ValidRune(s) && utf8.ValidRune(c) && s != ' ' && c != ' ' && s != '\t' && c != '\t' && s != '\n' && c != '\n' &&
				s != '\r' && c != '\r' && s != 0x85 && s != 0xA0 && s != 0xFFFD && c != 0xFFFD && s != 0 {
				// through the INPUTMODE variable: only what survives strings.Fields and DecodeRune
				valids = append(valids, validCase{s, c, true})
			}
		}
	}
	validStart := len(lines)
	for _, v := range valids {
		lines = append(lines, fmt.Sprintf("validcfg %d %d", v.Sep, v.Comment))
	}

	model, err := hx.ModelEval(o.ModelRun, lines)
	if err != nil {
		rep.HarnessError("%v", err)
		model = nil
	}

	// ---- evaluate: reads ----
	for i, k := range reads {
		rep.CorrEvals++
		rep.Count("read:" + k.Kind + ":" + chunkKind(k))
		if hasBOM(k.Data) {
			rep.Count("read-feature:leading BOM")
		}
		if len(k.Data) > 0 {
			rep.Distinct(lines[i])
		}
		if i%1499 == 0 {
			rep.Sample(map[string]string{"request": trunc(lines[i]), "impl": trunc(readImpl[i])})
		}
		if model != nil && model[i] != readImpl[i] {
			m, g := model[i], readImpl[i]
			if strings.HasSuffix(m, "|panic") && g == "|panic" {
				continue // after a panic the buffered output of the implementation is lost
			}
			rep.Mismatch(hx.Mismatch{Class: "read/" + k.Via + "/" + readClass(k), Input: trunc(lines[i]), Impl: trunc(g), Model: trunc(m)})
		}
	}
	for j, i := range areadIdx {
		rep.CorrEvals++
		if model != nil && model[areadStart+j] != readImpl[i] && !strings.HasSuffix(readImpl[i], "|toolong") {
			rep.Mismatch(hx.Mismatch{Class: "abstract scanner loop (arun)", Input: trunc(lines[areadStart+j]), Impl: trunc(readImpl[i]), Model: trunc(model[areadStart+j])})
		}
	}
	for j, i := range readallIdx {
		rep.CorrEvals++
		if model != nil && model[readallStart+j] != readImpl[i] && !strings.HasSuffix(readImpl[i], "|toolong") {
			rep.Mismatch(hx.Mismatch{Class: "whole-input reader (read_file)", Input: trunc(lines[readallStart+j]), Impl: trunc(readImpl[i]), Model: trunc(model[readallStart+j])})
		}
	}
	for gi, g := range groups {
		k0 := reads[g[0]]
		whole := readImpl[g[0]]
		if k0.Via == "api" || k0.Max >= 4096 {
			oracleWhole(k0, whole, rep)
		}
		if k0.Via == "api" && len(k0.Data) < 4096 {
			thirdOpinion(k0, rep)
		}
		for _, idx := range g[1:] {
			k := reads[idx]
			if parseRes(whole).final == "toolong" || parseRes(readImpl[idx]).final == "toolong" {
				continue // hook runs with a tiny maximum: outside the property (records fit)
			}
			oracleChunk(k, readImpl[idx], whole, rep)
		}
		// spec = reference reader
		rep.CorrEvals++
		if model != nil {
			sp := specs[gi]
			want := refString(refRead(sp.data, sp.cfg.Sep, sp.cfg.Comment), false)
			if model[specStart+gi]+"eof" != want {
				rep.Mismatch(hx.Mismatch{Class: "spec/rfc_records vs reference reader", Input: trunc(lines[specStart+gi]), Impl: trunc(want), Model: trunc(model[specStart+gi])})
			}
		}
	}

	// ---- evaluate: writes ----
	for i, k := range writes {
		w := wr[i]
		rep.Count("write:rows")
		cr := hasCR(k.Rows)
		if cr {
			rep.Count("write:rows with CR (outside the round-trip property)")
		}
		detail := func(want, got string) map[string]any {
			return map[string]any{"kind": "write", "program": printSrc(k), "separator": int(k.Sep), "rows_hex": rowsHex(k.Rows),
				"rows": fmt.Sprintf("%q", k.Rows), "written_hex": hx.Hex(w.out), "written": fmt.Sprintf("%q", w.out), "want": want, "got": got}
		}
		// correspondence: bytes written
		rep.CorrEvals++
		rep.Distinct(fmt.Sprintf("write %d %q", k.Sep, k.Rows))
		if model != nil {
			var mb []byte
			bad := false
			for ri := range k.Rows {
				a := model[w.wStart+ri]
				if !strings.HasPrefix(a, "ok ") {
					bad = true
					break
				}
				mb = append(mb, hx.UnHex(a[3:])...)
			}
			if bad || w.status != "ok" || !bytes.Equal(mb, w.out) {
				rep.Mismatch(hx.Mismatch{Class: "write", Input: fmt.Sprintf("sep=%q rows=%q", k.Sep, k.Rows), Impl: w.status + " " + hx.Hex(w.out), Model: hx.Hex(mb)})
			}
		}
		// search: round trip
		rep.SearchEvals++
		if w.status == "panic" {
			rep.Fail(hx.Failure{Class: clsRoundTrip, Oracle: orcNoPanic, Detail: detail("output", "panic")})
		} else if !cr && w.status == "ok" {
			guarded := len(k.Rows) > 0 && len(k.Rows[0]) > 0 && strings.HasPrefix(k.Rows[0][0], "\xEF\xBB\xBF")
			if guarded {
				rep.Count("write:first field of the output starts with BOM bytes (guard, not judged)")
			} else {
				want := rowsString(k.Rows) + "|eof"
				p := parseRes(w.rb)
				got := ""
				for _, f := range p.fields {
					got += "R:" + f + ";"
				}
				got += "|" + p.final
				if w.rb == "|panic" {
					got = "|panic"
				}
				if got != want {
					cls := clsRoundTrip
					if onlyEmptyRowsLost(k.Rows, p.fields) {
						cls = clsEmptyRow
					}
					rep.Fail(hx.Failure{Class: cls, Oracle: orcRoundTrip, Detail: detail(want, got)})
				}
			}
		}
		// rebuild -> reparse
		if w.rstatus != "ok" || len(w.rebuild) != len(k.Rows) {
			rep.SearchEvals++
			rep.Fail(hx.Failure{Class: clsRoundTrip, Oracle: orcNoPanic, Detail: detail("rebuild output", w.rstatus)})
			continue
		}
		for ri, row := range k.Rows {
			parts := strings.SplitN(strings.TrimSuffix(w.rebuild[ri], ";"), ":", 4)
			if len(parts) != 4 {
				rep.HarnessError("bad rebuild line %q", w.rebuild[ri])
				continue
			}
			rep.CorrEvals += 2
			if model != nil {
				if a := model[w.joinAt+2*ri]; a != "ok "+parts[1] {
					rep.Mismatch(hx.Mismatch{Class: "join", Input: lines[w.joinAt+2*ri], Impl: parts[1], Model: a})
				}
				// reparse: first record of the model run, or NF = 0
				mp := parseRes(model[w.joinAt+2*ri+1])
				mgot := "0:"
				if len(mp.fields) > 0 {
					mgot = fmt.Sprintf("%d:%s", strings.Count(mp.fields[0], ",")+1, mp.fields[0])
				}
				if mp.final == "panic" {
					mgot = "panic"
				}
				if mgot != parts[2]+":"+parts[3] {
					rep.Mismatch(hx.Mismatch{Class: "reparse", Input: lines[w.joinAt+2*ri+1], Impl: parts[2] + ":" + parts[3], Model: mgot})
				}
			}
			rep.SearchEvals++
			if strings.Contains(strings.Join(row, ""), "\r") {
				continue
			}
			if len(row) > 0 && strings.HasPrefix(row[0], "\xEF\xBB\xBF") {
				rep.Count("rebuild:first field starts with BOM bytes (guard, not judged)")
				continue
			}
			want := fmt.Sprintf("%d:%s", len(row), hexList(row))
			if got := parts[2] + ":" + parts[3]; got != want {
				cls := clsRoundTrip
				if len(row) == 1 && row[0] == "" {
					cls = clsEmptyRow
				}
				rep.Fail(hx.Failure{Class: cls, Oracle: orcRebuild, Detail: map[string]any{"kind": "rebuild", "program": rebuildSrc, "separator": int(k.Sep),
					"row_hex": rowsHex([][]string{row})[0], "row": fmt.Sprintf("%q", row), "rebuilt_hex": parts[1], "want": want, "got": got}})
			}
		}
	}

	// ---- evaluate: getline var ----
	for i, k := range getlines {
		rep.CorrEvals++
		rep.Count("getline:" + k.Kind + ":" + chunkKind(k))
		rep.Distinct("getline " + lines[getlineAt+i])
		if model != nil {
			mp := parseRes(model[getlineAt+i])
			if want := getlineWant(mp.names, mp.toks, mp.fields); mp.final == "eof" && want != getlineImpl[i] {
				rep.Mismatch(hx.Mismatch{Class: "getline", Input: trunc(lines[getlineAt+i]), Impl: trunc(getlineImpl[i]), Model: trunc(want)})
			}
		}
		rep.SearchEvals++
		rp := parseRes(refString(refRead(k.Data, k.Sep, k.Comment), k.Header))
		if want := getlineWant(rp.names, rp.toks, rp.fields); want != getlineImpl[i] {
			d := readDetail(k, want, getlineImpl[i])
			d["kind"], d["program"] = "getline", getlineSrc
			d["format"] = "R:<$0>:<fields>; then after getline v: G:<v>:<$0>:<NF>:<fields>; N:<@first header name>; or E; at the end of the input"
			rep.Fail(hx.Failure{Class: clsGetline, Oracle: orcGetline, Detail: d})
		}
	}

	// ---- evaluate: output destinations ----
	for i, k := range dests {
		d := dr[i]
		rep.Count("dest:" + k.Kind)
		for _, x := range []struct {
			at   int
			impl []byte
			what string
		}{{d.soAt, d.stdout, "stdout"}, {d.foAt, d.file, "file"}} {
			rep.CorrEvals++
			rep.Distinct(lines[x.at] + k.Kind)
			if model == nil {
				continue
			}
			switch m := model[x.at]; {
			case m == "unmod":
				rep.Unmodelled++
			case d.status != "ok" || m != "ok "+hx.Hex(x.impl):
				rep.Mismatch(hx.Mismatch{Class: "dest/" + k.Kind + "/" + x.what, Input: trunc(lines[x.at]) + " rowset=" + k.Name,
					Impl: d.status + " " + trunc(hx.Hex(x.impl)), Model: trunc(m)})
			}
		}
		oracleDest(k, d.stdout, d.file, d.status, rep)
	}

	// ---- evaluate: validation ----
	for i, v := range valids {
		got := runValid(v)
		rep.CorrEvals++
		rep.Count("valid")
		if model != nil && model[validStart+i] != got {
			rep.Mismatch(hx.Mismatch{Class: "valid", Input: lines[validStart+i] + fmt.Sprintf(" viaVar=%v", v.ViaVar), Impl: got, Model: model[validStart+i]})
		}
		rep.SearchEvals++
		want := "0"
		if specValid(v.Sep, v.Comment) {
			want = "1"
		}
		if got != want {
			rep.Fail(hx.Failure{Class: "separator validation", Oracle: orcValid, Detail: map[string]any{"kind": "valid", "separator": int(v.Sep), "comment": int(v.Comment),
				"via_inputmode_var": v.ViaVar, "want": want, "got": got}})
		}
	}
	rep.Write(o.Out)
}

// the rows read back are exactly the rows written minus the rows that are a single empty field
func onlyEmptyRowsLost(rows [][]string, got []string) bool {
	var kept []string
	lost := false
	for _, row := range rows {
		if len(row) == 1 && row[0] == "" {
			lost = true
			continue
		}
		kept = append(kept, hexList(row))
	}
	return lost && strings.Join(kept, ";") == strings.Join(got, ";")
}

func trunc(s string) string {
	if len(s) > 600 {
		return s[:300] + fmt.Sprintf("...(%d bytes)...", len(s)-600) + s[len(s)-300:]
	}
	return s
}

// ---------------------------------------------------------------------------
// replay of one stored failure

func replay(o hx.Opts) int {
	raw, err := os.ReadFile(o.Replay)
	if err != nil {
		fmt.Println("cannot read replay:", err)
		return 2
	}
	var doc struct {
		Failure *hx.Failure `json:"failure"`
	}
	if err := json.Unmarshal(raw, &doc); err != nil || doc.Failure == nil {
		fmt.Println("replay file has no failure (tie broken without a failing input):", trunc(string(raw)))
		return 1
	}
	d := doc.Failure.Detail
	num := func(key string) int { f, _ := d[key].(float64); return int(f) }
	str := func(key string) string { s, _ := d[key].(string); return s }
	fmt.Printf("class:  %s\noracle: %s\n", doc.Failure.Class, doc.Failure.Oracle)
	rep := hx.NewReport("C08", 0, "replay")
	switch str("kind") {
	case "read":
		k := readCase{Data: hx.UnHex(str("input_hex")), Sep: rune(num("separator")), Comment: rune(num("comment")), Via: str("via"), Cap: num("cap"), Max: num("max")}
		k.Header, _ = d["header"].(bool)
		if chs, ok := d["chunks_hex"].([]any); ok {
			for _, c := range chs {
				k.Chunks = append(k.Chunks, hx.UnHex(c.(string)))
			}
		}
		got := runRead(k)
		whole := k
		whole.Chunks = [][]byte{k.Data}
		wres := runRead(whole)
		fmt.Printf("input:  %q\nchunks: %q\nsep=%q comment=%q header=%v via=%s cap=%d\ngot (this delivery):  %s\ngot (whole delivery): %s\nreference reader:     %s\n",
			k.Data, k.Chunks, k.Sep, k.Comment, k.Header, k.Via, k.Cap, trunc(got), trunc(wres), trunc(refString(refRead(k.Data, k.Sep, k.Comment), k.Header)))
		oracleWhole(whole, wres, rep)
		if len(k.Chunks) > 1 {
			oracleChunk(k, got, wres, rep)
		}
	case "write":
		var rows [][]string
		if rh, ok := d["rows_hex"].([]any); ok {
			for _, row := range rh {
				var fs []string
				for _, f := range row.([]any) {
					fs = append(fs, string(hx.UnHex(f.(string))))
				}
				rows = append(rows, fs)
			}
		}
		k := writeCase{rune(num("separator")), rows}
		out, st := runPrint(k)
		rb := runRead(readCase{Data: out, Chunks: [][]byte{out}, Sep: k.Sep, Via: "api", Cap: apiCap, Max: apiMax})
		fmt.Printf("rows: %q sep=%q\nwritten (%s): %q\nread back: %s\n", rows, k.Sep, st, out, rb)
		p := parseRes(rb)
		got := ""
		for _, f := range p.fields {
			got += "R:" + f + ";"
		}
		if got+"|"+p.final != rowsString(rows)+"|eof" {
			rep.Fail(hx.Failure{Class: "replay", Oracle: orcRoundTrip})
		}
	case "rebuild":
		var row []string
		if rh, ok := d["row_hex"].([]any); ok {
			for _, f := range rh {
				row = append(row, string(hx.UnHex(f.(string))))
			}
		}
		k := writeCase{rune(num("separator")), [][]string{row}}
		ls, st := runRebuild(k)
		fmt.Printf("row: %q sep=%q\nrebuild (%s): %v\nwant: %d:%s\n", row, k.Sep, st, ls, len(row), hexList(row))
		if st != "ok" || len(ls) != 1 || !strings.HasSuffix(strings.TrimSuffix(ls[0], ";"), fmt.Sprintf(":%d:%s", len(row), hexList(row))) {
			rep.Fail(hx.Failure{Class: "replay", Oracle: orcRebuild})
		}
	case "getline":
		k := readCase{Data: hx.UnHex(str("input_hex")), Sep: rune(num("separator")), Comment: rune(num("comment")), Via: "api", Cap: apiCap, Max: apiMax}
		k.Header, _ = d["header"].(bool)
		if chs, ok := d["chunks_hex"].([]any); ok {
			for _, c := range chs {
				k.Chunks = append(k.Chunks, hx.UnHex(c.(string)))
			}
		}
		got := runGetline(k)
		rp := parseRes(refString(refRead(k.Data, k.Sep, k.Comment), k.Header))
		want := getlineWant(rp.names, rp.toks, rp.fields)
		fmt.Printf("input:  %q\nchunks: %q\nsep=%q comment=%q header=%v\nprogram:\n%s\nwant: %s\ngot:  %s\n", k.Data, k.Chunks, k.Sep, k.Comment, k.Header, getlineSrc, want, got)
		if got != want {
			rep.Fail(hx.Failure{Class: "replay", Oracle: orcGetline})
		}
	case "dest":
		var rows [][]string
		if rh, ok := d["rows_hex"].([]any); ok {
			for _, row := range rh {
				var fs []string
				for _, f := range row.([]any) {
					fs = append(fs, string(hx.UnHex(f.(string))))
				}
				rows = append(rows, fs)
			}
		}
		k := destCase{Kind: str("destination"), Sep: rune(num("separator")), Rows: rows, Pre: string(hx.UnHex(str("pre_hex"))), Name: str("rowset")}
		so, fo, st := runDest(k)
		fmt.Printf("destination: %s  rows: %s  sep=%q\nprogram:\n%sstatus: %s\nstandard output: %s\nfile: %s\n", k.Kind, trunc(fmt.Sprintf("%q", rows)), k.Sep, k.src(), st, trunc(fmt.Sprintf("%q", so)), trunc(fmt.Sprintf("%q", fo)))
		oracleDest(k, so, fo, st, rep)
	case "valid":
		v := validCase{rune(num("separator")), rune(num("comment")), false}
		v.ViaVar, _ = d["via_inputmode_var"].(bool)
		got := runValid(v)
		fmt.Printf("separator=%d comment=%d viaVar=%v accepted=%s spec=%v\n", v.Sep, v.Comment, v.ViaVar, got, specValid(v.Sep, v.Comment))
		if (got == "1") != specValid(v.Sep, v.Comment) {
			rep.Fail(hx.Failure{Class: "replay", Oracle: orcValid})
		}
	default:
		fmt.Println("unknown failure kind in replay")
		return 2
	}
	keys := []string{}
	for _, f := range rep.Failures {
		keys = append(keys, f.Oracle)
	}
	sort.Strings(keys)
	if len(keys) > 0 {
		fmt.Println("STILL FAILS:", strings.Join(keys, "; "))
		return 1
	}
	fmt.Println("does not fail any more")
	return 0
}
