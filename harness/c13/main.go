// C13 harness: output streams.  Histories of print/printf/close/fflush/
// system/getline/exit over stdout, two files and shell commands are rendered
// as AWK programs and run through interp.ExecProgram in a fresh temporary
// directory; Config.Output is an *os.File, a plain writer, or a bufio.Writer
// over a writer that fails after k bytes.
// Correspondence: final stdout bytes, final bytes of every file, the values
// close/fflush/system/getline returned and the run result vs the extracted
// Coq model (rocq/Model/Streams.v).
// Search oracle (independent of the model): a synchronous, unbuffered
// reference semantics written here in Go.
package main

import (
	"bufio"
	"bytes"
	"encoding/csv"
	"encoding/json"
	"errors"
	"flag"
	"fmt"
	"io"
	"os"
	"os/exec"
	"sort"
	"strconv"
	"strings"
	"sync"
	"time"

	"github.com/benhoyt/goawk/interp"
	"github.com/benhoyt/goawk/parser"
	"verif/harness/hx"
)

// ---------------------------------------------------------------- names

type cmdSpec struct {
	Sink   int    // file id the command appends to, -1 none
	Append string // appended to Sink at start
	Stdout string // written to its stdout at start
	Echo   bool   // copies stdin to stdout
	Drain  bool   // reads stdin to EOF
	Closes bool   // does not read stdin: closes it first of all, before it creates Sink (its marker file)
	ExKind string // e s c w
	ExCode int
}

// every name a history may use, by id; the string is what the AWK program says
var nameOf = map[int]string{
	1: "f1", 2: "f2", 3: "c1", 4: "c2", 5: "s2", 6: "m1", 7: "m2", 8: "m3", 9: "nodir/x",
	17: "exec 0<&-; : > m1; exit 3", 18: "exec 0<&-; : > m2; sleep 0.05; echo late; exit 5", 19: "exec 0<&-; : > m3; exit 0",
	10: "exec cat >> c1", 11: "cat >> c2; exit 3", 12: "printf SYSOUT", 13: "printf xyz >> s2; exit 2",
	14: "cat", 15: "printf 'l1\\nl2\\n'; exit 4", 16: "kill -9 $$",
}

// what each name does when run by sh -c (the model's e_spec); names not listed: see specOf
var specs = map[int]cmdSpec{
	10: {Sink: 3, Drain: true, ExKind: "e"},
	11: {Sink: 4, Drain: true, ExKind: "e", ExCode: 3},
	12: {Sink: -1, Stdout: "SYSOUT", ExKind: "e"},
	13: {Sink: 5, Append: "xyz", ExKind: "e", ExCode: 2},
	14: {Sink: -1, Echo: true, Drain: true, ExKind: "e"},
	15: {Sink: -1, Stdout: "l1\nl2\n", ExKind: "e", ExCode: 4},
	16: {Sink: -1, ExKind: "s", ExCode: 9},
	// commands that never read what is piped to them: stdin closed, then the marker file, then the rest
	17: {Sink: 6, Closes: true, ExKind: "e", ExCode: 3},
	18: {Sink: 7, Closes: true, Stdout: "late\n", ExKind: "e", ExCode: 5},
	19: {Sink: 8, Closes: true, ExKind: "e", ExCode: 0},
	// a file name run as a command: "sh: f1: not found", exit status 127
	1: {Sink: -1, ExKind: "e", ExCode: 127},
	2: {Sink: -1, ExKind: "e", ExCode: 127},
}

var idOf = func() map[string]int {
	m := map[string]int{}
	for k, v := range nameOf {
		m[v] = k
	}
	return m
}()

var badNames = []int{9}

func isBad(id int) bool { return id == 9 }

// ---------------------------------------------------------------- histories

type op struct {
	K      string   `json:"k"`           // P C F S G K I X E
	Dest   string   `json:"d,omitempty"` // P: o d v t a p
	Name   int      `json:"n"`           // id; F: -1 = fflush()
	Pieces []string `json:"p,omitempty"` // P: what writeOutput receives, in order
	Args   []string `json:"a,omitempty"` // P, form print: the arguments of the print statement
	Form   string   `json:"f,omitempty"` // P: "printf" (one piece) or "print" (args, OFS, ORS)
	Code   int      `json:"c,omitempty"` // X
}

type history struct {
	Mode  string         `json:"mode"`  // osfile unbuf buf
	Cap   int            `json:"cap"`   // buf: size of the bufio.Writer
	Limit int            `json:"limit"` // the writer under Output fails after this many bytes; -1 never
	Out   string         `json:"out"`   // Config.OutputMode: "" (default), "csv", "tsv"
	Init  map[int]string `json:"init"`  // files that exist before the run
	Ops   []op           `json:"ops"`
	Tag   string         `json:"tag"`
	// a reused Interpreter: interp.New once, one Execute per element (Ops is then unused)
	Runs      [][]op `json:"runs,omitempty"`
	ResetVars bool   `json:"resetvars,omitempty"` // call ResetVars between the runs
}

func awkStr(s string) string {
	var sb strings.Builder
	sb.WriteByte('"')
	for i := 0; i < len(s); i++ {
		c := s[i]
		switch {
		case c == '\n':
			sb.WriteString(`\n`)
		case c == '"' || c == '\\':
			sb.WriteByte('\\')
			sb.WriteByte(c)
		case c < 32 || c > 126:
			fmt.Fprintf(&sb, "\\%03o", c)
		default:
			sb.WriteByte(c)
		}
	}
	sb.WriteByte('"')
	return sb.String()
}

func (o op) destText() string {
	switch o.Dest {
	case "d":
		return ` > "-"`
	case "v":
		return ` > "/dev/stdout"`
	case "t":
		return " > " + awkStr(nameOf[o.Name])
	case "a":
		return " >> " + awkStr(nameOf[o.Name])
	case "p":
		return " | " + awkStr(nameOf[o.Name])
	}
	return ""
}

// render: the AWK statement(s) of one op
func (o op) render(mode string) string {
	nm := awkStr(nameOf[o.Name])
	switch o.K {
	case "P":
		var st string
		if o.Form == "printf" {
			st = `printf "%s", ` + awkStr(o.Pieces[0]) + o.destText()
		} else if o.Form == "bare" {
			st = "print" + o.destText()
		} else {
			var args []string
			for _, a := range o.Args {
				args = append(args, awkStr(a))
			}
			st = "print " + strings.Join(args, ", ") + o.destText()
		}
		return st
	case "C":
		return "R(close(" + nm + "))"
	case "F":
		if o.Name < 0 {
			return "R(fflush())"
		}
		return "R(fflush(" + nm + "))"
	case "S":
		return "R(system(" + nm + "))"
	case "G":
		return "r = (getline ln < " + nm + "); R(r); if (r == 1) L(ln)"
	case "K":
		return "r = (" + nm + " | getline ln); R(r); if (r == 1) L(ln)"
	case "I":
		return "r = (getline ln); R(r)"
	case "X":
		return fmt.Sprintf("exit %d", o.Code)
	case "E":
		return "x = 1 / ZERO"
	case "W":
		return "do { r = (getline ln < " + nm + ") } while (r < 0); R(r); if (r == 1) L(ln)"
	}
	panic("op " + o.K)
}

// csvRecord: what printArgs hands to the destination for print a1, ..., an in CSV/TSV output mode
// (interp/io.go writeCSV: encoding/csv with the mode's separator; a record that is a single empty
// field is written as "" so that it survives being read back).
func csvRecord(args []string, out string) string {
	if len(args) == 1 && args[0] == "" {
		return "\"\"\n"
	}
	var b bytes.Buffer
	w := csv.NewWriter(&b)
	if out == "tsv" {
		w.Comma = '\t'
	}
	w.Write(args)
	w.Flush()
	return b.String()
}

// pieces: the strings one print/printf statement hands to its destination, in order.
//
//	printf "%s", s            -> s
//	print  (no arguments)      -> $0 (empty in BEGIN), ORS            in every output mode
//	print a1, ..., an          -> a1 OFS a2 ... an ORS                 in default mode
//	                           -> the CSV/TSV record as one string     in CSV/TSV mode (through writeCSV)
func (o op) pieces(out string) []string {
	switch o.Form {
	case "printf":
		return o.Pieces
	case "bare":
		return []string{"", "\n"}
	}
	if out == "csv" || out == "tsv" {
		return []string{csvRecord(o.Args, out)}
	}
	var ps []string
	for i, a := range o.Args {
		if i > 0 {
			ps = append(ps, " ")
		}
		ps = append(ps, a)
	}
	return append(ps, "\n")
}

func (h history) program() string {
	var sb strings.Builder
	if len(h.Runs) > 0 {
		// one program for all runs of the reused Interpreter; Execute sets RUN
		sb.WriteString("BEGIN {\n")
		for i, ops := range h.Runs {
			if i == 0 {
				sb.WriteString(fmt.Sprintf("  if (RUN == %d) {\n", i+1))
			} else {
				sb.WriteString(fmt.Sprintf("  } else if (RUN == %d) {\n", i+1))
			}
			for _, o := range ops {
				sb.WriteString("    " + strings.ReplaceAll(o.render(h.Mode), "\n", "\n    ") + "\n")
			}
		}
		sb.WriteString("  }\n}\n")
		return sb.String()
	}
	sb.WriteString("BEGIN {\n")
	for _, o := range h.Ops {
		sb.WriteString("  " + o.render(h.Mode) + "\n")
	}
	sb.WriteString("}\n")
	return sb.String()
}

func specOf(id int) cmdSpec {
	if s, ok := specs[id]; ok {
		return s
	}
	return cmdSpec{Sink: -1, ExKind: "e", ExCode: 127}
}

// modelLine: the request for modelrun (see ocaml/c13/driver.ml)
func (h history) modelLine() string {
	var t []string
	t = append(t, "run", h.Mode, strconv.Itoa(h.Cap), strconv.Itoa(h.Limit), "65536")
	var ids []int
	for id := range nameOf {
		ids = append(ids, id)
	}
	sort.Ints(ids)
	t = append(t, strconv.Itoa(len(ids)))
	for _, id := range ids {
		s := specOf(id)
		t = append(t, strconv.Itoa(id), strconv.Itoa(s.Sink), hx.HexS(s.Append), hx.HexS(s.Stdout), b01(s.Echo), b01(s.Drain), b01(s.Closes), s.ExKind, strconv.Itoa(s.ExCode))
	}
	t = append(t, strconv.Itoa(len(badNames)))
	for _, id := range badNames {
		t = append(t, strconv.Itoa(id))
	}
	var fids []int
	for id := range h.Init {
		fids = append(fids, id)
	}
	sort.Ints(fids)
	t = append(t, strconv.Itoa(len(fids)))
	for _, id := range fids {
		t = append(t, strconv.Itoa(id), hx.HexS(h.Init[id]))
	}
	runs := h.Runs
	if len(runs) == 0 {
		runs = [][]op{h.Ops}
	}
	for _, ops := range runs {
		t = append(t, strconv.Itoa(len(ops)))
		for _, o := range ops {
			switch o.K {
			case "P":
				n := o.Name
				if o.Dest == "o" || o.Dest == "d" || o.Dest == "v" {
					n = 0
				}
				ps := o.pieces(h.Out)
				if o.Form == "print" && (h.Out == "csv" || h.Out == "tsv") {
					// through writeCSV: the model's PrintRec
					t = append(t, "R", o.Dest, strconv.Itoa(n), hx.HexS(ps[0]))
					continue
				}
				t = append(t, "P", o.Dest, strconv.Itoa(n), strconv.Itoa(len(ps)))
				for _, p := range ps {
					t = append(t, hx.HexS(p))
				}
			case "C", "F", "S", "G", "K", "W":
				t = append(t, o.K, strconv.Itoa(o.Name))
			case "I", "E":
				t = append(t, o.K)
			case "X":
				t = append(t, "X", strconv.Itoa(o.Code))
			}
		}
	}
	return strings.Join(t, " ")
}

func b01(b bool) string {
	if b {
		return "1"
	}
	return "0"
}

// ---------------------------------------------------------------- running the implementation

var errInjected = errors.New("injected write failure")

// failW accepts limit bytes in total, then fails for ever (limit < 0: never).
type failW struct {
	mu    sync.Mutex
	data  []byte
	limit int
}

func (f *failW) snapshot() []byte {
	f.mu.Lock()
	defer f.mu.Unlock()
	return append([]byte{}, f.data...)
}

func (f *failW) Write(p []byte) (int, error) {
	f.mu.Lock()
	defer f.mu.Unlock()
	if f.limit < 0 || len(f.data)+len(p) <= f.limit {
		f.data = append(f.data, p...)
		return len(p), nil
	}
	room := f.limit - len(f.data)
	f.data = append(f.data, p[:room]...)
	return room, errInjected
}

// lockedBuf: Config.Error.  A plain writer (no ReadFrom) guarded by a mutex, because os/exec's
// goroutines copy the children's stderr into it while goawk writes its own messages.
type lockedBuf struct {
	mu sync.Mutex
	b  []byte
}

func (l *lockedBuf) Write(p []byte) (int, error) {
	l.mu.Lock()
	defer l.mu.Unlock()
	l.b = append(l.b, p...)
	return len(p), nil
}
func (l *lockedBuf) String() string {
	l.mu.Lock()
	defer l.mu.Unlock()
	return string(l.b)
}

type outcome struct {
	Stderr string
	Result string // s:<status> | e | panic
	ErrMsg string
	Out    []byte
	Files  map[int][]byte
	Stray  []string // files with names the harness does not know
	Obs    []string
	Next   []outcome // multi-run history: the outcomes of the runs after the first
}

// all: the outcomes of all runs, in order
func (o outcome) all() []outcome {
	first := o
	first.Next = nil
	return append([]outcome{first}, o.Next...)
}

func (o outcome) canon() string {
	var parts []string
	for _, x := range o.all() {
		parts = append(parts, x.canon1())
	}
	return strings.Join(parts, " ;; ")
}

func (o outcome) canon1() string {
	var ids []int
	for id := range o.Files {
		ids = append(ids, id)
	}
	sort.Ints(ids)
	var fs []string
	for _, id := range ids {
		fs = append(fs, fmt.Sprintf("%d:%s", id, hx.Hex(o.Files[id])))
	}
	f := "-"
	if len(fs) > 0 {
		f = strings.Join(fs, ",")
	}
	ob := "-"
	if len(o.Obs) > 0 {
		ob = strings.Join(o.Obs, ",")
	}
	return fmt.Sprintf("ok res=%s out=%s fs=%s obs=%s", o.Result, hx.Hex(o.Out), f, ob)
}

var homeDir string

// runImpl runs the history against the implementation in a fresh temporary directory: a single-run
// history through interp.ExecProgram; a multi-run history (h.Runs) through interp.New once and one
// Execute per run on that Interpreter, every run with a new Output of the history's kind.  The
// outcomes of the runs after the first hang off the first (Next).
func runImpl(h history) (oc outcome, herr error) {
	dir, err := os.MkdirTemp("", "c13run")
	if err != nil {
		return oc, err
	}
	defer os.RemoveAll(dir)
	if err := os.Chdir(dir); err != nil {
		return oc, err
	}
	defer os.Chdir(homeDir)
	for id, content := range h.Init {
		if err := os.WriteFile(nameOf[id], []byte(content), 0o644); err != nil {
			return oc, err
		}
	}
	var obs []string
	funcs := map[string]any{
		"R": func(v float64) { obs = append(obs, "r:"+strconv.Itoa(int(v))) },
		"L": func(s string) { obs = append(obs, "l:"+hx.HexS(s)) },
	}
	prog, err := parser.ParseProgram([]byte(h.program()), &parser.ParserConfig{Funcs: funcs})
	if err != nil {
		return oc, fmt.Errorf("parse: %v\n%s", err, h.program())
	}
	nruns := len(h.Runs)
	multi := nruns > 0
	if !multi {
		nruns = 1
	}
	var ip *interp.Interpreter
	var outs []outcome
	for run := 1; run <= nruns; run++ {
		var one outcome
		fw := &failW{limit: h.Limit}
		var output io.Writer
		var of *os.File
		switch h.Mode {
		case "osfile":
			of, err = os.CreateTemp("", "c13out")
			if err != nil {
				return oc, err
			}
			output = of
		case "unbuf":
			output = fw
		default:
			output = bufio.NewWriterSize(fw, h.Cap)
		}
		errBuf := &lockedBuf{}
		cfg := &interp.Config{Output: output, Error: errBuf, Stdin: strings.NewReader(""), Funcs: funcs, Environ: []string{}}
		switch h.Out {
		case "csv":
			cfg.OutputMode = interp.CSVMode
		case "tsv":
			cfg.OutputMode = interp.TSVMode
		}
		obs0 := len(obs)
		func() {
			defer func() {
				if r := recover(); r != nil {
					one.Result = "panic"
					one.ErrMsg = fmt.Sprint(r)
				}
			}()
			var st int
			var err error
			if !multi {
				st, err = interp.ExecProgram(prog, cfg)
			} else {
				if ip == nil {
					ip, err = interp.New(prog)
					if err != nil {
						panic(err)
					}
				} else if h.ResetVars {
					ip.ResetVars()
				}
				cfg.Vars = []string{"RUN", strconv.Itoa(run)}
				st, err = ip.Execute(cfg)
			}
			if err != nil {
				one.Result, one.ErrMsg = "e", err.Error()
			} else {
				one.Result = "s:" + strconv.Itoa(st)
			}
		}()
		if h.Mode == "osfile" {
			b, err := os.ReadFile(of.Name())
			of.Close()
			os.Remove(of.Name())
			if err != nil {
				return oc, err
			}
			one.Out = b
		} else {
			one.Out = fw.snapshot()
		}
		one.Obs = append([]string{}, obs[obs0:]...)
		one.Stderr = errBuf.String()
		one.Files = map[int][]byte{}
		var walk func(rel string) error
		walk = func(rel string) error {
			ents, err := os.ReadDir(filepathOr(rel))
			if err != nil {
				return err
			}
			for _, e := range ents {
				p := e.Name()
				if rel != "" {
					p = rel + "/" + e.Name()
				}
				if e.IsDir() {
					if err := walk(p); err != nil {
						return err
					}
					continue
				}
				b, err := os.ReadFile(p)
				if err != nil {
					return err
				}
				if id, ok := idOf[p]; ok {
					one.Files[id] = b
				} else {
					one.Stray = append(one.Stray, p)
				}
			}
			return nil
		}
		if err := walk(""); err != nil {
			return oc, err
		}
		outs = append(outs, one)
		if one.Result == "panic" {
			break
		}
	}
	oc = outs[0]
	oc.Next = outs[1:]
	return oc, nil
}

func filepathOr(rel string) string {
	if rel == "" {
		return "."
	}
	return rel
}

// ---------------------------------------------------------------- reference semantics (search oracle)
// Synchronous and unbuffered: a write is in its destination the moment print
// returns; a child does its work the moment it is started / fed.  No sink
// failure.  This is what the property promises a program may assume.

type refStream struct {
	cmd   bool
	trunc bool
	// a command that closed its stdin (spec.Closes): nothing written to it can arrive.
	// What the property still promises: close() waits for it, returns its exit status, and
	// everything it wrote to the shared stdout is there when close() returns.  When the pipe
	// error shows (fflush = -1, a later print fails) follows from the 64 KiB buffer.
	closes   bool
	synced   bool // the program has waited for its marker file: its stdin is closed for certain
	buffered int
	failed   bool
}

// flush of a stream whose reader is gone: reports whether Flush returns an error
func (r *refRun) flushGone(st *refStream) bool {
	if !st.closes {
		return false
	}
	if st.failed {
		return true
	}
	if st.buffered == 0 {
		return false
	}
	if !st.synced {
		r.untimed = true // the child may or may not have closed its stdin yet
	}
	st.buffered, st.failed = 0, true
	return true
}

type refIn struct {
	cmd  bool
	rest []byte
}
type refRun struct {
	fs      map[int][]byte
	outs    map[int]*refStream
	ins     map[int]*refIn
	stdout  []byte
	ownMark []bool // per stdout byte: written by the program itself
	obs     []string
	result  string
	untimed bool // history uses something whose outcome depends on timing: no oracle
}

func (r *refRun) own(s string) {
	r.stdout = append(r.stdout, s...)
	for range []byte(s) {
		r.ownMark = append(r.ownMark, true)
	}
}
func (r *refRun) child(s string) {
	r.stdout = append(r.stdout, s...)
	for range []byte(s) {
		r.ownMark = append(r.ownMark, false)
	}
}
func (r *refRun) appendFile(id int, s string) { r.fs[id] = append(r.fs[id], s...) }
func (r *refRun) startProc(id int) {
	sp := specOf(id)
	if st, ok := r.outs[sp.Sink]; ok && sp.Sink >= 0 && !st.cmd && st.trunc && sp.Append != "" {
		// a second writer on a file the program holds open with > (own offset, no O_APPEND):
		// what the file ends up holding is the kernel's business, nothing is demanded
		r.untimed = true
	}
	if sp.Sink >= 0 {
		r.appendFile(sp.Sink, sp.Append)
	}
}
func exitCode(sp cmdSpec) int {
	switch sp.ExKind {
	case "e":
		return sp.ExCode
	case "s":
		return 256 + sp.ExCode
	case "c":
		return 512 + sp.ExCode
	}
	return -1
}
func (r *refRun) scan(in *refIn) {
	if len(in.rest) == 0 {
		r.obs = append(r.obs, "r:0")
		return
	}
	i := bytes.IndexByte(in.rest, '\n')
	var line []byte
	if i < 0 {
		line, in.rest = in.rest, nil
	} else {
		line, in.rest = in.rest[:i], in.rest[i+1:]
	}
	line = bytes.TrimSuffix(line, []byte("\r"))
	r.obs = append(r.obs, "r:1", "l:"+hx.Hex(line))
}

func reference(h history) *refRun {
	r := &refRun{fs: map[int][]byte{}, outs: map[int]*refStream{}, ins: map[int]*refIn{}, result: "s:0"}
	for id, c := range h.Init {
		r.fs[id] = []byte(c)
	}
	closeOut := func(id int, st *refStream) int {
		if st.cmd {
			return exitCode(specOf(id))
		}
		return 0
	}
	for _, o := range h.Ops {
		switch o.K {
		case "P":
			data := strings.Join(o.pieces(h.Out), "")
			switch o.Dest {
			case "o", "d", "v":
				for id, st := range r.outs {
					if st.cmd && st.closes && specOf(id).Stdout != "" {
						r.untimed = true // that child writes to the shared stdout whenever it gets to it
					}
				}
				r.own(data)
			default:
				if _, ok := r.ins[o.Name]; ok {
					r.result = "e"
					return r
				}
				st, ok := r.outs[o.Name]
				if !ok {
					if o.Dest == "p" {
						sp := specOf(o.Name)
						if (!sp.Drain && !sp.Closes) || sp.Echo || (sp.Stdout != "" && !sp.Closes) {
							r.untimed = true
						}
						if _, ex := r.fs[sp.Sink]; sp.Closes && ex {
							r.untimed = true // a stale marker proves nothing
						}
						r.startProc(o.Name)
						r.child(sp.Stdout)
						st = &refStream{cmd: true, closes: sp.Closes}
					} else {
						if isBad(o.Name) {
							r.result = "e"
							return r
						}
						if o.Dest == "t" {
							r.fs[o.Name] = []byte{}
						} else if _, ex := r.fs[o.Name]; !ex {
							r.fs[o.Name] = []byte{}
						}
						st = &refStream{trunc: o.Dest == "t"}
					}
					r.outs[o.Name] = st
				}
				if st.cmd && st.closes {
					if st.failed {
						r.result = "e"
						return r
					}
					st.buffered += len(data)
					if st.buffered > 65536 && r.flushGone(st) {
						r.result = "e"
						return r
					}
				} else if st.cmd {
					sp := specOf(o.Name)
					if sp.Sink >= 0 {
						r.appendFile(sp.Sink, data)
					}
					if sp.Echo {
						r.child(data)
					}
				} else {
					r.appendFile(o.Name, data)
				}
			}
		case "C":
			if in, ok := r.ins[o.Name]; ok {
				delete(r.ins, o.Name)
				c := 0
				if in.cmd {
					c = exitCode(specOf(o.Name))
				}
				r.obs = append(r.obs, "r:"+strconv.Itoa(c))
			} else if st, ok := r.outs[o.Name]; ok {
				delete(r.outs, o.Name)
				r.flushGone(st)
				r.obs = append(r.obs, "r:"+strconv.Itoa(closeOut(o.Name, st)))
			} else {
				r.obs = append(r.obs, "r:-1")
			}
		case "F":
			if o.Name < 0 {
				bad := false
				for _, st := range r.outs {
					if r.flushGone(st) {
						bad = true
					}
				}
				if bad {
					r.obs = append(r.obs, "r:-1")
				} else {
					r.obs = append(r.obs, "r:0")
				}
			} else if st, ok := r.outs[o.Name]; ok {
				if r.flushGone(st) {
					r.obs = append(r.obs, "r:-1")
				} else {
					r.obs = append(r.obs, "r:0")
				}
			} else {
				r.obs = append(r.obs, "r:-1")
			}
		case "S":
			sp := specOf(o.Name)
			for _, st := range r.outs {
				r.flushGone(st)
			}
			r.startProc(o.Name)
			r.child(sp.Stdout)
			r.obs = append(r.obs, "r:"+strconv.Itoa(exitCode(sp)))
		case "G", "W":
			if o.K == "W" {
				_, ex := r.fs[o.Name]
				if _, in := r.ins[o.Name]; !ex && !in {
					r.untimed = true // would wait for ever; never generated
					return r
				}
				for id, st := range r.outs {
					if st.closes && specOf(id).Sink == o.Name {
						st.synced = true
					}
				}
			} else {
				for id, st := range r.outs {
					if st.cmd && specOf(id).Sink == o.Name && !(st.closes && st.synced) {
						r.untimed = true // a live command is creating / writing this file
					}
				}
			}
			if _, ok := r.outs[o.Name]; ok {
				r.result = "e"
				return r
			}
			in, ok := r.ins[o.Name]
			if !ok {
				c, ex := r.fs[o.Name]
				if !ex {
					r.obs = append(r.obs, "r:-1")
					continue
				}
				in = &refIn{rest: append([]byte{}, c...)}
				r.ins[o.Name] = in
			}
			r.scan(in)
		case "K":
			if _, ok := r.outs[o.Name]; ok {
				r.result = "e"
				return r
			}
			in, ok := r.ins[o.Name]
			if !ok {
				r.startProc(o.Name)
				in = &refIn{cmd: true, rest: []byte(specOf(o.Name).Stdout)}
				r.ins[o.Name] = in
			}
			r.scan(in)
		case "I":
			r.obs = append(r.obs, "r:0")
		case "X":
			r.result = "s:" + strconv.Itoa(o.Code)
			return r
		case "E":
			r.result = "e"
			return r
		}
	}
	return r
}

// childOutputAtEndOfRun: is a print | cmd stream whose command writes to the shared stdout still
// open when the run ends (normally, by exit, or by an error)?
// split: the runs of a history as single-run histories, each starting from the files the reference
// semantics says the earlier runs left (a single-run history is its own only part); ok is false from
// the run on whose starting files the reference cannot tell (timing).
func (h history) split() (parts []history, ok bool) {
	if len(h.Runs) == 0 {
		return []history{h}, true
	}
	init := h.Init
	for _, ops := range h.Runs {
		hi := h
		hi.Runs, hi.Ops, hi.Init = nil, ops, init
		parts = append(parts, hi)
		r := reference(hi)
		if r.untimed {
			return parts, false
		}
		init = map[int]string{}
		for id, b := range r.fs {
			init[id] = string(b)
		}
	}
	return parts, true
}

func childOutputAtEndOfRun(h history) bool {
	if len(h.Runs) > 0 {
		parts, _ := h.split()
		for _, hi := range parts {
			if childOutputAtEndOfRun(hi) {
				return true
			}
		}
		return false
	}
	r := reference(h)
	for id, st := range r.outs {
		if sp := specOf(id); st.cmd && (sp.Stdout != "" || sp.Echo) {
			return true
		}
	}
	return false
}

// ---------------------------------------------------------------- generators

var alphabet = "abcdefghijklmnopqrstuvwxyz0123456789"

func randPayload(r *hx.Rand) string {
	n := r.Intn(7)
	if r.Intn(12) == 0 {
		n = 10 + r.Intn(30)
	}
	b := make([]byte, n)
	for i := range b {
		if r.Intn(6) == 0 {
			b[i] = '\n'
		} else {
			b[i] = alphabet[r.Intn(len(alphabet))]
		}
	}
	return string(b)
}

func mkPrint(r *hx.Rand, dest string, name int) op {
	o := op{K: "P", Dest: dest, Name: name}
	if r.Intn(2) == 0 {
		o.Form = "printf"
		o.Pieces = []string{randPayload(r)}
	} else {
		if r.Intn(12) == 0 {
			o.Form = "bare"
			return o
		}
		o.Form = "print"
		n := 1 + r.Intn(3)
		for i := 0; i < n; i++ {
			o.Args = append(o.Args, randField(r))
		}
	}
	return o
}

func pr(dest string, name int, s string) op {
	return op{K: "P", Dest: dest, Name: name, Form: "printf", Pieces: []string{s}}
}
func prl(dest string, name int, args ...string) op {
	return op{K: "P", Dest: dest, Name: name, Form: "print", Args: args}
}

// randField: an argument of print; in CSV/TSV mode it becomes a field: empty, plain, or needing quotes
func randField(r *hx.Rand) string {
	switch r.Intn(10) {
	case 0, 1:
		return ""
	case 2:
		return []string{"a,b", "say \"hi\"", "tab\there", " lead", "two\nlines", ",", "\"", "x\ty,z"}[r.Intn(8)]
	}
	return randPayload(r)
}

var fileIDs = []int{1, 2}
var pipeIDs = []int{10, 11}
var sysIDs = []int{12, 13, 16, 10, 1}
var glFileIDs = []int{1, 2, 5, 9, 10}
var glCmdIDs = []int{15, 16, 12, 10}

// randHistory: echo=true allows the echoing command "cat" as a pipe destination.
func randHistory(r *hx.Rand, lean bool) history {
	h := history{Limit: -1, Init: map[int]string{}}
	switch r.Intn(10) {
	case 0, 1, 2:
		h.Out = "csv"
	case 3:
		h.Out = "tsv"
	}
	if r.Intn(2) == 0 {
		h.Init[1] = "old1\n"
	}
	if r.Intn(3) == 0 {
		h.Init[2] = "old2a\nold2b"
	}
	n := 1 + r.Intn(15)
	opened := []int{} // names used so far: later ops prefer them
	pick := func(pool []int) int {
		if len(opened) > 0 && r.Intn(3) != 0 {
			return opened[r.Intn(len(opened))]
		}
		return pool[r.Intn(len(pool))]
	}
	for i := 0; i < n; i++ {
		var o op
		x := r.Intn(100)
		if lean && x >= 45 && (x < 60 || (x >= 80 && x < 88) || (x >= 94 && x < 97)) && r.Intn(4) != 0 {
			x = r.Intn(25) // histories for failure injection: mostly stdout, few processes
		}
		switch {
		case x < 22:
			o = mkPrint(r, "o", 0)
		case x < 25:
			o = mkPrint(r, []string{"d", "v"}[r.Intn(2)], 0)
		case x < 45:
			id := fileIDs[r.Intn(2)]
			if r.Intn(25) == 0 {
				id = []int{9, 10, 15}[r.Intn(3)] // unopenable name; command names used as file names
			}
			o = mkPrint(r, []string{"t", "a"}[r.Intn(2)], id)
			opened = append(opened, id)
		case x < 60:
			id := pipeIDs[r.Intn(2)]
			// (the echoing command "cat" is only used in fixed histories, see raceSearch)
			if len(opened) > 0 && r.Intn(8) == 0 {
				id = opened[r.Intn(len(opened))] // a name that may be open in another role
				if id != 1 && id != 2 && id != 10 && id != 11 && id != 15 {
					id = 10
				}
			}
			o = mkPrint(r, "p", id)
			opened = append(opened, id)
		case x < 72:
			o = op{K: "C", Name: pick([]int{1, 2, 10, 11, 15})}
		case x < 80:
			if r.Intn(3) == 0 {
				o = op{K: "F", Name: -1}
			} else {
				o = op{K: "F", Name: pick([]int{1, 2, 10, 11})}
			}
		case x < 88:
			o = op{K: "S", Name: sysIDs[r.Intn(len(sysIDs))]}
		case x < 94:
			id := glFileIDs[r.Intn(len(glFileIDs))]
			if len(opened) > 0 && r.Intn(2) == 0 {
				id = opened[r.Intn(len(opened))]
				if id == 3 || id == 4 || id == 11 || id == 14 || id == 12 || id == 13 || id == 16 {
					id = 1
				}
			}
			o = op{K: "G", Name: id}
			opened = append(opened, id)
		case x < 97:
			id := glCmdIDs[r.Intn(len(glCmdIDs))]
			o = op{K: "K", Name: id}
			opened = append(opened, id)
		case x < 98:
			o = op{K: "I"}
		case x < 99:
			o = op{K: "X", Code: r.Intn(4)}
		default:
			o = op{K: "E"}
		}
		h.Ops = append(h.Ops, o)
	}
	switch r.Intn(5) {
	case 0:
		h.Ops = append(h.Ops, op{K: "X", Code: 1 + r.Intn(5)})
	case 1:
		if r.Intn(2) == 0 {
			h.Ops = append(h.Ops, op{K: "E"})
		}
	}
	return h
}

func withMode(h history, mode string, cap, limit int) history {
	h.Mode, h.Cap, h.Limit = mode, cap, limit
	return h
}

// systematic: every op against every state of a name, the flush points, the status table
func systematic() []history {
	var hs []history
	add := func(tag string, init map[int]string, ops ...op) {
		if init == nil {
			init = map[int]string{}
		}
		hs = append(hs, history{Limit: -1, Init: init, Ops: ops, Tag: tag})
	}
	old := map[int]string{1: "old\n", 2: "keep"}
	add("trunc-once", old, pr("t", 1, "a"), pr("t", 1, "b"), pr("a", 1, "c"))
	add("append-keeps", old, pr("a", 1, "a"), pr("t", 1, "b"))
	add("reopen-truncates", old, pr("t", 1, "a"), op{K: "C", Name: 1}, pr("t", 1, "b"))
	add("reopen-appends", old, pr("t", 1, "a"), op{K: "C", Name: 1}, pr("a", 1, "b"), op{K: "C", Name: 1}, op{K: "C", Name: 1})
	add("one-name-one-stream", nil, pr("t", 1, "a"), pr("p", 1, "b"), pr("a", 1, "c"), op{K: "C", Name: 1})
	add("pipe-name-as-file", nil, pr("p", 10, "a"), pr("t", 10, "b"), op{K: "C", Name: 10})
	add("file-named-like-command", nil, pr("t", 10, "a"), pr("p", 10, "b"), op{K: "C", Name: 10}, op{K: "G", Name: 10})
	add("close-status", nil, pr("p", 10, "a"), pr("p", 11, "b"), op{K: "C", Name: 10}, op{K: "C", Name: 11}, op{K: "C", Name: 11}, op{K: "C", Name: 1})
	add("system-status", nil, op{K: "S", Name: 12}, op{K: "S", Name: 13}, op{K: "S", Name: 16}, op{K: "S", Name: 1}, op{K: "S", Name: 10})
	add("system-flushes-all", map[int]string{5: "old "}, pr("o", 0, "before"), pr("a", 5, "file-before "), op{K: "S", Name: 13}, pr("a", 5, " file-after"), op{K: "S", Name: 12}, pr("o", 0, "after"))
	add("system-appends-to-trunc-stream", nil, pr("t", 5, "file-before "), op{K: "S", Name: 13}, pr("t", 5, "ab"), op{K: "S", Name: 13}, pr("t", 5, "cdefgh"))
	add("getline-sees-closed", nil, prl("t", 1, "x", "y"), op{K: "C", Name: 1}, op{K: "G", Name: 1}, op{K: "G", Name: 1}, op{K: "C", Name: 1})
	add("read-writer", nil, pr("t", 1, "x"), op{K: "G", Name: 1}, pr("o", 0, "not reached"))
	add("write-reader", old, op{K: "G", Name: 1}, pr("t", 1, "x"), pr("o", 0, "not reached"))
	add("write-reader-pipe", nil, op{K: "K", Name: 15}, pr("p", 15, "x"))
	add("read-writer-pipe", nil, pr("p", 10, "x"), op{K: "K", Name: 10})
	add("input-cmd", nil, op{K: "K", Name: 15}, op{K: "K", Name: 15}, op{K: "K", Name: 15}, op{K: "C", Name: 15}, op{K: "K", Name: 16}, op{K: "C", Name: 16})
	add("getline-missing", nil, op{K: "G", Name: 1}, op{K: "G", Name: 9}, op{K: "C", Name: 1})
	add("open-fails", nil, pr("o", 0, "flushed"), pr("t", 9, "x"), pr("o", 0, "not reached"))
	add("exit-flushes", nil, pr("o", 0, "a"), pr("t", 1, "b"), pr("p", 10, "c"), op{K: "X", Code: 3}, pr("o", 0, "not reached"))
	add("error-flushes", nil, pr("o", 0, "a"), pr("t", 1, "b"), pr("p", 11, "c"), op{K: "E"}, pr("o", 0, "not reached"))
	add("end-closes-all", old, pr("o", 0, "a"), pr("a", 1, "b"), pr("a", 2, "c"), pr("p", 10, "d"), pr("p", 11, "e"), op{K: "G", Name: 5})
	add("fflush", nil, pr("t", 1, "a"), op{K: "F", Name: 1}, op{K: "F", Name: 2}, op{K: "F", Name: -1}, pr("o", 0, "z"), op{K: "F", Name: -1})
	add("dash-devstdout", nil, pr("o", 0, "a"), pr("d", 0, "b"), pr("v", 0, "c"), prl("o", 0, "d", "e"))
	add("getline-stdin", nil, pr("o", 0, "prompt"), op{K: "I"}, pr("o", 0, "x"))
	add("echo-after-close", nil, pr("o", 0, "a"), pr("p", 14, "b"), op{K: "C", Name: 14}, pr("o", 0, "c"))
	add("echo-at-end", nil, pr("o", 0, "a"), pr("p", 14, "b"))
	// not run in-process: a child echoing while the program prints corrupts (and can crash) a bufio.Writer,
	// see raceSearch.  The model answers "unmod" for it; kept so that this stays visible.
	add("echo-overlap", nil, pr("p", 14, "b"), op{K: "F", Name: 14}, pr("o", 0, "c"))
	big := strings.Repeat("0123456789abcdef", 4100) // 65600 bytes: more than outputBufSize
	add("stream-buffer-overflow", old, pr("a", 1, "head "), pr("a", 1, big), pr("a", 1, " tail"), pr("p", 10, "x"), pr("p", 10, big), pr("p", 10, "y"))
	add("flush-at-pipe-open", nil, pr("o", 0, "abcdef"), pr("p", 10, "x"), pr("o", 0, "y"))
	add("flush-at-getline-cmd", nil, pr("o", 0, "abcdef"), op{K: "K", Name: 15}, pr("o", 0, "y"))
	add("flush-at-file-open", nil, pr("o", 0, "abcdef"), pr("t", 1, "x"), pr("o", 0, "y"))
	add("flush-at-devstdout", nil, pr("o", 0, "abcdef"), pr("v", 0, "g"), pr("d", 0, "h"), pr("o", 0, "y"))
	add("copy-goroutine-entry-check", nil, pr("o", 0, "abcdef"), pr("p", 10, "x"), op{K: "C", Name: 10}, pr("p", 11, "x"), op{K: "C", Name: 11})
	// a command that has closed its stdin before the program flushes to it (EPIPE): close() must still
	// wait for it and report its exit status; its output on the shared stdout must be there afterwards.
	// The program knows the child's stdin is closed because it has waited for the marker file the
	// child creates after closing it (W = do getline < marker while it does not exist): no sleep,
	// and reading a file flushes nothing.
	add("epipe-close-status", nil, pr("p", 17, "x"), op{K: "W", Name: 6}, op{K: "C", Name: 17}, op{K: "C", Name: 6}, pr("o", 0, "after"))
	add("epipe-close-late-output", nil, pr("o", 0, "a"), pr("p", 18, "x"), op{K: "W", Name: 7}, op{K: "C", Name: 18}, pr("o", 0, "after"))
	add("epipe-close-exit0", nil, pr("p", 19, "x"), op{K: "W", Name: 8}, op{K: "C", Name: 19}, op{K: "C", Name: 19})
	add("epipe-fflush", nil, pr("p", 17, "x"), op{K: "W", Name: 6}, op{K: "F", Name: 17}, op{K: "F", Name: -1}, op{K: "C", Name: 17})
	add("epipe-print-after-error", nil, pr("p", 17, "x"), op{K: "W", Name: 6}, op{K: "F", Name: 17}, pr("p", 17, "z"), pr("o", 0, "not reached"))
	add("epipe-big-print-end-of-run", nil, pr("p", 18, "x"), op{K: "W", Name: 7}, pr("p", 18, strings.Repeat("0123456789abcdef", 4100)), pr("o", 0, "not reached"))
	add("epipe-closeall", nil, pr("o", 0, "a"), pr("p", 18, "x"), op{K: "W", Name: 7})
	add("epipe-exit-closeall", nil, pr("p", 18, "x"), pr("p", 17, "y"), op{K: "W", Name: 7}, op{K: "W", Name: 6}, op{K: "X", Code: 2})
	add("epipe-system-flushes", nil, pr("p", 17, "x"), op{K: "W", Name: 6}, op{K: "S", Name: 13}, op{K: "C", Name: 17})
	add("epipe-nothing-buffered", nil, pr("p", 17, ""), op{K: "W", Name: 6}, op{K: "F", Name: 17}, op{K: "C", Name: 17})
	add("epipe-two-commands", nil, pr("p", 17, "x"), pr("p", 18, "y"), op{K: "W", Name: 6}, op{K: "W", Name: 7}, op{K: "C", Name: 18}, op{K: "C", Name: 17}, pr("o", 0, "after"))
	add("epipe-unsynced-close", nil, pr("p", 17, "x"), op{K: "C", Name: 17}) // timing decides: the model answers unmod
	// CSV / TSV output mode: print with arguments goes through writeCSV, which for every destination
	// that is not itself a *bufio.Writer (files, commands, a plain or *os.File stdout) writes into one
	// shared scratch bufio.Writer (4096 bytes) that it Resets on entry and must flush before it returns.
	addOut := func(out, tag string, init map[int]string, ops ...op) {
		if init == nil {
			init = map[int]string{}
		}
		hs = append(hs, history{Limit: -1, Init: init, Ops: ops, Tag: tag, Out: out})
	}
	row4k := strings.Repeat("0123456789abcdef", 300)   // 4800 bytes: more than the scratch writer holds
	row64k := strings.Repeat("0123456789abcdef", 4200) // 67200 bytes: more than a stream's buffer holds
	for _, out := range []string{"csv", "tsv"} {
		addOut(out, out+"-rows", nil, prl("o", 0, "a", "b c", "d\"e"), prl("o", 0, "x,y", "", "t\tu"), prl("o", 0, " lead", "two\nlines"), prl("o", 0, "only"))
		addOut(out, out+"-empty-record-stdout", nil, prl("o", 0, "a"), prl("o", 0, ""), prl("o", 0, "b"))
		addOut(out, out+"-empty-record-last", nil, prl("o", 0, "a"), prl("o", 0, ""))
		addOut(out, out+"-empty-record-file", old, prl("t", 1, "a"), prl("t", 1, ""), prl("a", 2, ""), prl("t", 1, "b"), op{K: "C", Name: 1}, op{K: "G", Name: 1}, op{K: "G", Name: 1})
		addOut(out, out+"-empty-record-cmd", nil, prl("p", 10, ""), prl("p", 11, "a", ""), prl("p", 11, ""), op{K: "C", Name: 10}, op{K: "C", Name: 11})
		addOut(out, out+"-empty-record-then-other-destination", nil, prl("t", 1, ""), prl("o", 0, "next"), prl("p", 10, ""), prl("a", 2, "z"), prl("o", 0, ""), prl("t", 1, "q"))
		addOut(out, out+"-interleaved", old, prl("o", 0, "s1", "s2"), prl("t", 1, "f1", "x,y"), prl("p", 10, "c1", ""), prl("a", 2, "", "g"), prl("o", 0, "s3"), prl("t", 1, "f2"), prl("p", 10, "c2"), prl("a", 2, "h"))
		addOut(out, out+"-bare-print-and-printf", nil, prl("o", 0, "a", "b"), op{K: "P", Dest: "o", Form: "bare"}, pr("o", 0, "pf,\"raw\""), prl("t", 1, ""), op{K: "P", Dest: "t", Name: 1, Form: "bare"}, pr("t", 1, "raw"), prl("t", 1, "c"))
		addOut(out, out+"-row-over-4k", nil, prl("o", 0, "head"), prl("o", 0, row4k, "x"), prl("t", 1, row4k, ""), prl("p", 10, "", row4k), prl("o", 0, "tail"), prl("t", 1, ""))
		addOut(out, out+"-flush-close-status", nil, prl("t", 1, "a", "b"), prl("p", 11, ""), op{K: "F", Name: 1}, op{K: "F", Name: -1}, prl("t", 1, ""), op{K: "C", Name: 1}, op{K: "C", Name: 11}, op{K: "S", Name: 12}, prl("o", 0, ""))
		addOut(out, out+"-epipe", nil, prl("p", 17, ""), op{K: "W", Name: 6}, prl("p", 17, "x"), prl("o", 0, "not reached"))
	}
	addOut("csv", "csv-row-over-64k", nil, prl("o", 0, row64k, "x"), prl("t", 1, row64k), prl("t", 1, ""), prl("p", 10, "y", row64k), prl("o", 0, ""))
	add("exact-fill", nil, pr("p", 10, "x"), pr("o", 0, "0123456789abcdef"), op{K: "C", Name: 10}, pr("o", 0, "z"))
	return hs
}

// reused: histories on one reusable Interpreter (interp.New once, one Execute per run).  Every
// Execute must start with no registered stream: what the previous run left open was closed by its
// closeAll and is forgotten by resetCore, so a name is opened afresh (> truncates again, a command
// is started again, close() of a name from the last run returns -1).
func reused() []history {
	var hs []history
	n := 0
	add := func(tag, out string, init map[int]string, runs ...[]op) {
		if init == nil {
			init = map[int]string{}
		}
		n++
		hs = append(hs, history{Limit: -1, Init: init, Runs: runs, Tag: "reused-" + tag, Out: out, ResetVars: n%2 == 0})
	}
	run := func(ops ...op) []op { return ops }
	old := map[int]string{1: "old\n", 2: "keep"}
	cl := func(id int) op { return op{K: "C", Name: id} }
	add("file-left-open-trunc", "", old, run(pr("t", 1, "a")), run(pr("t", 1, "b")), run(pr("a", 1, "c"), cl(1)))
	add("file-left-open-append", "", old, run(pr("a", 1, "a")), run(pr("a", 1, "b")), run(pr("t", 1, "c")))
	add("trunc-after-append-after-trunc", "", old, run(pr("t", 2, "x")), run(pr("a", 2, "y")), run(pr("t", 2, "z")))
	add("command-left-open", "", nil, run(pr("p", 10, "a")), run(pr("p", 10, "b"), cl(10), cl(10)), run(cl(10), pr("p", 10, "c")))
	add("command-status-again", "", nil, run(pr("p", 11, "a")), run(pr("p", 11, "b"), cl(11)), run(pr("p", 11, "c"), cl(11)))
	add("closed-explicitly-then-reopened", "", old, run(pr("t", 1, "a"), cl(1)), run(pr("a", 1, "b"), cl(1)), run(pr("t", 1, "c")))
	add("left-open-by-error", "", old, run(pr("t", 1, "a"), pr("p", 10, "p"), op{K: "E"}, pr("o", 0, "not reached")), run(pr("t", 1, "b"), pr("p", 10, "q")))
	add("left-open-by-exit", "", old, run(pr("a", 1, "a"), pr("p", 11, "p"), op{K: "X", Code: 3}), run(pr("a", 2, "other")), run(pr("a", 1, "b"), pr("p", 11, "q"), cl(11)))
	add("reader-left-open", "", old, run(op{K: "G", Name: 1}), run(pr("t", 1, "now a writer")), run(op{K: "G", Name: 1}, op{K: "G", Name: 1}))
	add("input-command-left-open", "", nil, run(op{K: "K", Name: 15}), run(op{K: "K", Name: 15}, cl(15)), run(cl(15)))
	add("close-and-fflush-of-last-runs-names", "", nil, run(pr("t", 1, "a"), pr("p", 10, "b")), run(cl(1), cl(10), op{K: "F", Name: 1}, op{K: "F", Name: 10}, op{K: "F", Name: -1}))
	add("stdout-each-run", "", nil, run(pr("o", 0, "one"), pr("t", 1, "f")), run(pr("o", 0, "two"), op{K: "S", Name: 12}), run(prl("o", 0, "three")))
	add("same-and-different-names", "", old, run(pr("t", 1, "a"), pr("a", 2, "b")), run(pr("a", 2, "c"), pr("p", 10, "d")), run(pr("t", 1, "e"), pr("p", 10, "f")))
	add("csv-records", "csv", old, run(prl("t", 1, "a", ""), prl("o", 0, "")), run(prl("t", 1, ""), prl("a", 2, "x,y")), run(prl("a", 1, "z"), prl("o", 0, "q", "r")))
	add("tsv-command", "tsv", nil, run(prl("p", 10, "a", "b")), run(prl("p", 10, ""), cl(10)))
	return hs
}

// randReused: 2 or 3 short random runs on one Interpreter
func randReused(r *hx.Rand) history {
	h := history{Limit: -1, Init: map[int]string{}, Tag: "reused-random", ResetVars: r.Bool()}
	nr := 2 + r.Intn(2)
	for i := 0; i < nr; i++ {
		part := randHistory(r, true)
		if i == 0 {
			h.Init, h.Out = part.Init, part.Out
		}
		ops := part.Ops
		if len(ops) > 6 {
			ops = ops[:6]
		}
		h.Runs = append(h.Runs, ops)
	}
	return h
}

// ---------------------------------------------------------------- checking

type kase struct {
	h     history
	line  string
	impl  outcome
	ref   *refRun
	class string
}

func classify(h history) string {
	c := h.Mode
	if h.Out != "" {
		c += "+" + h.Out + "-output"
	}
	if h.Limit >= 0 {
		c += "+failing-writer"
	}
	return c
}

func detail(h history, extra map[string]any) map[string]any {
	hj, _ := json.Marshal(h)
	d := map[string]any{"case": string(hj), "program": h.program(), "mode": h.Mode, "cap": h.Cap, "limit": h.Limit, "output_mode": h.Out, "model_line": h.modelLine()}
	for k, v := range extra {
		d[k] = v
	}
	return d
}

// oracle: the property's equations on the implementation's outcome
// oracleAll: the oracle on every run of the history.  For a reused Interpreter each run is judged
// like a fresh program started on the files the earlier runs left: an Execute must not remember
// the previous run's streams.
func oracleAll(h history, oc outcome, rep *hx.Report) {
	if len(h.Runs) == 0 {
		oracle(h, oc, rep)
		return
	}
	parts, _ := h.split()
	ocs := oc.all()
	for i, hi := range parts {
		if i >= len(ocs) {
			break
		}
		tmp := hx.NewReport("C13", 0, "")
		oracle(hi, ocs[i], tmp)
		rep.SearchEvals++
		for _, f := range tmp.Failures {
			extra := map[string]any{"run": i + 1, "files_before_this_run": hi.Init}
			for _, k := range []string{"want", "got", "panic", "err", "stdout_wanted_bytes"} {
				if v, ok := f.Detail[k]; ok {
					extra[k] = v
				}
			}
			rep.Fail(hx.Failure{Class: "reused Interpreter: " + f.Class, Oracle: f.Oracle, Detail: detail(h, extra)})
		}
	}
}

func oracle(h history, oc outcome, rep *hx.Report) (failed bool) {
	fail := func(class, orc string, extra map[string]any) {
		failed = true
		rep.Fail(hx.Failure{Class: class, Oracle: orc, Detail: detail(h, extra)})
	}
	rep.SearchEvals++
	if oc.Result == "panic" {
		fail(classify(h), "no-panic", map[string]any{"panic": oc.ErrMsg})
		return
	}
	ref := reference(h)
	if ref.untimed {
		return // outcome depends on scheduling: nothing is demanded here
	}
	want := ref.stdout
	if h.Limit >= 0 && len(want) > h.Limit {
		want = want[:h.Limit]
	}
	if !bytes.Equal(oc.Out, want) {
		fail(classify(h), "stdout = writes in program order (up to the failure offset)", map[string]any{"want": hx.Hex(want), "got": hx.Hex(oc.Out)})
	}
	if h.Limit >= 0 && ref.result != "e" {
		ownLost := false
		for i := h.Limit; i < len(ref.ownMark); i++ {
			if ref.ownMark[i] {
				ownLost = true
			}
		}
		if ownLost && oc.Result != "e" {
			cl := "unbuffered Output: write failure not reported"
			if h.Mode == "buf" {
				cl = "buffered Output (bufio.Writer): write failure not reported"
			}
			fail(cl, "failing write to stdout => run fails", map[string]any{"want": "an error", "got": oc.Result, "stdout_wanted_bytes": len(ref.stdout)})
		}
	}
	if h.Limit < 0 {
		if oc.Result != ref.result {
			fail(classify(h), "run result", map[string]any{"want": ref.result, "got": oc.Result, "err": oc.ErrMsg})
		}
		if strings.Join(oc.Obs, ",") != strings.Join(ref.obs, ",") {
			fail(classify(h), "values of close/fflush/system/getline", map[string]any{"want": strings.Join(ref.obs, ","), "got": strings.Join(oc.Obs, ",")})
		}
	}
	if oc.Result == ref.result && (h.Limit < 0 || oc.Result != "e") {
		ok := len(oc.Files) == len(ref.fs)
		for id, b := range ref.fs {
			if g, ex := oc.Files[id]; !ex || !bytes.Equal(g, b) {
				ok = false
			}
		}
		if !ok {
			w, g := map[string]string{}, map[string]string{}
			for id, b := range ref.fs {
				w[nameOf[id]] = clip(b)
			}
			for id, b := range oc.Files {
				g[nameOf[id]] = clip(b)
			}
			fail(classify(h), "file = old contents (>>) or nothing (>) followed by the writes in program order", map[string]any{"want": w, "got": g})
		}
	}
	return
}

func clip(b []byte) string {
	if len(b) > 200 {
		return hx.Hex(b[:100]) + fmt.Sprintf("...(%d bytes)", len(b))
	}
	return hx.Hex(b)
}

// ---------------------------------------------------------------- F-C13-2: a live child's copying goroutine and the program share Config.Output
// Run in a subprocess: a writer used by two goroutines may panic in a goroutine nobody can recover.

const silentProg = `BEGIN { print "x" | "exec cat >> c1"; for (i = 0; i < 200000; i++) n++; print "hello" }`
const echoProg = `BEGIN { for (i=0;i<2000;i++) print "aaaaaaaaaaaaaaaaaaaaaaaaaaaaaaaaaaaaaaaaaaaaaaaaaaaaaaaaaaaaaaaaaaaaaaaaa" | "cat"; fflush("cat"); for (i=0;i<200000;i++) print "y"; close("cat") }`

// Two children sharing the program's stdout at the same time: a print | cmd child that echoes its
// input after a short delay while a system() child, which writes later still, is running.  The
// program itself is inside system() all that while, so on a correct tree nothing is concurrent
// with the program's own writes and the two children's goroutines call Output.Write at moments
// 0.25 s apart; every line must arrive whole.  (A child's goroutine that sits in Output.ReadFrom
// instead -- cmd.Stdout not wrapped by childWriter -- overwrites or drops what the other wrote.)
const sharedProg = `BEGIN { print "start"; print "hello" | "sleep 0.05; cat"; system("sleep 0.3; echo world"); close("sleep 0.05; cat"); print "end" }`

func sharedChild(which string) {
	prog, err := parser.ParseProgram([]byte(sharedProg), nil)
	if err != nil {
		fmt.Println("parse-error", err)
		return
	}
	var sink bytes.Buffer
	plain := &failW{limit: -1}
	var out io.Writer
	switch which {
	case "shared-bytesbuffer":
		out = &sink
	case "shared-bufio":
		out = bufio.NewWriterSize(plain, 64*1024)
	default: // shared-plain
		out = plain
	}
	st, err := interp.ExecProgram(prog, &interp.Config{Output: out, Error: io.Discard, Stdin: strings.NewReader(""), Environ: []string{"PATH", os.Getenv("PATH")}})
	got := sink.Bytes()
	if which != "shared-bytesbuffer" {
		got = plain.snapshot()
	}
	fmt.Printf("status=%d err=%v stdout=%s\n", st, err, hx.Hex(got))
}

// sharedVerdict: "" if stdout is what two children and the program may produce: the complete lines
// start, hello, world, end, each exactly once, start first and end last (hello and world come from
// two different children and may arrive in either order), no other byte.
func sharedVerdict(line string) string {
	const pre = "status=0 err=<nil> stdout="
	if !strings.HasPrefix(line, pre) {
		return "the run did not end with status 0"
	}
	out := string(hx.UnHex(strings.TrimPrefix(line, pre)))
	if strings.ContainsRune(out, 0) {
		return "NUL bytes in stdout"
	}
	if out != "start\nhello\nworld\nend\n" && out != "start\nworld\nhello\nend\n" {
		return "lines lost, torn or out of place"
	}
	return ""
}

func sharedSearch(rep *hx.Report, tries int, only string) {
	for _, which := range []string{"shared-bytesbuffer", "shared-bufio", "shared-plain"} {
		if only != "" && only != which {
			continue
		}
		for i := 0; i < tries; i++ {
			rep.SearchEvals++
			cmd := exec.Command(os.Args[0], "-racechild", which)
			outb, err := cmd.CombinedOutput()
			got := strings.TrimSpace(string(outb))
			if err != nil {
				got += " [subprocess: " + err.Error() + "]"
			}
			if len(got) > 600 {
				got = got[:600]
			}
			if v := sharedVerdict(got); v != "" {
				shown := got
				if strings.HasPrefix(got, "status=0 err=<nil> stdout=") {
					shown = fmt.Sprintf("status=0 err=<nil> stdout=%q", hx.UnHex(strings.TrimPrefix(got, "status=0 err=<nil> stdout=")))
				}
				rep.Fail(hx.Failure{Class: "two children (print | cmd and system) writing to a shared stdout that is not an *os.File", Oracle: "stdout = the complete lines of the program and of its children, each once",
					Detail: map[string]any{"program": sharedProg, "output": map[string]string{"shared-bytesbuffer": "&bytes.Buffer{}", "shared-bufio": "bufio.NewWriterSize(w, 65536)", "shared-plain": "plain io.Writer"}[which],
						"want": `stdout="start\nhello\nworld\nend\n" (hello/world in either order)`, "got": shown, "verdict": v, "kind": "race", "which": which}})
				break
			}
		}
	}
}

func raceChild(which string) {
	if strings.HasPrefix(which, "shared-") {
		sharedChild(which)
		return
	}
	dir, err := os.MkdirTemp("", "c13race")
	if err != nil {
		fmt.Println("tempdir", err)
		return
	}
	defer os.RemoveAll(dir)
	os.Chdir(dir)
	src := silentProg
	if which == "echo" {
		src = echoProg
	}
	prog, err := parser.ParseProgram([]byte(src), nil)
	if err != nil {
		fmt.Println("parse-error", err)
		return
	}
	var sink bytes.Buffer
	var out io.Writer = &sink
	var bw *bufio.Writer
	if which == "echo" {
		bw = bufio.NewWriterSize(&sink, 4096)
		out = bw
	}
	st, err := interp.ExecProgram(prog, &interp.Config{Output: out, Error: io.Discard, Stdin: strings.NewReader(""), Environ: []string{}})
	if which == "echo" {
		fmt.Printf("status=%d err=%v a=%d y=%d len=%d\n", st, err, bytes.Count(sink.Bytes(), []byte("a")), bytes.Count(sink.Bytes(), []byte("y")), sink.Len())
	} else {
		c1, _ := os.ReadFile("c1")
		fmt.Printf("status=%d err=%v stdout=%q c1=%q\n", st, err, sink.String(), c1)
	}
}

func raceSearch(rep *hx.Report, tries int, only string) {
	if strings.HasPrefix(only, "shared-") {
		sharedSearch(rep, tries, only)
		return
	}
	if only == "" {
		sharedSearch(rep, 1, "")
	}
	type variant struct{ which, prog, output, want, class string }
	wantA, wantY := 2000*73, 200000
	vs := []variant{
		{"silent", silentProg, "&bytes.Buffer{}", `status=0 err=<nil> stdout="hello\n" c1="x\n"`,
			"Output with a ReadFrom method (bytes.Buffer) while a child started by print | cmd is alive"},
		{"echo", echoProg, "bufio.NewWriterSize(&bytes.Buffer{}, 4096)", fmt.Sprintf("status=0 err=<nil> a=%d y=%d len=%d", wantA, wantY, wantA+2000+2*wantY),
			"buffered Output (bufio.Writer) while a child that writes to stdout is alive"},
	}
	for _, v := range vs {
		if only != "" && only != v.which {
			continue
		}
		for i := 0; i < tries; i++ {
			rep.SearchEvals++
			cmd := exec.Command(os.Args[0], "-racechild", v.which)
			outb, err := cmd.CombinedOutput()
			got := strings.TrimSpace(string(outb))
			if err != nil {
				got += " [subprocess: " + err.Error() + "]"
			}
			if len(got) > 600 {
				got = got[:600]
			}
			if got != v.want {
				rep.Fail(hx.Failure{Class: v.class, Oracle: "stdout holds every byte written by the program and by its children",
					Detail: map[string]any{"program": v.prog, "output": v.output, "want": v.want, "got": got, "kind": "race", "which": v.which}})
				break
			}
		}
	}
}

// ---------------------------------------------------------------- F-C13-4: CSV/TSV output mode over a small bufio.Writer
// writeCSV treats a *bufio.Writer Output as "already buffered" and hands it to encoding/csv, which
// wraps any bufio.Writer smaller than 4096 bytes in a second, private one; nobody flushes that.

const csvSmallProg = `BEGIN { print "a", "b"; print "c"; print ""; printf "%s\n", "raw" }`

func csvSmallBufferSearch(rep *hx.Report) {
	for _, size := range []int{1024, 4095} {
		rep.SearchEvals++
		prog, err := parser.ParseProgram([]byte(csvSmallProg), nil)
		if err != nil {
			rep.HarnessError("csvSmallProg: %v", err)
			return
		}
		fw := &failW{limit: -1}
		out := bufio.NewWriterSize(fw, size)
		st, err := interp.ExecProgram(prog, &interp.Config{Output: out, OutputMode: interp.CSVMode, Error: io.Discard, Stdin: strings.NewReader(""), Environ: []string{}})
		got := fmt.Sprintf("status=%d err=%v stdout=%q", st, err, fw.snapshot())
		want := `status=0 err=<nil> stdout="a,b\nc\n\"\"\nraw\n"`
		if got != want {
			rep.Fail(hx.Failure{Class: "CSV/TSV output mode with Output = bufio.Writer smaller than 4096 bytes", Oracle: "stdout = writes in program order (up to the failure offset)",
				Detail: map[string]any{"program": csvSmallProg, "output": fmt.Sprintf("bufio.NewWriterSize(w, %d), OutputMode CSV", size), "want": want, "got": got, "kind": "csvsmall"}})
			return
		}
	}
}

// ---------------------------------------------------------------- isolation
// The implementation is run in a worker process (this binary with -worker), one case at a time over a
// pipe.  A defect that lets goawk return while a child's copying goroutine is still using Config.Output
// can panic in that goroutine, which nothing can recover; the worker then dies, the case is reported
// as a panic of the implementation, and a fresh worker takes the next case.

type workerReply struct {
	Outcome outcome
	Err     string
}

func workerMain() {
	homeDir, _ = os.Getwd()
	in := bufio.NewReaderSize(os.Stdin, 1<<20)
	out := bufio.NewWriter(os.Stdout)
	for {
		line, err := in.ReadBytes('\n')
		if len(line) > 0 {
			var h history
			var rp workerReply
			if e := json.Unmarshal(line, &h); e != nil {
				rp.Err = "bad request: " + e.Error()
			} else {
				oc, e := runImpl(h)
				rp.Outcome = oc
				if e != nil {
					rp.Err = e.Error()
				}
			}
			b, _ := json.Marshal(rp)
			out.Write(b)
			out.WriteByte('\n')
			out.Flush()
		}
		if err != nil {
			return
		}
	}
}

type worker struct {
	cmd    *exec.Cmd
	stdin  io.WriteCloser
	stdout *bufio.Reader
	stderr *lockedBuf
}

var theWorker *worker

func startWorker() (*worker, error) {
	cmd := exec.Command(os.Args[0], "-worker")
	cmd.Dir = homeDir
	stdin, err := cmd.StdinPipe()
	if err != nil {
		return nil, err
	}
	stdout, err := cmd.StdoutPipe()
	if err != nil {
		return nil, err
	}
	eb := &lockedBuf{}
	cmd.Stderr = eb
	if err := cmd.Start(); err != nil {
		return nil, err
	}
	return &worker{cmd: cmd, stdin: stdin, stdout: bufio.NewReaderSize(stdout, 1<<20), stderr: eb}, nil
}

func stopWorker() {
	if theWorker != nil {
		theWorker.stdin.Close()
		theWorker.cmd.Wait()
		theWorker = nil
	}
}

// runIsolated: runImpl(h) in the worker.  A dead worker is a panic of the implementation on h.
func runIsolated(h history) (outcome, error) {
	if theWorker == nil {
		w, err := startWorker()
		if err != nil {
			return outcome{}, fmt.Errorf("cannot start worker: %v", err)
		}
		theWorker = w
	}
	w := theWorker
	req, _ := json.Marshal(h)
	_, werr := w.stdin.Write(append(req, '\n'))
	var line []byte
	var rerr error
	if werr == nil {
		line, rerr = w.stdout.ReadBytes('\n')
	}
	if werr != nil || rerr != nil {
		w.stdin.Close()
		w.cmd.Wait()
		theWorker = nil
		msg := w.stderr.String()
		if len(msg) > 1500 {
			msg = msg[:1500]
		}
		return outcome{Result: "panic", ErrMsg: "the process running the implementation died: " + msg, Files: map[int][]byte{}}, nil
	}
	var rp workerReply
	if err := json.Unmarshal(line, &rp); err != nil {
		return outcome{}, fmt.Errorf("bad worker reply: %v", err)
	}
	if rp.Err != "" {
		return rp.Outcome, errors.New(rp.Err)
	}
	if rp.Outcome.Files == nil {
		rp.Outcome.Files = map[int][]byte{}
	}
	return rp.Outcome, nil
}

// ---------------------------------------------------------------- main

func runCase(h history, rep *hx.Report) *kase {
	oc, err := runIsolated(h)
	if err != nil {
		rep.HarnessError("%v", err)
		return nil
	}
	if len(oc.Stray) > 0 {
		rep.HarnessError("unexpected files %v in %s", oc.Stray, h.program())
	}
	return &kase{h: h, line: h.modelLine(), impl: oc, class: classify(h)}
}

// machineTrouble: diagnostics goawk prints when the operating system, not the AWK program,
// shaped the run (overloaded machine).
func machineTrouble(stderr string) string {
	for _, m := range []string{"WaitDelay expired", "resource temporarily unavailable", "cannot allocate memory", "too many open files"} {
		if strings.Contains(stderr, m) {
			return strings.ReplaceAll(m, " ", "-")
		}
	}
	return ""
}

func replay(o hx.Opts) {
	var rp struct {
		Failure struct {
			Class  string         `json:"class"`
			Oracle string         `json:"oracle"`
			Detail map[string]any `json:"detail"`
		} `json:"failure"`
	}
	b, err := os.ReadFile(o.Replay)
	if err != nil {
		fmt.Println(err)
		os.Exit(2)
	}
	if err := json.Unmarshal(b, &rp); err != nil {
		fmt.Println(err)
		os.Exit(2)
	}
	rep := hx.NewReport("C13", o.Seed, o.Tier)
	if rp.Failure.Detail["kind"] == "csvsmall" {
		csvSmallBufferSearch(rep)
	} else if rp.Failure.Detail["kind"] == "race" {
		w, _ := rp.Failure.Detail["which"].(string)
		raceSearch(rep, 5, w)
	} else {
		var h history
		cs, _ := rp.Failure.Detail["case"].(string)
		if err := json.Unmarshal([]byte(cs), &h); err != nil {
			fmt.Println("replay file has no case:", err)
			os.Exit(2)
		}
		fmt.Printf("program:\n%smode=%s cap=%d limit=%d outputmode=%q\n", h.program(), h.Mode, h.Cap, h.Limit, h.Out)
		oc, err := runIsolated(h)
		stopWorker()
		if err != nil {
			fmt.Println(err)
			os.Exit(2)
		}
		fmt.Println("implementation:", oc.canon(), oc.ErrMsg)
		parts, _ := h.split()
		for i, hi := range parts {
			ref := reference(hi)
			fmt.Printf("reference, run %d: res=%s out=%s obs=%s\n", i+1, ref.result, hx.Hex(ref.stdout), strings.Join(ref.obs, ","))
		}
		if o.ModelRun != "" {
			if m, err := hx.ModelEval(o.ModelRun, []string{h.modelLine()}); err == nil {
				fmt.Println("model:         ", m[0])
			}
		}
		oracleAll(h, oc, rep)
	}
	for _, f := range rep.Failures {
		fmt.Printf("STILL FAILS class=%q oracle=%q want=%v got=%v\n", f.Class, f.Oracle, f.Detail["want"], f.Detail["got"])
	}
	if len(rep.Failures) > 0 {
		os.Exit(1)
	}
	fmt.Println("no longer fails")
}

func main() {
	rc := flag.String("racechild", "", "internal: run a shared-writer workload (silent|echo) and print what arrived")
	wk := flag.Bool("worker", false, "internal: run cases read from stdin (one JSON history per line)")
	o := hx.ParseFlags()
	if *wk {
		workerMain()
		return
	}
	if *rc != "" {
		raceChild(*rc)
		return
	}
	homeDir, _ = os.Getwd()
	if o.Replay != "" {
		replay(o)
		return
	}
	rep := hx.NewReport("C13", o.Seed, o.Tier)
	rep.Rule = "histories of <= 16 ops (print/printf to stdout, \"-\", /dev/stdout, > and >> two files, | two commands that append to files; close, fflush, system, getline <file, cmd|getline, getline, exit, run-time error) x Output in {*os.File, plain writer, bufio.Writer of 1..64 bytes} x failure of the underlying writer at every byte offset for a subset; systematic list first, then random; distinct = distinct model request; non-trivial = at least one op executed that writes, closes or starts a process"
	r := hx.NewRand(o.Seed)
	nRand, nFail := 200, 6
	if o.Tier == "thorough" {
		nRand, nFail = 12000, 300
	}
	if o.N > 0 {
		nRand = o.N
	}
	var hs []history
	modes := []struct {
		m   string
		cap int
	}{{"osfile", 0}, {"unbuf", 0}, {"buf", 16}, {"buf", 1}, {"buf", 64}, {"buf", 5}, {"buf", 1024}, {"buf", 4096}, {"buf", 4095}, {"buf", 8192}}
	for _, h := range systematic() {
		for _, m := range modes[:3] {
			hs = append(hs, withMode(h, m.m, m.cap, -1))
		}
		if h.Out != "" {
			// both sides of writeCSV's test "is p.output a *bufio.Writer of at least 4096 bytes"
			hs = append(hs, withMode(h, "buf", 4095, -1), withMode(h, "buf", 4096, -1))
		}
	}
	for _, h := range reused() {
		for _, m := range modes[:3] {
			hs = append(hs, withMode(h, m.m, m.cap, -1))
		}
	}
	nReused := 40
	if o.Tier == "thorough" {
		nReused = 3000
	}
	for i := 0; i < nReused; i++ {
		m := modes[r.Intn(len(modes))]
		hs = append(hs, withMode(randReused(r), m.m, m.cap, -1))
	}
	for i := 0; i < nRand; i++ {
		h := randHistory(r, false)
		h.Tag = "random"
		m := modes[r.Intn(len(modes))]
		hs = append(hs, withMode(h, m.m, m.cap, -1))
	}
	// failure injection: every offset of the stdout stream of stdout-heavy histories
	for i := 0; i < nFail; {
		h := randHistory(r, true)
		ref := reference(h)
		if len(ref.stdout) < 8 || len(ref.stdout) > 45 {
			continue
		}
		i++
		h.Tag = "failing-writer"
		caps := []int{1, 4, 16, 64}
		cp := caps[r.Intn(len(caps))]
		for k := 0; k <= len(ref.stdout); k++ {
			hs = append(hs, withMode(h, "buf", cp, k))
			if k%2 == 0 {
				hs = append(hs, withMode(h, "unbuf", 0, k))
			}
		}
	}
	for _, h := range systematic() {
		ref := reference(h)
		if len(ref.stdout) == 0 || len(ref.stdout) > 40 || ref.untimed {
			continue
		}
		for k := 0; k <= len(ref.stdout); k++ {
			if strings.HasPrefix(h.Tag, "epipe-") && (o.Tier != "thorough") && k != 0 && k != len(ref.stdout)/2 && k != len(ref.stdout) {
				continue // these histories wait for a child: three offsets in the quick tier
			}
			if h.Tag == "epipe-big-print-end-of-run" && k != len(ref.stdout)/2 {
				continue
			}
			hs = append(hs, withMode(h, "buf", []int{16, 4, 1, 64}[k%4], k))
			if k%3 == 0 {
				hs = append(hs, withMode(h, "unbuf", 0, k))
			}
		}
	}

	lines := make([]string, len(hs))
	for i, h := range hs {
		lines[i] = h.modelLine()
	}
	model, err := hx.ModelEval(o.ModelRun, lines)
	if err != nil {
		rep.HarnessError("%v", err)
		rep.Write(o.Out)
		return
	}
	var ks []*kase
	var kept []string
	slow := time.Duration(0)
	for i, h := range hs {
		if h.Mode != "osfile" && childOutputAtEndOfRun(h) {
			// a child that writes to the shared stdout is only closed by closeAll: if os/exec's
			// WaitDelay (250 ms after the child's exit) runs out on an overloaded machine its last
			// output is dropped and closeAll discards the diagnostic, so nothing would tell.  With
			// Output = *os.File there is no copying goroutine and the case is compared.
			rep.Unmodelled++
			rep.Count("unmodelled:child-output-at-closeAll")
			continue
		}
		if model[i] == "unmod" {
			// timing decides the outcome (a child and the program use Output at the same time,
			// or a child is killed by SIGPIPE): not run, counted
			rep.Unmodelled++
			rep.Count("unmodelled:" + h.Tag)
			continue
		}
		t0 := time.Now()
		k := runCase(h, rep)
		if k != nil && machineTrouble(k.impl.Stderr) != "" {
			// os/exec gave up waiting for a child's I/O (goawk sets WaitDelay = 250 ms) or could not
			// start a process: the machine, not the program, decided this run.  Not compared, counted.
			rep.Unmodelled++
			rep.Count("unmodelled:machine:" + machineTrouble(k.impl.Stderr))
			continue
		}
		if d := time.Since(t0); d > slow {
			slow = d
			if os.Getenv("C13_DEBUG") != "" {
				fmt.Fprintf(os.Stderr, "slowest so far %v: %s\n", d, h.program())
			}
		}
		if k == nil {
			continue
		}
		ks = append(ks, k)
		kept = append(kept, model[i])
	}
	stopWorker()
	model = kept
	for i, k := range ks {
		rep.CorrEvals++
		tag := k.h.Tag
		rep.Count("shape:" + tag + ":" + k.h.Mode)
		for _, op := range k.h.Ops {
			rep.Count("op:" + op.K + op.Dest)
		}
		for _, ops := range k.h.Runs {
			for _, op := range ops {
				rep.Count("op:" + op.K + op.Dest)
			}
		}
		if k.h.Out != "" {
			rep.Count("outputmode:" + k.h.Out)
		}
		if len(k.h.Runs) > 0 {
			rep.Count(fmt.Sprintf("reused-interpreter:%d-runs", len(k.h.Runs)))
		}
		rep.Count("result:" + strings.SplitN(k.impl.Result, ":", 2)[0])
		if len(k.impl.Out) > 0 || len(k.impl.Files) > len(k.h.Init) || len(k.impl.Obs) > 0 {
			rep.Distinct(k.line)
		}
		if i%211 == 0 {
			rep.Sample(map[string]any{"program": k.h.program(), "mode": k.h.Mode, "cap": k.h.Cap, "limit": k.h.Limit, "impl": k.impl.canon()})
		}
		if model != nil {
			switch {
			case strings.HasPrefix(model[i], "driver-error"):
				rep.HarnessError("modelrun: %s on %s", model[i], k.line)
			case model[i] != k.impl.canon():
				rep.Mismatch(hx.Mismatch{Class: k.class, Input: k.h.program() + fmt.Sprintf(" mode=%s cap=%d limit=%d outputmode=%q", k.h.Mode, k.h.Cap, k.h.Limit, k.h.Out), Impl: k.impl.canon(), Model: model[i], Note: k.line})
			}
		}
		oracleAll(k.h, k.impl, rep)
	}
	tries := 2
	if o.Tier == "thorough" {
		tries = 10
	}
	raceSearch(rep, tries, "")
	csvSmallBufferSearch(rep)
	rep.Write(o.Out)
}
