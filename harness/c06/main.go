// C06 harness: $0 / fields / NF consistency.
//
// A case is a script of record operations.  It is rendered (a) as ONE AWK program run
// through the public API, printing after every step what the step returned and $0, and
// (b) as one request line for the extracted Coq model (correspondence).  The search
// oracle (spec.go) evaluates the property's own equations on the implementation's
// transcript, independently of the model.
package main

import (
	"bufio"
	"bytes"
	"encoding/json"
	"fmt"
	"math"
	"os"
	"os/exec"
	"strconv"
	"strings"

	"github.com/benhoyt/goawk/interp"
	"github.com/benhoyt/goawk/parser"
	"verif/harness/hx"
)

// ---- scripts ----------------------------------------------------------------

// F64 is a float64 that survives JSON (NaN, infinities): encoded as its bit pattern.
type F64 float64

func (f F64) MarshalJSON() ([]byte, error) {
	return []byte(`"` + hx.FBits(float64(f)) + `"`), nil
}
func (f *F64) UnmarshalJSON(b []byte) error {
	u, err := strconv.ParseUint(strings.Trim(string(b), `"`), 10, 64)
	*f = F64(math.Float64frombits(u))
	return err
}

type idx struct {
	Kind byte // 'c' constant, 'n' $(NF+d), 'm' $(-NF+d)
	X    F64  // constant
	D    int
	Lit  bool // render a small non-negative integer constant as a literal ($3)
}

type op struct {
	K   string // R G T S L K M N W D F O P I U V
	I   idx
	T   string  // text (R S L), separator (F O P), mode (I U), kind (M)
	V   F64     // W: numeric view of the value
	Str bool    // W: the value is a string (T(k)), else a number (X(k))
	VS  string  // W: string view of the value (CONVFMT rendering for numbers)
	D   int     // D: amount
	Re  *hx.Re  // F: regex AST when T has more than one rune
	Bad bool    // F: T does not compile
}

type script struct {
	Ops []op
}

func (i idx) wire() string {
	switch i.Kind {
	case 'c':
		return "c" + hx.FBits(float64(i.X))
	case 'n':
		return "n" + strconv.Itoa(i.D)
	default:
		return "m" + strconv.Itoa(i.D)
	}
}

func (o op) wire() string {
	switch o.K {
	case "R":
		return "R " + hx.HexS(o.T)
	case "G":
		return "G " + o.I.wire()
	case "T":
		return "T " + o.I.wire()
	case "S":
		return "S " + o.I.wire() + " " + hx.HexS(o.T)
	case "L":
		return "L " + o.I.wire() + " " + hx.HexS(o.T)
	case "K":
		return "K " + hx.HexS(o.T)
	case "M":
		return "M " + o.I.wire() + " " + o.T
	case "N", "V":
		return o.K
	case "W":
		return "W " + hx.FBits(float64(o.V)) + " " + hx.HexS(o.VS)
	case "D":
		return "D " + strconv.Itoa(o.D)
	case "F":
		re := "-"
		if o.Bad {
			re = "!"
		} else if o.Re != nil {
			re = o.Re.Wire()
		}
		return "F " + hx.HexS(o.T) + " " + re
	case "O", "P":
		return o.K + " " + hx.HexS(o.T)
	case "I", "U":
		return o.K + " " + o.T
	}
	panic("op " + o.K)
}

func (s script) wire() string {
	parts := make([]string, 0, len(s.Ops)+1)
	parts = append(parts, "script")
	for _, o := range s.Ops {
		parts = append(parts, o.wire())
	}
	return strings.Join(parts, " ")
}

// ---- abbreviations shared with ocaml/c06/driver.ml ---------------------------

func abbr(s string) string {
	n := len(s)
	if n == 0 {
		return "-"
	}
	if n <= 48 {
		return hx.HexS(s)
	}
	ck := 0
	for i := 0; i < n; i++ {
		ck = (ck + int(s[i])*((i%255)+1)) % 1000000007
	}
	return fmt.Sprintf("L%d.%s.%s.%d", n, hx.HexS(s[:8]), hx.HexS(s[n-8:]), ck)
}

// ---- rendering as an AWK program --------------------------------------------

type rendered struct {
	src   string
	strs  []string
	nums  []float64
	stdin string
}

func (r *rendered) str(s string) string {
	r.strs = append(r.strs, s)
	return fmt.Sprintf("T(%d)", len(r.strs)-1)
}
func (r *rendered) num(x float64) string {
	r.nums = append(r.nums, x)
	return fmt.Sprintf("X(%d)", len(r.nums)-1)
}
func (r *rendered) idx(i idx) string {
	switch i.Kind {
	case 'c':
		x := float64(i.X)
		if i.Lit && x >= 0 && x == math.Trunc(x) && x < 1e7 {
			return fmt.Sprintf("$%d", int64(x))
		}
		return "$(" + r.num(x) + ")"
	case 'n':
		if i.D < 0 {
			return fmt.Sprintf("$(NF-%d)", -i.D)
		}
		return fmt.Sprintf("$(NF+%d)", i.D)
	default:
		if i.D < 0 {
			return fmt.Sprintf("$(-NF-%d)", -i.D)
		}
		return fmt.Sprintf("$(-NF+%d)", i.D)
	}
}

const recSep = "\x01"

func modeName(m string) string {
	switch m {
	case "c":
		return "csv"
	case "t":
		return "tsv"
	}
	return ""
}

func render(s script) *rendered {
	r := &rendered{}
	var sb strings.Builder
	sb.WriteString("BEGIN {\n")
	for _, o := range s.Ops {
		out := `"-"`
		switch o.K {
		case "R":
			sb.WriteString("  getline\n")
			r.stdin += o.T + recSep
		case "G":
			out = `"v=" A(` + r.idx(o.I) + `)`
		case "T":
			f := r.idx(o.I)
			out = `"t=" ((` + f + ` == "10") ? ((` + f + ` < 9) ? "S" : "N") : "-")`
		case "S":
			sb.WriteString("  " + r.idx(o.I) + " = " + r.str(o.T) + "\n")
		case "L":
			sb.WriteString("  getline " + r.idx(o.I) + "\n")
			r.stdin += o.T + recSep
		case "K":
			sb.WriteString("  getline xv\n")
			r.stdin += o.T + recSep
		case "M":
			f := r.idx(o.I)
			switch o.T {
			case "suba":
				sb.WriteString("  sub(/a/, \"b\", " + f + ")\n")
			case "gsuba":
				sb.WriteString("  gsub(/a/, \"bb\", " + f + ")\n")
			case "subempty":
				if o.I.Kind == 'c' && float64(o.I.X) == 0 && o.I.Lit {
					sb.WriteString("  sub(/^/, \"\")\n") // default target: $0
				} else {
					sb.WriteString("  sub(/^/, \"\", " + f + ")\n")
				}
			case "subsame":
				sb.WriteString("  sub(/b/, \"b\", " + f + ")\n")
			case "gsubsame":
				if o.I.Kind == 'c' && float64(o.I.X) == 0 && o.I.Lit {
					sb.WriteString("  gsub(/b/, \"b\")\n")
				} else {
					sb.WriteString("  gsub(/b/, \"b\", " + f + ")\n")
				}
			case "app":
				// the index expression is evaluated twice; both evaluations are reads
				sb.WriteString("  " + f + " = " + f + " \"x\"\n")
			case "id":
				sb.WriteString("  " + f + " = " + f + "\n")
			case "idsv":
				sb.WriteString("  sv = " + f + "; " + f + " = sv\n")
			case "incr":
				sb.WriteString("  " + f + "++\n")
			case "add2":
				sb.WriteString("  " + f + " += 2\n")
			}
		case "N":
			out = `"n=" F(NF) "/" A(NF "")`
		case "W":
			if o.Str {
				sb.WriteString("  NF = " + r.str(o.VS) + "\n")
			} else {
				sb.WriteString("  NF = " + r.num(float64(o.V)) + "\n")
			}
		case "D":
			switch {
			case o.D == 1:
				sb.WriteString("  NF++\n")
			case o.D == -1:
				sb.WriteString("  NF--\n")
			case o.D < 0:
				sb.WriteString(fmt.Sprintf("  NF -= %d\n", -o.D))
			default:
				sb.WriteString(fmt.Sprintf("  NF += %d\n", o.D))
			}
		case "F":
			sb.WriteString("  FS = " + r.str(o.T) + "\n")
		case "O":
			sb.WriteString("  OFS = " + r.str(o.T) + "\n")
		case "P":
			sb.WriteString("  RS = " + r.str(o.T) + "\n")
		case "I":
			sb.WriteString("  INPUTMODE = \"" + modeName(o.T) + "\"\n")
		case "U":
			sb.WriteString("  OUTPUTMODE = \"" + modeName(o.T) + "\"\n")
		case "V":
			sb.WriteString(`  m = int(NF+0); o = "a=" F(NF) "/" A(NF "") "/" m ":"
  if (m <= 16) { for (k = 1; k <= m; k++) o = o (k > 1 ? "," : "") A($k) }
  else o = o A($1) "," A($2) "," A($3) ",..," A($(m-2)) "," A($(m-1)) "," A($m)
`)
			out = "o"
		}
		sb.WriteString("  o = " + out + "; printf \"%s r=%s\\n\", o, A($0)\n")
	}
	sb.WriteString("}\n")
	r.src = sb.String()
	return r
}

// runImpl executes the script on the implementation; the transcript has one entry per
// step that completed, then possibly "err=<hex>" or "panic".
func runImpl(s script) []string {
	r := render(s)
	funcs := map[string]any{
		"T": func(i int) string { return r.strs[i] },
		"X": func(i int) float64 { return r.nums[i] },
		"A": func(s string) string { return abbr(s) },
		"F": func(f float64) string { return hx.FCanon(f) },
	}
	cfg := &interp.Config{Funcs: funcs, Environ: []string{}, Stdin: strings.NewReader(r.stdin), NoExec: true, NoFileWrites: true, NoFileReads: true}
	rr := hx.RunAwk(r.src, cfg, &parser.ParserConfig{Funcs: funcs})
	var tr []string
	out := strings.TrimSuffix(string(rr.Out), "\n")
	if out != "" {
		tr = strings.Split(out, "\n")
	}
	switch {
	case rr.Panic != nil:
		tr = append(tr, "panic")
	case rr.Err != nil:
		msg := rr.Err.Error()
		if strings.HasPrefix(msg, "invalid regex") {
			msg = "invalid regex"
		}
		if _, ok := rr.Err.(*interp.Error); !ok {
			msg = "NOT-A-RUNTIME-ERROR " + msg
		}
		tr = append(tr, "err="+hx.HexS(msg))
	}
	return tr
}

// ---- model ------------------------------------------------------------------

// modelEval: like hx.ModelEval, but with an unlimited stack (the extracted list functions
// are not tail recursive and a record may have 10^6 fields).
func modelEval(bin string, lines []string) ([]string, error) {
	if len(lines) == 0 {
		return nil, nil
	}
	cmd := exec.Command("sh", "-c", `ulimit -s unlimited 2>/dev/null || ulimit -s 4000000 2>/dev/null; exec "$0"`, bin)
	cmd.Stdin = strings.NewReader(strings.Join(lines, "\n") + "\n")
	var out, errb bytes.Buffer
	cmd.Stdout, cmd.Stderr = &out, &errb
	if err := cmd.Run(); err != nil {
		return nil, fmt.Errorf("modelrun %s: %v: %s", bin, err, errb.String())
	}
	var res []string
	sc := bufio.NewScanner(&out)
	sc.Buffer(make([]byte, 1<<20), 1<<28)
	for sc.Scan() {
		res = append(res, sc.Text())
	}
	if len(res) != len(lines) {
		return nil, fmt.Errorf("modelrun %s: %d answers for %d requests: %s", bin, len(res), len(lines), errb.String())
	}
	return res, nil
}

// compare: ok / mismatch / unmodelled (model stopped with unmod: the prefix must agree)
func compare(impl []string, model string) (verdict string, step int) {
	var m []string
	if model != "empty" {
		m = strings.Split(model, " | ")
	}
	for i := 0; i < len(m); i++ {
		if m[i] == "unmod" {
			return "unmod", i
		}
		if i >= len(impl) || impl[i] != m[i] {
			return "mismatch", i
		}
	}
	if len(impl) != len(m) {
		return "mismatch", len(m)
	}
	return "ok", 0
}

// ---- main -------------------------------------------------------------------

func detail(s script, impl []string, step int, want, got string) map[string]any {
	r := render(s)
	js, _ := json.Marshal(s)
	return map[string]any{
		"program": r.src, "stdin_hex": hx.HexS(r.stdin), "strings_hex": hexAll(r.strs), "numbers": fmtNums(r.nums),
		"model_line": s.wire(), "script_json": string(js), "step": step, "want": want, "got": got,
		"impl_transcript": strings.Join(impl, " | "),
	}
}

func hexAll(ss []string) []string {
	o := make([]string, len(ss))
	for i, s := range ss {
		o[i] = hx.HexS(s)
	}
	return o
}
func fmtNums(xs []float64) []string {
	o := make([]string, len(xs))
	for i, x := range xs {
		o[i] = strconv.FormatFloat(x, 'g', -1, 64) + " bits=" + hx.FBits(x)
	}
	return o
}

// insertRead: run the script again with one extra read ($1, $(-1), NF or a full view) at a
// random position; every later line of the transcript must be what it was.
func insertRead(s script, impl []string, r *hx.Rand) *hx.Failure {
	pos := r.Intn(len(s.Ops) + 1)
	reads := []op{{K: "G", I: idx{Kind: 'c', X: 1}}, {K: "G", I: idx{Kind: 'c', X: -1}}, {K: "N"}, {K: "V"}, {K: "G", I: idx{Kind: 'n', D: 0}}}
	rd := reads[r.Intn(len(reads))]
	return insertReadAt(s, impl, pos, rd)
}

// isBig: the script builds a record of 10^6 fields (slow to run twice)
func isBig(s script) bool {
	for _, o := range s.Ops {
		if (o.K == "S" || o.K == "M") && o.I.Kind == 'c' && float64(o.I.X) == 1000000 {
			return true
		}
		if o.K == "W" && float64(o.V) == 1000000 {
			return true
		}
	}
	return false
}

func insertReadAt(s script, impl []string, pos int, rd op) *hx.Failure {
	// the splitter of the input is fixed by the first getline: do not read before it
	first := -1
	for i, o := range s.Ops {
		if o.K == "R" || o.K == "L" || o.K == "K" {
			first = i
			break
		}
	}
	if first < 0 || pos <= first || pos > len(impl) {
		return nil // (also: nothing to compare if the script had already stopped before pos)
	}
	var t script
	t.Ops = append(t.Ops, s.Ops[:pos]...)
	t.Ops = append(t.Ops, rd)
	t.Ops = append(t.Ops, s.Ops[pos:]...)
	got := runImpl(t)
	class := "read-inserted"
	for _, o := range s.Ops[pos:] {
		if o.K == "P" || o.K == "I" {
			class = "read-inserted-before-rs-or-inputmode-change"
		}
	}
	for k := pos; k < len(impl) || k+1 < len(got); k++ {
		a, b := "(output ended)", "(output ended)"
		if k < len(impl) {
			a = impl[k]
		}
		if k+1 < len(got) {
			b = got[k+1]
		}
		if a != b {
			d := detail(t, got, k+1, a, b)
			d["inserted_at"] = pos
			d["inserted_read"] = rd.wire()
			d["transcript_without_the_read"] = strings.Join(impl, " | ")
			return &hx.Failure{Class: class, Oracle: "an inserted read changes no later output", Detail: d}
		}
	}
	return nil
}

// csvGetlineProbes: in CSV/TSV input mode the fields of a record are produced by the record
// reader itself; `getline var` reads the next record and must leave the current record's
// $0, fields and NF as they were -- whether or not a field had been looked at before.
func csvGetlineProbes(rep *hx.Report) {
	const viewFn = `function view(   k, o) { o = NF ":" $0; for (k = 1; k <= NF; k++) o = o "|" $k; return o }
`
	inputs := []struct{ mode, in string }{
		{"csv", "a,b c,d\nx,y\nlast\n"},
		{"csv", "\"q,1\",2\nz\n"},
		{"csv", "one\n\"two\nlines\",3,4\n"},
		{"csv", ",,\nx\n"},
		{"tsv", "a\tb c\nd\n"},
		{"csv", "only\n"},
	}
	for _, in := range inputs {
		run := func(body string) string {
			cfg := &interp.Config{Environ: []string{}, Stdin: strings.NewReader(in.in), Vars: []string{"INPUTMODE", in.mode}, NoExec: true, NoFileWrites: true, NoFileReads: true}
			rr := hx.RunAwk(viewFn+body, cfg, &parser.ParserConfig{})
			if rr.Panic != nil {
				return fmt.Sprintf("panic: %v", rr.Panic)
			}
			if rr.Err != nil {
				return "error: " + rr.Err.Error()
			}
			return string(rr.Out)
		}
		want := run(`NR == 1 { print view(); exit }`)
		for _, body := range []string{
			`NR == 1 { getline x; print view(); exit }`,
			`NR == 1 { y = $1; getline x; print view(); exit }`,
			`NR == 1 { getline x; getline z; print view(); exit }`,
		} {
			rep.SearchEvals++
			if got := run(body); got != want {
				rep.Fail(hx.Failure{Class: "getline-var-csv-input", Oracle: "getline var leaves the current record unchanged",
					Detail: map[string]any{"program": viewFn + body, "input_mode": in.mode, "stdin_hex": hx.HexS(in.in), "want": want, "got": got}})
			}
		}
	}
}

// csvRecordProbes: the same two facts in CSV/TSV input mode (not modelled): a record set to
// the text it already has is split afresh, and fields of a new record are never "true strings"
// because of assignments made in an earlier record.
func csvRecordProbes(rep *hx.Report) {
	probes := []struct{ mode, vars, in, prog, want string }{
		{"csv", "", "10,x\n10,y\n", `NR == 1 { $1 = "10"; print ($1 < 9) } NR == 2 { print ($1 < 9), ($2 < 9) }`, "1\n0 0\n"},
		{"tsv", "", "10\tx\n10\ty\n", `NR == 1 { $1 = "10" } NR == 2 { print ($1 < 9) }`, "0\n"},
		{"csv", "", "a,10\n10,10\n", `NR == 1 { $3 = "10"; NF = 3 } NR == 2 { NF = 3; print ($1 < 9), ($2 < 9) }`, "0 0\n"},
		{"csv", "OFS=,", "a,b\n", `{ $2 = "u,v"; $0 = $0; print NF; print $2 }`, "3\nu\n"},
		{"csv", "OFS=,", "a,b\n", `{ $2 = "u,v"; s = $0; $0 = s; print NF }`, "3\n"},
		{"tsv", "OFS=\t", "a\tb\n", `{ $1 = "x\ty"; $0 = $0; print NF; print $1 }`, "3\nx\n"},
		{"csv", "OFS=,", "a,b\na,b\n", `NR == 1 { $1 = "a,b"; $0 = "a,b" } { print NF }`, "2\n2\n"},
	}
	for _, p := range probes {
		vars := []string{"INPUTMODE", p.mode}
		if p.vars != "" {
			kv := strings.SplitN(p.vars, "=", 2)
			vars = append(vars, kv[0], kv[1])
		}
		cfg := &interp.Config{Environ: []string{}, Stdin: strings.NewReader(p.in), Vars: vars, NoExec: true, NoFileWrites: true, NoFileReads: true}
		rr := hx.RunAwk(p.prog, cfg, &parser.ParserConfig{})
		got := string(rr.Out)
		if rr.Panic != nil {
			got = fmt.Sprintf("panic: %v", rr.Panic)
		} else if rr.Err != nil {
			got = "error: " + rr.Err.Error()
		}
		rep.SearchEvals++
		if got != p.want {
			rep.Fail(hx.Failure{Class: "record-reset-csv-input", Oracle: "a record set anew is split afresh and its fields are number-looking strings",
				Detail: map[string]any{"program": p.prog, "input_mode": p.mode, "vars": p.vars, "stdin_hex": hx.HexS(p.in), "want": p.want, "got": got}})
		}
	}
}

func replay(o hx.Opts) {
	b, err := os.ReadFile(o.Replay)
	if err != nil {
		fmt.Println("cannot read replay:", err)
		os.Exit(2)
	}
	var doc struct {
		Failure struct {
			Class  string         `json:"class"`
			Oracle string         `json:"oracle"`
			Detail map[string]any `json:"detail"`
		} `json:"failure"`
	}
	if err := json.Unmarshal(b, &doc); err != nil {
		fmt.Println("bad replay:", err)
		os.Exit(2)
	}
	sj, _ := doc.Failure.Detail["script_json"].(string)
	var s script
	if err := json.Unmarshal([]byte(sj), &s); err != nil || len(s.Ops) == 0 {
		fmt.Println("replay has no script_json (tie-only violation?)")
		os.Exit(2)
	}
	impl := runImpl(s)
	fmt.Println("program:\n" + render(s).src)
	fmt.Println("model line:", s.wire())
	fmt.Println("implementation transcript:", strings.Join(impl, " | "))
	if o.ModelRun != "" {
		if m, err := modelEval(o.ModelRun, []string{s.wire()}); err == nil {
			fmt.Println("model transcript:         ", m[0])
		}
	}
	fails := checkScript(s, impl)
	if doc.Failure.Oracle == "an inserted read changes no later output" {
		// s is the script WITH the read; remove it and compare again
		pos := int(doc.Failure.Detail["inserted_at"].(float64))
		var orig script
		orig.Ops = append(orig.Ops, s.Ops[:pos]...)
		orig.Ops = append(orig.Ops, s.Ops[pos+1:]...)
		fails = nil
		if f := insertReadAt(orig, runImpl(orig), pos, s.Ops[pos]); f != nil {
			fails = append(fails, *f)
		}
	}
	if len(fails) == 0 {
		fmt.Println("replay: the property's equations hold on this script now")
		os.Exit(0)
	}
	for _, f := range fails {
		fmt.Printf("FAIL class=%s oracle=%s step=%v\n  expected: %v\n  got:      %v\n", f.Class, f.Oracle, f.Detail["step"], f.Detail["want"], f.Detail["got"])
	}
	os.Exit(1)
}

func main() {
	o := hx.ParseFlags()
	if o.Replay != "" {
		replay(o)
		return
	}
	rep := hx.NewReport("C06", o.Seed, o.Tier)
	rep.Rule = "scripts of record operations: every script of length <= 2 (quick) / <= 3 (thorough) over a 14-op alphabet, then random scripts of 1..12 ops (after a 3-op preamble that fixes the input splitter) over: record arrival, getline var, $0 assignment, field reads/writes with indexes from {0,+-1,+-2,NF+d,-NF+d,0.5,1e6,1e6+1,2^31,2^63,-2^63,1e30,NaN}, getline $i, sub/gsub (changing the text, matching without changing it, not matching; target within / beyond NF / $0 / default target)/append/++/+=/self-assignment ($i = $i, $0 = $0, via a saved copy) on a field or $0, the string-or-strnum typing probe ($i < 9 when $i is \"10\"), NF reads, NF assignments (integers, fractions, strings, negative, 1e6, 1e6+1, 2^63), NF++/NF+=d, FS from {space, single bytes, multi-byte char, empty, fixed and random regex ASTs, non-compiling}, OFS, RS (newline/empty), INPUTMODE/OUTPUTMODE; texts with blank runs, tabs, NBSP, VT, CR, newlines, invalid UTF-8, empty. 60% of random scripts avoid the input class of the known finding (non-integral NF values) and the NaN index so that everything else is checked to the end. distinct = distinct model request line; non-trivial = at least one mutating operation"
	r := hx.NewRand(o.Seed)
	scripts := genScripts(o, r)
	nFixed := len(fixedScripts())
	lines := make([]string, len(scripts))
	for i, s := range scripts {
		lines[i] = s.wire()
	}
	model, err := modelEval(o.ModelRun, lines)
	if err != nil {
		rep.HarnessError("%v", err)
	}
	for i, s := range scripts {
		impl := runImpl(s)
		rep.CorrEvals++
		rep.Count("len:" + strconv.Itoa(len(s.Ops)))
		for _, p := range s.Ops {
			rep.Count("op:" + p.K)
		}
		if nontrivial(s) {
			rep.Distinct(lines[i])
		}
		if i%1499 == 0 {
			rep.Sample(map[string]string{"request": lines[i], "impl": strings.Join(impl, " | ")})
		}
		if model != nil {
			v, step := compare(impl, model[i])
			switch v {
			case "unmod":
				rep.Unmodelled++
			case "mismatch":
				rep.Mismatch(hx.Mismatch{Class: scriptClass(s, step), Input: lines[i], Impl: strings.Join(impl, " | "), Model: model[i],
					Note: fmt.Sprintf("first difference at step %d; program:\n%s", step, render(s).src)})
			}
		}
		rep.SearchEvals++
		for _, f := range checkScript(s, impl) {
			rep.Fail(f)
		}
		// metamorphic: a read inserted anywhere changes nothing the rest of the script prints
		if i < nFixed && !isBig(s) {
			// the hand-written scripts: a read of $1 at every position
			for pos := 0; pos <= len(s.Ops); pos++ {
				rep.SearchEvals++
				if f := insertReadAt(s, impl, pos, op{K: "G", I: idx{Kind: 'c', X: 1}}); f != nil {
					rep.Fail(*f)
				}
			}
		} else if i%2 == 0 && !isBig(s) {
			rep.SearchEvals++
			if f := insertRead(s, impl, r); f != nil {
				rep.Fail(*f)
			}
		}
	}
	csvGetlineProbes(rep)
	csvRecordProbes(rep)
	rep.Write(o.Out)
}
