package main

import (
	"fmt"
	"math"
	"strings"
	"unicode/utf8"

	"verif/harness/hx"
)

// ---- pools --------------------------------------------------------------------

var cleanTexts = []string{"", "10", "10 10", "10 10 10", "10,10", "10,b,10", "a b c", " a  b ", "a,b,,c", "a\tb", "1 2 3", "x", "a,b c,d", "é,ü", "aéb c", "a\xffb c",
	"10 20", "a|b||c", ",a,", "aaa", "a.b.c", "1,2,3", "tab\there and  there", " ", "   ", "a,,b,", "a, b,  c", "7", "-3 4",
	"a b c d e f g h i j k l m n o p q r s", "aa,a;a", "a\n b", "€ 😀"}
var dirtyTexts = []string{"a b c", "a\vb", "a b", "a b\r", "\fa b", "a\u0085b", "　x y", "a\rb c", "\xc2\xa0"}
var cleanAlpha = []string{"a", "b", "10", "1", " ", "  ", ",", "\t", "|", "é", ".", "x", ";", "\n", "\xff", "aa"}
var dirtyAlpha = []string{" ", "\v", "\r", " ", "\f"}

type nfVal struct {
	v   float64
	str bool
	vs  string
}

// numeric view, is-a-string, string view (CONVFMT "%.6g" rendering for numbers)
var cleanNF = []nfVal{{0, false, "0"}, {1, false, "1"}, {2, false, "2"}, {3, false, "3"}, {5, false, "5"}, {7, false, "7"},
	{-1, false, "-1"}, {1000001, false, "1000001"}, {9223372036854775808.0, false, "9.22337e+18"}, {-3, false, "-3"}, {20, false, "20"}}
var dirtyNF = []nfVal{{2.7, false, "2.7"}, {0.5, false, "0.5"}, {3.999, false, "3.999"}, {-0.5, false, "-0.5"}, {1.5, false, "1.5"},
	{3, true, "3abc"}, {2, true, "2"}, {4, true, " 4 "}, {0, true, ""}, {0, true, "x"}, {10, true, "1e1"}, {2.9, true, "2.9"}}

var cleanIdx = []float64{0, 1, 2, 3, -1, -2, 0.5, 1.9, -0.5, 5, 9, 1000001, 4294967297, 2147483648, -1000001, -3}
var dirtyIdx = []float64{9223372036854775808.0, -9223372036854775808.0, 1e30, -1e30, 18446744073709551616.0}

var ofsPool = []string{" ", ",", "", "--", "\t", "é", ":", "\n"}

func lit(c rune) *hx.Re         { return &hx.Re{Kind: "chr", R: c} }
func cat(a, b *hx.Re) *hx.Re    { return &hx.Re{Kind: "cat", A: a, B: b} }
func alt(a, b *hx.Re) *hx.Re    { return &hx.Re{Kind: "alt", A: a, B: b} }
func plus(a *hx.Re) *hx.Re      { return &hx.Re{Kind: "plus", A: a} }
func star(a *hx.Re) *hx.Re      { return &hx.Re{Kind: "star", A: a} }
func opt(a *hx.Re) *hx.Re       { return &hx.Re{Kind: "opt", A: a} }
func cls(rs ...[2]rune) *hx.Re  { return &hx.Re{Kind: "cls", Ranges: rs} }
func ncls(rs ...[2]rune) *hx.Re { return &hx.Re{Kind: "cls", Neg: true, Ranges: rs} }

var fixedRegexes = []*hx.Re{
	plus(lit(',')),                                  // ,+
	cls([2]rune{' ', ' '}, [2]rune{',', ','}),       // [ ,]
	plus(lit(' ')),                                  //  +
	alt(lit(','), lit(';')),                         // ,|;
	star(lit('a')),                                  // a*   (empty matches)
	cat(lit(','), star(lit(' '))),                   // , *
	opt(lit('x')),                                   // x?
	cat(lit('a'), lit('a')),                         // aa
	plus(cls([2]rune{'0', '9'})),                    // [0-9]+
	cat(lit('.'), lit('b')),                         // \.b
	plus(ncls([2]rune{'a', 'z'})),                   // [^a-z]+
	cat(star(lit(' ')), cat(lit(','), star(lit(' ')))), //  *, *
	{Kind: "any"},                                   // .   (one rune: literal dot!)
	cat(&hx.Re{Kind: "any"}, lit(',')),              // .,
	cat(&hx.Re{Kind: "bol"}, lit('a')),              // ^a
	cat(lit('c'), &hx.Re{Kind: "eol"}),              // c$
}

var singleFS = []string{" ", ",", "\t", "|", "é", "", "a", ".", "\xff", ";", "\n", "*", "€"}
var badFS = []string{"((", "a)", "*+", "[a"}

// fsOp builds the SetFS operation for a separator text / regex AST
func fsText(t string) op { return op{K: "F", T: t} }
func fsRegex(re *hx.Re) op {
	t := re.Render()
	if utf8.RuneCountInString(t) <= 1 {
		return op{K: "F", T: t} // one rune: used literally by the implementation
	}
	return op{K: "F", T: t, Re: re}
}

func randFS(r *hx.Rand) op {
	switch r.Intn(10) {
	case 0, 1, 2, 3:
		return fsText(r.Pick(singleFS))
	case 4, 5, 6:
		return fsRegex(fixedRegexes[r.Intn(len(fixedRegexes))])
	case 7, 8:
		return fsRegex(hx.RandRe(r, 2, false))
	default:
		if r.Intn(3) == 0 {
			return op{K: "F", T: r.Pick(badFS), Bad: true}
		}
		return fsText(" ")
	}
}

func randText(r *hx.Rand, clean bool) string {
	_ = clean // every text class is checked to the end now (exotic white space included)
	if r.Intn(2) == 0 {
		if r.Intn(4) == 0 {
			return r.Pick(dirtyTexts)
		}
		return r.Pick(cleanTexts)
	}
	n := r.Intn(9)
	var sb strings.Builder
	for i := 0; i < n; i++ {
		if r.Intn(10) == 0 {
			sb.WriteString(r.Pick(dirtyAlpha))
		} else {
			sb.WriteString(r.Pick(cleanAlpha))
		}
	}
	return strings.ReplaceAll(sb.String(), recSep, "")
}

func randIdx(r *hx.Rand, clean bool, allowBig bool) idx {
	switch r.Intn(10) {
	case 0, 1:
		return idx{Kind: 'n', D: []int{0, 1, 3, -1, 2}[r.Intn(5)]}
	case 2:
		return idx{Kind: 'm', D: []int{-1, 0, 1, 2}[r.Intn(4)]}
	case 3:
		if !clean && r.Intn(6) == 0 {
			return idx{Kind: 'c', X: F64(math.NaN())}
		}
		if r.Intn(2) == 0 {
			return idx{Kind: 'c', X: F64(r.PickF(dirtyIdx))}
		}
		fallthrough
	case 4:
		if allowBig && r.Intn(3) == 0 {
			return idx{Kind: 'c', X: 1000000}
		}
		fallthrough
	default:
		x := r.PickF(cleanIdx)
		return idx{Kind: 'c', X: F64(x), Lit: r.Bool()}
	}
}

func randNF(r *hx.Rand, clean bool, allowBig bool) op {
	var v nfVal
	switch {
	case allowBig && r.Intn(4) == 0:
		v = nfVal{1000000, false, "1000000"}
	case !clean && r.Intn(2) == 0:
		v = dirtyNF[r.Intn(len(dirtyNF))]
	default:
		v = cleanNF[r.Intn(len(cleanNF))]
	}
	return op{K: "W", V: F64(v.v), Str: v.str, VS: v.vs}
}

// preamble: fix the input splitter to the byte 0x01 (the scanner is created by the first
// getline and keeps its splitter), then put RS to what the script wants.
func preamble(rsEmpty bool) []op {
	rs := "\n"
	if rsEmpty {
		rs = ""
	}
	return []op{{K: "P", T: recSep}, {K: "R", T: ""}, {K: "P", T: rs}}
}

var modKinds = []string{"suba", "gsuba", "subempty", "subsame", "gsubsame", "app", "incr", "add2", "id", "idsv"}

// values for field assignments: they contain the usual separators (so that the field list is no
// longer the split of the rebuilt $0), or are the text the typing probe looks for
var sepTexts = []string{"10", "x y", "u,v", "a|b", "p;q", "m  n", "1,2 3", "10 10", "q,,r", " ", "x\ty", "aXXb"}

var smallIdx = []idx{{Kind: 'c', X: 1, Lit: true}, {Kind: 'c', X: 2}, {Kind: 'c', X: 3, Lit: true}, {Kind: 'c', X: 0}, {Kind: 'c', X: -1}, {Kind: 'n', D: 0}, {Kind: 'n', D: 1}}

func assignText(r *hx.Rand) string {
	if r.Intn(3) == 0 {
		return r.Pick(sepTexts)
	}
	return randText(r, true)
}

func randOp(r *hx.Rand, clean, allowBig, beforePreamble bool) []op {
	for {
		k := r.Intn(100)
		switch {
		case k < 12:
			if beforePreamble {
				continue
			}
			return []op{{K: "R", T: randText(r, clean)}}
		case k < 20:
			return []op{{K: "S", I: idx{Kind: 'c', X: F64([]float64{0, 0.5, -0.5}[r.Intn(3)]), Lit: r.Bool()}, T: randText(r, clean)}}
		case k < 27:
			return []op{{K: "G", I: randIdx(r, clean, false)}}
		case k < 31:
			return []op{{K: "T", I: smallIdx[r.Intn(len(smallIdx))]}}
		case k < 48:
			return []op{{K: "S", I: randIdx(r, clean, allowBig), T: assignText(r)}}
		case k < 51:
			if beforePreamble {
				continue
			}
			return []op{{K: "L", I: randIdx(r, true, false), T: assignText(r)}}
		case k < 57:
			return []op{{K: "M", I: randIdx(r, clean, false), T: r.Pick(modKinds)}}
		case k < 59:
			if beforePreamble {
				continue
			}
			return []op{{K: "K", T: randText(r, clean)}}
		case k < 65:
			return []op{{K: "N"}}
		case k < 73:
			return []op{randNF(r, clean, allowBig)}
		case k < 76:
			return []op{{K: "D", D: []int{1, -1, 2, -2, 3}[r.Intn(5)]}}
		case k < 84:
			return []op{randFS(r)}
		case k < 89:
			return []op{{K: "O", T: r.Pick(ofsPool)}}
		case k < 91:
			if beforePreamble {
				continue
			}
			return []op{{K: "P", T: []string{"", "\n", "x"}[r.Intn(3)]}}
		case k < 93:
			return []op{{K: "U", T: []string{"c", "t", "d"}[r.Intn(3)]}}
		case k < 94:
			if beforePreamble {
				continue
			}
			return []op{{K: "I", T: []string{"c", "d", "d"}[r.Intn(3)]}}
		default:
			return []op{{K: "V"}, {K: "G", I: idx{Kind: 'n', D: 1}}}
		}
	}
}

func randScript(r *hx.Rand, allowBig bool) script {
	clean := r.Intn(10) < 6
	var ops []op
	if r.Intn(4) == 0 {
		for i := r.Intn(3); i > 0; i-- {
			ops = append(ops, randOp(r, clean, false, true)...)
		}
	}
	ops = append(ops, preamble(r.Intn(5) == 0)...)
	n := 1 + r.Intn(12)
	for i := 0; i < n; i++ {
		ops = append(ops, randOp(r, clean, allowBig, false)...)
	}
	ops = append(ops, op{K: "V"}, op{K: "G", I: idx{Kind: 'n', D: 1}})
	return script{Ops: ops}
}

// ---- directed scripts -----------------------------------------------------------

type fsRegime struct {
	fs   op     // SetFS operation (nil K: keep the default)
	ofs  string // an OFS that the FS would split at
	rec  string // a record with three fields "10", "b", "10" in this regime
	sepv string // a field value that contains a separator of this regime
}

var regimes = []fsRegime{
	{op{}, " ", "10 b 10", "x y"},
	{fsText(","), ",", "10,b,10", "u,v"},
	{fsText("|"), "|", "10|b|10", "a|b"},
	{fsText("\t"), "\t", "10\tb\t10", "x\ty"},
	{fsRegex(plus(lit(','))), ",", "10,b,,10", "u,,v"},
	{fsRegex(cls([2]rune{' ', ' '}, [2]rune{',', ','})), " ", "10 b,10", "p,q"},
	{fsRegex(cat(lit('X'), lit('X'))), "XX", "10XXbXX10", "aXXb"},
}

// lastLine: $0 as the implementation has it after the script (nil if abbreviated / stopped)
func lastLine(s script) (string, bool) {
	tr := runImpl(s)
	if len(tr) != len(s.Ops) || len(tr) == 0 {
		return "", false
	}
	p := strings.SplitN(tr[len(tr)-1], " r=", 2)
	if len(p) != 2 {
		return "", false
	}
	return unabbr(p[1])
}

// sameTextScript: make the field list differ from the split of the rebuilt $0 (a field value
// containing the separator, NF extension, a field emptied ...) with the fields already split,
// then set the record to exactly the text $0 has at that moment -- through $0 = $0, a saved
// copy, an assignment of the same text, a new input record with that text, getline $0 --
// and look at everything again.  The record must be split afresh.
func sameTextScript(r *hx.Rand) script {
	reg := regimes[r.Intn(len(regimes))]
	ops := preamble(r.Intn(8) == 0)
	if reg.fs.K != "" {
		ops = append(ops, reg.fs)
	}
	if r.Intn(3) > 0 {
		ops = append(ops, op{K: "O", T: reg.ofs})
	}
	if r.Intn(6) == 0 {
		ops = append(ops, op{K: "U", T: []string{"c", "t"}[r.Intn(2)]})
	}
	V, G := op{K: "V"}, op{K: "G", I: idx{Kind: 'n', D: 1}}
	ops = append(ops, op{K: "R", T: []string{reg.rec, "p q", reg.rec + reg.ofs + "z"}[r.Intn(3)]}, V)
	rounds := 1 + r.Intn(2)
	for k := 0; k < rounds; k++ {
		for j := 1 + r.Intn(2); j > 0; j-- {
			switch r.Intn(6) {
			case 0, 1, 2:
				ops = append(ops, op{K: "S", I: smallIdx[r.Intn(3)], T: []string{reg.sepv, reg.sepv, "10", ""}[r.Intn(4)]})
			case 3:
				ops = append(ops, op{K: "W", V: F64(4 + r.Intn(3)), VS: fmt.Sprint(4 + r.Intn(1))})
				ops[len(ops)-1].VS = fmt.Sprint(int(ops[len(ops)-1].V))
			case 4:
				ops = append(ops, op{K: "M", I: smallIdx[r.Intn(3)], T: "app"})
			default:
				ops = append(ops, op{K: "L", I: smallIdx[r.Intn(3)], T: reg.sepv})
			}
		}
		switch r.Intn(6) {
		case 0:
			ops = append(ops, op{K: "M", I: idx{Kind: 'c', X: 0}, T: "id"})
		case 1:
			ops = append(ops, op{K: "M", I: idx{Kind: 'c', X: 0}, T: "idsv"})
		default:
			text, ok := lastLine(script{Ops: ops})
			if !ok || strings.Contains(text, recSep) {
				ops = append(ops, op{K: "M", I: idx{Kind: 'c', X: 0}, T: "id"})
				break
			}
			switch r.Intn(3) {
			case 0:
				ops = append(ops, op{K: "R", T: text})
			case 1:
				ops = append(ops, op{K: "S", I: idx{Kind: 'c', X: 0, Lit: r.Bool()}, T: text})
			default:
				ops = append(ops, op{K: "L", I: idx{Kind: 'c', X: 0}, T: text})
			}
		}
		ops = append(ops, V, G, op{K: "T", I: smallIdx[r.Intn(3)]})
	}
	return script{Ops: ops}
}

// subScript: sub()/gsub() with a field or $0 as target, on records whose $0 is not the
// canonical OFS-join of its fields (runs of blanks, OFS changed since, CSV/TSV output mode) or
// after an FS change.  A substitution that was made (n > 0) is an assignment to the target --
// $0 rebuilt with OFS, NF extended, $0 re-split with the FS in force -- also when the text it
// stores equals the old one; no substitution (n = 0) changes nothing.
func subScript(r *hx.Rand) script {
	reg := regimes[r.Intn(len(regimes))]
	ops := preamble(r.Intn(8) == 0)
	if reg.fs.K != "" {
		ops = append(ops, reg.fs)
	}
	rec := []string{"a  b   c", " ab\tb ", reg.rec, strings.ReplaceAll(reg.rec, "10", "b"), "b" + reg.ofs + reg.ofs + "b"}[r.Intn(5)]
	ops = append(ops, op{K: "R", T: rec})
	if r.Bool() {
		ops = append(ops, op{K: "V"})
	}
	switch r.Intn(4) {
	case 0:
		ops = append(ops, op{K: "O", T: "-"})
	case 1:
		ops = append(ops, op{K: "O", T: reg.ofs + reg.ofs})
	case 2:
		ops = append(ops, op{K: "U", T: []string{"c", "t"}[r.Intn(2)]})
	}
	targets := []idx{{Kind: 'c', X: 1, Lit: true}, {Kind: 'c', X: 2}, {Kind: 'c', X: 3, Lit: true}, {Kind: 'c', X: 5}, {Kind: 'c', X: -1},
		{Kind: 'n', D: 0}, {Kind: 'n', D: 2}, {Kind: 'c', X: 0}, {Kind: 'c', X: 0, Lit: true}}
	kinds := []string{"subempty", "subsame", "gsubsame", "subempty", "suba", "gsuba"}
	for k := 1 + r.Intn(3); k > 0; k-- {
		t := targets[r.Intn(len(targets))]
		if t.Kind == 'c' && float64(t.X) == 0 && r.Bool() {
			ops = append(ops, randFS(r)) // FS changed before a sub on $0: the re-split uses the new FS
		}
		ops = append(ops, op{K: "M", I: t, T: kinds[r.Intn(len(kinds))]}, op{K: "V"}, op{K: "G", I: idx{Kind: 'n', D: 1}})
		if r.Intn(3) == 0 {
			ops = append(ops, op{K: "T", I: smallIdx[r.Intn(3)]})
		}
	}
	return script{Ops: ops}
}

// typingScript: several records; fields (and NF, $0) assigned in earlier ones; the typing probe
// on the same positions in later ones.  A field that comes from input compares as a number
// when it looks like one, whatever was assigned at that position in an earlier record.
func typingScript(r *hx.Rand) script {
	reg := regimes[r.Intn(len(regimes))]
	ops := preamble(false)
	if reg.fs.K != "" {
		ops = append(ops, reg.fs)
	}
	if r.Bool() {
		ops = append(ops, op{K: "O", T: reg.ofs})
	}
	probes := func() {
		for _, i := range []idx{{Kind: 'c', X: 1, Lit: true}, {Kind: 'c', X: 3}, {Kind: 'c', X: 0}} {
			if r.Intn(4) > 0 {
				ops = append(ops, op{K: "T", I: i})
			}
		}
	}
	nrec := 2 + r.Intn(3)
	for k := 0; k < nrec; k++ {
		switch r.Intn(4) {
		case 0:
			ops = append(ops, op{K: "S", I: idx{Kind: 'c', X: 0}, T: reg.rec})
		case 1:
			ops = append(ops, op{K: "L", I: idx{Kind: 'c', X: 0}, T: reg.rec})
		default:
			ops = append(ops, op{K: "R", T: []string{reg.rec, reg.rec, "10"}[r.Intn(3)]})
		}
		if r.Intn(3) == 0 {
			probes()
		}
		for j := r.Intn(3); j > 0; j-- {
			switch r.Intn(5) {
			case 0, 1:
				ops = append(ops, op{K: "S", I: []idx{{Kind: 'c', X: 1, Lit: true}, {Kind: 'c', X: 3}, {Kind: 'c', X: 5}}[r.Intn(3)], T: "10"})
			case 2:
				ops = append(ops, op{K: "L", I: idx{Kind: 'c', X: F64(1 + 2*r.Intn(2))}, T: "10"})
			case 3:
				ops = append(ops, op{K: "M", I: idx{Kind: 'c', X: F64(1 + 2*r.Intn(2))}, T: "id"})
			default:
				n := 1 + r.Intn(5)
				ops = append(ops, op{K: "W", V: F64(n), VS: fmt.Sprint(n)})
			}
		}
		probes()
	}
	ops = append(ops, op{K: "V"})
	return script{Ops: ops}
}

// the small alphabet for exhaustive short scripts; a full view follows every operation
func alphabet() []op {
	c := func(x float64) idx { return idx{Kind: 'c', X: F64(x)} }
	return []op{
		{K: "R", T: "10 b c"},
		{K: "R", T: "10,b,,c"},
		{K: "S", I: c(0), T: " x  y "},
		{K: "G", I: c(1)},
		{K: "G", I: c(-1)},
		{K: "S", I: c(2), T: "Z W"},
		{K: "S", I: c(1), T: "10"},
		{K: "M", I: c(0), T: "id"},
		{K: "M", I: c(2), T: "subempty"},
		{K: "T", I: c(1)},
		{K: "S", I: idx{Kind: 'n', D: 2}, T: "W"},
		{K: "S", I: c(-1), T: "Q"},
		{K: "W", V: 1, VS: "1"},
		{K: "W", V: 5, VS: "5"},
		{K: "W", V: 0, VS: "0"},
		fsText(","),
		{K: "O", T: "-"},
		{K: "N"},
	}
}

func exhaustive(maxLen int) []script {
	al := alphabet()
	var out []script
	var rec func(cur []op, depth int)
	rec = func(cur []op, depth int) {
		if depth > 0 {
			ops := preamble(false)
			for _, o := range cur {
				ops = append(ops, o, op{K: "V"}, op{K: "G", I: idx{Kind: 'n', D: 1}})
			}
			out = append(out, script{Ops: ops})
		}
		if depth == maxLen {
			return
		}
		for _, o := range al {
			rec(append(append([]op{}, cur...), o), depth+1)
		}
	}
	rec(nil, 0)
	return out
}

// hand-written scripts: the witnesses of the findings (present and repaired) and the classic interactions
func fixedScripts() []script {
	c := func(x float64) idx { return idx{Kind: 'c', X: F64(x)} }
	pre := preamble(false)
	mk := func(ops ...op) script { return script{Ops: append(append([]op{}, pre...), ops...)} }
	V := op{K: "V"}
	return []script{
		mk(op{K: "R", T: "a b c"}, op{K: "W", V: 2.7, VS: "2.7"}, op{K: "N"}, V),                                   // F-C06-1
		mk(op{K: "R", T: "a b c"}, op{K: "W", V: 3, Str: true, VS: "3abc"}, op{K: "N"}, V),                          // F-C06-1 (string)
		mk(op{K: "R", T: "a b c"}, op{K: "L", I: c(2), T: "X"}, V),                                                  // getline $2
		mk(op{K: "R", T: "a b c"}, V),                                                                          // NBSP
		mk(op{K: "R", T: "a b c"}, op{K: "S", I: c(1e30), T: "x"}, V),                                               // index beyond int64
		mk(op{K: "R", T: "a b c"}, fsText(","), op{K: "G", I: c(1)}, V),                                             // FS change does not re-split
		mk(fsText(","), op{K: "R", T: "a,b c"}, fsText(" "), op{K: "G", I: c(2)}, V),                                // lazy split uses saved FS
		mk(op{K: "R", T: "a b c"}, op{K: "W", V: 2, VS: "2"}, V, op{K: "W", V: 4, VS: "4"}, V),                        // shrink then extend
		mk(op{K: "R", T: "a b c"}, op{K: "O", T: "-"}, V, op{K: "S", I: c(1), T: "A"}, V, op{K: "O", T: ":"}, op{K: "S", I: c(5), T: "E"}, V),
		mk(op{K: "R", T: "a b c"}, op{K: "S", I: c(1000001), T: "x"}),                                               // error
		mk(op{K: "R", T: "a b c"}, op{K: "W", V: -1, VS: "-1"}),                                                     // error
		mk(op{K: "R", T: "a b c"}, op{K: "W", V: 1000001, VS: "1000001"}),                                           // error
		mk(op{K: "P", T: ""}, fsText(","), op{K: "R", T: "a,b\nc,d\r\ne"}, V),                                        // RS="" newline rule
		mk(op{K: "U", T: "c"}, op{K: "R", T: "a b c"}, op{K: "S", I: c(2), T: "x,\"y\""}, V, op{K: "S", I: c(5), T: " lead"}, V), // CSV output mode
		mk(fsText(","), op{K: "S", I: c(0), T: "a,b\nc"}, op{K: "P", T: ""}, op{K: "N"}),                                 // lazy split consults the current RS
		mk(fsText(""), op{K: "R", T: "aéb"}, V),                                                                       // empty FS
		// setting the record to the text it already has re-splits it
		mk(op{K: "R", T: "p q"}, V, op{K: "S", I: c(1), T: "x y"}, op{K: "M", I: c(0), T: "id"}, V),
		mk(op{K: "R", T: "p q"}, V, op{K: "W", V: 4, VS: "4"}, op{K: "M", I: c(0), T: "idsv"}, V),
		mk(fsText(","), op{K: "O", T: ","}, op{K: "R", T: "a,b"}, V, op{K: "S", I: c(2), T: "u,v"}, op{K: "S", I: c(0), T: "a,u,v"}, V),
		mk(op{K: "R", T: "p q"}, V, op{K: "S", I: c(1), T: "x y"}, op{K: "R", T: "x y q"}, V),
		// a substitution that matches without changing the text is still an assignment
		mk(op{K: "O", T: "-"}, op{K: "R", T: "a  b   c"}, op{K: "M", I: c(2), T: "subsame"}, V),
		mk(op{K: "R", T: "a b c"}, V, op{K: "M", I: c(5), T: "subempty"}, V),
		mk(op{K: "R", T: "a:b c"}, V, fsText(":"), op{K: "M", I: idx{Kind: 'c', X: 0, Lit: true}, T: "subempty"}, op{K: "G", I: c(1)}, V),
		mk(op{K: "R", T: "a  b"}, op{K: "M", I: c(1), T: "subsame"}, V), // no b in $1: nothing happens
		// flags of an earlier record do not survive into the next one
		mk(op{K: "R", T: "10 10"}, op{K: "S", I: c(1), T: "10"}, op{K: "T", I: c(1)}, op{K: "R", T: "10 10"}, op{K: "T", I: c(1)}, op{K: "T", I: c(2)}),
		mk(op{K: "R", T: "b 10"}, op{K: "S", I: c(3), T: "10"}, op{K: "R", T: "10 10 10"}, op{K: "T", I: c(3)}, op{K: "T", I: c(0)}),
		// the largest NF and the largest index (one record of 10^6 fields)
		mk(op{K: "R", T: "a b c"}, op{K: "W", V: 1000000, VS: "1000000"}, op{K: "G", I: c(-1000000)}, op{K: "S", I: c(1000000), T: "x"}, op{K: "N"}),
	}
}

func genScripts(o hx.Opts, r *hx.Rand) []script {
	var out []script
	out = append(out, fixedScripts()...)
	if o.Tier == "thorough" {
		out = append(out, exhaustive(3)...)
	} else {
		out = append(out, exhaustive(2)...)
	}
	n := o.N
	if n == 0 {
		n = 2000
		if o.Tier == "thorough" {
			n = 100000
		}
	}
	big := 1
	if o.Tier == "thorough" {
		big = 40
	}
	for i := 0; i < n; i++ {
		switch {
		case i%10 == 3:
			out = append(out, sameTextScript(r))
		case i%10 == 7:
			out = append(out, typingScript(r))
		case i%10 == 5:
			out = append(out, subScript(r))
		default:
			out = append(out, randScript(r, i < big))
		}
	}
	return out
}

func nontrivial(s script) bool {
	for _, o := range s.Ops {
		switch o.K {
		case "S", "L", "M", "W", "D":
			return true
		case "R":
			if o.T != "" {
				return true
			}
		}
	}
	return false
}
