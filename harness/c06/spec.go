package main

// The search oracle: the property's own equations, evaluated on the implementation's
// transcript.  Written from the property text (POSIX field semantics), not from the model:
//   * NF is the number of fields (as a number and as printed);
//   * reading $0, $i, NF changes nothing;
//   * $i = t (i >= 1): intervening new fields empty, $0 = fields joined by the current OFS
//     (CSV-encoded in CSV output mode), NF = max(NF, i); negative i counts from the last
//     field, below the first field nothing happens; i > maxFieldIndex is an error;
//   * getline $i, sub/gsub/++/+= on $i behave as that assignment;
//   * NF = n truncates / extends with empty fields and rebuilds $0; n < 0 or n > max: error;
//   * $0 = t / a new record re-splits with the FS then in force: " " = runs of blanks
//     (space, tab, newline) with leading/trailing ones ignored; another single character is
//     literal; longer = regex, leftmost-longest, empty matches ignored; an FS change does
//     not re-split the current record; fields past NF read as empty.
// Where the text leaves the outcome open (NaN index, empty FS, RS="" with embedded
// newlines, CSV input mode) the oracle marks its expectation unknown and resynchronises
// at the next full view.

import (
	"bytes"
	"encoding/csv"
	"fmt"
	"math"
	"regexp"
	"strconv"
	"strings"
	"unicode"
	"unicode/utf8"

	"verif/harness/hx"
)

const maxFieldIndex = 1000000

type spec struct {
	line      string
	fields    []string
	known     bool // line and fields are known
	flags      []bool // per field: assigned by the program (a string) rather than split from input (a strnum)
	lineTrue   bool   // $0 was assigned / rebuilt by the program
	flagsKnown bool
	nfTainted bool
	fs        string
	fsRe      *regexp.Regexp
	fsOpen    bool // splitting by this FS is not fixed by the property text
	ofs       string
	rs        string
	inCSV     bool
	outMode   string
	keepTaint        bool // the record is being replaced through an NF-relative index: attribution stays
	rsEmptySomewhere bool // the script sets RS="" at some point
	taint     string // input class of a known-finding trigger seen since the last new record
}

func isBlank(r rune) bool { return r == ' ' || r == '\t' || r == '\n' }

func hasExoticSpace(t string) bool {
	for _, r := range t {
		if unicode.IsSpace(r) && !isBlank(r) {
			return true
		}
	}
	return false
}

// specSplit: the FS rules of the property text
func (sp *spec) split(t string) (fields []string, ok bool) {
	if sp.inCSV || sp.fsOpen {
		return nil, false
	}
	if sp.rs == "" && (strings.Contains(t, "\r") || (strings.Contains(t, "\n") && sp.fs != " ")) {
		// the newline-is-also-a-separator rule of RS="" (RS as it is when the record is set)
		// is outside the property text
		return nil, false
	}
	switch {
	case sp.fs == " ":
		return strings.FieldsFunc(t, isBlank), true
	case t == "":
		return nil, true
	case utf8.RuneCountInString(sp.fs) == 1:
		return strings.Split(t, sp.fs), true
	default:
		// leftmost-longest, empty matches ignored; done by hand on top of FindStringIndex
		prev, pos := 0, 0
		for pos <= len(t) {
			loc := sp.fsRe.FindStringIndex(t[pos:])
			if loc == nil {
				break
			}
			a, b := pos+loc[0], pos+loc[1]
			if a == b {
				if a >= len(t) {
					break
				}
				_, w := utf8.DecodeRuneInString(t[a:])
				pos = a + w
				continue
			}
			fields = append(fields, t[prev:a])
			prev, pos = b, b
		}
		return append(fields, t[prev:]), true
	}
}

func (sp *spec) join(fields []string) string {
	switch sp.outMode {
	case "c", "t":
		if len(fields) == 1 && fields[0] == "" {
			return `""` // a row that is a single empty field is written quoted (an empty line would be no row)
		}
		var buf bytes.Buffer
		w := csv.NewWriter(&buf)
		if sp.outMode == "t" {
			w.Comma = '\t'
		}
		_ = w.Write(fields)
		w.Flush()
		return strings.TrimSuffix(buf.String(), "\n")
	}
	return strings.Join(fields, sp.ofs)
}

func (sp *spec) setRecord(t string) {
	sp.line = t
	f, ok := sp.split(t)
	sp.fields, sp.known = f, ok
	sp.flags, sp.flagsKnown = make([]bool, len(f)), ok // fields split from a record are number-looking strings
	sp.nfTainted = false
	if !sp.keepTaint {
		sp.taint = ""
	}
}

// evalIdx: the index as a mathematical integer; class for failure attribution
func (sp *spec) evalIdx(i idx) (n float64, ok bool, class string) {
	switch i.Kind {
	case 'c':
		x := float64(i.X)
		if x != x {
			return 0, false, "nan"
		}
		t := math.Trunc(x)
		if math.Abs(t) >= 9223372036854775808.0 {
			return t, true, "beyond-int64"
		}
		return t, true, "const"
	case 'n':
		if sp.nfTainted && sp.taint == "" {
			sp.taint = "setnf-nonintegral-or-string" // NF itself enters the index arithmetic
		}
		if !sp.known {
			return 0, false, "nf-relative"
		}
		return float64(len(sp.fields) + i.D), true, "nf-relative"
	default:
		if sp.nfTainted && sp.taint == "" {
			sp.taint = "setnf-nonintegral-or-string"
		}
		if !sp.known {
			return 0, false, "nf-relative"
		}
		return float64(-len(sp.fields) + i.D), true, "nf-relative"
	}
}

func (sp *spec) get(n float64) (string, bool) {
	if n == 0 {
		return sp.line, sp.known
	}
	if !sp.known {
		return "", false
	}
	if n < 0 {
		n = float64(len(sp.fields)) + 1 + n
		if n < 1 {
			return "", true
		}
	}
	if n > float64(len(sp.fields)) {
		return "", true
	}
	return sp.fields[int(n)-1], true
}

// set: $n = t.  wantErr: the assignment must be rejected.
func (sp *spec) set(n float64, t string) (wantErr bool) {
	if n == 0 {
		sp.setRecord(t)
		sp.lineTrue = true
		return false
	}
	if n > maxFieldIndex {
		return true
	}
	if !sp.known {
		return false
	}
	if n < 0 {
		n = float64(len(sp.fields)) + 1 + n
		if n < 1 {
			return false
		}
	}
	for float64(len(sp.fields)) < n {
		sp.fields = append(sp.fields, "")
	}
	for len(sp.flags) < len(sp.fields) {
		sp.flags = append(sp.flags, true)
	}
	sp.fields = append([]string{}, sp.fields...)
	sp.fields[int(n)-1] = t
	sp.flags[int(n)-1] = true
	sp.line = sp.join(sp.fields)
	sp.lineTrue = true
	sp.nfTainted = false
	return false
}

func (sp *spec) setNF(n float64) (wantErr bool) {
	if n < 0 || n > maxFieldIndex {
		return true
	}
	if !sp.known {
		return false
	}
	k := int(n)
	f := append([]string{}, sp.fields...)
	if k < len(f) {
		f = f[:k]
	}
	for len(f) < k {
		f = append(f, "")
	}
	sp.fields = f
	if k < len(sp.flags) {
		sp.flags = sp.flags[:k]
	}
	for len(sp.flags) < k {
		sp.flags = append(sp.flags, false)
	}
	sp.line = sp.join(f)
	sp.lineTrue = true
	return false
}

func modApply(kind, old string) (string, bool, bool) { // new text, store?, known?
	switch kind {
	case "suba":
		if !strings.Contains(old, "a") {
			return "", false, true
		}
		return strings.Replace(old, "a", "b", 1), true, true
	case "gsuba":
		if !strings.Contains(old, "a") {
			return "", false, true
		}
		return strings.ReplaceAll(old, "a", "bb"), true, true
	case "subempty":
		return old, true, true // a substitution was made (n = 1): the target is assigned
	case "subsame", "gsubsame":
		return old, strings.Contains(old, "b"), true
	case "app":
		return old + "x", true, true
	case "id", "idsv":
		return old, true, true
	case "incr", "add2":
		d := int64(1)
		if kind == "add2" {
			d = 2
		}
		if old == "" {
			return strconv.FormatInt(d, 10), true, true
		}
		if len(old) > 15 {
			return "", true, false
		}
		n, err := strconv.ParseInt(old, 10, 64)
		if err != nil || strings.HasPrefix(old, "+") {
			return "", true, false
		}
		return strconv.FormatInt(n+d, 10), true, true
	}
	panic(kind)
}

func fieldsView(nfNum float64, nfStr string, fields []string) string {
	var sb strings.Builder
	m := len(fields)
	fmt.Fprintf(&sb, "a=%s/%s/%d:", hx.FCanon(nfNum), abbr(nfStr), m)
	if m <= 16 {
		for k, f := range fields {
			if k > 0 {
				sb.WriteString(",")
			}
			sb.WriteString(abbr(f))
		}
	} else {
		sb.WriteString(abbr(fields[0]) + "," + abbr(fields[1]) + "," + abbr(fields[2]) + ",..," + abbr(fields[m-3]) + "," + abbr(fields[m-2]) + "," + abbr(fields[m-1]))
	}
	return sb.String()
}

// parseAll decodes an implementation "a=" output when nothing in it is abbreviated
func parseAll(out string) (fields []string, ok bool) {
	parts := strings.SplitN(strings.TrimPrefix(out, "a="), "/", 3)
	if len(parts) != 3 {
		return nil, false
	}
	cf := strings.SplitN(parts[2], ":", 2)
	m, err := strconv.Atoi(cf[0])
	if err != nil || len(cf) != 2 {
		return nil, false
	}
	if m == 0 {
		return nil, true
	}
	if m > 16 {
		return nil, false
	}
	for _, h := range strings.Split(cf[1], ",") {
		if strings.HasPrefix(h, "L") {
			return nil, false
		}
		fields = append(fields, string(hx.UnHex(h)))
	}
	return fields, len(fields) == m
}

func unabbr(a string) (string, bool) {
	if strings.HasPrefix(a, "L") {
		return "", false
	}
	return string(hx.UnHex(a)), true
}

func opClass(sp *spec, o op) string {
	idxc := func(i idx) string {
		_, _, c := sp.evalIdx(i)
		if c == "const" {
			x := math.Trunc(float64(i.X))
			switch {
			case x == 0:
				c = "zero"
			case x > maxFieldIndex:
				c = "over-max"
			case x > 0:
				c = "positive"
			default:
				c = "negative"
			}
		}
		return c
	}
	fsc := func() string {
		c := "fs-regex"
		switch {
		case sp.fs == " ":
			c = "fs-space"
		case sp.fs == "":
			c = "fs-empty"
		case utf8.RuneCountInString(sp.fs) == 1:
			c = "fs-char"
		}
		if sp.rs == "" {
			c += "-rs-empty"
		}
		return c
	}
	switch o.K {
	case "R":
		return "record-" + fsc()
	case "S":
		if c := idxc(o.I); c == "zero" {
			return "assign-record-" + fsc()
		} else {
			return "setfield-idx-" + c
		}
	case "L":
		if c := idxc(o.I); c == "zero" {
			return "getline-record"
		}
		return "getline-field"
	case "M":
		return "modfield-" + o.T + "-idx-" + idxc(o.I)
	case "G":
		return "getfield-idx-" + idxc(o.I)
	case "T":
		return "typeof-idx-" + idxc(o.I)
	case "W":
		if canonicalCount(o) {
			return "setnf-integral"
		}
		return "setnf-nonintegral-or-string"
	case "D":
		if sp.nfTainted {
			return "modnf-after-nonintegral-setnf"
		}
		return "modnf"
	case "N":
		return "getnf"
	case "V":
		return "view"
	}
	return "setvar-" + o.K
}

// canonicalCount: the assigned value is an integer written the way a count is
func canonicalCount(o op) bool {
	v := float64(o.V)
	return !o.Str && v == math.Trunc(v) && math.Abs(v) < 1e15 && o.VS == strconv.FormatInt(int64(v), 10)
}

func isMutator(k string) bool {
	switch k {
	case "R", "S", "L", "M", "W", "D":
		return true
	}
	return false
}

// scriptClass: class of the last mutating operation up to and including step
func scriptClass(s script, step int) string {
	sp := &spec{fs: " ", ofs: " ", rs: "\n", known: true}
	cl := "initial"
	for i, o := range s.Ops {
		if i > step {
			break
		}
		if isMutator(o.K) || i == step {
			cl = opClass(sp, o)
		}
		switch o.K {
		case "F":
			sp.fs = o.T
		case "P":
			sp.rs = o.T
		}
	}
	return cl
}

// checkScript runs the specification along the implementation transcript and reports the
// first violated equation (then stops: later steps would only echo it).
func checkScript(s script, impl []string) []hx.Failure {
	sp := &spec{fs: " ", ofs: " ", rs: "\n", known: true}
	for _, o := range s.Ops {
		if o.K == "P" && o.T == "" {
			sp.rsEmptySomewhere = true
		}
	}
	lastMut := "initial"
	var fails []hx.Failure
	curOp := op{}
	curBeyond := false
	prevTaint := ""
	// Attribution of a failure to an input class.  The input classes of the known
	// findings get one fixed oracle name each; everything else is classified by the last
	// mutating operation and the equation that failed.
	fail := func(step int, oracle, want, got string) {
		class := lastMut
		nfOnly := oracle == "NF = number of fields"
		taint := sp.taint
		if taint == "" {
			taint = prevTaint
		}
		switch {
		case taint == "setnf-nonintegral-or-string" || (sp.nfTainted && (nfOnly || strings.HasPrefix(lastMut, "modnf"))):
			class, oracle = "setnf-nonintegral-or-string", "NF = number of fields"
		}
		fails = append(fails, hx.Failure{Class: class, Oracle: oracle, Detail: detail(s, impl, step, want, got)})
	}
	_, _ = curOp, curBeyond
	for step, o := range s.Ops {
		// what the implementation printed at this step
		got := ""
		if step < len(impl) {
			got = impl[step]
		}
		ended := step >= len(impl) || strings.HasPrefix(got, "err=") || got == "panic"
		if got == "panic" {
			lastMut = opClass(sp, o)
			fail(step, "no panic", "a result", "panic")
			return fails
		}
		if strings.HasPrefix(got, "err=NOT-A-RUNTIME-ERROR") || strings.Contains(got, hx.HexS("NOT-A-RUNTIME-ERROR")) {
			lastMut = opClass(sp, o)
			fail(step, "script runs", "a result or an AWK run-time error", got)
			return fails
		}
		gotOut, gotLine := "", ""
		if !ended {
			p := strings.SplitN(got, " r=", 2)
			if len(p) != 2 {
				lastMut = opClass(sp, o)
				fail(step, "script runs", "a transcript line", got)
				return fails
			}
			gotOut, gotLine = p[0], p[1]
		}
		if isMutator(o.K) {
			lastMut = opClass(sp, o)
		}
		prevTaint = sp.taint
		curOp, curBeyond = o, false
		sp.keepTaint = (o.K == "S" || o.K == "M" || o.K == "L") && o.I.Kind != 'c'
		if o.K == "M" {
			sp.keepTaint = true // the new text derives from the old one
		}
		if o.K == "S" || o.K == "M" || o.K == "L" {
			_, _, c := sp.evalIdx(o.I)
			curBeyond = c == "beyond-int64"
		}
		prevLine, prevKnown := sp.line, sp.known
		wantErr, errMaybe := false, false
		wantOut, outKnown := "-", true
		switch o.K {
		case "R":
			sp.setRecord(o.T)
			sp.lineTrue = false
		case "G":
			n, ok, _ := sp.evalIdx(o.I)
			v, vk := sp.get(n)
			wantOut, outKnown = "v="+abbr(v), ok && vk
		case "T":
			// typing: a field split from input is a number-looking string (compares as a number
			// when it looks like one), a field or $0 assigned by the program is a string
			n, ok, _ := sp.evalIdx(o.I)
			v, vk := sp.get(n)
			outKnown = ok && vk && sp.known
			if outKnown {
				wantOut = "t=-"
				if v == "10" {
					if !sp.flagsKnown {
						outKnown = false
						break
					}
					fl := sp.lineTrue
					if n != 0 {
						j := n
						if j < 0 {
							j = float64(len(sp.fields)) + 1 + j
						}
						fl = sp.flags[int(j)-1]
					}
					if fl {
						wantOut = "t=S"
					} else {
						wantOut = "t=N"
					}
				}
			}
		case "S", "L":
			n, ok, _ := sp.evalIdx(o.I)
			if !ok {
				sp.known, errMaybe = false, true
			} else {
				wantErr = sp.set(n, o.T)
			}
		case "M":
			n, ok, _ := sp.evalIdx(o.I)
			old, ok2 := sp.get(n)
			if !ok || !ok2 {
				sp.known, errMaybe = false, true
				break
			}
			nt, store, known := modApply(o.T, old)
			if !known {
				sp.known, errMaybe = false, n > maxFieldIndex
			} else if store {
				wantErr = sp.set(n, nt)
			}
		case "N":
			if sp.known {
				c := len(sp.fields)
				wantOut = "n=" + hx.FCanon(float64(c)) + "/" + abbr(strconv.Itoa(c))
			} else {
				outKnown = false
			}
		case "W":
			if !canonicalCount(o) {
				sp.nfTainted = true
			}
			v := float64(o.V)
			if v != v {
				sp.known = false
			} else {
				wantErr = sp.setNF(math.Trunc(v))
			}
		case "D":
			if sp.nfTainted && sp.taint == "" {
				// NF +/- d computed from a non-integral NF: the field count itself may be off by one
				sp.taint = "setnf-nonintegral-or-string"
			}
			if sp.known {
				wantErr = sp.setNF(float64(len(sp.fields) + o.D))
			} else {
				errMaybe = true
			}
		case "F":
			sp.fs, sp.fsOpen, sp.fsRe = o.T, false, nil
			if o.Bad {
				wantErr = true
			} else if utf8.RuneCountInString(o.T) > 1 {
				re, err := regexp.Compile("(?s:" + o.T + ")")
				if err != nil {
					sp.fsOpen = true
				} else {
					re.Longest()
					sp.fsRe = re
					if o.Re != nil && strings.ContainsAny(o.T, "^$") {
						sp.fsOpen = true // anchors: matching is in the context of the whole record; left to correspondence
					}
				}
			} else if o.T == "" {
				sp.fsOpen = true
			}
		case "O":
			sp.ofs = o.T
		case "P":
			sp.rs = o.T
		case "I":
			// like FS, the input mode in force when the record was set splits it
			sp.inCSV = o.T != "d"
		case "U":
			sp.outMode = o.T
		case "V":
			if sp.known {
				c := len(sp.fields)
				wantOut = fieldsView(float64(c), strconv.Itoa(c), sp.fields)
			} else {
				outKnown = false
			}
		}
		// ---- compare ----
		if wantErr {
			if !strings.HasPrefix(got, "err=") {
				fail(step, "out-of-range index / NF / bad FS is rejected with an error", "err=...", got)
			}
			return fails
		}
		if ended && errMaybe && strings.HasPrefix(got, "err=") {
			return fails
		}
		if ended {
			if step < len(impl) {
				fail(step, "no error on a valid operation", "a result", got)
			} else {
				fail(step, "script runs", "a transcript line", "(output ended)")
			}
			return fails
		}
		if outKnown && gotOut != wantOut {
			or := "value read = the field / $0 / NF the specification holds"
			switch o.K {
			case "T":
				or = "a field split from input compares as a number, an assigned one as a string"
			case "N":
				or = "NF = number of fields"
			case "V":
				or = "full view (NF, every field) = specification"
				// distinguish an NF-only difference
				wf := strings.SplitN(wantOut, "/", 3)
				gf := strings.SplitN(gotOut, "/", 3)
				if len(wf) == 3 && len(gf) == 3 && wf[2] == gf[2] {
					or = "NF = number of fields"
				}
			}
			fail(step, or, wantOut, gotOut)
			return fails
		}
		// reads change nothing (checked on $0 directly, whatever the expectation state)
		switch o.K {
		case "G", "T", "N", "V", "F", "O", "P", "U", "I", "K":
			if step > 0 && step-1 < len(impl) {
				pp := strings.SplitN(impl[step-1], " r=", 2)
				if len(pp) == 2 && pp[1] != gotLine {
					fail(step, "reads and separator changes leave $0 unchanged", pp[1], gotLine)
					return fails
				}
			}
			_ = prevLine
			_ = prevKnown
		}
		if sp.known && gotLine != abbr(sp.line) {
			or := "$0 = fields joined by OFS after an assignment"
			if o.K == "R" || (o.K == "S" && strings.HasPrefix(lastMut, "assign")) {
				or = "$0 = the text assigned / read"
			}
			fail(step, or, abbr(sp.line), gotLine)
			return fails
		}
		// resynchronise an unknown expectation at a full view
		if o.K == "V" && !sp.known {
			if f, ok := parseAll(gotOut); ok {
				if l, ok2 := unabbr(gotLine); ok2 {
					sp.fields, sp.line, sp.known = f, l, true
					sp.flags, sp.flagsKnown = make([]bool, len(f)), false
				}
			}
		}
	}
	if len(impl) > len(s.Ops) {
		fail(len(s.Ops), "script runs", "end of transcript", impl[len(s.Ops)])
	}
	return fails
}
