// Package awkgen: grammar-directed generator of terminating, deterministic AWK programs
// with render options for metamorphic rewrites (used by the C01, C02, C15, C18 harnesses).
package awkgen

import (
	"fmt"
	"strings"

	"verif/harness/hx"
)

// Render options: each rewrites the program into a semantically equivalent spelling that takes a
// different path through the compiler.
type Opts struct {
	ParenStmts bool // (x = e), (x++), (x += e) as statements: defeats the statement-position shortcuts
	ParenConds bool // if ((a < b)): defeats fused compare-and-branch
	GroupField bool // $(3) instead of $3: defeats FieldInt
	StrIndex   bool // A["1"] instead of A[1]: defeats the integer-index shortcut
	GroupCat   bool // ((a b) c) instead of a b c: defeats ConcatMulti
	IncrAsAug  bool // x += 1 instead of x++ (statement position only)
}

type Node struct {
	K    string // kind
	S    string // operator / name / literal
	Kids []*Node
	Body []*Node
	Else []*Node
}

func n(k, s string, kids ...*Node) *Node { return &Node{K: k, S: s, Kids: kids} }

type Gen struct {
	R        *hx.Rand
	Funcs    []*FuncDef
	curFunc  int // index of the function being generated (-1 at top level)
	loopVars int
	InLoop   int
	InForIn  bool
	NoIO     bool // programs that are executed: no child processes, no named fields
	InRule   bool
	depthCap int
}

type FuncDef struct {
	Name   string
	Params []string // p, q scalars; R array if HasArr
	HasArr bool
	Body   []*Node
}

var globalScalars = []string{"x", "y", "z", "s", "t"}
var globalArrays = []string{"A", "B"}
var specials = []string{"NF", "NR", "OFS", "SUBSEP", "CONVFMT", "RSTART", "FNR"}

func (g *Gen) scalarName() string {
	if g.curFunc >= 0 && g.R.Intn(2) == 0 {
		f := g.Funcs[g.curFunc]
		var sc []string
		for _, p := range f.Params {
			if p != "R" {
				sc = append(sc, p)
			}
		}
		if len(sc) > 0 {
			return sc[g.R.Intn(len(sc))]
		}
	}
	return globalScalars[g.R.Intn(len(globalScalars))]
}

func (g *Gen) arrayName() string {
	if g.curFunc >= 0 && g.Funcs[g.curFunc].HasArr && g.R.Intn(2) == 0 {
		return "R"
	}
	return globalArrays[g.R.Intn(len(globalArrays))]
}

var numLits = []string{"0", "1", "2", "3", "5", "10", "0.5", "2.5", "100", "1e3", "7"}
var strLits = []string{`""`, `"a"`, `"ab"`, `"x y"`, `"3"`, `"1.5"`, `"abc"`, `" "`, `"10x"`, `"A,B"`}

func (g *Gen) lvalue(d int) *Node {
	switch g.R.Intn(7) {
	case 0, 1, 2:
		return n("var", g.scalarName())
	case 3:
		if g.R.Intn(3) == 0 {
			return n("field", "", g.Expr(d-1))
		}
		return n("field", "", n("num", fmt.Sprint(g.R.Intn(4))))
	case 4, 5:
		if g.R.Intn(4) == 0 {
			return n("index", g.arrayName(), g.Expr(d-1), g.Expr(d-1))
		}
		return n("index", g.arrayName(), g.Expr(d-1))
	default:
		// assignable specials (safe ones)
		return n("var", []string{"OFS", "SUBSEP"}[g.R.Intn(2)])
	}
}

func (g *Gen) Expr(d int) *Node {
	r := g.R
	if d <= 0 || r.Intn(5) == 0 {
		switch r.Intn(9) {
		case 0, 1:
			return n("num", r.Pick(numLits))
		case 2:
			return n("str", r.Pick(strLits))
		case 3, 4:
			return n("var", g.scalarName())
		case 5:
			return n("field", "", n("num", fmt.Sprint(r.Intn(4))))
		case 6:
			return n("index", g.arrayName(), n("num", fmt.Sprint(r.Intn(3))))
		case 7:
			return n("var", r.Pick(specials))
		default:
			return n("index", g.arrayName(), n("str", r.Pick(strLits)))
		}
	}
	switch r.Intn(26) {
	case 0, 1, 2:
		return n("bin", r.Pick([]string{"+", "-", "*", "+", "-", "*", "/", "%", "^"}), g.Expr(d-1), g.Expr(d-1))
	case 3, 4:
		return n("bin", r.Pick([]string{"<", "<=", ">", ">=", "==", "!="}), g.Expr(d-1), g.Expr(d-1))
	case 5:
		return n("bin", r.Pick([]string{"~", "!~"}), g.Expr(d-1), n("str", r.Pick([]string{`"a"`, `"^a"`, `"[0-9]+"`, `"b$"`, `"."`})))
	case 6:
		return n("and", "", g.Expr(d-1), g.Expr(d-1))
	case 7:
		return n("or", "", g.Expr(d-1), g.Expr(d-1))
	case 8, 9:
		k := 2 + r.Intn(3)
		c := n("cat", "")
		for i := 0; i < k; i++ {
			c.Kids = append(c.Kids, g.catOperand(d-1))
		}
		return c
	case 10:
		return n("unary", r.Pick([]string{"-", "!", "+"}), g.Expr(d-1))
	case 11:
		return n("cond", "", g.Expr(d-1), g.Expr(d-1), g.Expr(d-1))
	case 12:
		return n("assign", "", g.lvalue(d-1), g.Expr(d-1))
	case 13:
		return n("aug", r.Pick([]string{"+=", "-=", "*=", "/=", "%=", "^="}), g.lvalue(d-1), g.Expr(d-1))
	case 14:
		return n("incr", r.Pick([]string{"++pre", "--pre", "++post", "--post"}), g.lvalue(d-1))
	case 15:
		return n("group", "", g.Expr(d-1))
	case 16:
		return n("in", g.arrayName(), g.Expr(d-1))
	case 17:
		return n("index", g.arrayName(), g.Expr(d-1), g.Expr(d-1))
	case 18:
		switch r.Intn(8) {
		case 0:
			return n("call", "length", g.Expr(d-1))
		case 1:
			return n("call", "length")
		case 2:
			return n("call", "substr", g.Expr(d-1), g.Expr(d-1))
		case 3:
			return n("call", "substr", g.Expr(d-1), g.Expr(d-1), g.Expr(d-1))
		case 4:
			return n("call", "index", g.Expr(d-1), g.Expr(d-1))
		case 5:
			return n("call", "int", g.Expr(d-1))
		case 6:
			return n("call", "tolower", g.Expr(d-1))
		default:
			return n("call", "sprintf", n("str", r.Pick([]string{`"%d"`, `"%s"`, `"%5s|"`, `"%d-%s"`})), g.Expr(d-1), g.Expr(d-1))
		}
	case 19:
		return n("call", "lengtharr", n("arr", g.arrayName()))
	case 20:
		if r.Bool() {
			return n("call", "split", g.Expr(d-1), n("arr", g.arrayName()))
		}
		return n("call", "split", g.Expr(d-1), n("arr", g.arrayName()), n("str", r.Pick([]string{`","`, `" "`, `"a"`})))
	case 21:
		fn := r.Pick([]string{"sub", "gsub"})
		re := n("str", r.Pick([]string{`"a"`, `"[0-9]"`, `"b+"`, `"x"`}))
		rp := n("str", r.Pick([]string{`"-"`, `"[&]"`, `""`, `"\\&"`}))
		if r.Intn(3) == 0 {
			return n("call", fn, re, rp)
		}
		return n("call", fn, re, rp, g.lvalue(d-1))
	case 22:
		if len(g.Funcs) > 0 {
			// call only functions defined earlier: no recursion, so every program terminates
			hi := len(g.Funcs)
			if g.curFunc >= 0 {
				hi = g.curFunc
			}
			if hi > 0 {
				fi := r.Intn(hi)
				f := g.Funcs[fi]
				c := n("ucall", f.Name)
				nargs := len(f.Params)
				if r.Intn(4) == 0 {
					nargs = r.Intn(nargs + 1) // fewer arguments than parameters
				}
				for i := 0; i < nargs; i++ {
					if f.Params[i] == "R" {
						c.Kids = append(c.Kids, n("arr", g.arrayName()))
					} else {
						c.Kids = append(c.Kids, g.Expr(d-1))
					}
				}
				return c
			}
		}
		return n("var", g.scalarName())
	case 23:
		{
			k := 4
			if g.NoIO {
				k = 3
			}
			switch r.Intn(k) {
			case 0:
				return n("getline", "")
			case 1:
				return n("getline", "", g.lvalue(d-1))
			case 2:
				return n("getlinefile", "", n("str", `"/nonexistent/f"`), g.lvalue(d-1))
			default:
				return n("getlinecmd", "", n("str", `"echo hi"`), g.lvalue(d-1))
			}
		}
	case 24:
		if g.NoIO {
			return n("str", `"nf"`)
		}
		return n("namedfield", "", n("str", `"c"`))
	default:
		return n("regex", r.Pick([]string{"a", "[0-9]", "^x"}))
	}
}

// operand of a loop-condition comparison: numbers, strings, fields (numeric strings), variables
func (g *Gen) cmpOperand(d int) *Node {
	r := g.R
	switch r.Intn(8) {
	case 0:
		return n("num", r.Pick(numLits))
	case 1:
		return n("str", r.Pick(strLits))
	case 2:
		return n("field", "", n("num", fmt.Sprint(r.Intn(4))))
	case 3:
		return n("var", g.scalarName())
	case 4:
		return n("index", g.arrayName(), n("num", fmt.Sprint(r.Intn(3))))
	default:
		return g.Expr(d)
	}
}

// operand of a concatenation: nothing that starts with + or - and nothing of lower precedence unparenthesised
func (g *Gen) catOperand(d int) *Node {
	e := g.Expr(d)
	switch e.K {
	case "num", "str", "var", "field", "index", "call", "ucall", "group", "incr":
		if e.K == "incr" && strings.HasSuffix(e.S, "pre") {
			return n("group", "", e)
		}
		return e
	}
	return n("group", "", e)
}

func (g *Gen) simpleStmt(d int) *Node {
	r := g.R
	switch r.Intn(8) {
	case 0, 1:
		return n("sassign", "", g.lvalue(d), g.Expr(d))
	case 2:
		return n("sincr", r.Pick([]string{"++", "--"}), g.lvalue(d))
	case 3:
		return n("saug", r.Pick([]string{"+=", "-=", "*=", "/=", "%=", "^="}), g.lvalue(d), g.Expr(d))
	case 4:
		return n("sexpr", "", g.Expr(d))
	default:
		p := n("print", "")
		k := 1 + r.Intn(3)
		for i := 0; i < k; i++ {
			p.Kids = append(p.Kids, g.printArg(d))
		}
		return p
	}
}

func (g *Gen) printArg(d int) *Node {
	e := g.Expr(d)
	// unparenthesised > in print is a redirection and `in`/getline forms are awkward there: group anything non-primary
	switch e.K {
	case "num", "str", "var", "field", "index", "call", "ucall", "group":
		return e
	}
	return n("group", "", e)
}

func (g *Gen) Stmt(d int) *Node {
	r := g.R
	if d <= 0 {
		return g.simpleStmt(1)
	}
	switch r.Intn(17) {
	case 0, 1, 2, 3, 4:
		return g.simpleStmt(d)
	case 5:
		s := n("if", "", g.Expr(d-1))
		s.Body = g.Stmts(d-1, 1+r.Intn(2))
		if r.Bool() {
			s.Else = g.Stmts(d-1, 1+r.Intn(2))
		}
		return s
	case 6:
		// while with a private counter: terminates
		g.loopVars++
		c := fmt.Sprintf("c%d", g.loopVars)
		s := n("while", c, g.Expr(d-1))
		g.InLoop++
		s.Body = g.Stmts(d-1, 1+r.Intn(2))
		g.InLoop--
		return s
	case 7:
		g.loopVars++
		c := fmt.Sprintf("c%d", g.loopVars)
		s := n("do", c, g.Expr(d-1))
		g.InLoop++
		s.Body = g.Stmts(d-1, 1+r.Intn(2))
		g.InLoop--
		return s
	case 8:
		g.loopVars++
		c := fmt.Sprintf("c%d", g.loopVars)
		s := n("for", c, n("num", fmt.Sprint(1+r.Intn(3))))
		if r.Intn(4) == 0 {
			s.S = c + "|nocond"
		}
		g.InLoop++
		s.Body = g.Stmts(d-1, 1+r.Intn(2))
		g.InLoop--
		return s
	case 15:
		// loops whose condition is a bare comparison of arbitrary operands (the fused jump at the loop
		// bottom); the iteration guard lives in the body
		g.loopVars++
		c := fmt.Sprintf("c%d", g.loopVars)
		cmpop := r.Pick([]string{"<", "<=", ">", ">=", "==", "!="})
		s := n(r.Pick([]string{"while2", "do2", "for2"}), c, n("bin", cmpop, g.cmpOperand(d-1), g.cmpOperand(d-1)))
		g.InLoop++
		s.Body = g.Stmts(d-1, 1+r.Intn(2))
		g.InLoop--
		return s
	case 9:
		g.loopVars++
		k := fmt.Sprintf("k%d", g.loopVars)
		s := n("forin", k, n("arr", "T"), g.Expr(d-1))
		g.InLoop++
		s.Body = g.Stmts(d-1, 1+r.Intn(2))
		g.InLoop--
		return s
	case 10:
		if g.InLoop > 0 {
			return n(r.Pick([]string{"break", "continue"}), "")
		}
		return g.simpleStmt(d)
	case 11:
		if r.Intn(3) == 0 {
			return n("delete", g.arrayName())
		}
		return n("delete", g.arrayName(), g.Expr(d-1))
	case 12:
		s := n("block", "")
		s.Body = g.Stmts(d-1, 1+r.Intn(2))
		return s
	case 13:
		if g.curFunc >= 0 {
			if r.Bool() {
				return n("return", "", g.Expr(d-1))
			}
			return n("return", "")
		}
		if r.Intn(6) == 0 {
			return n("exit", "", g.Expr(0))
		}
		return g.simpleStmt(d)
	case 14:
		if g.InRule && r.Intn(4) == 0 {
			return n("next", "")
		}
		return g.simpleStmt(d)
	default:
		return g.simpleStmt(d)
	}
}

func (g *Gen) Stmts(d, k int) []*Node {
	var ss []*Node
	for i := 0; i < k; i++ {
		ss = append(ss, g.Stmt(d))
	}
	return ss
}

// Program: function definitions, BEGIN, rules, END.
type Program struct {
	G      *Gen
	Begin  []*Node
	Rules  []Rule
	End    []*Node
	HasEnd bool
}

type Rule struct {
	Pattern *Node
	Range   *Node
	Body    []*Node
	NoBody  bool
}

func NewProgram(r *hx.Rand, noIO bool, depth int) *Program {
	g := &Gen{R: r, curFunc: -1, NoIO: noIO}
	nf := r.Intn(3)
	for i := 0; i < nf; i++ {
		f := &FuncDef{Name: fmt.Sprintf("f%d", i), Params: []string{"p"}}
		if r.Bool() {
			f.Params = append(f.Params, "q")
		}
		if r.Bool() {
			f.Params = append(f.Params, "R")
			f.HasArr = true
		}
		g.Funcs = append(g.Funcs, f)
		g.curFunc = i
		f.Body = g.Stmts(depth, 1+r.Intn(3))
		if f.HasArr {
			// make sure R is used as an array so the resolver types it
			f.Body = append([]*Node{n("sassign", "", n("index", "R", n("str", `"k"`)), n("var", "p"))}, f.Body...)
		}
	}
	g.curFunc = -1
	p := &Program{G: g}
	p.Begin = g.Stmts(depth, 1+r.Intn(4))
	nr := r.Intn(3)
	for i := 0; i < nr; i++ {
		rule := Rule{}
		switch r.Intn(4) {
		case 0:
		case 1:
			rule.Pattern = g.Expr(1)
		case 2:
			rule.Pattern = n("bin", "==", n("var", "NR"), n("num", fmt.Sprint(1+r.Intn(3))))
			rule.Range = n("bin", "==", n("var", "NR"), n("num", fmt.Sprint(2+r.Intn(3))))
		default:
			rule.Pattern = n("regex", r.Pick([]string{"a", "[0-9]", "^x"}))
		}
		if r.Intn(6) == 0 && rule.Pattern != nil {
			rule.NoBody = true
		} else {
			g.InRule = true
			rule.Body = g.Stmts(depth, 1+r.Intn(3))
			g.InRule = false
		}
		p.Rules = append(p.Rules, rule)
	}
	if r.Bool() {
		p.HasEnd = true
		p.End = g.Stmts(depth, 1+r.Intn(3))
	}
	return p
}

// ---- rendering ----

func (o Opts) lv(x *Node) string { return o.expr(x) }

func (o Opts) indexList(kids []*Node) string {
	var parts []string
	for _, k := range kids {
		if o.StrIndex && k.K == "num" && isIntLit(k.S) {
			parts = append(parts, `"`+k.S+`"`)
		} else {
			parts = append(parts, o.expr(k))
		}
	}
	return strings.Join(parts, ", ")
}

func isIntLit(s string) bool {
	for _, c := range s {
		if c < '0' || c > '9' {
			return false
		}
	}
	return s != ""
}

// every operand is fully parenthesised, so the rendering never depends on precedence
func (o Opts) expr(x *Node) string {
	switch x.K {
	case "num":
		return x.S
	case "str":
		return x.S
	case "regex":
		return "/" + x.S + "/"
	case "var":
		return x.S
	case "arr":
		return x.S
	case "field":
		k := x.Kids[0]
		if k.K == "num" && !o.GroupField {
			return "$" + k.S
		}
		return "$(" + o.expr(k) + ")"
	case "namedfield":
		return "@" + o.expr(x.Kids[0])
	case "index":
		return x.S + "[" + o.indexList(x.Kids) + "]"
	case "in":
		if len(x.Kids) == 1 {
			return "((" + o.expr(x.Kids[0]) + ") in " + x.S + ")"
		}
		return "((" + o.indexList(x.Kids) + ") in " + x.S + ")"
	case "bin":
		return "((" + o.expr(x.Kids[0]) + ") " + x.S + " (" + o.expr(x.Kids[1]) + "))"
	case "and":
		return "((" + o.expr(x.Kids[0]) + ") && (" + o.expr(x.Kids[1]) + "))"
	case "or":
		return "((" + o.expr(x.Kids[0]) + ") || (" + o.expr(x.Kids[1]) + "))"
	case "cat":
		if o.GroupCat && len(x.Kids) > 2 {
			s := o.expr(x.Kids[0])
			for _, k := range x.Kids[1:] {
				s = "(" + s + " " + o.expr(k) + ")"
			}
			return s
		}
		var parts []string
		for _, k := range x.Kids {
			parts = append(parts, o.expr(k))
		}
		return "(" + strings.Join(parts, " ") + ")"
	case "unary":
		return "(" + x.S + "(" + o.expr(x.Kids[0]) + "))"
	case "cond":
		return "((" + o.expr(x.Kids[0]) + ") ? (" + o.expr(x.Kids[1]) + ") : (" + o.expr(x.Kids[2]) + "))"
	case "assign":
		return "(" + o.lv(x.Kids[0]) + " = (" + o.expr(x.Kids[1]) + "))"
	case "aug":
		return "(" + o.lv(x.Kids[0]) + " " + x.S + " (" + o.expr(x.Kids[1]) + "))"
	case "incr":
		op := x.S[:2]
		if strings.HasSuffix(x.S, "pre") {
			return "(" + op + o.lv(x.Kids[0]) + ")"
		}
		return "(" + o.lv(x.Kids[0]) + op + ")"
	case "group":
		return "(" + o.expr(x.Kids[0]) + ")"
	case "call":
		name := x.S
		if name == "lengtharr" {
			return "length(" + x.Kids[0].S + ")"
		}
		if name == "length" && len(x.Kids) == 0 {
			return "length()"
		}
		var parts []string
		for _, k := range x.Kids {
			parts = append(parts, o.expr(k))
		}
		return name + "(" + strings.Join(parts, ", ") + ")"
	case "ucall":
		var parts []string
		for _, k := range x.Kids {
			parts = append(parts, o.expr(k))
		}
		return x.S + "(" + strings.Join(parts, ", ") + ")"
	case "getline":
		if len(x.Kids) == 0 {
			return "(getline)"
		}
		return "(getline " + o.lv(x.Kids[0]) + ")"
	case "getlinefile":
		return "(getline " + o.lv(x.Kids[1]) + " < " + o.expr(x.Kids[0]) + ")"
	case "getlinecmd":
		return "(" + o.expr(x.Kids[0]) + " | getline " + o.lv(x.Kids[1]) + ")"
	}
	panic("expr kind " + x.K)
}

func (o Opts) cond(x *Node) string {
	if o.ParenConds {
		return "(" + o.expr(x) + ")"
	}
	s := o.expr(x)
	// strip one level of the parentheses we always add, so that a comparison is seen as a BinaryExpr
	if len(s) >= 2 && s[0] == '(' && s[len(s)-1] == ')' && balanced(s[1:len(s)-1]) {
		return s[1 : len(s)-1]
	}
	return s
}

func balanced(s string) bool {
	d := 0
	inStr := false
	for i := 0; i < len(s); i++ {
		c := s[i]
		if inStr {
			if c == '\\' {
				i++
			} else if c == '"' {
				inStr = false
			}
			continue
		}
		switch c {
		case '"':
			inStr = true
		case '(':
			d++
		case ')':
			d--
			if d < 0 {
				return false
			}
		}
	}
	return d == 0
}

func (o Opts) stmts(ss []*Node, ind string, sb *strings.Builder) {
	for _, s := range ss {
		o.stmt(s, ind, sb)
	}
}

func (o Opts) wrapStmt(e string) string {
	if o.ParenStmts {
		return "(" + e + ")"
	}
	return e
}

func (o Opts) stmt(s *Node, ind string, sb *strings.Builder) {
	w := func(format string, a ...any) { fmt.Fprintf(sb, ind+format+"\n", a...) }
	switch s.K {
	case "sassign":
		w("%s", o.wrapStmt(o.lv(s.Kids[0])+" = ("+o.expr(s.Kids[1])+")"))
	case "sincr":
		if o.IncrAsAug {
			op := "+="
			if s.S == "--" {
				op = "-="
			}
			w("%s", o.wrapStmt(o.lv(s.Kids[0])+" "+op+" 1"))
		} else {
			w("%s", o.wrapStmt(o.lv(s.Kids[0])+s.S))
		}
	case "saug":
		w("%s", o.wrapStmt(o.lv(s.Kids[0])+" "+s.S+" ("+o.expr(s.Kids[1])+")"))
	case "sexpr":
		w("%s", o.expr(s.Kids[0]))
	case "print":
		var parts []string
		for _, k := range s.Kids {
			parts = append(parts, o.expr(k))
		}
		w("print %s", strings.Join(parts, ", "))
	case "if":
		w("if (%s) {", o.cond(s.Kids[0]))
		o.stmts(s.Body, ind+"  ", sb)
		if s.Else != nil {
			w("} else {")
			o.stmts(s.Else, ind+"  ", sb)
		}
		w("}")
	case "while":
		w("%s = 0", s.S)
		w("while (%s) {", o.cond(&Node{K: "and", Kids: []*Node{n("bin", "<", n("var", s.S), n("num", "3")), s.Kids[0]}}))
		w("  %s++", s.S)
		o.stmts(s.Body, ind+"  ", sb)
		w("}")
	case "do":
		w("%s = 0", s.S)
		w("do {")
		w("  %s++", s.S)
		o.stmts(s.Body, ind+"  ", sb)
		w("} while (%s)", o.cond(&Node{K: "and", Kids: []*Node{n("bin", "<", n("var", s.S), n("num", "3")), s.Kids[0]}}))
	case "for":
		c := s.S
		if strings.HasSuffix(c, "|nocond") {
			c = strings.TrimSuffix(c, "|nocond")
			w("for (%s = 0; ; %s++) {", c, c)
			w("  if (%s >= %s) break", c, s.Kids[0].S)
		} else {
			w("for (%s = 0; %s; %s++) {", c, o.cond(n("bin", "<", n("var", c), s.Kids[0])), c)
		}
		o.stmts(s.Body, ind+"  ", sb)
		w("}")
	case "while2":
		w("%s = 0", s.S)
		w("while (%s) {", o.cond(s.Kids[0]))
		w("  if (++%s > 3) break", s.S)
		o.stmts(s.Body, ind+"  ", sb)
		w("}")
	case "do2":
		w("%s = 0", s.S)
		w("do {")
		w("  if (++%s > 3) break", s.S)
		o.stmts(s.Body, ind+"  ", sb)
		w("} while (%s)", o.cond(s.Kids[0]))
	case "for2":
		w("for (%s = 0; %s; %s++) {", s.S, o.cond(s.Kids[0]), s.S)
		w("  if (%s >= 3) break", s.S)
		o.stmts(s.Body, ind+"  ", sb)
		w("}")
	case "forin":
		// a one-element array: the iteration order of Go maps must not influence the outcome
		w("delete T")
		w("T[%s] = 1", o.expr(s.Kids[1]))
		w("for (%s in %s) {", s.S, s.Kids[0].S)
		o.stmts(s.Body, ind+"  ", sb)
		w("}")
	case "break", "continue", "next":
		w("%s", s.K)
	case "delete":
		if len(s.Kids) == 0 {
			w("delete %s", s.S)
		} else {
			w("delete %s[%s]", s.S, o.indexList(s.Kids))
		}
	case "block":
		w("{")
		o.stmts(s.Body, ind+"  ", sb)
		w("}")
	case "return":
		if len(s.Kids) > 0 {
			w("return (%s)", o.expr(s.Kids[0]))
		} else {
			w("return")
		}
	case "exit":
		w("exit (%s)", o.expr(s.Kids[0]))
	default:
		panic("stmt kind " + s.K)
	}
}

func (p *Program) Render(o Opts) string {
	var sb strings.Builder
	for _, f := range p.G.Funcs {
		fmt.Fprintf(&sb, "function %s(%s) {\n", f.Name, strings.Join(f.Params, ", "))
		o.stmts(f.Body, "  ", &sb)
		sb.WriteString("}\n")
	}
	sb.WriteString("BEGIN {\n")
	o.stmts(p.Begin, "  ", &sb)
	sb.WriteString("}\n")
	for _, r := range p.Rules {
		if r.Pattern != nil {
			sb.WriteString(o.cond(r.Pattern))
			if r.Range != nil {
				sb.WriteString(", " + o.cond(r.Range))
			}
			sb.WriteString(" ")
		}
		if r.NoBody {
			sb.WriteString("\n")
			continue
		}
		sb.WriteString("{\n")
		o.stmts(r.Body, "  ", &sb)
		sb.WriteString("}\n")
	}
	if p.HasEnd {
		sb.WriteString("END {\n")
		o.stmts(p.End, "  ", &sb)
		sb.WriteString("}\n")
	}
	return sb.String()
}
