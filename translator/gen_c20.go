package main

import (
	"fmt"
	"go/ast"
	"go/token"
	"strconv"
	"strings"
)

// Gen/Prec.v (property C20): the printer's precedence table as it is in internal/ast/ast.go —
//   - the constants of the `precAssign = iota ...` block, in order;
//   - for every `func (e *T) precedence() int` the constant it returns (IncrExpr: Pre / not Pre;
//     BinaryExpr: the switch over e.Op, case by case, and its default);
//   - the comparison used by parenthesize (`e.precedence() < other.precedence()`);
//   - the printable-rune ranges of strconv.IsPrint (this one comes from the Go toolchain that builds
//     goawk, not from the repository: strconv.Quote consults it).
// Any other shape of these declarations is an error (a broken obligation), never a smaller table.
func init() {
	register(Gen{File: "Prec.v", Run: func(repo string) (string, error) {
		_, files, err := ParseDir(repo, "internal/ast")
		if err != nil {
			return "", err
		}
		f, ok := files["ast.go"]
		if !ok {
			return "", fmt.Errorf("internal/ast/ast.go not found")
		}
		var sb strings.Builder
		sb.WriteString("From Coq Require Import ZArith List.\nImport ListNotations.\nOpen Scope Z_scope.\n")

		// 1. the iota block
		var consts []string
		for _, d := range f.Decls {
			gd, ok := d.(*ast.GenDecl)
			if !ok || gd.Tok != token.CONST || len(gd.Specs) == 0 {
				continue
			}
			first := gd.Specs[0].(*ast.ValueSpec)
			if len(first.Names) != 1 || first.Names[0].Name != "precAssign" {
				continue
			}
			if len(first.Values) != 1 {
				return "", fmt.Errorf("precAssign is not `= iota`")
			}
			if id, ok := first.Values[0].(*ast.Ident); !ok || id.Name != "iota" {
				return "", fmt.Errorf("precAssign is not `= iota`")
			}
			for i, s := range gd.Specs {
				vs := s.(*ast.ValueSpec)
				if len(vs.Names) != 1 || (i > 0 && len(vs.Values) != 0) {
					return "", fmt.Errorf("precedence block: unexpected spec at position %d", i)
				}
				consts = append(consts, vs.Names[0].Name)
			}
		}
		want := []string{"precAssign", "precCond", "precOr", "precAnd", "precIn", "precMatch", "precCompare", "precConcat",
			"precAdd", "precMul", "precUnary", "precPower", "precPreIncr", "precPostIncr", "precField", "precPrimary", "precGrouping"}
		if len(consts) == 0 {
			return "", fmt.Errorf("the `precAssign = iota` block was not found in internal/ast/ast.go")
		}
		have := map[string]int{}
		for i, c := range consts {
			have[c] = i
		}
		for _, w := range want {
			if _, ok := have[w]; !ok {
				return "", fmt.Errorf("precedence constant %s not found", w)
			}
		}
		if len(consts) != len(want) {
			return "", fmt.Errorf("precedence block has %d constants, the model knows %d", len(consts), len(want))
		}
		sb.WriteString("(* internal/ast/ast.go: the `precAssign = iota` block *)\n")
		for i, c := range consts {
			fmt.Fprintf(&sb, "Definition %s : Z := %d.\n", c, i)
		}

		// 2. the precedence() methods
		retConst := func(s ast.Stmt) (string, bool) {
			rs, ok := s.(*ast.ReturnStmt)
			if !ok || len(rs.Results) != 1 {
				return "", false
			}
			id, ok := rs.Results[0].(*ast.Ident)
			if !ok {
				return "", false
			}
			if _, ok := have[id.Name]; !ok {
				return "", false
			}
			return id.Name, true
		}
		simple := map[string]string{}
		var incrPre, incrPost, binDefault string
		type bcase struct{ tok, prec string }
		var bcases []bcase
		parenOp := ""
		for _, d := range f.Decls {
			fd, ok := d.(*ast.FuncDecl)
			if !ok || fd.Body == nil {
				continue
			}
			if fd.Recv == nil && fd.Name.Name == "parenthesize" {
				// if e.precedence() OP other.precedence() { return "(" + e.String() + ")" }; return e.String()
				if len(fd.Body.List) != 2 {
					return "", fmt.Errorf("parenthesize: unexpected body")
				}
				is, ok := fd.Body.List[0].(*ast.IfStmt)
				if !ok || is.Else != nil || is.Init != nil {
					return "", fmt.Errorf("parenthesize: unexpected body")
				}
				be, ok := is.Cond.(*ast.BinaryExpr)
				if !ok {
					return "", fmt.Errorf("parenthesize: condition is not a comparison")
				}
				callOn := func(x ast.Expr) string {
					ce, ok := x.(*ast.CallExpr)
					if !ok || len(ce.Args) != 0 {
						return ""
					}
					se, ok := ce.Fun.(*ast.SelectorExpr)
					if !ok || se.Sel.Name != "precedence" {
						return ""
					}
					if id, ok := se.X.(*ast.Ident); ok {
						return id.Name
					}
					return ""
				}
				if callOn(be.X) != "e" || callOn(be.Y) != "other" {
					return "", fmt.Errorf("parenthesize: condition is not e.precedence() OP other.precedence()")
				}
				parenOp = be.Op.String()
				continue
			}
			if fd.Recv == nil || fd.Name.Name != "precedence" || len(fd.Recv.List) != 1 {
				continue
			}
			st, ok := fd.Recv.List[0].Type.(*ast.StarExpr)
			if !ok {
				return "", fmt.Errorf("precedence(): receiver is not a pointer")
			}
			tn := st.X.(*ast.Ident).Name
			switch tn {
			case "IncrExpr":
				if len(fd.Body.List) != 2 {
					return "", fmt.Errorf("IncrExpr.precedence: unexpected body")
				}
				is, ok := fd.Body.List[0].(*ast.IfStmt)
				if !ok || is.Else != nil || len(is.Body.List) != 1 {
					return "", fmt.Errorf("IncrExpr.precedence: unexpected body")
				}
				se, ok := is.Cond.(*ast.SelectorExpr)
				if !ok || se.Sel.Name != "Pre" {
					return "", fmt.Errorf("IncrExpr.precedence: condition is not e.Pre")
				}
				a, ok1 := retConst(is.Body.List[0])
				b, ok2 := retConst(fd.Body.List[1])
				if !ok1 || !ok2 {
					return "", fmt.Errorf("IncrExpr.precedence: unexpected returns")
				}
				incrPre, incrPost = a, b
			case "BinaryExpr":
				if len(fd.Body.List) != 1 {
					return "", fmt.Errorf("BinaryExpr.precedence: unexpected body")
				}
				sw, ok := fd.Body.List[0].(*ast.SwitchStmt)
				if !ok {
					return "", fmt.Errorf("BinaryExpr.precedence: not a switch")
				}
				if se, ok := sw.Tag.(*ast.SelectorExpr); !ok || se.Sel.Name != "Op" {
					return "", fmt.Errorf("BinaryExpr.precedence: switch is not over e.Op")
				}
				for _, c := range sw.Body.List {
					cc := c.(*ast.CaseClause)
					if len(cc.Body) != 1 {
						return "", fmt.Errorf("BinaryExpr.precedence: case with unexpected body")
					}
					p, ok := retConst(cc.Body[0])
					if !ok {
						return "", fmt.Errorf("BinaryExpr.precedence: case does not return a constant")
					}
					if cc.List == nil {
						binDefault = p
						continue
					}
					for _, x := range cc.List {
						se, ok := x.(*ast.SelectorExpr)
						if !ok {
							return "", fmt.Errorf("BinaryExpr.precedence: case label is not lexer.X")
						}
						bcases = append(bcases, bcase{se.Sel.Name, p})
					}
				}
			default:
				if len(fd.Body.List) != 1 {
					return "", fmt.Errorf("%s.precedence: unexpected body", tn)
				}
				p, ok := retConst(fd.Body.List[0])
				if !ok {
					return "", fmt.Errorf("%s.precedence: does not return a constant", tn)
				}
				simple[tn] = p
			}
		}
		types := []string{"FieldExpr", "NamedFieldExpr", "UnaryExpr", "InExpr", "CondExpr", "NumExpr", "StrExpr", "RegExpr",
			"VarExpr", "IndexExpr", "AssignExpr", "AugAssignExpr", "CallExpr", "UserCallExpr", "MultiExpr", "GetlineExpr", "GroupingExpr"}
		sb.WriteString("(* func (e *T) precedence() int *)\n")
		for _, t := range types {
			p, ok := simple[t]
			if !ok {
				return "", fmt.Errorf("method (*%s).precedence not found", t)
			}
			fmt.Fprintf(&sb, "Definition prec_%s : Z := %s.\n", t, p)
		}
		if len(simple) != len(types) {
			return "", fmt.Errorf("%d simple precedence() methods found, the model knows %d", len(simple), len(types))
		}
		if incrPre == "" || incrPost == "" {
			return "", fmt.Errorf("method (*IncrExpr).precedence not found")
		}
		fmt.Fprintf(&sb, "Definition prec_IncrExpr_pre : Z := %s.\nDefinition prec_IncrExpr_post : Z := %s.\n", incrPre, incrPost)
		if binDefault == "" || len(bcases) == 0 {
			return "", fmt.Errorf("method (*BinaryExpr).precedence not found")
		}
		ops := []string{"AND", "OR", "CONCAT", "ADD", "SUB", "MUL", "DIV", "MOD", "EQUALS", "LESS", "LTE", "GREATER", "GTE",
			"NOT_EQUALS", "MATCH", "NOT_MATCH", "POW"}
		got := map[string]string{}
		for _, c := range bcases {
			if _, dup := got[c.tok]; dup {
				return "", fmt.Errorf("BinaryExpr.precedence: duplicate case %s", c.tok)
			}
			got[c.tok] = c.prec
		}
		sb.WriteString("(* func (e *BinaryExpr) precedence() int: the switch over e.Op (operators without a case get the default) *)\n")
		for _, o := range ops {
			p, ok := got[o]
			if !ok {
				p = binDefault
			}
			fmt.Fprintf(&sb, "Definition prec_Binary_%s : Z := %s.\n", o, p)
			delete(got, o)
		}
		for k := range got {
			return "", fmt.Errorf("BinaryExpr.precedence: case for operator %s unknown to the model", k)
		}
		fmt.Fprintf(&sb, "Definition prec_Binary_default : Z := %s.\n", binDefault)
		switch parenOp {
		case "<":
			sb.WriteString("(* parenthesize: e.precedence() < other.precedence() *)\nDefinition paren_cmp (e other : Z) : bool := Z.ltb e other.\n")
		case "<=":
			sb.WriteString("(* parenthesize: e.precedence() <= other.precedence() *)\nDefinition paren_cmp (e other : Z) : bool := Z.leb e other.\n")
		case "":
			return "", fmt.Errorf("func parenthesize not found")
		default:
			return "", fmt.Errorf("parenthesize compares with %s: unknown to the model", parenOp)
		}

		// 3. strconv.IsPrint as maximal ranges [lo, hi] of printable runes (Go toolchain data)
		sb.WriteString("(* strconv.IsPrint of the Go toolchain " + "that runs this translator: maximal inclusive ranges of printable runes *)\n")
		sb.WriteString("Definition go_isprint_ranges : list (Z * Z) :=\n  [")
		n := 0
		lo := -1
		for r := rune(0); r <= 0x110000; r++ {
			p := r <= 0x10FFFF && strconv.IsPrint(r)
			if p && lo < 0 {
				lo = int(r)
			}
			if !p && lo >= 0 {
				if n > 0 {
					sb.WriteString(";")
					if n%6 == 0 {
						sb.WriteString("\n   ")
					} else {
						sb.WriteString(" ")
					}
				}
				fmt.Fprintf(&sb, "(%d, %d)", lo, int(r)-1)
				n++
				lo = -1
			}
		}
		sb.WriteString("].\n")
		return sb.String(), nil
	}})
}
