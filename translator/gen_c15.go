package main

import (
	"fmt"
	"go/ast"
	"go/token"
	"sort"
	"strings"
)

// Gen/DispatchLoop.v (C15): where package interp loops, and where it polls the context.
// Facts only; the classification they are checked against is committed in
// rocq/Proofs/CancelSites.v.
//
//   dispatch_header     header of the first statement of interp.execute (must be a for loop)
//   dispatch_head       the statements of that loop's body that precede the `switch op`
//   record_loop_head    the statements of the record loop of interp.execActions (its first bare `for`)
//                       that precede the call of p.nextLine
//   check_context_body  statements of (*interp).checkContext
//   check_now_body      statements of (*interp).checkContextNow
//   execute_context     statements of (*Interpreter).ExecuteContext up to the call of setExecuteConfig
//   execute_plain       the same for (*Interpreter).Execute
//   loops               every for / range statement of package interp:
//                       (function, header, how many calls of execute / callUser-style re-entry its body makes)
//   execute_sites       every call of p.execute: (function, argument)
//   poll_sites          every call of checkContext / checkContextNow: (function, callee)
//   ctxops_writes       every assignment to / increment of the field ctxOps: (function, statement)
//   command_sites       every call of exec.Command / exec.CommandContext: (function, callee, guard)
//   ctx_err_sites       every call of p.ctx.Err(): (function, enclosing if-conditions)
//   exec_shell_body     top-level statements of (*interp).execShell
//   exec_shell_returns  every return statement of execShell (at any depth): (returned expression,
//                       "yes" iff the return is a top-level statement returning an identifier x and an
//                       earlier top-level statement assigns x.WaitDelay, i.e. WaitDelay is set on the path)
//   exec_shell_makes    every exec.Command / exec.CommandContext call in execShell: (callee, what receives it)
//   waitdelay_writes    every assignment to a field WaitDelay in package interp: (function, statement)
func init() {
	register(Gen{File: "DispatchLoop.v", Run: genDispatchLoop})
}

func c15funcName(fset *token.FileSet, x *ast.FuncDecl) string {
	name := x.Name.Name
	if x.Recv != nil && len(x.Recv.List) == 1 {
		t := x.Recv.List[0].Type
		if st, ok := t.(*ast.StarExpr); ok {
			t = st.X
		}
		name = render(fset, t) + "." + name
	}
	return name
}

func c15loopHeader(fset *token.FileSet, n ast.Node) string {
	switch x := n.(type) {
	case *ast.ForStmt:
		var init, cond, post string
		if x.Init != nil {
			init = render(fset, x.Init)
		}
		if x.Cond != nil {
			cond = render(fset, x.Cond)
		}
		if x.Post != nil {
			post = render(fset, x.Post)
		}
		if x.Init == nil && x.Post == nil {
			if x.Cond == nil {
				return "for"
			}
			return "for " + cond
		}
		return "for " + init + "; " + cond + "; " + post
	case *ast.RangeStmt:
		var lhs []string
		if x.Key != nil {
			lhs = append(lhs, render(fset, x.Key))
		}
		if x.Value != nil {
			lhs = append(lhs, render(fset, x.Value))
		}
		h := "for "
		if len(lhs) > 0 {
			h += strings.Join(lhs, ", ") + " " + x.Tok.String() + " "
		}
		return h + "range " + render(fset, x.X)
	}
	return "?"
}

func genDispatchLoop(repo string) (string, error) {
	fset, files, err := ParseDir(repo, "interp")
	if err != nil {
		return "", err
	}
	type loop struct {
		fn, header string
		execCalls  int
	}
	var loops []loop
	var execSites, pollSites, opsWrites [][2]string
	var cmdSites [][3]string
	var ctxErrSites [][2]string
	var shellBody []string
	var shellReturns, shellMakes, waitDelayWrites [][2]string
	shellFound := false
	var dispatchHeader string
	var dispatchHead, checkBody, nowBody, ecBody, exBody, recordHead []string
	recordLoopFound := false
	stmts := func(list []ast.Stmt) []string {
		var out []string
		for _, s := range list {
			out = append(out, render(fset, s))
		}
		return out
	}
	upToConfig := func(list []ast.Stmt) []string {
		var out []string
		for _, s := range list {
			r := render(fset, s)
			if strings.Contains(r, "setExecuteConfig") {
				break
			}
			out = append(out, r)
		}
		return out
	}
	for _, fname := range SortedNames(files) {
		f := files[fname]
		for _, d := range f.Decls {
			fd, ok := d.(*ast.FuncDecl)
			if !ok || fd.Body == nil {
				continue
			}
			fn := c15funcName(fset, fd)
			switch fn {
			case "interp.execute":
				if len(fd.Body.List) == 0 {
					return "", fmt.Errorf("interp.execute has an empty body")
				}
				fs, ok := fd.Body.List[0].(*ast.ForStmt)
				if !ok {
					return "", fmt.Errorf("the first statement of interp.execute is not a for loop")
				}
				dispatchHeader = c15loopHeader(fset, fs)
				found := false
				for _, s := range fs.Body.List {
					if _, ok := s.(*ast.SwitchStmt); ok {
						found = true
						break
					}
					dispatchHead = append(dispatchHead, render(fset, s))
				}
				if !found {
					return "", fmt.Errorf("no switch statement in the dispatch loop of interp.execute")
				}
			case "interp.execShell":
				shellFound = true
				shellBody = stmts(fd.Body.List)
				// top-level WaitDelay assignments seen so far, by receiver identifier
				set := map[string]bool{}
				top := map[ast.Stmt]bool{}
				for _, st := range fd.Body.List {
					top[st] = true
				}
				for _, st := range fd.Body.List {
					if as, ok := st.(*ast.AssignStmt); ok {
						for _, l := range as.Lhs {
							if se, ok := l.(*ast.SelectorExpr); ok && se.Sel.Name == "WaitDelay" {
								if id, ok := se.X.(*ast.Ident); ok {
									set[id.Name] = true
								}
							}
						}
					}
					snapshot := map[string]bool{}
					for k := range set {
						snapshot[k] = true
					}
					ast.Inspect(st, func(n ast.Node) bool {
						switch x := n.(type) {
						case *ast.FuncLit:
							return false
						case *ast.ReturnStmt:
							expr, ok := "", "no"
							if len(x.Results) > 0 {
								expr = render(fset, x.Results[0])
							}
							if top[ast.Stmt(x)] && len(x.Results) == 1 {
								if id, isID := x.Results[0].(*ast.Ident); isID && snapshot[id.Name] {
									ok = "yes"
								}
							}
							shellReturns = append(shellReturns, [2]string{expr, ok})
						case *ast.AssignStmt:
							for i, r := range x.Rhs {
								if c, isCall := r.(*ast.CallExpr); isCall {
									if se, isSel := c.Fun.(*ast.SelectorExpr); isSel {
										if id, isID := se.X.(*ast.Ident); isID && id.Name == "exec" && i < len(x.Lhs) {
											shellMakes = append(shellMakes, [2]string{se.Sel.Name, render(fset, x.Lhs[i])})
										}
									}
								}
							}
						}
						return true
					})
				}
				// exec.* calls that are not the right-hand side of an assignment (returned or passed on directly)
				ast.Inspect(fd.Body, func(n ast.Node) bool {
					if r, ok := n.(*ast.ReturnStmt); ok {
						for _, e := range r.Results {
							if c, isCall := e.(*ast.CallExpr); isCall {
								if se, isSel := c.Fun.(*ast.SelectorExpr); isSel {
									if id, isID := se.X.(*ast.Ident); isID && id.Name == "exec" {
										shellMakes = append(shellMakes, [2]string{se.Sel.Name, "(returned directly)"})
									}
								}
							}
						}
					}
					return true
				})
			case "interp.execActions":
				ast.Inspect(fd.Body, func(n ast.Node) bool {
					fs, ok := n.(*ast.ForStmt)
					if !ok || recordLoopFound {
						return !recordLoopFound
					}
					if fs.Init != nil || fs.Cond != nil || fs.Post != nil {
						return true
					}
					for _, st := range fs.Body.List {
						if strings.Contains(render(fset, st), "p.nextLine()") {
							recordLoopFound = true
							break
						}
						recordHead = append(recordHead, render(fset, st))
					}
					if !recordLoopFound {
						recordHead = nil
					}
					return false
				})
			case "interp.checkContext":
				checkBody = stmts(fd.Body.List)
			case "interp.checkContextNow":
				nowBody = stmts(fd.Body.List)
			case "Interpreter.ExecuteContext":
				ecBody = upToConfig(fd.Body.List)
			case "Interpreter.Execute":
				exBody = upToConfig(fd.Body.List)
			}
			// enclosing if-conditions of a position (innermost last)
			condsAt := func(pos token.Pos) string {
				var conds []string
				ast.Inspect(fd.Body, func(n ast.Node) bool {
					if n == nil {
						return true
					}
					if !(n.Pos() <= pos && pos < n.End()) {
						return false
					}
					if is, ok := n.(*ast.IfStmt); ok && is.Body.Pos() <= pos && pos < is.Body.End() {
						conds = append(conds, render(fset, is.Cond))
					}
					if is, ok := n.(*ast.IfStmt); ok && is.Else != nil && is.Else.Pos() <= pos && pos < is.Else.End() {
						conds = append(conds, "!("+render(fset, is.Cond)+")")
					}
					return true
				})
				return strings.Join(conds, " && ")
			}
			ast.Inspect(fd.Body, func(n ast.Node) bool {
				switch x := n.(type) {
				case *ast.ForStmt, *ast.RangeStmt:
					var body *ast.BlockStmt
					if fs, ok := x.(*ast.ForStmt); ok {
						body = fs.Body
					} else {
						body = x.(*ast.RangeStmt).Body
					}
					calls := 0
					ast.Inspect(body, func(m ast.Node) bool {
						if c, ok := m.(*ast.CallExpr); ok {
							if se, ok := c.Fun.(*ast.SelectorExpr); ok && se.Sel.Name == "execute" {
								calls++
							}
						}
						return true
					})
					loops = append(loops, loop{fn, c15loopHeader(fset, x), calls})
				case *ast.CallExpr:
					if se, ok := x.Fun.(*ast.SelectorExpr); ok {
						switch se.Sel.Name {
						case "execute":
							arg := ""
							if len(x.Args) > 0 {
								arg = render(fset, x.Args[0])
							}
							execSites = append(execSites, [2]string{fn, arg})
						case "checkContext", "checkContextNow":
							pollSites = append(pollSites, [2]string{fn, se.Sel.Name})
						case "Err":
							if in, ok := se.X.(*ast.SelectorExpr); ok && in.Sel.Name == "ctx" {
								ctxErrSites = append(ctxErrSites, [2]string{fn, condsAt(x.Pos())})
							}
						case "Command", "CommandContext":
							if id, ok := se.X.(*ast.Ident); ok && id.Name == "exec" {
								cmdSites = append(cmdSites, [3]string{fn, se.Sel.Name, condsAt(x.Pos())})
							}
						}
					}
				case *ast.AssignStmt:
					for _, l := range x.Lhs {
						if se, ok := l.(*ast.SelectorExpr); ok && se.Sel.Name == "ctxOps" {
							opsWrites = append(opsWrites, [2]string{fn, render(fset, x)})
						}
						if se, ok := l.(*ast.SelectorExpr); ok && se.Sel.Name == "WaitDelay" {
							waitDelayWrites = append(waitDelayWrites, [2]string{fn, render(fset, x)})
						}
					}
				case *ast.IncDecStmt:
					if se, ok := x.X.(*ast.SelectorExpr); ok && se.Sel.Name == "ctxOps" {
						opsWrites = append(opsWrites, [2]string{fn, render(fset, x)})
					}
				case *ast.UnaryExpr:
					if x.Op == token.AND {
						if se, ok := x.X.(*ast.SelectorExpr); ok && se.Sel.Name == "ctxOps" {
							opsWrites = append(opsWrites, [2]string{fn, "address taken"})
						}
					}
				}
				return true
			})
		}
	}
	if dispatchHeader == "" {
		return "", fmt.Errorf("func (p *interp) execute not found in package interp")
	}
	if !recordLoopFound {
		return "", fmt.Errorf("the record loop (bare for calling p.nextLine) not found in interp.execActions")
	}
	if !shellFound {
		return "", fmt.Errorf("func (p *interp) execShell not found in package interp")
	}
	if checkBody == nil || nowBody == nil {
		return "", fmt.Errorf("checkContext / checkContextNow not found in package interp")
	}
	if ecBody == nil || exBody == nil {
		return "", fmt.Errorf("Interpreter.ExecuteContext / Interpreter.Execute not found in package interp")
	}
	sort.SliceStable(loops, func(i, j int) bool {
		if loops[i].fn != loops[j].fn {
			return loops[i].fn < loops[j].fn
		}
		return false
	})
	var sb strings.Builder
	sb.WriteString("From Coq Require Import List String ZArith.\nImport ListNotations.\nOpen Scope string_scope.\n")
	sb.WriteString("Definition dispatch_header : string := " + CoqString(dispatchHeader) + ".\n")
	list := func(name string, xs []string) {
		fmt.Fprintf(&sb, "Definition %s : list string :=\n  [", name)
		for i, x := range xs {
			if i > 0 {
				sb.WriteString(";\n   ")
			}
			sb.WriteString(CoqString(x))
		}
		sb.WriteString("].\n")
	}
	list("dispatch_head", dispatchHead)
	list("record_loop_head", recordHead)
	list("check_context_body", checkBody)
	list("check_now_body", nowBody)
	list("execute_context", ecBody)
	list("execute_plain", exBody)
	sb.WriteString("Definition loops : list (string * string * Z) :=\n  [")
	for i, l := range loops {
		if i > 0 {
			sb.WriteString(";\n   ")
		}
		fmt.Fprintf(&sb, "(%s, %s, %d%%Z)", CoqString(l.fn), CoqString(l.header), l.execCalls)
	}
	sb.WriteString("].\n")
	pairs := func(name string, xs [][2]string) {
		fmt.Fprintf(&sb, "Definition %s : list (string * string) :=\n  [", name)
		for i, x := range xs {
			if i > 0 {
				sb.WriteString(";\n   ")
			}
			fmt.Fprintf(&sb, "(%s, %s)", CoqString(x[0]), CoqString(x[1]))
		}
		sb.WriteString("].\n")
	}
	pairs("execute_sites", execSites)
	pairs("poll_sites", pollSites)
	pairs("ctxops_writes", opsWrites)
	pairs("ctx_err_sites", ctxErrSites)
	list("exec_shell_body", shellBody)
	pairs("exec_shell_returns", shellReturns)
	pairs("exec_shell_makes", shellMakes)
	pairs("waitdelay_writes", waitDelayWrites)
	sb.WriteString("Definition command_sites : list (string * string * string) :=\n  [")
	for i, x := range cmdSites {
		if i > 0 {
			sb.WriteString(";\n   ")
		}
		fmt.Fprintf(&sb, "(%s, %s, %s)", CoqString(x[0]), CoqString(x[1]), CoqString(x[2]))
	}
	sb.WriteString("].\n")
	return sb.String(), nil
}
