package main

// Gen/ParsePos.v (property C03): where the positions of parse errors come from.
//
//   pos_error_sites  every call ast.PosErrorf(<pos>, ...) in parser/parser.go and
//                    internal/resolver/*.go with the origins of <pos>
//   pos_store_sites  every place in parser/parser.go that stores a position for later use:
//                    composite literals with a field whose name ends in "Pos", and
//                    p.multiExprs[...] = <pos>
//   cur_assign_sites every assignment to p.pos in parser/parser.go
//   gen_tokens / gen_keywords   lexer/token.go: the token constants (iota order) and the
//                    keywordTokens map
//
// An origin is found by a small syntactic data flow inside one function: a selector p.pos, a
// selector x.<...Pos>, a lexer.Position literal, a local variable (all its assignments in the
// function), a parameter (the corresponding argument at every call in the package, to depth 4),
// the second result of p.expectName(), a value ranged over p.multiExprs, or the results of
// p.lexer.Scan()/ScanRegex(). Anything else is emitted as OUnknown and fails the obligation.

import (
	"bytes"
	"fmt"
	"go/ast"
	"go/printer"
	"go/token"
	"sort"
	"strconv"
	"strings"
)

type c03pkg struct {
	fset  *token.FileSet
	files map[string]*ast.File
	funcs map[string]*ast.FuncDecl // by bare name (methods and functions)
}

func c03load(repo, dir string) (*c03pkg, error) {
	fset, files, err := ParseDir(repo, dir)
	if err != nil {
		return nil, err
	}
	p := &c03pkg{fset: fset, files: files, funcs: map[string]*ast.FuncDecl{}}
	for _, n := range SortedNames(files) {
		for _, d := range files[n].Decls {
			if fd, ok := d.(*ast.FuncDecl); ok {
				p.funcs[fd.Name.Name] = fd
			}
		}
	}
	return p, nil
}

func (p *c03pkg) render(e ast.Node) string {
	var b bytes.Buffer
	printer.Fprint(&b, p.fset, e)
	return strings.Join(strings.Fields(b.String()), " ")
}

func isPosField(name string) bool { return strings.HasSuffix(name, "Pos") }

func paramIndex(fd *ast.FuncDecl, name string) int {
	i := 0
	for _, f := range fd.Type.Params.List {
		for _, n := range f.Names {
			if n.Name == name {
				return i
			}
			i++
		}
	}
	return -1
}

func calleeName(c *ast.CallExpr) string {
	switch f := c.Fun.(type) {
	case *ast.Ident:
		return f.Name
	case *ast.SelectorExpr:
		return f.Sel.Name
	}
	return ""
}

// origins of expression e evaluated inside function fd
func (p *c03pkg) origins(e ast.Expr, fd *ast.FuncDecl, depth int) []string {
	if depth > 4 {
		return []string{"OUnknown " + CoqString("depth: "+p.render(e))}
	}
	switch x := e.(type) {
	case *ast.SelectorExpr:
		if id, ok := x.X.(*ast.Ident); ok && id.Name == "p" && x.Sel.Name == "pos" {
			return []string{"OCur"}
		}
		if isPosField(x.Sel.Name) {
			return []string{"OField " + CoqString(x.Sel.Name)}
		}
	case *ast.CompositeLit:
		if p.render(x.Type) == "lexer.Position" {
			line, col := "", ""
			for _, el := range x.Elts {
				if kv, ok := el.(*ast.KeyValueExpr); ok {
					if lit, ok := kv.Value.(*ast.BasicLit); ok && lit.Kind == token.INT {
						switch p.render(kv.Key) {
						case "Line":
							line = lit.Value
						case "Column":
							col = lit.Value
						}
					}
				}
			}
			if line != "" && col != "" {
				return []string{fmt.Sprintf("OLit %s %s", line, col)}
			}
		}
	case *ast.CallExpr:
		r := p.render(x.Fun)
		if r == "p.lexer.Scan" || r == "p.lexer.ScanRegex" {
			return []string{"OScan " + CoqString(strings.TrimPrefix(r, "p.lexer."))}
		}
	case *ast.Ident:
		if fd == nil {
			break
		}
		var out []string
		if i := paramIndex(fd, x.Name); i >= 0 {
			// every call of fd in the package
			found := false
			for _, n := range SortedNames(p.files) {
				for _, d := range p.files[n].Decls {
					caller, ok := d.(*ast.FuncDecl)
					if !ok || caller.Body == nil {
						continue
					}
					ast.Inspect(caller.Body, func(nd ast.Node) bool {
						if c, ok := nd.(*ast.CallExpr); ok && calleeName(c) == fd.Name.Name && i < len(c.Args) {
							found = true
							out = append(out, p.origins(c.Args[i], caller, depth+1)...)
						}
						return true
					})
				}
			}
			if !found {
				out = append(out, "OUnknown "+CoqString("parameter never passed: "+x.Name+" of "+fd.Name.Name))
			}
			return dedup(out)
		}
		ast.Inspect(fd.Body, func(nd ast.Node) bool {
			switch s := nd.(type) {
			case *ast.AssignStmt:
				for i, l := range s.Lhs {
					if id, ok := l.(*ast.Ident); ok && id.Name == x.Name {
						if len(s.Rhs) == len(s.Lhs) {
							out = append(out, p.origins(s.Rhs[i], fd, depth+1)...)
						} else if c, ok := s.Rhs[0].(*ast.CallExpr); ok && p.render(c.Fun) == "p.expectName" && i == 1 {
							out = append(out, "OExpectName")
						} else if c, ok := s.Rhs[0].(*ast.CallExpr); ok && (p.render(c.Fun) == "p.lexer.Scan" || p.render(c.Fun) == "p.lexer.ScanRegex") && i == 0 {
							out = append(out, "OScan "+CoqString(strings.TrimPrefix(p.render(c.Fun), "p.lexer.")))
						} else {
							out = append(out, "OUnknown "+CoqString(p.render(s)))
						}
					}
				}
			case *ast.RangeStmt:
				if id, ok := s.Value.(*ast.Ident); ok && id.Name == x.Name {
					if p.render(s.X) == "p.multiExprs" {
						out = append(out, "OMapValue "+CoqString("multiExprs"))
					} else {
						out = append(out, "OUnknown "+CoqString("range "+p.render(s.X)))
					}
				}
			case *ast.ValueSpec:
				for i, n := range s.Names {
					if n.Name == x.Name && i < len(s.Values) {
						out = append(out, p.origins(s.Values[i], fd, depth+1)...)
					}
				}
			}
			return true
		})
		if len(out) > 0 {
			return dedup(out)
		}
	}
	return []string{"OUnknown " + CoqString(p.render(e))}
}

func dedup(xs []string) []string {
	seen := map[string]bool{}
	var out []string
	for _, x := range xs {
		if !seen[x] {
			seen[x] = true
			out = append(out, x)
		}
	}
	sort.Strings(out)
	return out
}

type c03site struct {
	file, fn, what, arg string
	origins             []string
}

func (s c03site) coq() string {
	return fmt.Sprintf("  mkSite %s %s %s %s [%s]", CoqString(s.file), CoqString(s.fn), CoqString(s.what), CoqString(s.arg), strings.Join(s.origins, "; "))
}

func c03sites(p *c03pkg, dir string) (errs, stores, curs []c03site) {
	for _, n := range SortedNames(p.files) {
		for _, d := range p.files[n].Decls {
			fd, ok := d.(*ast.FuncDecl)
			if !ok || fd.Body == nil {
				continue
			}
			ast.Inspect(fd.Body, func(nd ast.Node) bool {
				switch x := nd.(type) {
				case *ast.CallExpr:
					if p.render(x.Fun) == "ast.PosErrorf" && len(x.Args) > 0 {
						errs = append(errs, c03site{dir + "/" + n, fd.Name.Name, "PosErrorf", p.render(x.Args[0]), p.origins(x.Args[0], fd, 0)})
					}
				case *ast.CompositeLit:
					for _, el := range x.Elts {
						if kv, ok := el.(*ast.KeyValueExpr); ok {
							if id, ok := kv.Key.(*ast.Ident); ok && isPosField(id.Name) {
								stores = append(stores, c03site{dir + "/" + n, fd.Name.Name, p.render(x.Type) + "." + id.Name, p.render(kv.Value), p.origins(kv.Value, fd, 0)})
							}
						}
					}
				case *ast.AssignStmt:
					for i, l := range x.Lhs {
						if ix, ok := l.(*ast.IndexExpr); ok && p.render(ix.X) == "p.multiExprs" && len(x.Rhs) == len(x.Lhs) {
							stores = append(stores, c03site{dir + "/" + n, fd.Name.Name, "p.multiExprs[]", p.render(x.Rhs[i]), p.origins(x.Rhs[i], fd, 0)})
						}
						if p.render(l) == "p.pos" {
							var o []string
							if len(x.Rhs) == len(x.Lhs) {
								o = p.origins(x.Rhs[i], fd, 0)
							} else if c, ok := x.Rhs[0].(*ast.CallExpr); ok && i == 0 {
								o = p.origins(c, fd, 0)
							} else {
								o = []string{"OUnknown " + CoqString(p.render(x))}
							}
							curs = append(curs, c03site{dir + "/" + n, fd.Name.Name, "p.pos =", p.render(x.Rhs[0]), o})
						}
					}
				}
				return true
			})
		}
	}
	return
}

func init() {
	register(Gen{File: "ParsePos.v", Run: func(repo string) (string, error) {
		var sb strings.Builder
		sb.WriteString("From Coq Require Import String List ZArith.\nImport ListNotations.\nOpen Scope string_scope.\nOpen Scope Z_scope.\n")
		sb.WriteString("Inductive origin : Type :=\n| OCur                      (* p.pos: position of the current token *)\n| OField (f : string)       (* x.f, f a field whose name ends in Pos *)\n| OLit (line col : Z)       (* lexer.Position{Line: line, Column: col} *)\n| OExpectName               (* second result of p.expectName() *)\n| OMapValue (m : string)    (* a value ranged over p.<m> *)\n| OScan (f : string)        (* first result of p.lexer.<f>() *)\n| OUnknown (e : string).\n")
		sb.WriteString("Record site : Type := mkSite { s_file : string; s_func : string; s_what : string; s_arg : string; s_origins : list origin }.\n")
		pp, err := c03load(repo, "parser")
		if err != nil {
			return "", err
		}
		rp, err := c03load(repo, "internal/resolver")
		if err != nil {
			return "", err
		}
		e1, s1, c1 := c03sites(pp, "parser")
		e2, s2, _ := c03sites(rp, "internal/resolver")
		errs := append(e1, e2...)
		stores := append(s1, s2...)
		if len(e1) < 3 || len(e2) < 3 {
			return "", fmt.Errorf("found only %d + %d ast.PosErrorf calls in parser and resolver", len(e1), len(e2))
		}
		if len(s1) < 10 {
			return "", fmt.Errorf("found only %d stored positions in parser", len(s1))
		}
		if len(c1) < 2 {
			return "", fmt.Errorf("found only %d assignments to p.pos", len(c1))
		}
		emit := func(name string, ss []c03site) {
			fmt.Fprintf(&sb, "Definition %s : list site := [\n", name)
			for i, s := range ss {
				sb.WriteString(s.coq())
				if i < len(ss)-1 {
					sb.WriteString(";")
				}
				sb.WriteString("\n")
			}
			sb.WriteString("].\n")
		}
		// the saved copy handed out by expectName
		en, ok := pp.funcs["expectName"]
		if !ok {
			return "", fmt.Errorf("parser.expectName not found")
		}
		nret := 0
		ast.Inspect(en.Body, func(nd ast.Node) bool {
			if r, ok := nd.(*ast.ReturnStmt); ok && len(r.Results) == 2 {
				nret++
				stores = append(stores, c03site{"parser/parser.go", "expectName", "return (second result)", pp.render(r.Results[1]), pp.origins(r.Results[1], en, 0)})
			}
			return true
		})
		if nret == 0 {
			return "", fmt.Errorf("parser.expectName has no two-result return")
		}
		emit("pos_error_sites", errs)
		emit("pos_store_sites", stores)
		emit("cur_assign_sites", c1)

		// type assertions without comma-ok, and what protects them
		atext, err := c03asserts(repo)
		if err != nil {
			return "", err
		}
		sb.WriteString(atext)

		// context counters of the parser (p.<field>++ / p.<field>--) and whether they are balanced
		ctext, err := c03counters(pp)
		if err != nil {
			return "", err
		}
		sb.WriteString(ctext)

		// lexer/token.go
		_, lf, err := ParseDir(repo, "lexer")
		if err != nil {
			return "", err
		}
		tf, ok := lf["token.go"]
		if !ok {
			return "", fmt.Errorf("lexer/token.go not found")
		}
		var toks []string
		var kws [][2]string
		for _, d := range tf.Decls {
			gd, ok := d.(*ast.GenDecl)
			if !ok {
				continue
			}
			if gd.Tok == token.CONST && len(toks) == 0 {
				for _, s := range gd.Specs {
					vs := s.(*ast.ValueSpec)
					if len(vs.Values) > 0 && len(toks) > 0 {
						continue // LAST = REGEX etc.: aliases, not new iota values
					}
					for _, n := range vs.Names {
						toks = append(toks, n.Name)
					}
				}
			}
			if gd.Tok == token.VAR {
				for _, s := range gd.Specs {
					vs := s.(*ast.ValueSpec)
					if len(vs.Names) == 1 && vs.Names[0].Name == "keywordTokens" && len(vs.Values) == 1 {
						cl, ok := vs.Values[0].(*ast.CompositeLit)
						if !ok {
							return "", fmt.Errorf("keywordTokens is not a map literal")
						}
						for _, el := range cl.Elts {
							kv := el.(*ast.KeyValueExpr)
							k, err := strconv.Unquote(kv.Key.(*ast.BasicLit).Value)
							if err != nil {
								return "", err
							}
							kws = append(kws, [2]string{k, kv.Value.(*ast.Ident).Name})
						}
					}
				}
			}
		}
		if len(toks) < 80 || len(kws) < 30 {
			return "", fmt.Errorf("lexer/token.go: found %d token constants and %d keywords", len(toks), len(kws))
		}
		sb.WriteString("Definition gen_tokens : list (string * Z) := [\n")
		for i, t := range toks {
			sep := ";"
			if i == len(toks)-1 {
				sep = ""
			}
			fmt.Fprintf(&sb, "  (%s, %d)%s\n", CoqString(t), i, sep)
		}
		sb.WriteString("].\nDefinition gen_keywords : list (string * string) := [\n")
		for i, kv := range kws {
			sep := ";"
			if i == len(kws)-1 {
				sep = ""
			}
			fmt.Fprintf(&sb, "  (%s, %s)%s\n", CoqString(kv[0]), CoqString(kv[1]), sep)
		}
		sb.WriteString("].\n")
		return sb.String(), nil
	}})
}

// ---- unchecked type assertions x.(T) (no comma-ok, not a type switch) in the packages behind
// parser.ParseProgram, with the syntactic context that protects each; the resolver's check of
// user-call arguments; the parser's construction of split()'s arguments.

func c03boolCoq(b bool) string {
	if b {
		return "true"
	}
	return "false"
}

func c03asserts(repo string) (string, error) {
	var sb strings.Builder
	sb.WriteString("Record assert_site : Type := mkAssert { a_file : string; a_func : string; a_expr : string; a_typ : string;\n" +
		"  a_in_recover : bool; a_case : string; a_guard : string; a_assigns : nat }.\n")
	sb.WriteString("Record arg_check : Type := mkArgCheck { k_file : string; k_func : string; k_range_over : string; k_value : string;\n" +
		"  k_has_check : bool; k_reassigned : nat; k_rejects : bool }.\n")
	var sites []string
	for _, dir := range []string{"internal/ast", "internal/compiler", "internal/resolver", "parser"} {
		p, err := c03load(repo, dir)
		if err != nil {
			return "", err
		}
		for _, n := range SortedNames(p.files) {
			for _, d := range p.files[n].Decls {
				fd, ok := d.(*ast.FuncDecl)
				if !ok || fd.Body == nil {
					continue
				}
				var stack []ast.Node
				ast.Inspect(fd, func(nd ast.Node) bool {
					if nd == nil {
						stack = stack[:len(stack)-1]
						return true
					}
					stack = append(stack, nd)
					ta, ok := nd.(*ast.TypeAssertExpr)
					if !ok || ta.Type == nil {
						return true
					}
					// comma-ok forms: v, ok := x.(T) / v, ok = x.(T) / var v, ok = x.(T)
					if len(stack) >= 2 {
						switch par := stack[len(stack)-2].(type) {
						case *ast.AssignStmt:
							if len(par.Lhs) == 2 && len(par.Rhs) == 1 && par.Rhs[0] == ast.Expr(ta) {
								return true
							}
						case *ast.ValueSpec:
							if len(par.Names) == 2 && len(par.Values) == 1 && par.Values[0] == ast.Expr(ta) {
								return true
							}
						}
					}
					inRecover := false
					caseLabel, guard := "", ""
					for i := len(stack) - 2; i >= 0; i-- {
						switch a := stack[i].(type) {
						case *ast.FuncLit:
							if i > 0 {
								if call, ok := stack[i-1].(*ast.CallExpr); ok && i > 1 {
									if _, ok := stack[i-2].(*ast.DeferStmt); ok && call.Fun == ast.Expr(a) {
										hasRecover := false
										ast.Inspect(a.Body, func(x ast.Node) bool {
											if c, ok := x.(*ast.CallExpr); ok {
												if id, ok := c.Fun.(*ast.Ident); ok && id.Name == "recover" {
													hasRecover = true
												}
											}
											return true
										})
										inRecover = hasRecover
									}
								}
							}
						case *ast.CaseClause:
							if caseLabel == "" {
								var ls []string
								for _, e := range a.List {
									ls = append(ls, p.render(e))
								}
								caseLabel = strings.Join(ls, ", ")
							}
						case *ast.IfStmt:
							// only when the assertion is inside the then-branch
							if guard == "" && i+1 < len(stack) && stack[i+1] == ast.Node(a.Body) {
								guard = p.render(a.Cond)
							}
						}
					}
					assigns := 0
					if id, ok := ta.X.(*ast.Ident); ok {
						ast.Inspect(fd.Body, func(x ast.Node) bool {
							switch st := x.(type) {
							case *ast.AssignStmt:
								for _, l := range st.Lhs {
									if li, ok := l.(*ast.Ident); ok && li.Name == id.Name && li.Obj == id.Obj && st.Tok != token.DEFINE {
										assigns++
									}
								}
							case *ast.IncDecStmt:
								if li, ok := st.X.(*ast.Ident); ok && li.Name == id.Name && li.Obj == id.Obj {
									assigns++
								}
							}
							return true
						})
					}
					sites = append(sites, fmt.Sprintf("  mkAssert %s %s %s %s %s %s %s %d", CoqString(dir+"/"+n), CoqString(fd.Name.Name),
						CoqString(p.render(ta.X)), CoqString(p.render(ta.Type)), c03boolCoq(inRecover), CoqString(caseLabel), CoqString(guard), assigns))
					return true
				})
			}
		}
	}
	if len(sites) < 2 {
		return "", fmt.Errorf("found only %d unchecked type assertions (the two recover sites are expected at least)", len(sites))
	}
	sb.WriteString("Definition unchecked_asserts : list assert_site := [\n" + strings.Join(sites, ";\n") + "\n].\n")

	// the resolver's check of user-call arguments
	rp, err := c03load(repo, "internal/resolver")
	if err != nil {
		return "", err
	}
	var checks []string
	for _, n := range SortedNames(rp.files) {
		for _, d := range rp.files[n].Decls {
			fd, ok := d.(*ast.FuncDecl)
			if !ok || fd.Body == nil {
				continue
			}
			ast.Inspect(fd.Body, func(nd ast.Node) bool {
				cc, ok := nd.(*ast.CaseClause)
				if !ok || len(cc.List) != 1 || rp.render(cc.List[0]) != "*ast.UserCallExpr" {
					return true
				}
				for _, st := range cc.Body {
					ast.Inspect(st, func(x ast.Node) bool {
						rs, ok := x.(*ast.RangeStmt)
						if !ok || !strings.HasSuffix(rp.render(rs.X), ".Args") {
							return true
						}
						val, ok := rs.Value.(*ast.Ident)
						if !ok {
							return true
						}
						hasCheck, rejects, reassigned := false, false, 0
						ast.Inspect(rs.Body, func(y ast.Node) bool {
							switch a := y.(type) {
							case *ast.AssignStmt:
								if len(a.Lhs) == 2 && len(a.Rhs) == 1 {
									if ta, ok := a.Rhs[0].(*ast.TypeAssertExpr); ok && ta.Type != nil && rp.render(ta.Type) == "*ast.VarExpr" {
										if id, ok := ta.X.(*ast.Ident); ok && id.Name == val.Name {
											hasCheck = true
										}
									}
								}
								for _, l := range a.Lhs {
									if li, ok := l.(*ast.Ident); ok && li.Name == val.Name && a.Tok != token.DEFINE {
										reassigned++
									}
								}
							case *ast.CallExpr:
								if rp.render(a.Fun) == "ast.PosErrorf" && len(a.Args) > 1 {
									if lit, ok := a.Args[1].(*ast.BasicLit); ok && strings.Contains(lit.Value, "as array param") && strings.Contains(lit.Value, "can't pass scalar") {
										rejects = true
									}
								}
							}
							return true
						})
						checks = append(checks, fmt.Sprintf("  mkArgCheck %s %s %s %s %s %d %s", CoqString("internal/resolver/"+n), CoqString(fd.Name.Name),
							CoqString(rp.render(rs.X)), CoqString(val.Name), c03boolCoq(hasCheck), reassigned, c03boolCoq(rejects)))
						return true
					})
				}
				return true
			})
		}
	}
	if len(checks) == 0 {
		return "", fmt.Errorf("resolver: no range over the arguments of a *ast.UserCallExpr found")
	}
	sb.WriteString("Definition array_arg_checks : list arg_check := [\n" + strings.Join(checks, ";\n") + "\n].\n")

	// the parser's construction of split()'s argument list
	pp, err := c03load(repo, "parser")
	if err != nil {
		return "", err
	}
	var initArgs []string
	found := false
	for _, n := range SortedNames(pp.files) {
		for _, d := range pp.files[n].Decls {
			fd, ok := d.(*ast.FuncDecl)
			if !ok || fd.Body == nil {
				continue
			}
			ast.Inspect(fd.Body, func(nd ast.Node) bool {
				cc, ok := nd.(*ast.CaseClause)
				if !ok || len(cc.List) != 1 || pp.render(cc.List[0]) != "lexer.F_SPLIT" || found {
					return true
				}
				for _, st := range cc.Body {
					ast.Inspect(st, func(x ast.Node) bool {
						cl, ok := x.(*ast.CompositeLit)
						if !ok || pp.render(cl.Type) != "[]ast.Expr" || found {
							return true
						}
						found = true
						for _, el := range cl.Elts {
							if u, ok := el.(*ast.UnaryExpr); ok && u.Op == token.AND {
								if inner, ok := u.X.(*ast.CompositeLit); ok {
									initArgs = append(initArgs, CoqString("lit:"+pp.render(inner.Type)))
									continue
								}
							}
							initArgs = append(initArgs, CoqString("expr:"+pp.render(el)))
						}
						return true
					})
				}
				return true
			})
		}
	}
	if !found {
		return "", fmt.Errorf("parser: the []ast.Expr literal of the split() call was not found")
	}
	sb.WriteString("Definition split_args_init : list string := [" + strings.Join(initArgs, "; ") + "].\n")
	return sb.String(), nil
}

// ---- context counters of the parser: every function that does p.<field>++ must do p.<field>--
// the same number of times and must not return between the first increment and the last
// decrement (source order), so that the counter has its old value after every complete construct.
func c03counters(pp *c03pkg) (string, error) {
	var rows []string
	for _, n := range SortedNames(pp.files) {
		for _, d := range pp.files[n].Decls {
			fd, ok := d.(*ast.FuncDecl)
			if !ok || fd.Body == nil {
				continue
			}
			type cnt struct {
				incs, decs        int
				firstInc, lastDec token.Pos
			}
			fields := map[string]*cnt{}
			var order []string
			ast.Inspect(fd.Body, func(nd ast.Node) bool {
				st, ok := nd.(*ast.IncDecStmt)
				if !ok {
					return true
				}
				sel, ok := st.X.(*ast.SelectorExpr)
				if !ok {
					return true
				}
				if id, ok := sel.X.(*ast.Ident); !ok || id.Name != "p" {
					return true
				}
				c := fields[sel.Sel.Name]
				if c == nil {
					c = &cnt{}
					fields[sel.Sel.Name] = c
					order = append(order, sel.Sel.Name)
				}
				if st.Tok == token.INC {
					c.incs++
					if c.firstInc == 0 {
						c.firstInc = st.Pos()
					}
				} else {
					c.decs++
					c.lastDec = st.Pos()
				}
				return true
			})
			for _, f := range order {
				c := fields[f]
				between := 0
				ast.Inspect(fd.Body, func(nd ast.Node) bool {
					if r, ok := nd.(*ast.ReturnStmt); ok && c.firstInc != 0 && r.Pos() > c.firstInc && (c.lastDec == 0 || r.Pos() < c.lastDec) {
						between++
					}
					return true
				})
				rows = append(rows, fmt.Sprintf("  mkCounter %s %s %d %d %d", CoqString(fd.Name.Name), CoqString(f), c.incs, c.decs, between))
			}
		}
	}
	if len(rows) == 0 {
		return "", fmt.Errorf("parser: no p.<field>++ context counter found (loopDepth expected)")
	}
	return "Record counter_site : Type := mkCounter { c_func : string; c_field : string; c_incs : nat; c_decs : nat; c_returns_between : nat }.\n" +
		"Definition counter_sites : list counter_site := [\n" + strings.Join(rows, ";\n") + "\n].\n", nil
}
