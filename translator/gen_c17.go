package main

import (
	"fmt"
	"go/ast"
	"go/token"
	"sort"
	"strconv"
	"strings"
)

// Gen/Keywords.v (property C17): the keys of lexer/token.go keywordTokens, i.e. the names
// for which lexer.KeywordToken(name) != ILLEGAL, as byte lists in bytewise order.
// checkNativeFunc rejects exactly these as native function names.
func init() {
	register(Gen{File: "Keywords.v", Run: func(repo string) (string, error) {
		_, files, err := ParseDir(repo, "lexer")
		if err != nil {
			return "", err
		}
		var names []string
		found := false
		usesMap := false
		for _, n := range SortedNames(files) {
			for _, d := range files[n].Decls {
				switch gd := d.(type) {
				case *ast.GenDecl:
					if gd.Tok != token.VAR {
						continue
					}
					for _, s := range gd.Specs {
						vs := s.(*ast.ValueSpec)
						for i, name := range vs.Names {
							if name.Name != "keywordTokens" || i >= len(vs.Values) {
								continue
							}
							cl, ok := vs.Values[i].(*ast.CompositeLit)
							if !ok {
								return "", fmt.Errorf("keywordTokens is not a composite literal")
							}
							found = true
							for _, e := range cl.Elts {
								kv, ok := e.(*ast.KeyValueExpr)
								if !ok {
									return "", fmt.Errorf("keywordTokens element is not key: value")
								}
								lit, ok := kv.Key.(*ast.BasicLit)
								if !ok || lit.Kind != token.STRING {
									return "", fmt.Errorf("keywordTokens key is not a string literal")
								}
								if id, ok := kv.Value.(*ast.Ident); ok && id.Name == "ILLEGAL" {
									continue // maps to ILLEGAL: not a keyword for KeywordToken
								}
								k, err := strconv.Unquote(lit.Value)
								if err != nil {
									return "", err
								}
								names = append(names, k)
							}
						}
					}
				case *ast.FuncDecl:
					// KeywordToken must be the plain map lookup the table stands for
					if gd.Name.Name == "KeywordToken" && gd.Recv == nil && gd.Body != nil && len(gd.Body.List) == 1 {
						if rs, ok := gd.Body.List[0].(*ast.ReturnStmt); ok && len(rs.Results) == 1 {
							if ix, ok := rs.Results[0].(*ast.IndexExpr); ok {
								if x, ok := ix.X.(*ast.Ident); ok && x.Name == "keywordTokens" {
									usesMap = true
								}
							}
						}
					}
				}
			}
		}
		if !found {
			return "", fmt.Errorf("var keywordTokens not found in package lexer")
		}
		if !usesMap {
			return "", fmt.Errorf("lexer.KeywordToken is no longer `return keywordTokens[name]`")
		}
		sort.Strings(names)
		var sb strings.Builder
		sb.WriteString("From Coq Require Import ZArith List.\nImport ListNotations.\nOpen Scope Z_scope.\n")
		sb.WriteString("(* keys of lexer.keywordTokens, bytewise sorted *)\nDefinition go_keywords : list (list Z) :=\n  [")
		for i, k := range names {
			if i > 0 {
				sb.WriteString(";\n   ")
			}
			sb.WriteString(" (* " + k + " *) [")
			for j := 0; j < len(k); j++ {
				if j > 0 {
					sb.WriteString(";")
				}
				sb.WriteString(strconv.Itoa(int(k[j])))
			}
			sb.WriteString("]")
		}
		sb.WriteString(" ].\n")
		return sb.String(), nil
	}})
}
