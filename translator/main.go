// translator: regenerates rocq/Gen/*.v from the CURRENT source of the repository.
// Each property contributes generators in its own file gen_<id>.go, registered in init().
// A generator parses Go source with go/parser + go/ast and returns the text of one
// Coq file (tables that *are* code: constants, call sites with their guards, struct
// fields with the functions that assign them, ...). Theorems over these tables are
// re-proved on every run; a changed table breaks an obligation.
package main

import (
	"flag"
	"fmt"
	"go/ast"
	"go/parser"
	"go/token"
	"os"
	"path/filepath"
	"sort"
	"strings"
)

// Gen produces the content of rocq/Gen/<File> from the repository at repo.
type Gen struct {
	File string
	Run  func(repo string) (string, error)
}

var gens []Gen

func register(g Gen) { gens = append(gens, g) }

// ParseDir parses the non-test Go files of repo/dir built WITHOUT the verif tag.
func ParseDir(repo, dir string) (*token.FileSet, map[string]*ast.File, error) {
	fset := token.NewFileSet()
	files := map[string]*ast.File{}
	ents, err := os.ReadDir(filepath.Join(repo, dir))
	if err != nil {
		return nil, nil, err
	}
	for _, e := range ents {
		n := e.Name()
		if !strings.HasSuffix(n, ".go") || strings.HasSuffix(n, "_test.go") || strings.HasPrefix(n, "verif_") {
			continue
		}
		f, err := parser.ParseFile(fset, filepath.Join(repo, dir, n), nil, parser.ParseComments)
		if err != nil {
			return nil, nil, err
		}
		files[n] = f
	}
	return fset, files, nil
}

// SortedNames returns the keys of files in order (deterministic output).
func SortedNames(files map[string]*ast.File) []string {
	var ns []string
	for n := range files {
		ns = append(ns, n)
	}
	sort.Strings(ns)
	return ns
}

// CoqString renders s as a Coq string literal.
func CoqString(s string) string { return `"` + strings.ReplaceAll(s, `"`, `""`) + `"` }

func main() {
	repo := flag.String("repo", "/repo", "repository root")
	out := flag.String("out", "", "rocq/Gen directory")
	flag.Parse()
	if *out == "" {
		fmt.Println("usage: translator -repo /repo -out rocq/Gen")
		os.Exit(2)
	}
	os.MkdirAll(*out, 0o755)
	rc := 0
	changed := 0
	for _, g := range gens {
		text, err := g.Run(*repo)
		if err != nil {
			fmt.Printf("translator: %s: %v\n", g.File, err)
			rc = 1
			continue
		}
		text = "(* GENERATED from the repository source by /verif/translator on every check. Do not edit. *)\n" + text
		p := filepath.Join(*out, g.File)
		old, _ := os.ReadFile(p)
		if string(old) != text {
			if err := os.WriteFile(p, []byte(text), 0o644); err != nil {
				fmt.Println("translator:", err)
				rc = 1
			}
			changed++
		}
	}
	fmt.Printf("translator: %d tables, %d changed\n", len(gens), changed)
	os.Exit(rc)
}
