package main

import (
	"crypto/sha256"
	_ "embed"
	"fmt"
	"go/ast"
	"go/importer"
	"go/parser"
	"go/token"
	"go/types"
	"os"
	"path/filepath"
	"sort"
	"strings"
)

// Gen/ProgramWrites.v (property C19): who can write to data shared between interpreters.
//
// Shared data = (a) everything reachable from a parser.Program handed to package interp
// (origin "program"), (b) every package-level variable of the repository packages that
// package interp links (origin "global:<pkg>.<name>").
//
// The analysis is a whole-program, flow-insensitive, field-based alias ("taint")
// analysis over the type-checked source (go/types, packages type-checked from source,
// built WITHOUT the verif tag, tests excluded):
//
//   value(e)  = the origins whose memory the references inside the value of e may point
//               to (empty when the type of e holds no reference: numbers, strings, structs
//               of such);
//   loc(e)    = the origins in whose memory the location denoted by the lvalue e lies:
//               a package-level variable itself; X.f / X[i] with X an array or struct
//               value -> loc(X); X.f with X a pointer, X[i] with X a slice/map/pointer,
//               *X -> value(X).
//   Origins flow through assignments, initialisations, range, composite literals, struct
//   fields (all instances of a field are merged), container stores, call arguments,
//   receivers, results, closures (shared variables), type switches; interface method
//   calls on repository interfaces go to every repository implementation.
//
// Emitted facts:
//   seeds          the variables of package interp of type (*)parser.Program
//   alias_fields   struct fields that may hold a reference into shared data (the alias set)
//   write_sites    every assignment / op-assignment / ++ / -- whose target location is
//                  shared, every append/copy/delete/clear whose destination is shared,
//                  every &x of a shared location that is not immediately a call receiver,
//                  every channel send of a shared reference - outside func init
//   ext_calls      calls of functions outside the repository with a shared reference as
//                  receiver or argument (who they are decides whether they may write)
//   dyn_calls      calls through function values or foreign interfaces with a shared reference
//   pkg_vars       package-level variables of the analysed packages
//   map_ranges     every `for ... range m` over a MAP in the front-end packages (parser, lexer,
//                  internal/ast, internal/resolver, internal/compiler) with the complete text of
//                  the statement: the places where Go's randomised iteration order can leak
//                  into the result of ParseProgram
//   iter_callers   every call of ResolvedProgram.IterVars / IterFuncs (which hand the entries
//                  of a map to a callback in map order), with the text of the call
//
// The classification these facts are checked against is committed in
// rocq/Proofs/DeterminismTables.v.
func init() {
	register(Gen{File: "ProgramWrites.v", Run: genProgramWrites})
}

const c19ModPrefix = "github.com/benhoyt/goawk/"
// the cache key includes this file, so that a change of the analysis invalidates the cache
//
//go:embed gen_c19.go
var c19Self string

// Foreign functions whose result is known not to alias their arguments (they copy):
// os/exec.Command builds Args with append([]string{name}, arg...).  Emitted into the
// table (assumed_fresh) so that the assumption is visible; part of the trusted base.
var c19FreshResult = map[string]bool{"os/exec.Command": true, "os/exec.CommandContext": true}

var c19Pkgs = []string{"interp", "parser", "lexer", "internal/ast", "internal/resolver", "internal/compiler"}

type c19Loader struct {
	repo  string
	fset  *token.FileSet
	std   types.Importer
	pkgs  map[string]*types.Package
	files map[string][]*ast.File
	names map[*ast.File]string
	info  *types.Info
}

func (m *c19Loader) Import(path string) (*types.Package, error) {
	if !strings.HasPrefix(path, c19ModPrefix) {
		return m.std.Import(path)
	}
	if p, ok := m.pkgs[path]; ok {
		return p, nil
	}
	dir := filepath.Join(m.repo, strings.TrimPrefix(path, c19ModPrefix))
	ents, err := os.ReadDir(dir)
	if err != nil {
		return nil, err
	}
	var files []*ast.File
	for _, e := range ents {
		n := e.Name()
		if !strings.HasSuffix(n, ".go") || strings.HasSuffix(n, "_test.go") || strings.HasPrefix(n, "verif_") {
			continue
		}
		f, err := parser.ParseFile(m.fset, filepath.Join(dir, n), nil, 0)
		if err != nil {
			return nil, err
		}
		files = append(files, f)
		m.names[f] = n
	}
	conf := types.Config{Importer: m}
	p, err := conf.Check(path, m.fset, files, m.info)
	if err != nil {
		return nil, err
	}
	m.pkgs[path] = p
	m.files[path] = files
	return p, nil
}

func c19SourceHash(repo string) (string, error) {
	h := sha256.New()
	h.Write([]byte(c19Self))
	for _, d := range c19Pkgs {
		ents, err := os.ReadDir(filepath.Join(repo, d))
		if err != nil {
			return "", err
		}
		for _, e := range ents {
			n := e.Name()
			if !strings.HasSuffix(n, ".go") || strings.HasSuffix(n, "_test.go") || strings.HasPrefix(n, "verif_") {
				continue
			}
			b, err := os.ReadFile(filepath.Join(repo, d, n))
			if err != nil {
				return "", err
			}
			fmt.Fprintf(h, "\x00%s/%s\x00%d\x00", d, n, len(b))
			h.Write(b)
		}
	}
	return fmt.Sprintf("%x", h.Sum(nil))[:32], nil
}

func genProgramWrites(repo string) (string, error) {
	// The result is a function of the source files: cache it by their hash (type-checking the
	// standard library from source takes several seconds and every check runs the translator).
	hash, err := c19SourceHash(repo)
	if err != nil {
		return "", err
	}
	cache := filepath.Join(os.TempDir(), "verif_c19_"+hash+".v")
	if b, err := os.ReadFile(cache); err == nil && len(b) > 0 && os.Getenv("VERIF_C19_NOCACHE") == "" {
		return string(b), nil
	}
	text, err := c19Analyse(repo)
	if err != nil {
		return "", err
	}
	tmp := cache + fmt.Sprintf(".%d", os.Getpid())
	if os.WriteFile(tmp, []byte(text), 0o644) == nil {
		os.Rename(tmp, cache)
	}
	return text, nil
}

// ---- the analysis ----

type c19Set map[string]bool

func (s c19Set) addAll(o c19Set) bool {
	ch := false
	for k := range o {
		if !s[k] {
			s[k] = true
			ch = true
		}
	}
	return ch
}
func (s c19Set) text() string {
	var ks []string
	for k := range s {
		ks = append(ks, CoqString(k))
	}
	sort.Strings(ks)
	return "[" + strings.Join(ks, "; ") + "]"
}
func c19Union(a, b c19Set) c19Set {
	if len(a) == 0 {
		return b
	}
	if len(b) == 0 {
		return a
	}
	r := c19Set{}
	r.addAll(a)
	r.addAll(b)
	return r
}

type c19Site struct {
	origin, kind, pkg, file, fn string
	ord                         int
	text                        string
}

type c19An struct {
	l       *c19Loader
	info    *types.Info
	origins map[types.Object]c19Set // variables, fields, parameters
	rets    map[*types.Func]c19Set  // what a repository function may return
	changed bool
	// context while walking
	curPkg  string
	curFile string
	curFn   string
	curObj  *types.Func
	collect bool
	inInit  bool
	ords    map[string]int
	writes  []c19Site
	exts    []c19Site
	dyns    []c19Site
	impls   map[string][]*types.Func // interface method -> repository implementations
	recvAmp map[ast.Expr]bool
}

func c19HasRefs(t types.Type, seen map[types.Type]bool) bool {
	if t == nil {
		return true
	}
	if seen[t] {
		return false
	}
	seen[t] = true
	switch u := t.Underlying().(type) {
	case *types.Basic:
		return u.Kind() == types.UnsafePointer || u.Kind() == types.UntypedNil
	case *types.Pointer, *types.Slice, *types.Map, *types.Chan, *types.Signature, *types.Interface:
		return true
	case *types.Struct:
		for i := 0; i < u.NumFields(); i++ {
			if c19HasRefs(u.Field(i).Type(), seen) {
				return true
			}
		}
		return false
	case *types.Array:
		return c19HasRefs(u.Elem(), seen)
	case *types.Tuple:
		for i := 0; i < u.Len(); i++ {
			if c19HasRefs(u.At(i).Type(), seen) {
				return true
			}
		}
		return false
	}
	return true
}
func hasRefs(t types.Type) bool { return c19HasRefs(t, map[types.Type]bool{}) }

func (a *c19An) typeOf(e ast.Expr) types.Type {
	if tv, ok := a.info.Types[e]; ok {
		return tv.Type
	}
	if id, ok := e.(*ast.Ident); ok {
		if o := a.obj(id); o != nil {
			return o.Type()
		}
	}
	return nil
}
func (a *c19An) obj(id *ast.Ident) types.Object {
	if o := a.info.Uses[id]; o != nil {
		return o
	}
	return a.info.Defs[id]
}
func (a *c19An) isRepo(o types.Object) bool {
	return o != nil && o.Pkg() != nil && strings.HasPrefix(o.Pkg().Path(), c19ModPrefix)
}
func (a *c19An) add(o types.Object, s c19Set) {
	if o == nil || len(s) == 0 {
		return
	}
	if a.origins[o] == nil {
		a.origins[o] = c19Set{}
	}
	if a.origins[o].addAll(s) {
		a.changed = true
	}
}
func (a *c19An) addRet(f *types.Func, s c19Set) {
	if f == nil || len(s) == 0 {
		return
	}
	if a.rets[f] == nil {
		a.rets[f] = c19Set{}
	}
	if a.rets[f].addAll(s) {
		a.changed = true
	}
}

// callee: the statically known function of a call, or nil
func (a *c19An) callee(call *ast.CallExpr) (*types.Func, ast.Expr) {
	fun := ast.Unparen(call.Fun)
	switch f := fun.(type) {
	case *ast.Ident:
		if fn, ok := a.obj(f).(*types.Func); ok {
			return fn, nil
		}
	case *ast.SelectorExpr:
		if sel, ok := a.info.Selections[f]; ok {
			if fn, ok := sel.Obj().(*types.Func); ok && sel.Kind() == types.MethodVal {
				return fn, f.X
			}
			return nil, nil
		}
		if fn, ok := a.obj(f.Sel).(*types.Func); ok { // pkg.Func
			return fn, nil
		}
	}
	return nil, nil
}

func c19FuncName(fn *types.Func) string {
	sig := fn.Type().(*types.Signature)
	pk := ""
	if fn.Pkg() != nil {
		pk = fn.Pkg().Path()
	}
	if r := sig.Recv(); r != nil {
		t := r.Type()
		star := ""
		if p, ok := t.(*types.Pointer); ok {
			t = p.Elem()
			star = "*"
		}
		name := types.TypeString(t, func(p *types.Package) string { return p.Path() })
		return "(" + star + name + ")." + fn.Name()
	}
	return pk + "." + fn.Name()
}

// value(e)
func (a *c19An) value(e ast.Expr) c19Set {
	if e == nil {
		return nil
	}
	if t := a.typeOf(e); t != nil && !hasRefs(t) {
		return nil
	}
	return a.valueNoFilter(e)
}

func (a *c19An) valueNoFilter(e ast.Expr) c19Set {
	switch x := e.(type) {
	case *ast.Ident:
		return a.origins[a.obj(x)]
	case *ast.ParenExpr:
		return a.valueNoFilter(x.X)
	case *ast.SelectorExpr:
		if sel, ok := a.info.Selections[x]; ok {
			if sel.Kind() == types.FieldVal {
				return c19Union(a.origins[sel.Obj()], a.valueNoFilter(x.X))
			}
			return c19Union(a.valueNoFilter(x.X), a.loc(x.X)) // method value: bound receiver
		}
		return a.origins[a.obj(x.Sel)] // pkg.Var
	case *ast.IndexExpr:
		return a.valueNoFilter(x.X)
	case *ast.IndexListExpr:
		return a.valueNoFilter(x.X)
	case *ast.SliceExpr:
		return c19Union(a.valueNoFilter(x.X), a.loc(x.X)) // slicing an array value takes its address
	case *ast.StarExpr:
		return a.valueNoFilter(x.X)
	case *ast.TypeAssertExpr:
		return a.valueNoFilter(x.X)
	case *ast.UnaryExpr:
		if x.Op == token.AND {
			if _, isLit := ast.Unparen(x.X).(*ast.CompositeLit); isLit {
				// &T{...}: a pointer to fresh memory; what the fields hold is recorded per field
				return nil
			}
			return c19Union(a.loc(x.X), a.valueNoFilter(x.X))
		}
		if x.Op == token.ARROW {
			return a.valueNoFilter(x.X)
		}
		return nil
	case *ast.KeyValueExpr:
		return a.value(x.Value)
	case *ast.CompositeLit:
		var r c19Set
		for _, el := range x.Elts {
			if kv, ok := el.(*ast.KeyValueExpr); ok {
				r = c19Union(r, a.value(kv.Value))
				r = c19Union(r, a.value(kv.Key))
			} else {
				r = c19Union(r, a.value(el))
			}
		}
		return r
	case *ast.CallExpr:
		return a.callValue(x)
	}
	return nil
}

func (a *c19An) callValue(call *ast.CallExpr) c19Set {
	if tv, ok := a.info.Types[call.Fun]; ok && tv.IsType() { // conversion
		if len(call.Args) == 1 {
			return a.valueNoFilter(call.Args[0])
		}
		return nil
	}
	if id, ok := ast.Unparen(call.Fun).(*ast.Ident); ok {
		if b, ok := a.obj(id).(*types.Builtin); ok {
			switch b.Name() {
			case "append":
				var r c19Set
				for _, x := range call.Args {
					r = c19Union(r, a.value(x))
				}
				return r
			case "min", "max":
				return nil
			}
			return nil
		}
	}
	fn, recv := a.callee(call)
	if fn != nil && a.isRepo(fn) {
		r := a.rets[fn]
		for _, impl := range a.implsOf(fn) {
			r = c19Union(r, a.rets[impl])
		}
		return r
	}
	// unknown or foreign callee: the result may alias anything passed in
	if fn != nil && c19FreshResult[c19FuncName(fn)] {
		return nil
	}
	var r c19Set
	if recv != nil {
		r = c19Union(r, c19Union(a.value(recv), a.loc(recv)))
	}
	for _, x := range call.Args {
		r = c19Union(r, a.value(x))
	}
	if fn == nil {
		r = c19Union(r, a.value(call.Fun))
	}
	return r
}

// loc(e)
func (a *c19An) loc(e ast.Expr) c19Set {
	switch x := e.(type) {
	case *ast.Ident:
		o := a.obj(x)
		if v, ok := o.(*types.Var); ok && a.isRepo(v) && v.Parent() == v.Pkg().Scope() {
			return c19Set{"global:" + strings.TrimPrefix(v.Pkg().Path(), c19ModPrefix) + "." + v.Name(): true}
		}
		return nil
	case *ast.ParenExpr:
		return a.loc(x.X)
	case *ast.SelectorExpr:
		if sel, ok := a.info.Selections[x]; ok && sel.Kind() == types.FieldVal {
			t := a.typeOf(x.X)
			if t != nil {
				if _, isPtr := t.Underlying().(*types.Pointer); isPtr {
					return a.valueNoFilter(x.X)
				}
			}
			// embedded pointers on the path
			if sel.Indirect() {
				return c19Union(a.valueNoFilter(x.X), a.loc(x.X))
			}
			return a.loc(x.X)
		}
		if _, ok := a.info.Selections[x]; !ok { // pkg.Var
			if v, ok := a.obj(x.Sel).(*types.Var); ok && a.isRepo(v) && v.Parent() == v.Pkg().Scope() {
				return c19Set{"global:" + strings.TrimPrefix(v.Pkg().Path(), c19ModPrefix) + "." + v.Name(): true}
			}
		}
		return nil
	case *ast.IndexExpr:
		t := a.typeOf(x.X)
		if t != nil {
			if _, isArr := t.Underlying().(*types.Array); isArr {
				return a.loc(x.X)
			}
		}
		return a.valueNoFilter(x.X)
	case *ast.StarExpr:
		return a.valueNoFilter(x.X)
	}
	return nil
}

// store value origins s into the lvalue lhs
func (a *c19An) assignTo(lhs ast.Expr, s c19Set) {
	if len(s) == 0 {
		return
	}
	switch x := lhs.(type) {
	case *ast.Ident:
		if x.Name != "_" {
			a.add(a.obj(x), s)
		}
	case *ast.ParenExpr:
		a.assignTo(x.X, s)
	case *ast.SelectorExpr:
		if sel, ok := a.info.Selections[x]; ok {
			a.add(sel.Obj(), s)
		} else {
			a.add(a.obj(x.Sel), s)
		}
	case *ast.IndexExpr:
		a.assignTo(x.X, s)
	case *ast.StarExpr:
		a.assignTo(x.X, s)
	case *ast.SliceExpr:
		a.assignTo(x.X, s)
	case *ast.CallExpr:
		// f(...)[i] = v: cannot name the container; nothing to record
	}
}

func (a *c19An) implsOf(fn *types.Func) []*types.Func {
	sig := fn.Type().(*types.Signature)
	if sig.Recv() == nil {
		return nil
	}
	if _, ok := sig.Recv().Type().Underlying().(*types.Interface); !ok {
		return nil
	}
	return a.impls[fn.FullName()]
}

func (a *c19An) site(kind string, o c19Set, n ast.Node) c19Site {
	key := a.curPkg + "|" + a.curFn + "|" + kind
	a.ords[key]++
	return c19Site{origin: o.text(), kind: kind, pkg: a.curPkg, file: a.curFile, fn: a.curFn, ord: a.ords[key],
		text: render(a.l.fset, n)}
}

func (a *c19An) write(kind string, o c19Set, n ast.Node) {
	if !a.collect || len(o) == 0 || a.inInit {
		return
	}
	a.writes = append(a.writes, a.site(kind, o, n))
}

func (a *c19An) bindCall(call *ast.CallExpr) {
	if tv, ok := a.info.Types[call.Fun]; ok && tv.IsType() {
		return
	}
	if id, ok := ast.Unparen(call.Fun).(*ast.Ident); ok {
		if b, ok := a.obj(id).(*types.Builtin); ok {
			switch b.Name() {
			case "append":
				if len(call.Args) > 0 {
					a.write("append", a.value(call.Args[0]), call)
				}
			case "copy":
				if len(call.Args) > 0 {
					a.write("copy", a.value(call.Args[0]), call)
				}
			case "delete", "clear":
				if len(call.Args) > 0 {
					a.write(b.Name(), a.value(call.Args[0]), call)
				}
			}
			return
		}
	}
	fn, recv := a.callee(call)
	var recvO c19Set
	if recv != nil {
		recvO = c19Union(a.value(recv), a.loc(recv))
	}
	if fn != nil && a.isRepo(fn) {
		targets := append([]*types.Func{fn}, a.implsOf(fn)...)
		for _, t := range targets {
			sig := t.Type().(*types.Signature)
			if sig.Recv() != nil {
				a.add(sig.Recv(), recvO)
			}
			np := sig.Params().Len()
			for i, arg := range call.Args {
				j := i
				if j >= np {
					j = np - 1
				}
				if j >= 0 {
					a.add(sig.Params().At(j), a.value(arg))
				}
			}
		}
		return
	}
	if !a.collect {
		return
	}
	// foreign or dynamic callee
	name := "?"
	kind := "dyn"
	if fn != nil {
		name = c19FuncName(fn)
		kind = "ext"
		if sig := fn.Type().(*types.Signature); sig.Recv() != nil {
			if _, isIface := sig.Recv().Type().Underlying().(*types.Interface); isIface {
				kind = "ext" // method of a foreign interface: named, but implementation unknown
			}
		}
	} else {
		name = render(a.l.fset, call.Fun)
	}
	rec := func(o c19Set, pos int) {
		if len(o) == 0 {
			return
		}
		s := a.site(kind, o, call)
		s.text = name
		if pos < 0 {
			s.kind = "recv"
		} else {
			s.kind = fmt.Sprintf("arg%d", pos)
		}
		if kind == "ext" {
			a.exts = append(a.exts, s)
		} else {
			a.dyns = append(a.dyns, s)
		}
	}
	rec(recvO, -1)
	for i, arg := range call.Args {
		rec(a.value(arg), i)
	}
}

func (a *c19An) walkBody(body ast.Node) {
	ast.Inspect(body, func(n ast.Node) bool {
		switch x := n.(type) {
		case *ast.AssignStmt:
			if len(x.Lhs) == len(x.Rhs) {
				for i := range x.Lhs {
					a.assignTo(x.Lhs[i], a.value(x.Rhs[i]))
				}
			} else if len(x.Rhs) == 1 {
				v := a.valueNoFilter(x.Rhs[0])
				for _, l := range x.Lhs {
					if t := a.typeOf(l); t == nil || hasRefs(t) {
						a.assignTo(l, v)
					}
				}
			}
			for _, l := range x.Lhs {
				if _, isId := ast.Unparen(l).(*ast.Ident); isId && x.Tok == token.DEFINE {
					continue
				}
				a.write("assign", a.loc(l), x)
			}
		case *ast.IncDecStmt:
			a.write("incdec", a.loc(x.X), x)
		case *ast.ValueSpec:
			for i, nm := range x.Names {
				if i < len(x.Values) {
					a.assignTo(nm, a.value(x.Values[i]))
				} else if len(x.Values) == 1 {
					a.assignTo(nm, a.valueNoFilter(x.Values[0]))
				}
			}
		case *ast.RangeStmt:
			v := a.valueNoFilter(x.X)
			if x.Key != nil {
				if t := a.typeOf(x.Key); t == nil || hasRefs(t) {
					a.assignTo(x.Key, v)
				}
			}
			if x.Value != nil {
				if t := a.typeOf(x.Value); t == nil || hasRefs(t) {
					a.assignTo(x.Value, v)
				}
			}
		case *ast.TypeSwitchStmt:
			var src ast.Expr
			switch s := x.Assign.(type) {
			case *ast.AssignStmt:
				if ta, ok := s.Rhs[0].(*ast.TypeAssertExpr); ok {
					src = ta.X
				}
			case *ast.ExprStmt:
				if ta, ok := s.X.(*ast.TypeAssertExpr); ok {
					src = ta.X
				}
			}
			if src != nil {
				v := a.valueNoFilter(src)
				for _, cl := range x.Body.List {
					if o := a.info.Implicits[cl]; o != nil && hasRefs(o.Type()) {
						a.add(o, v)
					}
				}
			}
		case *ast.CompositeLit:
			t := a.typeOf(x)
			if t != nil {
				if st, ok := t.Underlying().(*types.Struct); ok {
					for i, el := range x.Elts {
						if kv, ok := el.(*ast.KeyValueExpr); ok {
							if id, ok := kv.Key.(*ast.Ident); ok {
								a.add(a.obj(id), a.value(kv.Value))
							}
						} else if i < st.NumFields() {
							a.add(st.Field(i), a.value(el))
						}
					}
				}
			}
		case *ast.ReturnStmt:
			if a.curObj != nil {
				if len(x.Results) == 0 {
					res := a.curObj.Type().(*types.Signature).Results()
					for i := 0; i < res.Len(); i++ {
						a.addRet(a.curObj, a.origins[res.At(i)])
					}
				}
				for _, r := range x.Results {
					a.addRet(a.curObj, a.value(r))
				}
			}
		case *ast.SendStmt:
			a.write("send", a.value(x.Value), x)
			a.assignTo(x.Chan, a.value(x.Value))
		case *ast.UnaryExpr:
			if x.Op == token.AND && !a.recvAmp[x] {
				if _, isLit := ast.Unparen(x.X).(*ast.CompositeLit); !isLit {
					a.write("addr", a.loc(x.X), x)
				}
			}
		case *ast.CallExpr:
			a.bindCall(x)
		case *ast.FuncLit:
			// walked as part of the enclosing function (shared variables); its own
			// returns are not the enclosing function's returns
			saved := a.curObj
			a.curObj = nil
			a.walkBody(x.Body)
			a.curObj = saved
			return false
		}
		return true
	})
}

func (a *c19An) pass(collect bool) {
	a.collect = collect
	a.ords = map[string]int{}
	a.writes, a.exts, a.dyns = nil, nil, nil
	for _, d := range c19Pkgs {
		path := c19ModPrefix + d
		for _, f := range a.l.files[path] {
			a.curPkg, a.curFile = d, a.l.names[f]
			for _, decl := range f.Decls {
				switch dd := decl.(type) {
				case *ast.GenDecl:
					a.curFn, a.curObj, a.inInit = "<package>", nil, true
					a.walkBody(dd)
				case *ast.FuncDecl:
					if dd.Body == nil {
						continue
					}
					a.curFn = dd.Name.Name
					if dd.Recv != nil && len(dd.Recv.List) > 0 {
						a.curFn = render(a.l.fset, dd.Recv.List[0].Type) + "." + dd.Name.Name
					}
					a.curObj, _ = a.info.Defs[dd.Name].(*types.Func)
					a.inInit = dd.Recv == nil && dd.Name.Name == "init"
					a.walkBody(dd.Body)
				}
			}
		}
	}
}

func c19IsProgramType(t types.Type) bool {
	if p, ok := t.(*types.Pointer); ok {
		t = p.Elem()
	}
	n, ok := t.(*types.Named)
	return ok && n.Obj().Pkg() != nil && n.Obj().Pkg().Path() == c19ModPrefix+"parser" && n.Obj().Name() == "Program"
}

func c19Analyse(repo string) (string, error) {
	fset := token.NewFileSet()
	info := &types.Info{Types: map[ast.Expr]types.TypeAndValue{}, Defs: map[*ast.Ident]types.Object{},
		Uses: map[*ast.Ident]types.Object{}, Selections: map[*ast.SelectorExpr]*types.Selection{},
		Implicits: map[ast.Node]types.Object{}}
	l := &c19Loader{repo: repo, fset: fset, std: importer.ForCompiler(fset, "source", nil),
		pkgs: map[string]*types.Package{}, files: map[string][]*ast.File{}, names: map[*ast.File]string{}, info: info}
	for _, d := range c19Pkgs {
		if _, err := l.Import(c19ModPrefix + d); err != nil {
			return "", fmt.Errorf("type-checking %s: %v", d, err)
		}
	}
	a := &c19An{l: l, info: info, origins: map[types.Object]c19Set{}, rets: map[*types.Func]c19Set{},
		impls: map[string][]*types.Func{}, recvAmp: map[ast.Expr]bool{}}

	// repository implementations of repository interface methods
	var named []*types.Named
	for _, d := range c19Pkgs {
		sc := l.pkgs[c19ModPrefix+d].Scope()
		for _, nm := range sc.Names() {
			if tn, ok := sc.Lookup(nm).(*types.TypeName); ok {
				if n, ok := tn.Type().(*types.Named); ok {
					named = append(named, n)
				}
			}
		}
	}
	for _, in := range named {
		it, ok := in.Underlying().(*types.Interface)
		if !ok {
			continue
		}
		for i := 0; i < it.NumMethods(); i++ {
			m := it.Method(i)
			for _, n := range named {
				if _, isI := n.Underlying().(*types.Interface); isI {
					continue
				}
				for _, t := range []types.Type{n, types.NewPointer(n)} {
					if types.Implements(t, it) {
						if o, _, _ := types.LookupFieldOrMethod(t, true, m.Pkg(), m.Name()); o != nil {
							if f, ok := o.(*types.Func); ok {
								a.impls[m.FullName()] = append(a.impls[m.FullName()], f)
							}
						}
						break
					}
				}
			}
		}
	}

	// seeds
	type seed struct{ pkg, where, name string }
	var seeds []seed
	for id, o := range info.Defs {
		v, ok := o.(*types.Var)
		if !ok || v.Pkg() == nil || v.Pkg().Path() != c19ModPrefix+"interp" || !c19IsProgramType(v.Type()) {
			continue
		}
		a.add(v, c19Set{"program": true})
		where := "field"
		if !v.IsField() {
			where = "var"
			for _, f := range l.files[c19ModPrefix+"interp"] {
				for _, decl := range f.Decls {
					if fd, ok := decl.(*ast.FuncDecl); ok && fd.Pos() <= id.Pos() && id.Pos() < fd.End() {
						where = fd.Name.Name
					}
				}
			}
		}
		seeds = append(seeds, seed{"interp", where, v.Name()})
	}
	if len(seeds) == 0 {
		return "", fmt.Errorf("no variable of type parser.Program found in package interp")
	}
	type pvar struct {
		pkg, name, typ string
		refs           bool
	}
	var pvars []pvar
	for _, d := range c19Pkgs {
		sc := l.pkgs[c19ModPrefix+d].Scope()
		for _, nm := range sc.Names() {
			if v, ok := sc.Lookup(nm).(*types.Var); ok {
				r := hasRefs(v.Type())
				pvars = append(pvars, pvar{d, nm, types.TypeString(v.Type(), func(p *types.Package) string { return p.Name() }), r})
				if r {
					a.add(v, c19Set{"global:" + d + "." + nm: true})
				}
			}
		}
	}

	// fixpoint
	for i := 0; ; i++ {
		a.changed = false
		a.pass(false)
		if !a.changed {
			break
		}
		if i > 100 {
			return "", fmt.Errorf("alias analysis did not converge")
		}
	}
	a.pass(true)

	// ---- output ----
	var sb strings.Builder
	sb.WriteString("From Coq Require Import String List ZArith.\nImport ListNotations.\nOpen Scope string_scope.\n\n")
	sb.WriteString("Record pw_site := mkPW { pw_origin : list string; pw_kind : string; pw_pkg : string; pw_file : string;\n")
	sb.WriteString("  pw_func : string; pw_ord : Z; pw_text : string }.\n\n")

	sort.Slice(seeds, func(i, j int) bool {
		return seeds[i].where+"."+seeds[i].name < seeds[j].where+"."+seeds[j].name
	})
	sb.WriteString("(* variables of package interp that hold the parser.Program: (function or \"field\", name) *)\n")
	sb.WriteString("Definition seeds : list (string * string) :=\n  [")
	for i, s := range seeds {
		if i > 0 {
			sb.WriteString(";\n   ")
		}
		fmt.Fprintf(&sb, "(%s, %s)", CoqString(s.where), CoqString(s.name))
	}
	sb.WriteString("].\n\n")

	type af struct{ owner, name, origins string }
	var afs []af
	for o, s := range a.origins {
		v, ok := o.(*types.Var)
		if !ok || !v.IsField() || len(s) == 0 || !a.isRepo(v) {
			continue
		}
		afs = append(afs, af{c19FieldOwner(l, v), v.Name(), s.text()})
	}
	sort.Slice(afs, func(i, j int) bool { return afs[i].owner+"."+afs[i].name < afs[j].owner+"."+afs[j].name })
	sb.WriteString("(* struct fields that may hold a reference into shared data: (struct, field, origins) *)\n")
	sb.WriteString("Definition alias_fields : list (string * string * list string) :=\n  [")
	for i, f := range afs {
		if i > 0 {
			sb.WriteString(";\n   ")
		}
		fmt.Fprintf(&sb, "(%s, %s, %s)", CoqString(f.owner), CoqString(f.name), f.origins)
	}
	sb.WriteString("].\n\n")

	emit := func(name, comment string, sites []c19Site) {
		sort.SliceStable(sites, func(i, j int) bool {
			x, y := sites[i], sites[j]
			if x.pkg != y.pkg {
				return x.pkg < y.pkg
			}
			if x.file != y.file {
				return x.file < y.file
			}
			if x.fn != y.fn {
				return x.fn < y.fn
			}
			if x.kind != y.kind {
				return x.kind < y.kind
			}
			return x.ord < y.ord
		})
		fmt.Fprintf(&sb, "(* %s *)\nDefinition %s : list pw_site :=\n  [", comment, name)
		for i, s := range sites {
			if i > 0 {
				sb.WriteString(";\n   ")
			}
			fmt.Fprintf(&sb, "mkPW %s %s %s %s %s %d %s", s.origin, CoqString(s.kind), CoqString(s.pkg),
				CoqString(s.file), CoqString(s.fn), s.ord, CoqString(s.text))
		}
		sb.WriteString("].\n\n")
	}
	emit("write_sites", "writes whose target is shared data (outside func init)", a.writes)
	emit("ext_calls", "calls leaving the repository with a shared reference: pw_text = callee, pw_kind = recv | arg<i>", a.exts)
	emit("dyn_calls", "calls through function values with a shared reference", a.dyns)

	var fresh []string
	for k := range c19FreshResult {
		fresh = append(fresh, CoqString(k))
	}
	sort.Strings(fresh)
	sb.WriteString("(* foreign functions assumed to return memory that does not alias their arguments *)\n")
	sb.WriteString("Definition assumed_fresh : list string := [" + strings.Join(fresh, "; ") + "].\n\n")
	// ---- where map iteration order can leak into the parse result ----
	frontEnd := map[string]bool{"parser": true, "lexer": true, "internal/ast": true, "internal/resolver": true, "internal/compiler": true}
	type mr struct {
		pkg, file, fn string
		ord           int
		text          string
	}
	var ranges, iters []mr
	for _, d := range c19Pkgs {
		for _, f := range l.files[c19ModPrefix+d] {
			for _, decl := range f.Decls {
				fd, ok := decl.(*ast.FuncDecl)
				if !ok || fd.Body == nil {
					continue
				}
				fn := fd.Name.Name
				if fd.Recv != nil && len(fd.Recv.List) > 0 {
					fn = render(fset, fd.Recv.List[0].Type) + "." + fd.Name.Name
				}
				nr, ni := 0, 0
				ast.Inspect(fd.Body, func(n ast.Node) bool {
					switch x := n.(type) {
					case *ast.RangeStmt:
						if !frontEnd[d] {
							return true
						}
						if t := a.typeOf(x.X); t != nil {
							if _, isMap := t.Underlying().(*types.Map); isMap {
								nr++
								ranges = append(ranges, mr{d, l.names[f], fn, nr, render(fset, x)})
							}
						}
					case *ast.CallExpr:
						if callee, _ := a.callee(x); callee != nil && a.isRepo(callee) &&
							(callee.Name() == "IterVars" || callee.Name() == "IterFuncs") {
							ni++
							iters = append(iters, mr{d, l.names[f], fn, ni, render(fset, x)})
						}
					}
					return true
				})
			}
		}
	}
	emitMR := func(name, comment string, xs []mr) {
		sort.SliceStable(xs, func(i, j int) bool {
			x, y := xs[i], xs[j]
			if x.pkg != y.pkg {
				return x.pkg < y.pkg
			}
			if x.file != y.file {
				return x.file < y.file
			}
			if x.fn != y.fn {
				return x.fn < y.fn
			}
			return x.ord < y.ord
		})
		fmt.Fprintf(&sb, "(* %s: (package, file, function, ordinal, text) *)\nDefinition %s : list (string * string * string * Z * string) :=\n  [", comment, name)
		for i, x := range xs {
			if i > 0 {
				sb.WriteString(";\n   ")
			}
			fmt.Fprintf(&sb, "(%s, %s, %s, %d%%Z, %s)", CoqString(x.pkg), CoqString(x.file), CoqString(x.fn), x.ord, CoqString(x.text))
		}
		sb.WriteString("].\n\n")
	}
	emitMR("map_ranges", "range statements over maps in the front end", ranges)
	emitMR("iter_callers", "calls of IterVars / IterFuncs (callbacks run in map order)", iters)
	sb.WriteString("(* package-level variables: (package, name, type, holds references) *)\n")
	sb.WriteString("Definition pkg_vars : list (string * string * string * bool) :=\n  [")
	for i, v := range pvars {
		if i > 0 {
			sb.WriteString(";\n   ")
		}
		typ := v.typ
		if len(typ) > 60 {
			typ = typ[:60] + "..."
		}
		fmt.Fprintf(&sb, "(%s, %s, %s, %v)", CoqString(v.pkg), CoqString(v.name), CoqString(typ), v.refs)
	}
	sb.WriteString("].\n")
	return sb.String(), nil
}

// the struct a field belongs to (by searching the named struct types of the repository)
func c19FieldOwner(l *c19Loader, f *types.Var) string {
	for _, d := range c19Pkgs {
		sc := l.pkgs[c19ModPrefix+d].Scope()
		for _, nm := range sc.Names() {
			tn, ok := sc.Lookup(nm).(*types.TypeName)
			if !ok {
				continue
			}
			st, ok := tn.Type().Underlying().(*types.Struct)
			if !ok {
				continue
			}
			for i := 0; i < st.NumFields(); i++ {
				if st.Field(i) == f {
					return d + "." + nm
				}
			}
		}
	}
	return "?"
}
