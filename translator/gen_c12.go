package main

import (
	"bytes"
	"fmt"
	"go/ast"
	"go/printer"
	"go/token"
	"sort"
	"strconv"
	"strings"
)

// Gen/IoSites.v (C12): where package interp can reach the file system or start a
// process.  Facts only; the classification they are checked against is committed in
// rocq/Proofs/SandboxSites.v.
//
//   sensitive_refs   every reference pkg.Sel, pkg in {os, os/exec, syscall, io/ioutil, net..,
//                    plugin, unsafe, os/signal}, with its enclosing function and whether it is called
//   openfile_sites   calls of the openFile field, with the flag argument and the guards before them
//   execshell_sites  calls of execShell, with guards
//   start_sites      calls of a method named Start/Run/Output/CombinedOutput, with guards
//   cmdstream_sites  calls of newOutCmdStream/newInCmdStream, with guards
//   field_assigns    assignments to the fields openFile noExec noFileWrites noFileReads shellCommand
//   repo_imports     imports of every repository package interp depends on (transitively)
//   labelled_funcs   functions of package interp that contain a label or goto
//
// A guard of a call = the condition of an earlier statement `if cond { ...; return ..., <non-nil> }`
// (no else, no init) in a statement list that encloses the call.
func init() {
	register(Gen{File: "IoSites.v", Run: genIoSites})
}

var sensitivePkgs = map[string]bool{"os": true, "os/exec": true, "syscall": true, "io/ioutil": true, "plugin": true,
	"unsafe": true, "os/signal": true, "net": true, "net/http": true, "os/user": true, "runtime/debug": true, "embed": true}

func isSensitive(path string) bool {
	return sensitivePkgs[path] || strings.HasPrefix(path, "net/") || strings.HasPrefix(path, "golang.org/x/sys")
}

func render(fset *token.FileSet, n ast.Node) string {
	var b bytes.Buffer
	printer.Fprint(&b, fset, n)
	return strings.Join(strings.Fields(b.String()), " ")
}

type c12site struct {
	fn, callee, arg string
	guards          []string
}

func (s c12site) coq() string {
	var g []string
	for _, x := range s.guards {
		g = append(g, CoqString(x))
	}
	return fmt.Sprintf("mkSite %s %s %s [%s]", CoqString(s.fn), CoqString(s.callee), CoqString(s.arg), strings.Join(g, "; "))
}

// errorGuard: cond of `if cond { ...; return ..., nonNil }` or ""
func errorGuard(fset *token.FileSet, st ast.Stmt) string {
	is, ok := st.(*ast.IfStmt)
	if !ok || is.Else != nil || is.Init != nil || len(is.Body.List) == 0 {
		return ""
	}
	ret, ok := is.Body.List[len(is.Body.List)-1].(*ast.ReturnStmt)
	if !ok || len(ret.Results) == 0 {
		return ""
	}
	last := ret.Results[len(ret.Results)-1]
	if id, ok := last.(*ast.Ident); ok && id.Name == "nil" {
		return ""
	}
	return render(fset, is.Cond)
}

// guardsBefore: guards in the statement lists enclosing pos (outermost first)
func guardsBefore(fset *token.FileSet, body *ast.BlockStmt, pos token.Pos) []string {
	var out []string
	var visitList func(list []ast.Stmt)
	var visitNode func(n ast.Node)
	visitList = func(list []ast.Stmt) {
		for _, st := range list {
			if st.End() <= pos {
				if g := errorGuard(fset, st); g != "" {
					out = append(out, g)
				}
				continue
			}
			if st.Pos() <= pos && pos < st.End() {
				visitNode(st)
			}
			return
		}
	}
	visitNode = func(n ast.Node) {
		switch x := n.(type) {
		case *ast.BlockStmt:
			visitList(x.List)
			return
		case *ast.CaseClause:
			visitList(x.Body)
			return
		case *ast.CommClause:
			visitList(x.Body)
			return
		case *ast.FuncLit:
			return // a closure: guards outside do not apply at call time
		}
		// descend to the nearest nodes with statement lists containing pos
		ast.Inspect(n, func(m ast.Node) bool {
			if m == nil || m == n {
				return true
			}
			if !(m.Pos() <= pos && pos < m.End()) {
				return false
			}
			switch m.(type) {
			case *ast.BlockStmt, *ast.CaseClause, *ast.CommClause, *ast.FuncLit:
				visitNode(m)
				return false
			}
			return true
		})
	}
	visitList(body.List)
	return out
}

func genIoSites(repo string) (string, error) {
	fset, files, err := ParseDir(repo, "interp")
	if err != nil {
		return "", err
	}
	type ref struct {
		fn, pkg, sel string
		call         bool
	}
	refSet := map[ref]bool{}
	var openSites, execSites, startSites, streamSites []c12site
	var assigns [][3]string
	var labelled []string
	importsOf := func(f *ast.File) map[string]string {
		m := map[string]string{}
		for _, im := range f.Imports {
			p, _ := strconv.Unquote(im.Path.Value)
			name := p[strings.LastIndex(p, "/")+1:]
			if im.Name != nil {
				name = im.Name.Name
			}
			m[name] = p
		}
		return m
	}
	fields := map[string]bool{"openFile": true, "noExec": true, "noFileWrites": true, "noFileReads": true, "shellCommand": true}
	for _, fname := range SortedNames(files) {
		f := files[fname]
		imps := importsOf(f)
		if _, dot := imps["."]; dot {
			return "", fmt.Errorf("%s uses a dot import: package references cannot be listed", fname)
		}
		// package-level references outside functions (var initialisers, types)
		scan := func(fn string, root ast.Node, body *ast.BlockStmt) {
			calls := map[ast.Expr]bool{}
			ast.Inspect(root, func(n ast.Node) bool {
				if c, ok := n.(*ast.CallExpr); ok {
					calls[c.Fun] = true
				}
				return true
			})
			// identifiers assigned in this function (to show what a flag variable holds)
			varVals := map[string][]string{}
			ast.Inspect(root, func(n ast.Node) bool {
				if as, ok := n.(*ast.AssignStmt); ok && len(as.Lhs) == 1 && len(as.Rhs) == 1 {
					if id, ok := as.Lhs[0].(*ast.Ident); ok {
						varVals[id.Name] = append(varVals[id.Name], as.Tok.String()+" "+render(fset, as.Rhs[0]))
					}
				}
				return true
			})
			hasLabel := false
			ast.Inspect(root, func(n ast.Node) bool {
				switch x := n.(type) {
				case *ast.LabeledStmt:
					hasLabel = true
				case *ast.BranchStmt:
					if x.Tok == token.GOTO {
						hasLabel = true
					}
				case *ast.SelectorExpr:
					if id, ok := x.X.(*ast.Ident); ok && id.Obj == nil {
						if p, ok := imps[id.Name]; ok && isSensitive(p) {
							refSet[ref{fn, p, x.Sel.Name, calls[ast.Expr(x)]}] = true
						}
					}
				case *ast.AssignStmt:
					for i, l := range x.Lhs {
						if se, ok := l.(*ast.SelectorExpr); ok && fields[se.Sel.Name] {
							rhs := "?"
							if len(x.Rhs) == len(x.Lhs) {
								rhs = render(fset, x.Rhs[i])
							}
							assigns = append(assigns, [3]string{fn, se.Sel.Name, x.Tok.String() + " " + rhs})
						}
					}
				case *ast.IncDecStmt:
					if se, ok := x.X.(*ast.SelectorExpr); ok && fields[se.Sel.Name] {
						assigns = append(assigns, [3]string{fn, se.Sel.Name, x.Tok.String()})
					}
				case *ast.UnaryExpr:
					if x.Op == token.AND {
						if se, ok := x.X.(*ast.SelectorExpr); ok && fields[se.Sel.Name] {
							assigns = append(assigns, [3]string{fn, se.Sel.Name, "address taken"})
						}
					}
				case *ast.CallExpr:
					var g []string
					if body != nil {
						g = guardsBefore(fset, body, x.Pos())
					}
					argStr := func(i int) string {
						if i >= len(x.Args) {
							return ""
						}
						a := render(fset, x.Args[i])
						if id, ok := x.Args[i].(*ast.Ident); ok && len(varVals[id.Name]) > 0 {
							a += "{" + strings.Join(varVals[id.Name], "; ") + "}"
						}
						return a
					}
					switch fun := x.Fun.(type) {
					case *ast.SelectorExpr:
						callee := render(fset, fun)
						switch fun.Sel.Name {
						case "openFile":
							openSites = append(openSites, c12site{fn, callee, argStr(1), g})
						case "execShell":
							execSites = append(execSites, c12site{fn, callee, "", g})
						case "Start", "Run", "Output", "CombinedOutput":
							startSites = append(startSites, c12site{fn, callee, "", g})
						}
					case *ast.Ident:
						switch fun.Name {
						case "openFile":
							openSites = append(openSites, c12site{fn, fun.Name, argStr(1), g})
						case "execShell":
							execSites = append(execSites, c12site{fn, fun.Name, "", g})
						case "newOutCmdStream", "newInCmdStream":
							streamSites = append(streamSites, c12site{fn, fun.Name, argStr(0), g})
						}
					}
				}
				return true
			})
			if hasLabel && body != nil {
				labelled = append(labelled, fn)
			}
		}
		for _, d := range f.Decls {
			switch x := d.(type) {
			case *ast.FuncDecl:
				name := x.Name.Name
				if x.Recv != nil && len(x.Recv.List) == 1 {
					t := x.Recv.List[0].Type
					if st, ok := t.(*ast.StarExpr); ok {
						t = st.X
					}
					name = render(fset, t) + "." + name
				}
				scan(name, x, x.Body)
			default:
				scan("(package level)", d, nil)
			}
		}
	}
	if len(openSites) == 0 {
		return "", fmt.Errorf("no call of the openFile field found in package interp")
	}
	if len(execSites) == 0 {
		return "", fmt.Errorf("no call of execShell found in package interp")
	}

	// transitive repository imports of interp
	const mod = "github.com/benhoyt/goawk/"
	type imp struct{ pkg, path string }
	var imports []imp
	seen := map[string]bool{}
	var walk func(dir string) error
	walk = func(dir string) error {
		if seen[dir] {
			return nil
		}
		seen[dir] = true
		_, fs, err := ParseDir(repo, dir)
		if err != nil {
			return fmt.Errorf("package %s: %v", dir, err)
		}
		set := map[string]bool{}
		for _, n := range SortedNames(fs) {
			for _, im := range fs[n].Imports {
				p, _ := strconv.Unquote(im.Path.Value)
				set[p] = true
			}
		}
		var ps []string
		for p := range set {
			ps = append(ps, p)
		}
		sort.Strings(ps)
		for _, p := range ps {
			imports = append(imports, imp{dir, p})
			if strings.HasPrefix(p, mod) {
				if err := walk(strings.TrimPrefix(p, mod)); err != nil {
					return err
				}
			}
		}
		return nil
	}
	if err := walk("interp"); err != nil {
		return "", err
	}
	sort.Slice(imports, func(i, j int) bool {
		if imports[i].pkg != imports[j].pkg {
			return imports[i].pkg < imports[j].pkg
		}
		return imports[i].path < imports[j].path
	})

	var refs []ref
	for r := range refSet {
		refs = append(refs, r)
	}
	sort.Slice(refs, func(i, j int) bool {
		a, b := refs[i], refs[j]
		if a.pkg != b.pkg {
			return a.pkg < b.pkg
		}
		if a.sel != b.sel {
			return a.sel < b.sel
		}
		if a.fn != b.fn {
			return a.fn < b.fn
		}
		return !a.call && b.call
	})
	sortSites := func(s []c12site) {
		sort.SliceStable(s, func(i, j int) bool {
			if s[i].fn != s[j].fn {
				return s[i].fn < s[j].fn
			}
			return s[i].callee+s[i].arg < s[j].callee+s[j].arg
		})
	}
	sortSites(openSites)
	sortSites(execSites)
	sortSites(startSites)
	sortSites(streamSites)
	sort.Slice(assigns, func(i, j int) bool { return strings.Join(assigns[i][:], "\x00") < strings.Join(assigns[j][:], "\x00") })
	sort.Strings(labelled)

	var sb strings.Builder
	sb.WriteString("From Coq Require Import String List.\nImport ListNotations.\nOpen Scope string_scope.\n\n")
	sb.WriteString("Record pkgref := mkRef { r_func : string; r_pkg : string; r_sel : string; r_call : bool }.\n")
	sb.WriteString("Record site := mkSite { s_func : string; s_callee : string; s_arg : string; s_guards : list string }.\n\n")
	b2s := func(b bool) string {
		if b {
			return "true"
		}
		return "false"
	}
	sb.WriteString("Definition sensitive_refs : list pkgref := [\n")
	for i, r := range refs {
		sep := ";"
		if i == len(refs)-1 {
			sep = ""
		}
		fmt.Fprintf(&sb, "  mkRef %s %s %s %s%s\n", CoqString(r.fn), CoqString(r.pkg), CoqString(r.sel), b2s(r.call), sep)
	}
	sb.WriteString("].\n\n")
	emitSites := func(name string, ss []c12site) {
		fmt.Fprintf(&sb, "Definition %s : list site := [\n", name)
		for i, s := range ss {
			sep := ";"
			if i == len(ss)-1 {
				sep = ""
			}
			sb.WriteString("  " + s.coq() + sep + "\n")
		}
		sb.WriteString("].\n\n")
	}
	emitSites("openfile_sites", openSites)
	emitSites("execshell_sites", execSites)
	emitSites("start_sites", startSites)
	emitSites("cmdstream_sites", streamSites)
	sb.WriteString("Definition field_assigns : list (string * string * string) := [\n")
	for i, a := range assigns {
		sep := ";"
		if i == len(assigns)-1 {
			sep = ""
		}
		fmt.Fprintf(&sb, "  (%s, %s, %s)%s\n", CoqString(a[0]), CoqString(a[1]), CoqString(a[2]), sep)
	}
	sb.WriteString("].\n\n")
	sb.WriteString("Definition repo_imports : list (string * string) := [\n")
	for i, im := range imports {
		sep := ";"
		if i == len(imports)-1 {
			sep = ""
		}
		fmt.Fprintf(&sb, "  (%s, %s)%s\n", CoqString(im.pkg), CoqString(im.path), sep)
	}
	sb.WriteString("].\n\n")
	var ls []string
	for _, l := range labelled {
		ls = append(ls, CoqString(l))
	}
	fmt.Fprintf(&sb, "Definition labelled_funcs : list string := [%s].\n", strings.Join(ls, "; "))
	return sb.String(), nil
}
