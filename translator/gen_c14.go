package main

// Gen/InterpFields.v (property C14): which function of package interp writes which field of
// `struct interp`.
//
// Emitted facts (all syntactic, from go/ast over the non-test, non-verif files of interp/):
//   struct_fields          the fields of struct interp with their Go types, in order
//   fn_<name>              for newInterp, resetCore, resetVars, ResetRand, Execute, ExecuteContext,
//                          setExecuteConfig: the writes made directly in that function, in source order,
//                          each with a kind, the right-hand side text and a `must` flag (= executed on
//                          every path through the function that does not return an error)
//   calls_<name>           the methods of *interp called (or referenced as method values) directly
//   may_setExecuteConfig   fields written by setExecuteConfig or anything it (transitively) calls
//   may_run                fields written by executeAll or anything it (transitively) calls
//   may_setVarByName       fields written by setVarByName (the Vars loop) or anything it calls
//   refs_parseFmtTypes / refs_compileRegex   fields mentioned by the functions that fill formatCache / regexCache
//   writes_elsewhere       every write in every other function (function name, write)
//   other_writers          functions that write a field but are reachable from none of the above
//   nil_tested             fields compared with nil somewhere in the package
//   field_methods          (function, field, method) for every method call made on a field value
//
// A write is: an assignment / op-assignment / ++ / -- whose left side is rooted at p.f (through
// indexing, slicing, dereference or sub-field selection), delete(p.f, k), &p.f..., a write through a
// local alias of p.f[...] (x := p.f[i]; x[k] = v) or through an accessor method that returns p.f[...],
// a keyed field of an &interp{...} literal, and the three loop shapes used by the reset functions.

import (
	"bytes"
	"fmt"
	"go/ast"
	"go/printer"
	"go/token"
	"sort"
	"strings"
)

type c14Write struct {
	Fn, Field, Kind, Rhs string
	Must                 bool
}

type c14Func struct {
	key     string // name, or Recv.name for methods of other receivers than *interp
	decl    *ast.FuncDecl
	interps map[string]bool // identifiers of type *interp
	outer   map[string]bool // identifiers of type *Interpreter (x.interp is the interp)
	writes  []c14Write
	calls   []string // interp methods / functions referenced, in order, deduplicated
	methods [][2]string
	refs    map[string]bool // every field of struct interp mentioned (read or written) in the body
}

type c14State struct {
	fset    *token.FileSet
	fields  map[string]string
	order   []string
	funcs   map[string]*c14Func
	alias   map[string]string // accessor method -> field
	nilTest map[string]bool
}

func c14Text(fset *token.FileSet, n ast.Node) string {
	var b bytes.Buffer
	printer.Fprint(&b, fset, n)
	s := b.String()
	s = strings.Join(strings.Fields(s), " ")
	return s
}

func c14StarName(e ast.Expr) string {
	if st, ok := e.(*ast.StarExpr); ok {
		if id, ok := st.X.(*ast.Ident); ok {
			return id.Name
		}
	}
	return ""
}

// isInterp: does e denote the *interp value?
func (f *c14Func) isInterp(e ast.Expr) bool {
	switch x := e.(type) {
	case *ast.Ident:
		return f.interps[x.Name]
	case *ast.ParenExpr:
		return f.isInterp(x.X)
	case *ast.SelectorExpr:
		if id, ok := x.X.(*ast.Ident); ok && f.outer[id.Name] && x.Sel.Name == "interp" {
			return true
		}
	}
	return false
}

// fieldRef: e is exactly p.<field>
func (st *c14State) fieldRef(f *c14Func, e ast.Expr) (string, bool) {
	if p, ok := e.(*ast.ParenExpr); ok {
		return st.fieldRef(f, p.X)
	}
	sel, ok := e.(*ast.SelectorExpr)
	if !ok || !f.isInterp(sel.X) {
		return "", false
	}
	if _, ok := st.fields[sel.Sel.Name]; ok {
		return sel.Sel.Name, true
	}
	return "", false
}

// root: the field an lvalue-like expression is rooted at, and whether it is the field itself
// ("Whole"), an element/slice/dereference of it ("Elem") or a sub-field ("Sub").
func (st *c14State) root(f *c14Func, e ast.Expr, locals map[string]string) (field, kind string, ok bool) {
	if fld, ok := st.fieldRef(f, e); ok {
		return fld, "Whole", true
	}
	switch x := e.(type) {
	case *ast.ParenExpr:
		return st.root(f, x.X, locals)
	case *ast.IndexExpr:
		if fld, _, ok := st.root(f, x.X, locals); ok {
			return fld, "Elem", true
		}
	case *ast.SliceExpr:
		if fld, _, ok := st.root(f, x.X, locals); ok {
			return fld, "Elem", true
		}
	case *ast.StarExpr:
		if fld, _, ok := st.root(f, x.X, locals); ok {
			return fld, "Elem", true
		}
	case *ast.SelectorExpr:
		if fld, k, ok := st.root(f, x.X, locals); ok {
			if k == "Whole" {
				k = "Sub"
			}
			return fld, k, true
		}
	case *ast.Ident:
		if fld, ok := locals[x.Name]; ok {
			return fld, "Alias", true
		}
	case *ast.CallExpr:
		// accessor method returning p.f[...]
		if sel, ok := x.Fun.(*ast.SelectorExpr); ok && f.isInterp(sel.X) {
			if fld, ok := st.alias[sel.Sel.Name]; ok {
				return fld, "Alias", true
			}
		}
	}
	return "", "", false
}

func c14IsNil(e ast.Expr) bool {
	id, ok := e.(*ast.Ident)
	return ok && id.Name == "nil"
}

func (st *c14State) rangePattern(f *c14Func, rs *ast.RangeStmt) (c14Write, bool) {
	fld, ok := st.fieldRef(f, rs.X)
	if !ok || len(rs.Body.List) != 1 {
		return c14Write{}, false
	}
	keyName := ""
	if id, ok := rs.Key.(*ast.Ident); ok {
		keyName = id.Name
	}
	valName := ""
	if id, ok := rs.Value.(*ast.Ident); ok {
		valName = id.Name
	}
	switch s := rs.Body.List[0].(type) {
	case *ast.ExprStmt:
		// for k := range p.f { delete(p.f, k) }
		if c, ok := s.X.(*ast.CallExpr); ok {
			if id, ok := c.Fun.(*ast.Ident); ok && id.Name == "delete" && len(c.Args) == 2 {
				if f2, ok := st.fieldRef(f, c.Args[0]); ok && f2 == fld {
					if k, ok := c.Args[1].(*ast.Ident); ok && k.Name == keyName && keyName != "_" && keyName != "" {
						return c14Write{Field: fld, Kind: "ClearMap", Rhs: ""}, true
					}
				}
			}
		}
	case *ast.AssignStmt:
		// for i := range p.f { p.f[i] = e }
		if len(s.Lhs) == 1 && len(s.Rhs) == 1 && s.Tok == token.ASSIGN {
			if ix, ok := s.Lhs[0].(*ast.IndexExpr); ok {
				if f2, ok := st.fieldRef(f, ix.X); ok && f2 == fld {
					if k, ok := ix.Index.(*ast.Ident); ok && k.Name == keyName && keyName != "_" && keyName != "" {
						return c14Write{Field: fld, Kind: "FillElems", Rhs: c14Text(st.fset, s.Rhs[0])}, true
					}
				}
			}
		}
	case *ast.RangeStmt:
		// for _, m := range p.f { for k := range m { delete(m, k) } }
		if id, ok := s.X.(*ast.Ident); ok && id.Name == valName && valName != "" && valName != "_" && len(s.Body.List) == 1 {
			if es, ok := s.Body.List[0].(*ast.ExprStmt); ok {
				if c, ok := es.X.(*ast.CallExpr); ok {
					if fn, ok := c.Fun.(*ast.Ident); ok && fn.Name == "delete" && len(c.Args) == 2 {
						a0, ok0 := c.Args[0].(*ast.Ident)
						a1, ok1 := c.Args[1].(*ast.Ident)
						k2, ok2 := s.Key.(*ast.Ident)
						if ok0 && ok1 && ok2 && a0.Name == valName && a1.Name == k2.Name {
							return c14Write{Field: fld, Kind: "ClearElemMaps", Rhs: ""}, true
						}
					}
				}
			}
		}
	}
	return c14Write{}, false
}

// collect walks the body of f recording writes, calls, method calls on fields and nil tests.
func (st *c14State) collect(f *c14Func, interpMethods map[string]bool) {
	locals := map[string]string{}
	seenCall := map[string]bool{}
	add := func(w c14Write) {
		w.Fn = f.key
		f.writes = append(f.writes, w)
	}
	var visit func(n ast.Node) bool
	visit = func(n ast.Node) bool {
		switch x := n.(type) {
		case *ast.FuncLit:
			return true // closures run as part of the enclosing function
		case *ast.RangeStmt:
			if w, ok := st.rangePattern(f, x); ok {
				add(w)
				return false
			}
		case *ast.AssignStmt:
			for i, lhs := range x.Lhs {
				// local alias x := p.f[...]  /  x := p.accessor(...)
				if id, ok := lhs.(*ast.Ident); ok && len(x.Rhs) == len(x.Lhs) {
					if fld, k, ok := st.root(f, x.Rhs[i], locals); ok && (k == "Elem" || k == "Alias") {
						if t := st.fields[fld]; strings.HasPrefix(t, "[]") || strings.HasPrefix(t, "map[") {
							locals[id.Name] = fld
						}
					}
					continue
				}
				fld, kind, ok := st.root(f, lhs, locals)
				if !ok {
					continue
				}
				rhs := ""
				if len(x.Rhs) == len(x.Lhs) {
					rhs = c14Text(st.fset, x.Rhs[i])
				} else if len(x.Rhs) == 1 {
					rhs = fmt.Sprintf("%s #%d", c14Text(st.fset, x.Rhs[0]), i)
				}
				if x.Tok != token.ASSIGN {
					rhs = x.Tok.String() + " " + rhs
				}
				if kind == "Alias" {
					continue // plain rebinding of a local alias is not a write
				}
				add(c14Write{Field: fld, Kind: kind, Rhs: rhs})
			}
			// element writes through aliases: a[k] = v
			for _, lhs := range x.Lhs {
				if ix, ok := lhs.(*ast.IndexExpr); ok {
					if id, ok := ix.X.(*ast.Ident); ok {
						if fld, ok := locals[id.Name]; ok {
							add(c14Write{Field: fld, Kind: "Elem", Rhs: "via alias " + id.Name})
						}
					}
				}
			}
		case *ast.IncDecStmt:
			if fld, kind, ok := st.root(f, x.X, locals); ok && kind != "Alias" {
				add(c14Write{Field: fld, Kind: kind, Rhs: x.Tok.String()})
			}
		case *ast.UnaryExpr:
			if x.Op == token.AND {
				if cl, ok := x.X.(*ast.CompositeLit); ok {
					if id, ok := cl.Type.(*ast.Ident); ok && id.Name == "interp" {
						for _, el := range cl.Elts {
							if kv, ok := el.(*ast.KeyValueExpr); ok {
								if k, ok := kv.Key.(*ast.Ident); ok {
									if _, ok := st.fields[k.Name]; ok {
										add(c14Write{Field: k.Name, Kind: "Whole", Rhs: c14Text(st.fset, kv.Value)})
									}
								}
							}
						}
					}
				} else if fld, kind, ok := st.root(f, x.X, locals); ok && kind != "Alias" {
					add(c14Write{Field: fld, Kind: "Addr", Rhs: ""})
				}
			}
		case *ast.BinaryExpr:
			if x.Op == token.EQL || x.Op == token.NEQ {
				for _, pr := range [][2]ast.Expr{{x.X, x.Y}, {x.Y, x.X}} {
					if c14IsNil(pr[1]) {
						if fld, ok := st.fieldRef(f, pr[0]); ok {
							st.nilTest[fld] = true
						}
					}
				}
			}
		case *ast.CallExpr:
			if id, ok := x.Fun.(*ast.Ident); ok && id.Name == "delete" && len(x.Args) == 2 {
				if fld, _, ok := st.root(f, x.Args[0], locals); ok {
					add(c14Write{Field: fld, Kind: "Delete", Rhs: ""})
				}
			}
			if sel, ok := x.Fun.(*ast.SelectorExpr); ok {
				if fld, ok := st.fieldRef(f, sel.X); ok {
					f.methods = append(f.methods, [2]string{fld, sel.Sel.Name})
				}
			}
			if id, ok := x.Fun.(*ast.Ident); ok {
				if _, ok := st.funcs[id.Name]; ok && !seenCall[id.Name] {
					seenCall[id.Name] = true
					f.calls = append(f.calls, id.Name)
				}
			}
		case *ast.SelectorExpr:
			if fld, ok := st.fieldRef(f, x); ok {
				if f.refs == nil {
					f.refs = map[string]bool{}
				}
				f.refs[fld] = true
			}
			// p.method (called or taken as a method value)
			if f.isInterp(x.X) && interpMethods[x.Sel.Name] && !seenCall[x.Sel.Name] {
				seenCall[x.Sel.Name] = true
				f.calls = append(f.calls, x.Sel.Name)
			}
		}
		return true
	}
	ast.Inspect(f.decl.Body, visit)
}

const c14All = "\x00ALL"

func c14Inter(a, b map[string]bool) map[string]bool {
	if a[c14All] {
		return b
	}
	if b[c14All] {
		return a
	}
	r := map[string]bool{}
	for k := range a {
		if b[k] {
			r[k] = true
		}
	}
	return r
}

// must: fields certainly written (whole value, or one of the loop shapes) by a statement list on
// every path that does not end in a `return` inside it. A list that always returns yields ALL.
func (st *c14State) must(f *c14Func, list []ast.Stmt) map[string]bool {
	res := map[string]bool{}
	for _, s := range list {
		switch x := s.(type) {
		case *ast.ReturnStmt:
			res[c14All] = true
			return res
		case *ast.AssignStmt:
			for _, lhs := range x.Lhs {
				if fld, ok := st.fieldRef(f, lhs); ok && x.Tok == token.ASSIGN {
					res[fld] = true
				}
			}
		case *ast.RangeStmt:
			if w, ok := st.rangePattern(f, x); ok {
				res[w.Field] = true
			}
		case *ast.BlockStmt:
			for k := range st.must(f, x.List) {
				res[k] = true
			}
		case *ast.IfStmt:
			a := st.must(f, x.Body.List)
			var b map[string]bool
			switch e := x.Else.(type) {
			case nil:
				b = map[string]bool{}
			case *ast.BlockStmt:
				b = st.must(f, e.List)
			case *ast.IfStmt:
				b = st.must(f, []ast.Stmt{e})
			}
			for k := range c14Inter(a, b) {
				res[k] = true
			}
		case *ast.SwitchStmt:
			hasDefault := false
			var acc map[string]bool
			for _, c := range x.Body.List {
				cc := c.(*ast.CaseClause)
				if cc.List == nil {
					hasDefault = true
				}
				m := st.must(f, cc.Body)
				if acc == nil {
					acc = m
				} else {
					acc = c14Inter(acc, m)
				}
			}
			if hasDefault && acc != nil {
				for k := range acc {
					res[k] = true
				}
			}
		}
		if res[c14All] {
			return res
		}
	}
	return res
}

// earlySuccess: a `return` whose last result is the identifier nil anywhere but as the final
// statement of the function (a success path that could skip later assignments).
func c14EarlySuccess(fd *ast.FuncDecl) bool {
	found := false
	n := len(fd.Body.List)
	ast.Inspect(fd.Body, func(nd ast.Node) bool {
		if r, ok := nd.(*ast.ReturnStmt); ok && len(r.Results) > 0 {
			if c14IsNil(r.Results[len(r.Results)-1]) {
				if n == 0 || fd.Body.List[n-1] != ast.Stmt(r) {
					found = true
				}
			}
		}
		return true
	})
	return found
}

func init() {
	register(Gen{File: "InterpFields.v", Run: func(repo string) (string, error) {
		fset, files, err := ParseDir(repo, "interp")
		if err != nil {
			return "", err
		}
		st := &c14State{fset: fset, fields: map[string]string{}, funcs: map[string]*c14Func{}, alias: map[string]string{}, nilTest: map[string]bool{}}
		interpMethods := map[string]bool{}
		// struct interp
		for _, n := range SortedNames(files) {
			for _, d := range files[n].Decls {
				gd, ok := d.(*ast.GenDecl)
				if !ok || gd.Tok != token.TYPE {
					continue
				}
				for _, s := range gd.Specs {
					ts := s.(*ast.TypeSpec)
					if ts.Name.Name != "interp" {
						continue
					}
					stt, ok := ts.Type.(*ast.StructType)
					if !ok {
						return "", fmt.Errorf("type interp is not a struct")
					}
					for _, fl := range stt.Fields.List {
						if len(fl.Names) == 0 {
							return "", fmt.Errorf("struct interp has an embedded field (%s): not supported by the C14 table", c14Text(fset, fl.Type))
						}
						for _, nm := range fl.Names {
							st.fields[nm.Name] = c14Text(fset, fl.Type)
							st.order = append(st.order, nm.Name)
						}
					}
				}
			}
		}
		if len(st.order) == 0 {
			return "", fmt.Errorf("struct interp not found in package interp")
		}
		// functions
		var keys []string
		for _, n := range SortedNames(files) {
			for _, d := range files[n].Decls {
				fd, ok := d.(*ast.FuncDecl)
				if !ok || fd.Body == nil {
					continue
				}
				f := &c14Func{decl: fd, interps: map[string]bool{}, outer: map[string]bool{}}
				f.key = fd.Name.Name
				if fd.Recv != nil && len(fd.Recv.List) == 1 {
					rt := c14StarName(fd.Recv.List[0].Type)
					if rt == "" {
						if id, ok := fd.Recv.List[0].Type.(*ast.Ident); ok {
							rt = id.Name
						}
					}
					for _, nm := range fd.Recv.List[0].Names {
						switch rt {
						case "interp":
							f.interps[nm.Name] = true
						case "Interpreter":
							f.outer[nm.Name] = true
						}
					}
					switch rt {
					case "interp":
						interpMethods[fd.Name.Name] = true
					case "Interpreter":
					default:
						f.key = rt + "." + fd.Name.Name
					}
				}
				for _, prm := range fd.Type.Params.List {
					for _, nm := range prm.Names {
						switch c14StarName(prm.Type) {
						case "interp":
							f.interps[nm.Name] = true
						case "Interpreter":
							f.outer[nm.Name] = true
						}
					}
				}
				// locals: p := &interp{...} / p := newInterp(...)
				ast.Inspect(fd.Body, func(nd ast.Node) bool {
					as, ok := nd.(*ast.AssignStmt)
					if !ok || as.Tok != token.DEFINE || len(as.Lhs) != len(as.Rhs) {
						return true
					}
					for i, r := range as.Rhs {
						id, ok := as.Lhs[i].(*ast.Ident)
						if !ok {
							continue
						}
						if u, ok := r.(*ast.UnaryExpr); ok && u.Op == token.AND {
							if cl, ok := u.X.(*ast.CompositeLit); ok {
								if t, ok := cl.Type.(*ast.Ident); ok && t.Name == "interp" {
									f.interps[id.Name] = true
								}
							}
						}
						if c, ok := r.(*ast.CallExpr); ok {
							if fn, ok := c.Fun.(*ast.Ident); ok && fn.Name == "newInterp" {
								f.interps[id.Name] = true
							}
						}
					}
					return true
				})
				if _, dup := st.funcs[f.key]; dup {
					return "", fmt.Errorf("two functions named %s in package interp", f.key)
				}
				st.funcs[f.key] = f
				keys = append(keys, f.key)
			}
		}
		sort.Strings(keys)
		// accessor methods: every return is p.f[...]
		for _, k := range keys {
			f := st.funcs[k]
			if !interpMethods[k] {
				continue
			}
			fld, all, any := "", true, false
			ast.Inspect(f.decl.Body, func(nd ast.Node) bool {
				if r, ok := nd.(*ast.ReturnStmt); ok {
					if len(r.Results) != 1 {
						all = false
						return true
					}
					f2, kind, ok := st.root(f, r.Results[0], map[string]string{})
					if !ok || kind != "Elem" || (any && f2 != fld) {
						all = false
					} else {
						fld, any = f2, true
					}
				}
				return true
			})
			if all && any {
				st.alias[k] = fld
			}
		}
		for _, k := range keys {
			st.collect(st.funcs[k], interpMethods)
		}
		named := []string{"newInterp", "resetCore", "resetVars", "ResetRand", "Execute", "ExecuteContext", "setExecuteConfig"}
		isNamed := map[string]bool{}
		for _, n := range named {
			if st.funcs[n] == nil {
				return "", fmt.Errorf("function %s not found in package interp", n)
			}
			isNamed[n] = true
		}
		if st.funcs["executeAll"] == nil {
			return "", fmt.Errorf("function executeAll not found in package interp")
		}
		for _, n := range []string{"setExecuteConfig", "Execute", "ExecuteContext"} {
			if c14EarlySuccess(st.funcs[n].decl) && n == "setExecuteConfig" {
				return "", fmt.Errorf("%s has a `return nil` before its last statement: the must-assign analysis does not cover it", n)
			}
		}
		// must flags
		for _, n := range named {
			f := st.funcs[n]
			m := st.must(f, f.decl.Body.List)
			for i := range f.writes {
				w := &f.writes[i]
				if m[w.Field] && (w.Kind == "Whole" || w.Kind == "ClearMap" || w.Kind == "FillElems" || w.Kind == "ClearElemMaps") {
					w.Must = true
				}
			}
			if n == "newInterp" { // straight-line constructor: keyed literal fields are musts too
				for i := range f.writes {
					if f.writes[i].Kind == "Whole" {
						f.writes[i].Must = true
					}
				}
			}
		}
		// transitive closure of written fields
		closure := func(start string) ([]string, map[string]bool) {
			seen := map[string]bool{}
			flds := map[string]bool{}
			var go1 func(k string)
			go1 = func(k string) {
				if seen[k] || st.funcs[k] == nil {
					return
				}
				seen[k] = true
				for _, w := range st.funcs[k].writes {
					flds[w.Field] = true
				}
				for _, m := range st.funcs[k].methods {
					flds["#"+m[0]+"."+m[1]] = true
				}
				for _, c := range st.funcs[k].calls {
					go1(c)
				}
			}
			go1(start)
			var out []string
			for _, fl := range st.order {
				if flds[fl] {
					out = append(out, fl)
				}
			}
			return out, seen
		}
		maySet, reachSet := closure("setExecuteConfig")
		mayRun, reachRun := closure("executeAll")
		if st.funcs["setVarByName"] == nil {
			return "", fmt.Errorf("function setVarByName not found in package interp")
		}
		mayVars, _ := closure("setVarByName")
		// fields mentioned by the functions that FILL the per-Interpreter caches (and what they call)
		refsClosure := func(start string) ([]string, error) {
			if st.funcs[start] == nil {
				return nil, fmt.Errorf("function %s (cache filler) not found in package interp", start)
			}
			seen := map[string]bool{}
			flds := map[string]bool{}
			var go1 func(k string)
			go1 = func(k string) {
				if seen[k] || st.funcs[k] == nil {
					return
				}
				seen[k] = true
				for fl := range st.funcs[k].refs {
					flds[fl] = true
				}
				for _, c := range st.funcs[k].calls {
					go1(c)
				}
			}
			go1(start)
			var out []string
			for _, fl := range st.order {
				if flds[fl] {
					out = append(out, fl)
				}
			}
			return out, nil
		}
		refsFmt, err := refsClosure("parseFmtTypes")
		if err != nil {
			return "", err
		}
		refsRegex, err := refsClosure("compileRegex")
		if err != nil {
			return "", err
		}

		var sb strings.Builder
		sb.WriteString("From Coq Require Import String List.\nImport ListNotations.\nOpen Scope string_scope.\n\n")
		sb.WriteString("Inductive wkind := Whole | Elem | Sub | Addr | Delete | ClearMap | FillElems | ClearElemMaps.\n")
		sb.WriteString("Record write := mkW { w_field : string; w_kind : wkind; w_rhs : string; w_must : bool }.\n\n")
		sb.WriteString("Definition struct_fields : list (string * string) := [\n")
		for i, fl := range st.order {
			sep := ";"
			if i == len(st.order)-1 {
				sep = ""
			}
			fmt.Fprintf(&sb, "  (%s, %s)%s\n", CoqString(fl), CoqString(st.fields[fl]), sep)
		}
		sb.WriteString("].\n\n")
		wr := func(w c14Write) string {
			b := "false"
			if w.Must {
				b = "true"
			}
			return fmt.Sprintf("mkW %s %s %s %s", CoqString(w.Field), w.Kind, CoqString(w.Rhs), b)
		}
		strList := func(xs []string) string {
			var q []string
			for _, x := range xs {
				q = append(q, CoqString(x))
			}
			return "[" + strings.Join(q, "; ") + "]"
		}
		for _, n := range named {
			f := st.funcs[n]
			fmt.Fprintf(&sb, "Definition fn_%s : list write := [\n", n)
			for i, w := range f.writes {
				sep := ";"
				if i == len(f.writes)-1 {
					sep = ""
				}
				fmt.Fprintf(&sb, "  %s%s\n", wr(w), sep)
			}
			sb.WriteString("].\n")
			fmt.Fprintf(&sb, "Definition calls_%s : list string := %s.\n", n, strList(f.calls))
			var ms []string
			for _, m := range f.methods {
				ms = append(ms, fmt.Sprintf("(%s, %s)", CoqString(m[0]), CoqString(m[1])))
			}
			fmt.Fprintf(&sb, "Definition methods_%s : list (string * string) := [%s].\n\n", n, strings.Join(ms, "; "))
		}
		fmt.Fprintf(&sb, "Definition may_setExecuteConfig : list string := %s.\n", strList(maySet))
		fmt.Fprintf(&sb, "Definition may_run : list string := %s.\n", strList(mayRun))
		fmt.Fprintf(&sb, "Definition may_setVarByName : list string := %s.\n", strList(mayVars))
		fmt.Fprintf(&sb, "(* fields mentioned (read or written) by the cache fillers and everything they call *)\n")
		fmt.Fprintf(&sb, "Definition refs_parseFmtTypes : list string := %s.\n", strList(refsFmt))
		fmt.Fprintf(&sb, "Definition refs_compileRegex : list string := %s.\n\n", strList(refsRegex))
		sb.WriteString("Definition writes_elsewhere : list (string * write) := [\n")
		var rows []string
		var others []string
		for _, k := range keys {
			if isNamed[k] {
				continue
			}
			f := st.funcs[k]
			for _, w := range f.writes {
				rows = append(rows, fmt.Sprintf("  (%s, %s)", CoqString(k), wr(w)))
			}
			if (len(f.writes) > 0 || len(f.methods) > 0) && !reachSet[k] && !reachRun[k] {
				others = append(others, k)
			}
		}
		sb.WriteString(strings.Join(rows, ";\n"))
		sb.WriteString("\n].\n\n")
		fmt.Fprintf(&sb, "Definition other_writers : list string := %s.\n", strList(others))
		var nt []string
		for _, fl := range st.order {
			if st.nilTest[fl] {
				nt = append(nt, fl)
			}
		}
		fmt.Fprintf(&sb, "Definition nil_tested : list string := %s.\n", strList(nt))
		var fm []string
		for _, k := range keys {
			if isNamed[k] {
				continue
			}
			seen := map[string]bool{}
			for _, m := range st.funcs[k].methods {
				key := m[0] + "." + m[1]
				if seen[key] {
					continue
				}
				seen[key] = true
				fm = append(fm, fmt.Sprintf("  (%s, %s, %s)", CoqString(k), CoqString(m[0]), CoqString(m[1])))
			}
		}
		sb.WriteString("Definition field_methods : list (string * string * string) := [\n" + strings.Join(fm, ";\n") + "\n].\n")
		var rr []string
		for _, k := range keys {
			if reachRun[k] {
				rr = append(rr, k)
			}
		}
		fmt.Fprintf(&sb, "Definition run_functions : list string := %s.\n", strList(rr))
		var rs []string
		for _, k := range keys {
			if reachSet[k] {
				rs = append(rs, k)
			}
		}
		fmt.Fprintf(&sb, "Definition setExecuteConfig_functions : list string := %s.\n", strList(rs))
		return sb.String(), nil
	}})
}
