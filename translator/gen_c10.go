package main

import (
	"bytes"
	"fmt"
	"go/ast"
	"go/printer"
	"go/token"
	"strings"
)

// Gen/RegexSites.v (property C10): every call regexp.Compile* / regexp.MustCompile* in the
// packages interp, internal/compiler and parser, with, per site:
//   - the enclosing function, the argument text and what the result is bound to
//     (local variable, field, discarded, package variable);
//   - whether .Longest() is called on the result in the statements that follow;
//   - path-sensitively: every use of the result (return, store, alias, method call, argument)
//     that can be reached from the compile statement on a path on which .Longest() has not
//     yet been called (walk of the statement list after the compile; an `if` without else
//     does not establish Longest for the code after it; a return inside an `if` ends that path);
//   - whether control can fall out of the enclosing block without Longest() having been called.
// The theorem over this table (Proofs/BuiltinsSites.v, longest_everywhere) says that every site
// whose regex is used for matching is longest on all paths.
func init() {
	register(Gen{File: "RegexSites.v", Run: genRegexSites})
}

type reSite struct {
	pkg, file, fn, call, arg string
	line                    int
	tkind, tname            string // local / field / discard / pkgvar / other
	longest                 bool
	early                   []string
	fall                    bool
}

func nodeText(fset *token.FileSet, n ast.Node) string {
	var b bytes.Buffer
	printer.Fprint(&b, fset, n)
	return strings.Join(strings.Fields(b.String()), " ")
}

// isCompileCall: regexp.Compile, regexp.MustCompile, regexp.CompilePOSIX, regexp.MustCompilePOSIX
func isCompileCall(e ast.Expr) (string, *ast.CallExpr) {
	c, ok := e.(*ast.CallExpr)
	if !ok {
		return "", nil
	}
	sel, ok := c.Fun.(*ast.SelectorExpr)
	if !ok {
		return "", nil
	}
	x, ok := sel.X.(*ast.Ident)
	if !ok || x.Name != "regexp" {
		return "", nil
	}
	if strings.HasPrefix(sel.Sel.Name, "Compile") || strings.HasPrefix(sel.Sel.Name, "MustCompile") {
		return sel.Sel.Name, c
	}
	return "", nil
}

type reWalker struct {
	fset  *token.FileSet
	tkind string
	tname string
	early []string
	any   bool // a Longest() call on the target occurs somewhere in the continuation
}

// isTarget: e denotes the compiled regex
func (w *reWalker) isTarget(e ast.Expr) bool {
	switch w.tkind {
	case "local":
		id, ok := e.(*ast.Ident)
		return ok && id.Name == w.tname
	case "field":
		if _, ok := e.(*ast.SelectorExpr); ok {
			return nodeText(w.fset, e) == w.tname
		}
	}
	return false
}

func (w *reWalker) isLongestCall(e ast.Expr) bool {
	c, ok := e.(*ast.CallExpr)
	if !ok || len(c.Args) != 0 {
		return false
	}
	sel, ok := c.Fun.(*ast.SelectorExpr)
	return ok && sel.Sel.Name == "Longest" && w.isTarget(sel.X)
}

func (w *reWalker) mentions(n ast.Node) bool {
	if n == nil {
		return false
	}
	found := false
	ast.Inspect(n, func(x ast.Node) bool {
		if e, ok := x.(ast.Expr); ok && w.isTarget(e) {
			found = true
		}
		return !found
	})
	return found
}

func (w *reWalker) use(kind string, n ast.Node, called bool) {
	if n == nil || called {
		return
	}
	if w.mentions(n) {
		w.early = append(w.early, fmt.Sprintf("%s at line %d: %s", kind, w.fset.Position(n.Pos()).Line, nodeText(w.fset, n)))
	}
}

// list walks statements in order; returns (Longest() called on the fall-through path, no fall-through)
func (w *reWalker) list(stmts []ast.Stmt, called bool) (bool, bool) {
	for _, s := range stmts {
		var term bool
		called, term = w.stmt(s, called)
		if term {
			return called, true
		}
	}
	return called, false
}

func (w *reWalker) stmt(s ast.Stmt, called bool) (bool, bool) {
	switch s := s.(type) {
	case nil:
		return called, false
	case *ast.ExprStmt:
		if w.isLongestCall(s.X) {
			w.any = true
			return true, false
		}
		w.use("use", s, called)
		if c, ok := s.X.(*ast.CallExpr); ok {
			if id, ok := c.Fun.(*ast.Ident); ok && id.Name == "panic" {
				return called, true
			}
		}
		return called, false
	case *ast.AssignStmt:
		for _, r := range s.Rhs {
			w.use("store/alias", r, called)
		}
		for _, l := range s.Lhs {
			if !w.isTarget(l) {
				w.use("use", l, called)
			}
		}
		return called, false
	case *ast.ReturnStmt:
		w.use("return", s, called)
		return called, true
	case *ast.BranchStmt:
		return called, true // break/continue/goto: leaves this statement list
	case *ast.BlockStmt:
		return w.list(s.List, called)
	case *ast.LabeledStmt:
		return w.stmt(s.Stmt, called)
	case *ast.IfStmt:
		called, _ = w.stmt(s.Init, called)
		w.use("use", s.Cond, called)
		cb, tb := w.list(s.Body.List, called)
		ce, te := called, false
		if s.Else != nil {
			ce, te = w.stmt(s.Else, called)
		}
		switch {
		case tb && te:
			return true, true
		case tb:
			return ce, false
		case te:
			return cb, false
		}
		return cb && ce, false
	case *ast.ForStmt:
		called, _ = w.stmt(s.Init, called)
		w.use("use", s.Cond, called)
		w.list(s.Body.List, called)
		w.stmt(s.Post, called)
		return called, false // the body may run zero times
	case *ast.RangeStmt:
		w.use("use", s.X, called)
		w.list(s.Body.List, called)
		return called, false
	case *ast.SwitchStmt:
		called, _ = w.stmt(s.Init, called)
		w.use("use", s.Tag, called)
		return w.clauses(s.Body.List, called)
	case *ast.TypeSwitchStmt:
		called, _ = w.stmt(s.Init, called)
		w.use("use", s.Assign, called)
		return w.clauses(s.Body.List, called)
	case *ast.SelectStmt:
		return w.clauses(s.Body.List, called)
	default:
		// declarations, go, defer, inc/dec, send, ...: any mention counts as a use
		w.use("use", s, called)
		return called, false
	}
}

func (w *reWalker) clauses(cl []ast.Stmt, called bool) (bool, bool) {
	hasDefault := false
	allCalled, allTerm := true, true
	for _, c := range cl {
		var body []ast.Stmt
		switch c := c.(type) {
		case *ast.CaseClause:
			if c.List == nil {
				hasDefault = true
			}
			for _, e := range c.List {
				w.use("use", e, called)
			}
			body = c.Body
		case *ast.CommClause:
			if c.Comm == nil {
				hasDefault = true
			}
			w.stmt(c.Comm, called)
			body = c.Body
		}
		cc, tc := w.list(body, called)
		if !tc {
			allTerm = false
			if !cc {
				allCalled = false
			}
		}
	}
	if !hasDefault {
		return called, false
	}
	if allTerm {
		return true, true
	}
	return allCalled, false
}

func genRegexSites(repo string) (string, error) {
	var sites []reSite
	for _, pkg := range []string{"interp", "internal/compiler", "parser"} {
		fset, files, err := ParseDir(repo, pkg)
		if err != nil {
			return "", err
		}
		for _, fname := range SortedNames(files) {
			f := files[fname]
			total := 0
			ast.Inspect(f, func(n ast.Node) bool {
				if e, ok := n.(ast.Expr); ok {
					if name, _ := isCompileCall(e); name != "" {
						total++
					}
				}
				return true
			})
			found := 0
			mk := func(fn, call string, c *ast.CallExpr) reSite {
				arg := ""
				if len(c.Args) > 0 {
					arg = nodeText(fset, c.Args[0])
				}
				return reSite{pkg: pkg, file: fname, fn: fn, call: call, arg: arg, line: fset.Position(c.Pos()).Line}
			}
			// analyse: the compile statement is stmts[i]; the continuation is stmts[i+1:]
			analyse := func(fn string, stmts []ast.Stmt, i int) {
				var call string
				var c *ast.CallExpr
				var lhs ast.Expr
				define := false
				switch s := stmts[i].(type) {
				case *ast.AssignStmt:
					if len(s.Rhs) == 1 {
						if call, c = isCompileCall(s.Rhs[0]); c != nil {
							lhs = s.Lhs[0]
							define = s.Tok == token.DEFINE
						}
					}
				case *ast.ExprStmt:
					call, c = isCompileCall(s.X)
				}
				if c == nil {
					return
				}
				found++
				st := mk(fn, call, c)
				switch l := lhs.(type) {
				case nil:
					st.tkind, st.tname = "discard", "(expression statement)"
				case *ast.Ident:
					switch {
					case l.Name == "_":
						st.tkind, st.tname = "discard", "_"
					case define:
						st.tkind, st.tname = "local", l.Name
					default:
						st.tkind, st.tname = "other", "assigned with = to the outer variable "+l.Name
					}
				case *ast.SelectorExpr:
					st.tkind, st.tname = "field", nodeText(fset, l)
				default:
					st.tkind, st.tname = "other", nodeText(fset, l)
				}
				w := &reWalker{fset: fset, tkind: st.tkind, tname: st.tname}
				called, term := w.list(stmts[i+1:], false)
				st.longest, st.early, st.fall = w.any, w.early, term || called
				sites = append(sites, st)
			}
			var visit func(fn string, stmts []ast.Stmt)
			visitStmt := func(fn string, s ast.Stmt) {
				ast.Inspect(s, func(n ast.Node) bool {
					switch b := n.(type) {
					case *ast.BlockStmt:
						visit(fn, b.List)
						return false
					case *ast.CaseClause:
						visit(fn, b.Body)
						return false
					case *ast.CommClause:
						visit(fn, b.Body)
						return false
					}
					return true
				})
			}
			visit = func(fn string, stmts []ast.Stmt) {
				for i, s := range stmts {
					analyse(fn, stmts, i)
					visitStmt(fn, s)
				}
			}
			for _, d := range f.Decls {
				switch d := d.(type) {
				case *ast.FuncDecl:
					if d.Body != nil {
						visit(d.Name.Name, d.Body.List)
					}
				case *ast.GenDecl:
					if d.Tok != token.VAR {
						continue
					}
					for _, sp := range d.Specs {
						vs := sp.(*ast.ValueSpec)
						for i, v := range vs.Values {
							if call, c := isCompileCall(v); c != nil && i < len(vs.Names) {
								found++
								st := mk("(package variable)", call, c)
								st.tkind, st.tname = "pkgvar", vs.Names[i].Name
								st.fall = false
								sites = append(sites, st)
							}
						}
					}
				}
			}
			if found != total {
				return "", fmt.Errorf("%s/%s: %d regexp.Compile*/MustCompile* calls, only %d are statements of the form `x := regexp.Compile(..)` / `x.f = ..` / `_, err := ..` / package variable: a compile call in an unsupported position", pkg, fname, total, found)
			}
		}
	}
	if len(sites) == 0 {
		return "", fmt.Errorf("no regexp.Compile call found in interp, internal/compiler, parser")
	}
	var sb strings.Builder
	sb.WriteString(`From Coq Require Import String List ZArith.
Import ListNotations.
Open Scope string_scope.

Inductive re_target : Type :=
| TLocal (name : string)      (* x, err := regexp.Compile(..) *)
| TField (expr : string)      (* p.f = regexp.MustCompile(..) *)
| TDiscard                    (* _, err := regexp.Compile(..): the compiled regex is thrown away *)
| TPkgVar (name : string)     (* package-level var *)
| TOther (descr : string).

Record re_site : Type := mkReSite {
  rs_pkg : string;
  rs_file : string;
  rs_func : string;             (* enclosing function *)
  rs_call : string;             (* Compile | MustCompile | ...POSIX *)
  rs_arg : string;              (* source text of the argument *)
  rs_target : re_target;
  rs_longest : bool;            (* .Longest() is called on the target in the statements that follow *)
  rs_early_uses : list string;  (* uses of the target reachable before .Longest() has been called *)
  rs_fall_longest : bool        (* control cannot leave the enclosing block without .Longest() called *)
}.

Definition regex_sites : list re_site := [
`)
	for i, s := range sites {
		var t string
		switch s.tkind {
		case "local":
			t = "TLocal " + CoqString(s.tname)
		case "field":
			t = "TField " + CoqString(s.tname)
		case "discard":
			t = "TDiscard"
		case "pkgvar":
			t = "TPkgVar " + CoqString(s.tname)
		default:
			t = "TOther " + CoqString(s.tname)
		}
		var ev []string
		for _, e := range s.early {
			ev = append(ev, CoqString(e))
		}
		b := func(x bool) string {
			if x {
				return "true"
			}
			return "false"
		}
		fmt.Fprintf(&sb, "  (* %s/%s:%d *)\n  mkReSite %s %s %s %s %s\n    (%s) %s [%s] %s", s.pkg, s.file, s.line,
			CoqString(s.pkg), CoqString(s.file), CoqString(s.fn), CoqString(s.call), CoqString(s.arg),
			t, b(s.longest), strings.Join(ev, "; "), b(s.fall))
		if i < len(sites)-1 {
			sb.WriteString(";")
		}
		sb.WriteString("\n")
	}
	sb.WriteString("].\n")
	return sb.String(), nil
}
