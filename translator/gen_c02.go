package main

import (
	"bytes"
	"fmt"
	"go/ast"
	"go/printer"
	"go/token"
	"strings"
)

// Gen/Panics.v (property C02): every syntactic site in the packages that parse, resolve, compile
// and run a program where Go code can raise a panic on its own initiative or handles one:
//   panic(...) calls, regexp.MustCompile(...) calls, type assertions without comma-ok,
//   recover() calls, and explicit constant / len(x)-1 indexes.
// Each site carries its package, file, enclosing function, kind, the ordinal of that kind inside
// the function (the stable key is package+function+kind+ordinal: line numbers are not part of
// it) and a syntactic description of the argument. Also: the number of special variables
// (ast.V_LAST), which bounds the operand of the *Special opcodes.
func init() {
	register(Gen{File: "Panics.v", Run: genPanics})
}

var c02Packages = []string{"lexer", "internal/ast", "parser", "internal/resolver", "internal/compiler", "interp", "."}

type c02Site struct {
	pkg, file, fn, kind string
	ord                 int
	arg, text           string
}

func c02Src(fset *token.FileSet, n ast.Node) string {
	var b bytes.Buffer
	printer.Fprint(&b, fset, n)
	s := strings.Join(strings.Fields(b.String()), " ")
	if len(s) > 70 {
		s = s[:70]
	}
	return s
}

func genPanics(repo string) (string, error) {
	var sites []c02Site
	for _, pkg := range c02Packages {
		fset, files, err := ParseDir(repo, pkg)
		if err != nil {
			return "", err
		}
		for _, name := range SortedNames(files) {
			f := files[name]
			for _, d := range f.Decls {
				if gd, ok := d.(*ast.GenDecl); ok && gd.Tok == token.VAR {
					for _, sp := range gd.Specs {
						for _, v := range sp.(*ast.ValueSpec).Values {
							blk := &ast.BlockStmt{List: []ast.Stmt{&ast.ExprStmt{X: v}}}
							sites = append(sites, c02FuncSites(fset, pkg, name, "<package-level var>", blk)...)
						}
					}
					continue
				}
				fd, ok := d.(*ast.FuncDecl)
				if !ok || fd.Body == nil {
					continue
				}
				fn := fd.Name.Name
				if fd.Recv != nil && len(fd.Recv.List) > 0 {
					fn = c02Src(fset, fd.Recv.List[0].Type) + "." + fn
				}
				sites = append(sites, c02FuncSites(fset, pkg, name, fn, fd.Body)...)
			}
		}
	}
	kinds := map[string]int{}
	for _, s := range sites {
		kinds[s.kind]++
	}
	for _, k := range []string{"panic", "mustcompile", "assert", "recover"} {
		if kinds[k] == 0 {
			return "", fmt.Errorf("no %s site found: the translator no longer understands the source", k)
		}
	}
	nspecial, err := c02NumSpecials(repo)
	if err != nil {
		return "", err
	}
	var sb strings.Builder
	sb.WriteString("From Coq Require Import List String ZArith.\nImport ListNotations.\nOpen Scope string_scope.\n\n")
	sb.WriteString("Inductive site_kind : Type := SKPanic | SKMustCompile | SKAssert | SKRecover | SKIndex.\n")
	sb.WriteString("(* what is raised / compiled / asserted, as far as syntax tells *)\n")
	sb.WriteString("Inductive site_arg : Type :=\n| AKPosError      (* p.errorf(..) / ast.PosErrorf(..) / &ast.PositionError{..} *)\n| AKCompileError  (* &compileError{..} *)\n| AKRepanic       (* panic(r) of an identifier *)\n| AKMessage       (* fmt.Sprintf(..) or a string literal *)\n| AKLiteral       (* MustCompile of a string literal *)\n| AKLenChecked    (* index: len(<same expression>) is consulted earlier in the same function *)\n| AKOther.\n")
	sb.WriteString("Record site : Type := { s_pkg : string; s_file : string; s_func : string; s_kind : site_kind; s_ord : nat; s_arg : site_arg; s_text : string }.\n\n")
	fmt.Fprintf(&sb, "(* ast.V_LAST: special variable indexes are 1..numSpecials *)\nDefinition numSpecials : Z := %d%%Z.\n\n", nspecial)
	sb.WriteString("Definition sites : list site :=\n  [ ")
	for i, s := range sites {
		if i > 0 {
			sb.WriteString(";\n    ")
		}
		fmt.Fprintf(&sb, "{| s_pkg := %s; s_file := %s; s_func := %s; s_kind := %s; s_ord := %d; s_arg := %s; s_text := %s |}",
			CoqString(s.pkg), CoqString(s.file), CoqString(s.fn), s.kind2(), s.ord, s.arg, CoqString(s.text))
	}
	sb.WriteString(" ].\n")
	return sb.String(), nil
}

func (s c02Site) kind2() string {
	switch s.kind {
	case "panic":
		return "SKPanic"
	case "mustcompile":
		return "SKMustCompile"
	case "assert":
		return "SKAssert"
	case "recover":
		return "SKRecover"
	}
	return "SKIndex"
}

func c02FuncSites(fset *token.FileSet, pkg, file, fn string, body *ast.BlockStmt) []c02Site {
	var out []c02Site
	ord := map[string]int{}
	add := func(kind, arg string, n ast.Node) {
		out = append(out, c02Site{pkg: pkg, file: file, fn: fn, kind: kind, ord: ord[kind], arg: arg, text: c02Src(fset, n)})
		ord[kind]++
	}
	// type assertions that are checked: v, ok := x.(T) / v, ok = x.(T) / switch x.(type)
	checked := map[*ast.TypeAssertExpr]bool{}
	ast.Inspect(body, func(n ast.Node) bool {
		switch x := n.(type) {
		case *ast.AssignStmt:
			if len(x.Lhs) == 2 && len(x.Rhs) == 1 {
				if ta, ok := x.Rhs[0].(*ast.TypeAssertExpr); ok {
					checked[ta] = true
				}
			}
		case *ast.ValueSpec:
			if len(x.Names) == 2 && len(x.Values) == 1 {
				if ta, ok := x.Values[0].(*ast.TypeAssertExpr); ok {
					checked[ta] = true
				}
			}
		}
		return true
	})
	ast.Inspect(body, func(n ast.Node) bool {
		switch x := n.(type) {
		case *ast.CallExpr:
			switch fun := x.Fun.(type) {
			case *ast.Ident:
				if fun.Name == "panic" && len(x.Args) == 1 {
					add("panic", c02PanicArg(fset, x.Args[0]), x)
				}
				if fun.Name == "recover" && len(x.Args) == 0 {
					add("recover", "AKOther", x)
				}
			case *ast.SelectorExpr:
				if fun.Sel.Name == "MustCompile" && len(x.Args) == 1 {
					arg := "AKOther"
					if lit, ok := x.Args[0].(*ast.BasicLit); ok && lit.Kind == token.STRING {
						arg = "AKLiteral"
					}
					add("mustcompile", arg, x)
				}
			}
		case *ast.TypeAssertExpr:
			if x.Type != nil && !checked[x] {
				add("assert", "AKOther", x)
			}
		case *ast.IndexExpr:
			if c02ExplicitIndex(x.Index) {
				// syntactic fact: len(<same base>) occurs earlier in this function
				arg := "AKOther"
				base := c02Src(fset, x.X)
				ast.Inspect(body, func(m ast.Node) bool {
					if c, ok := m.(*ast.CallExpr); ok && c.Pos() < x.Pos() && len(c.Args) == 1 {
						if id, ok := c.Fun.(*ast.Ident); ok && id.Name == "len" && c02Src(fset, c.Args[0]) == base {
							arg = "AKLenChecked"
						}
					}
					return true
				})
				add("index", arg, x)
			}
		}
		return true
	})
	return out
}

// an index that names a fixed position: an integer literal, or len(..)-k
func c02ExplicitIndex(e ast.Expr) bool {
	switch x := e.(type) {
	case *ast.BasicLit:
		return x.Kind == token.INT
	case *ast.BinaryExpr:
		if x.Op == token.SUB {
			if c, ok := x.X.(*ast.CallExpr); ok {
				if id, ok := c.Fun.(*ast.Ident); ok && id.Name == "len" {
					return true
				}
			}
		}
	}
	return false
}

func c02PanicArg(fset *token.FileSet, e ast.Expr) string {
	s := c02Src(fset, e)
	switch x := e.(type) {
	case *ast.Ident:
		return "AKRepanic"
	case *ast.BasicLit:
		if x.Kind == token.STRING {
			return "AKMessage"
		}
	case *ast.UnaryExpr:
		if strings.HasPrefix(s, "&compileError{") {
			return "AKCompileError"
		}
		if strings.HasPrefix(s, "&ast.PositionError{") || strings.HasPrefix(s, "&PositionError{") {
			return "AKPosError"
		}
	case *ast.CallExpr:
		if strings.HasPrefix(s, "p.errorf(") || strings.HasPrefix(s, "ast.PosErrorf(") || strings.HasPrefix(s, "PosErrorf(") {
			return "AKPosError"
		}
		if strings.HasPrefix(s, "fmt.Sprintf(") {
			return "AKMessage"
		}
	}
	return "AKOther"
}

func c02NumSpecials(repo string) (int, error) {
	_, files, err := ParseDir(repo, "internal/ast")
	if err != nil {
		return 0, err
	}
	for _, name := range SortedNames(files) {
		for _, d := range files[name].Decls {
			gd, ok := d.(*ast.GenDecl)
			if !ok || gd.Tok != token.CONST {
				continue
			}
			// the iota block that starts with V_ILLEGAL: count names up to the one V_LAST aliases
			names := []string{}
			last := ""
			for _, s := range gd.Specs {
				vs := s.(*ast.ValueSpec)
				for i, n := range vs.Names {
					if n.Name == "V_LAST" && i < len(vs.Values) {
						if id, ok := vs.Values[i].(*ast.Ident); ok {
							last = id.Name
						}
						continue
					}
					names = append(names, n.Name)
				}
			}
			if len(names) > 0 && names[0] == "V_ILLEGAL" && last != "" {
				for i, n := range names {
					if n == last {
						return i, nil
					}
				}
			}
		}
	}
	return 0, fmt.Errorf("ast.V_ILLEGAL .. V_LAST constant block not found")
}
