package main

import (
	"fmt"
	"go/ast"
	"go/token"
	"strings"
)

// Gen/Consts.v: integer constants of package interp that models depend on.
func init() {
	register(Gen{File: "Consts.v", Run: func(repo string) (string, error) {
		_, files, err := ParseDir(repo, "interp")
		if err != nil {
			return "", err
		}
		want := map[string]bool{"maxFieldIndex": true, "maxCallDepth": true, "checkContextOps": true,
			"maxCachedRegexes": true, "maxCachedFormats": true, "initialStackSize": true}
		var sb strings.Builder
		sb.WriteString("From Coq Require Import ZArith.\nOpen Scope Z_scope.\n")
		found := map[string]string{}
		for _, n := range SortedNames(files) {
			for _, d := range files[n].Decls {
				gd, ok := d.(*ast.GenDecl)
				if !ok || gd.Tok != token.CONST {
					continue
				}
				for _, s := range gd.Specs {
					vs := s.(*ast.ValueSpec)
					for i, name := range vs.Names {
						if want[name.Name] && i < len(vs.Values) {
							if lit, ok := vs.Values[i].(*ast.BasicLit); ok && lit.Kind == token.INT {
								found[name.Name] = lit.Value
							}
						}
					}
				}
			}
		}
		for _, k := range []string{"maxFieldIndex", "maxCallDepth", "checkContextOps", "maxCachedRegexes", "maxCachedFormats", "initialStackSize"} {
			v, ok := found[k]
			if !ok {
				return "", fmt.Errorf("constant %s not found as an integer literal in package interp", k)
			}
			fmt.Fprintf(&sb, "Definition %s : Z := %s.\n", k, v)
		}
		return sb.String(), nil
	}})
}
