package main

import (
	"fmt"
	"go/ast"
	"go/token"
	"strings"
)

// constNames returns the identifiers of the const block whose first spec has the given type name, in order.
func constNames(files map[string]*ast.File, typeName string) []string {
	for _, n := range SortedNames(files) {
		for _, d := range files[n].Decls {
			gd, ok := d.(*ast.GenDecl)
			if !ok || gd.Tok != token.CONST || len(gd.Specs) == 0 {
				continue
			}
			first := gd.Specs[0].(*ast.ValueSpec)
			id, ok := first.Type.(*ast.Ident)
			if !ok || id.Name != typeName {
				continue
			}
			var names []string
			for _, s := range gd.Specs {
				for _, nm := range s.(*ast.ValueSpec).Names {
					names = append(names, nm.Name)
				}
			}
			return names
		}
	}
	return nil
}

func coqStringList(name string, xs []string) string {
	var sb strings.Builder
	fmt.Fprintf(&sb, "Definition %s : list string :=\n  [", name)
	for i, x := range xs {
		if i > 0 {
			sb.WriteString("; ")
		}
		if i > 0 && i%8 == 0 {
			sb.WriteString("\n   ")
		}
		sb.WriteString(CoqString(x))
	}
	sb.WriteString("].\n")
	return sb.String()
}

// Gen/Opcodes.v: the iota-ordered names of Opcode, AugOp, BuiltinOp (internal/compiler/opcodes.go)
// and of lexer.Token (lexer/token.go). Position in the list = numeric value.
func init() {
	register(Gen{File: "Opcodes.v", Run: func(repo string) (string, error) {
		_, cf, err := ParseDir(repo, "internal/compiler")
		if err != nil {
			return "", err
		}
		_, lf, err := ParseDir(repo, "lexer")
		if err != nil {
			return "", err
		}
		ops := constNames(cf, "Opcode")
		aug := constNames(cf, "AugOp")
		bi := constNames(cf, "BuiltinOp")
		toks := constNames(lf, "Token")
		if len(ops) == 0 || len(aug) == 0 || len(bi) == 0 || len(toks) == 0 {
			return "", fmt.Errorf("could not find the Opcode/AugOp/BuiltinOp/Token const blocks")
		}
		// lexer tokens: the block mixes iota constants with aliases (LAST = REGEX ...): keep only the leading iota run
		var tk []string
		for _, t := range toks {
			if t == "LAST" || t == "FIRST_FUNC" || t == "LAST_FUNC" {
				continue
			}
			tk = append(tk, t)
		}
		_, af, err := ParseDir(repo, "internal/ast")
		if err != nil {
			return "", err
		}
		// special variables: the untyped iota block starting with V_ILLEGAL
		var specials []string
		for _, n := range SortedNames(af) {
			for _, d := range af[n].Decls {
				gd, ok := d.(*ast.GenDecl)
				if !ok || gd.Tok != token.CONST || len(gd.Specs) == 0 {
					continue
				}
				if first := gd.Specs[0].(*ast.ValueSpec); first.Names[0].Name != "V_ILLEGAL" {
					continue
				}
				for _, s := range gd.Specs {
					vs := s.(*ast.ValueSpec)
					if len(vs.Values) > 0 && vs.Names[0].Name != "V_ILLEGAL" {
						continue // V_LAST = V_SUBSEP
					}
					specials = append(specials, vs.Names[0].Name)
				}
			}
		}
		if len(specials) < 10 {
			return "", fmt.Errorf("could not find the V_ special-variable const block")
		}
		var sb strings.Builder
		sb.WriteString("From Coq Require Import List String.\nImport ListNotations.\nOpen Scope string_scope.\n")
		sb.WriteString(coqStringList("special_names", specials))
		sb.WriteString(coqStringList("opcode_names", ops))
		sb.WriteString(coqStringList("augop_names", aug))
		sb.WriteString(coqStringList("builtinop_names", bi))
		sb.WriteString(coqStringList("token_names", tk))
		return sb.String(), nil
	}})
}
