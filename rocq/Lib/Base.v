(* Common vocabulary for all models: bytes, checked slicing, result type.
   Definitions only plus the small lemmas every proof needs. *)
From Coq Require Export List ZArith Bool Lia.
Export ListNotations.
Open Scope Z_scope.

Definition byte := Z.
Definition bytes := list Z.

Definition zlen {A} (l : list A) : Z := Z.of_nat (length l).
Definition ztake {A} (n : Z) (l : list A) : list A := firstn (Z.to_nat n) l.
Definition zdrop {A} (n : Z) (l : list A) : list A := skipn (Z.to_nat n) l.

(* Outcome of a modelled Go operation.  [Panic] is where Go would panic
   (slice/index out of range, nil map, explicit panic).  [Err] is a Go error
   value returned to the caller.  [Unmod] marks inputs the executable model
   declines to evaluate (never guessed). *)
Inductive res (A : Type) : Type :=
| Ok (a : A)
| Err (msg : bytes)
| Panic
| Unmod.
Arguments Ok {A} a.
Arguments Err {A} msg.
Arguments Panic {A}.
Arguments Unmod {A}.

Definition rbind {A B} (r : res A) (f : A -> res B) : res B :=
  match r with Ok a => f a | Err m => Err m | Panic => Panic | Unmod => Unmod end.
Notation "'do' x <- r ; k" := (rbind r (fun x => k)) (at level 200, x pattern, r at level 100, k at level 200).

(* Go's s[lo:hi] on a string / slice of length len s: panics unless 0 <= lo <= hi <= len. *)
Definition slice {A} (s : list A) (lo hi : Z) : res (list A) :=
  if (0 <=? lo) && (lo <=? hi) && (hi <=? zlen s)
  then Ok (ztake (hi - lo) (zdrop lo s))
  else Panic.

(* Go's s[i] *)
Definition index {A} (s : list A) (i : Z) : res A :=
  if (0 <=? i) && (i <? zlen s)
  then match nth_error s (Z.to_nat i) with Some a => Ok a | None => Panic end
  else Panic.

Fixpoint bytes_eqb (a b : bytes) : bool :=
  match a, b with
  | [], [] => true
  | x :: a', y :: b' => (x =? y) && bytes_eqb a' b'
  | _, _ => false
  end.

Lemma zlen_nonneg {A} (l : list A) : 0 <= zlen l.
Proof. unfold zlen; lia. Qed.

Lemma zlen_app {A} (a b : list A) : zlen (a ++ b) = zlen a + zlen b.
Proof. unfold zlen; rewrite app_length; lia. Qed.

Lemma zlen_cons {A} (x : A) (l : list A) : zlen (x :: l) = 1 + zlen l.
Proof. unfold zlen; cbn [length]; lia. Qed.

Lemma zlen_nil {A} : zlen (@nil A) = 0.
Proof. reflexivity. Qed.

Lemma bytes_eqb_eq a b : bytes_eqb a b = true <-> a = b.
Proof.
  revert b; induction a as [|x a IH]; intros [|y b]; cbn [bytes_eqb]; split; intro H;
    try reflexivity; try discriminate.
  - apply andb_true_iff in H as [H1 H2]. apply Z.eqb_eq in H1. apply IH in H2. congruence.
  - injection H as -> ->. rewrite Z.eqb_refl. cbn. apply IH. reflexivity.
Qed.

Lemma zlen_ztake {A} n (l : list A) : 0 <= n <= zlen l -> zlen (ztake n l) = n.
Proof. unfold zlen, ztake; intros H. rewrite firstn_length. lia. Qed.

Lemma zlen_zdrop {A} n (l : list A) : 0 <= n <= zlen l -> zlen (zdrop n l) = zlen l - n.
Proof. unfold zlen, zdrop; intros H. rewrite skipn_length. lia. Qed.

Lemma ztake_all {A} n (l : list A) : zlen l <= n -> ztake n l = l.
Proof. unfold zlen, ztake; intros H. apply firstn_all2. lia. Qed.

Lemma zdrop_0 {A} (l : list A) : zdrop 0 l = l.
Proof. reflexivity. Qed.

Lemma zdrop_neg {A} n (l : list A) : n <= 0 -> zdrop n l = l.
Proof. unfold zdrop; intros H. replace (Z.to_nat n) with 0%nat by lia. reflexivity. Qed.

Lemma zdrop_all {A} n (l : list A) : zlen l <= n -> zdrop n l = [].
Proof. unfold zlen, zdrop; intros H. apply skipn_all2. lia. Qed.

Lemma ztake_neg {A} n (l : list A) : n <= 0 -> ztake n l = [].
Proof. unfold ztake; intros H. replace (Z.to_nat n) with 0%nat by lia. reflexivity. Qed.
