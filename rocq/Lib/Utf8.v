(* Go's utf8.DecodeRune / `for i := range s` on arbitrary bytes:
   a well-formed sequence of 1-4 bytes is one rune; any other byte is a
   RuneError of width 1. *)
From Verif Require Import Lib.Base.

Definition rune_error : Z := 65533.

Definition is_cont (b : Z) : bool := (128 <=? b) && (b <=? 191).
Definition in_rng (lo hi b : Z) : bool := (lo <=? b) && (b <=? hi).

(* returns (rune, width); width >= 1 whenever s is non-empty, (rune_error,0) on empty *)
Definition decode_rune (s : bytes) : Z * Z :=
  match s with
  | [] => (rune_error, 0)
  | b0 :: t =>
    if b0 <? 128 then (b0, 1)
    else if in_rng 194 223 b0 then
      match t with
      | b1 :: _ => if is_cont b1 then ((b0 - 192) * 64 + (b1 - 128), 2) else (rune_error, 1)
      | _ => (rune_error, 1)
      end
    else if in_rng 224 239 b0 then
      let lo := if b0 =? 224 then 160 else 128 in
      let hi := if b0 =? 237 then 159 else 191 in
      match t with
      | b1 :: b2 :: _ =>
          if in_rng lo hi b1 && is_cont b2
          then ((b0 - 224) * 4096 + (b1 - 128) * 64 + (b2 - 128), 3) else (rune_error, 1)
      | _ => (rune_error, 1)
      end
    else if in_rng 240 244 b0 then
      let lo := if b0 =? 240 then 144 else 128 in
      let hi := if b0 =? 244 then 143 else 191 in
      match t with
      | b1 :: b2 :: b3 :: _ =>
          if in_rng lo hi b1 && is_cont b2 && is_cont b3
          then ((b0 - 240) * 262144 + (b1 - 128) * 4096 + (b2 - 128) * 64 + (b3 - 128), 4)
          else (rune_error, 1)
      | _ => (rune_error, 1)
      end
    else (rune_error, 1)
  end.

(* Split into the chunks `range` iterates over: each chunk is one decoded rune
   (1-4 bytes) or one invalid byte. Structural on fuel = length. *)
Fixpoint runes_fuel (fuel : nat) (s : bytes) : list bytes :=
  match fuel with
  | O => []
  | S f =>
    match s with
    | [] => []
    | _ =>
      let w := snd (decode_rune s) in
      ztake w s :: runes_fuel f (zdrop w s)
    end
  end.

Definition runes (s : bytes) : list bytes := runes_fuel (length s) s.

Definition rune_count (s : bytes) : Z := zlen (runes s).

(* A chunk is a well-formed rune iff it is not a lone invalid byte.  Note the
   3-byte encoding EF BF BD of U+FFFD itself is well formed. *)
Definition chunk_valid (c : bytes) : bool :=
  let '(r, w) := decode_rune c in
  negb ((r =? rune_error) && (w =? 1)).

Definition valid_utf8 (s : bytes) : bool := forallb chunk_valid (runes s).

(* utf8.EncodeRune *)
Definition encode_rune (r : Z) : bytes :=
  let r := if (r <? 0) || (1114111 <? r) || ((55296 <=? r) && (r <=? 57343)) then rune_error else r in
  if r <? 128 then [r]
  else if r <? 2048 then [192 + r / 64; 128 + r mod 64]
  else if r <? 65536 then [224 + r / 4096; 128 + (r / 64) mod 64; 128 + r mod 64]
  else [240 + r / 262144; 128 + (r / 4096) mod 64; 128 + (r / 64) mod 64; 128 + r mod 64].
