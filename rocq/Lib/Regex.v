(* An executable stand-in for Go's regexp (RE2 syntax, (?s) flag, .Longest()):
   Brzozowski derivatives over decoded runes, leftmost-longest search.
   Used only to RUN models that call a regex; theorems take the regex engine as
   a Section variable.  Agreement with Go's regexp on generated cases is checked by
   the harnesses (a disagreement is a trusted-base failure, not a violation). *)
From Verif Require Import Lib.Base Lib.Utf8.

Inductive re : Type :=
| RNone                                   (* matches nothing *)
| REps                                    (* empty string *)
| RChr (r : Z)                            (* one rune *)
| RAny                                    (* . with (?s): any rune *)
| RCls (neg : bool) (ranges : list (Z * Z))
| RCat (a b : re)
| RAlt (a b : re)
| RStar (a : re)
| RBol                                    (* ^ : beginning of text *)
| REol.                                   (* $ : end of text *)

Definition RPlus (a : re) : re := RCat a (RStar a).
Definition ROpt (a : re) : re := RAlt a REps.

Definition is_none (r : re) : bool := match r with RNone => true | _ => false end.

Definition mk_cat (a b : re) : re :=
  match a, b with
  | RNone, _ => RNone
  | _, RNone => RNone
  | REps, _ => b
  | _, _ => RCat a b
  end.

Definition mk_alt (a b : re) : re :=
  match a, b with
  | RNone, _ => b
  | _, RNone => a
  | _, _ => RAlt a b
  end.

(* st: at beginning of text; en: at end of text *)
Fixpoint nullable (st en : bool) (r : re) : bool :=
  match r with
  | RNone | RChr _ | RAny | RCls _ _ => false
  | REps | RStar _ => true
  | RCat a b => nullable st en a && nullable st en b
  | RAlt a b => nullable st en a || nullable st en b
  | RBol => st
  | REol => en
  end.

Definition in_ranges (c : Z) (rs : list (Z * Z)) : bool :=
  existsb (fun p => (fst p <=? c) && (c <=? snd p)) rs.

Fixpoint deriv (st : bool) (c : Z) (r : re) : re :=
  match r with
  | RNone | REps | RBol | REol => RNone
  | RChr x => if x =? c then REps else RNone
  | RAny => REps
  | RCls neg rs => if xorb neg (in_ranges c rs) then REps else RNone
  | RCat a b =>
      mk_alt (mk_cat (deriv st c a) b)
             (if nullable st false a then deriv st c b else RNone)
  | RAlt a b => mk_alt (deriv st c a) (deriv st c b)
  | RStar a => mk_cat (deriv st c a) (RStar a)
  end.

Definition rune_of (c : bytes) : Z := fst (decode_rune c).
Definition is_nil {A} (l : list A) : bool := match l with [] => true | _ => false end.

(* longest match starting at the current position; [off] = its byte offset *)
Fixpoint longest (r : re) (st : bool) (cs : list bytes) (off : Z) (best : option Z) : option Z :=
  let best := if nullable st (is_nil cs) r then Some off else best in
  match cs with
  | [] => best
  | c :: cs' =>
      let r' := deriv st (rune_of c) r in
      if is_none r' then best else longest r' false cs' (off + zlen c) best
  end.

(* leftmost start position (at a rune boundary) that has a match; then the longest one *)
Fixpoint search (r : re) (cs : list bytes) (off : Z) : option (Z * Z) :=
  match longest r (off =? 0) cs off None with
  | Some e => Some (off, e)
  | None => match cs with
            | [] => None
            | c :: cs' => search r cs' (off + zlen c)
            end
  end.

(* re.doExecute(s, pos): leftmost-longest match at or after byte offset pos, in the
   context of the whole text (^ matches only at offset 0). pos must be a rune boundary. *)
Definition find_from (r : re) (s : bytes) (pos : Z) : option (Z * Z) :=
  search r (runes (zdrop pos s)) pos.

(* FindStringIndex *)
Definition find (r : re) (s : bytes) : option (Z * Z) := find_from r s 0.

(* MatchString *)
Definition match_string (r : re) (s : bytes) : bool :=
  match find r s with Some _ => true | None => false end.

(* regexp.allMatches with n = -1 (FindAllStringIndex): non-overlapping matches; an empty
   match immediately after the previous match is ignored.  Fuel = len s + 2 iterations. *)
Fixpoint all_matches_fuel (fuel : nat) (r : re) (s : bytes) (pos prev_end : Z) : list (Z * Z) :=
  match fuel with
  | O => []
  | S f =>
    if pos >? zlen s then [] else
    match find_from r s pos with
    | None => []
    | Some (a, b) =>
        let accept := negb ((b =? pos) && (a =? prev_end)) in
        let pos' :=
          if b =? pos then
            let w := snd (decode_rune (zdrop pos s)) in
            if w >? 0 then pos + w else zlen s + 1
          else b in
        let rest := all_matches_fuel f r s pos' b in
        if accept then (a, b) :: rest else rest
    end
  end.

Definition all_matches (r : re) (s : bytes) : list (Z * Z) :=
  all_matches_fuel (S (S (length s))) r s 0 (-1).
