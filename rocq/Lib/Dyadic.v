(* IEEE-754 binary64 values as exact dyadic rationals m * 2^e, decoded from
   the 64-bit pattern the harness sends.  No rounding is ever performed here:
   operations are exact or not offered.  The sign of zero is not kept. *)
From Verif Require Import Lib.Base.

Inductive fnum : Type :=
| FNaN
| FInf (neg : bool)
| FFin (m e : Z).        (* the real number m * 2^e *)

Definition two63 : Z := 9223372036854775808.
Definition two64 : Z := 18446744073709551616.
Definition two52 : Z := 4503599627370496.
Definition two53 : Z := 9007199254740992.

Definition of_bits (b : Z) : fnum :=
  let sign := Z.testbit b 63 in
  let ex := Z.land (Z.shiftr b 52) 2047 in
  let frac := Z.land b (two52 - 1) in
  if ex =? 2047 then (if frac =? 0 then FInf sign else FNaN)
  else
    let m := if ex =? 0 then frac else frac + two52 in
    let e := (if ex =? 0 then 1 else ex) - 1075 in
    FFin (if sign then - m else m) e.

(* mathematical truncation toward zero of m * 2^e *)
Definition ftrunc (m e : Z) : Z :=
  if 0 <=? e then m * 2 ^ e else Z.quot m (2 ^ (- e)).

Definition is_integral (m e : Z) : bool :=
  if 0 <=? e then true else Z.rem m (2 ^ (- e)) =? 0.

(* Go on amd64: int64(x) / int(x) for a float64 x is CVTTSD2SI: truncation
   when the result fits, else the "integer indefinite" value -2^63 (also for
   NaN and the infinities). *)
Definition in_i64 (t : Z) : bool := (- two63 <=? t) && (t <? two63).

Definition f2i64 (x : fnum) : Z :=
  match x with
  | FFin m e => let t := ftrunc m e in if in_i64 t then t else - two63
  | _ => - two63
  end.

(* uint64(int64 x): reinterpretation mod 2^64 *)
Definition i64_to_u64 (t : Z) : Z := if t <? 0 then t + two64 else t.

(* Canonical form: odd mantissa, or (0,0).  Used to compare with the
   implementation's results. *)
Fixpoint pos_odd_part (p : positive) : positive * Z :=
  match p with
  | xO q => let '(r, k) := pos_odd_part q in (r, k + 1)
  | _ => (p, 0)
  end.

Definition canon (x : fnum) : fnum :=
  match x with
  | FFin 0 _ => FFin 0 0
  | FFin (Zpos p) e => let '(r, k) := pos_odd_part p in FFin (Zpos r) (e + k)
  | FFin (Zneg p) e => let '(r, k) := pos_odd_part p in FFin (Zneg r) (e + k)
  | _ => x
  end.

Definition fnum_of_Z (z : Z) : fnum := FFin z 0.

Definition fneg (x : fnum) : fnum :=
  match x with
  | FNaN => FNaN
  | FInf s => FInf (negb s)
  | FFin m e => FFin (- m) e
  end.

(* comparison of finite dyadics, exact *)
Definition fin_cmp (m1 e1 m2 e2 : Z) : comparison :=
  let e := Z.min e1 e2 in
  Z.compare (m1 * 2 ^ (e1 - e)) (m2 * 2 ^ (e2 - e)).

(* x == y, x < y as Go float64 comparisons (NaN compares false) *)
Definition feq (x y : fnum) : bool :=
  match x, y with
  | FFin m1 e1, FFin m2 e2 => match fin_cmp m1 e1 m2 e2 with Eq => true | _ => false end
  | FInf a, FInf b => Bool.eqb a b
  | _, _ => false
  end.

Definition flt (x y : fnum) : bool :=
  match x, y with
  | FFin m1 e1, FFin m2 e2 => match fin_cmp m1 e1 m2 e2 with Lt => true | _ => false end
  | FInf true, FInf true => false
  | FInf true, FNaN => false
  | FInf true, _ => true
  | FFin _ _, FInf false => true
  | _, _ => false
  end.

Definition is_zero (x : fnum) : bool :=
  match x with FFin 0 _ => true | _ => false end.

(* Exact addition of finite dyadics (result may not be a double: callers
   that need a double must check [representable]). *)
Definition fin_add (m1 e1 m2 e2 : Z) : fnum :=
  let e := Z.min e1 e2 in
  FFin (m1 * 2 ^ (e1 - e) + m2 * 2 ^ (e2 - e)) e.

(* A finite dyadic is a binary64 value iff, in canonical form, the mantissa
   has at most 53 bits and the exponent is in range (normal or subnormal). *)
Definition representable (x : fnum) : bool :=
  match canon x with
  | FFin 0 _ => true
  | FFin m e =>
      let n := Z.log2 (Z.abs m) + 1 in       (* bit length *)
      (n <=? 53) && (-1074 <=? e) && (e + n <=? 1024)
  | _ => true
  end.
