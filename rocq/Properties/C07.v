(* C07 — Record reading is lossless and independent of how input bytes arrive.
   Only statements closed by [exact] of a lemma proved in Proofs/, non-vacuity examples,
   refutation witnesses (vm_compute on the faithful model) and Print Assumptions.

   Vocabulary (Model/Scanner.v, Model/Splitters.v):
     scan St Tok split last_eof st0 chunks   what bufio.Scanner delivers when the k-th Read returns
                                             chunks[k] (0 bytes allowed), then io.EOF
                                             (last_eof: together with the last chunk): (tokens, stop)
     reference St Tok split st0 data         the split function run over the whole input at EOF
     reader_ok last_eof 0 chunks             never more than 100 empty reads in a row
     goawk_split rs find                     interp.newScanner's split function for RS = rs with
                                             nextLine's RT default; tokens are ($0, RT)
     find                                    Go's regexp FindIndex for RS (leftmost-longest): oracle *)
From Verif Require Import Lib.Base Lib.Regex Model.Scanner Model.Splitters
  Proofs.Scanner Proofs.Splitters Proofs.SplittersBlank Proofs.SplittersTop
  Proofs.SplittersLit Proofs.SplittersPara.

(* ------------------------------------------------------------------ chunk independence *)

(* bufio.Scanner with ANY stable state-passing split function delivers, for every chunk list,
   exactly what the split function yields on the whole input at EOF *)
Theorem C07_scan_is_reference : forall (St Tok : Type) (split : splitfn St Tok),
  stable St Tok split -> forall last_eof st0 chunks, reader_ok last_eof O chunks ->
  scan St Tok split last_eof st0 chunks = reference St Tok split st0 (concat chunks).
Proof. exact scan_reference. Qed.
Print Assumptions C07_scan_is_reference.

Theorem C07_chunk_independence : forall (St Tok : Type) (split : splitfn St Tok),
  stable St Tok split -> forall last_eof st0 chunks, reader_ok last_eof O chunks ->
  scan St Tok split last_eof st0 chunks = scan St Tok split false st0 [concat chunks].
Proof. exact chunk_independence. Qed.
Print Assumptions C07_chunk_independence.

(* bufio.ScanLines (RS = "\n") and byteSplitter for ANY byte value are stable *)
Theorem C07_stable_lines : stable unit record lines_split.
Proof. exact lines_stable. Qed.
Print Assumptions C07_stable_lines.

Theorem C07_stable_byte : forall sep : Z, stable unit record (byte_split sep).
Proof. exact byte_stable. Qed.
Print Assumptions C07_stable_byte.

(* blankLineSplitter (RS = ""), tokens ($0, RT), is stable (since the repair of F-C07-2 and
   F-C07-3; before, only the RT-less observation was) *)
Theorem C07_stable_blank : stable unit record blank_full.
Proof. exact blank_full_stable. Qed.
Print Assumptions C07_stable_blank.

Theorem C07_stable_blank_records : stable unit bytes blank_rec.
Proof. exact blank_rec_stable. Qed.
Print Assumptions C07_stable_blank_records.

(* regexSplitter is stable when the regex oracle never revises a non-empty match *)
Theorem C07_stable_regex_partial : forall (find : bytes -> option (Z * Z)) (rs : bytes),
  (forall d s e, find d = Some (s, e) -> 0 <= s /\ s <= e /\ e <= zlen d) ->
  match_final find -> stable unit record (to_split rs (regex_scan find)).
Proof. exact regex_stable. Qed.
Print Assumptions C07_stable_regex_partial.

(* an RS that is a literal byte string of two or more bytes (a single multi-byte character is
   compiled as QuoteMeta(RS)), searched as bytes, satisfies match_final: stable *)
Theorem C07_stable_literal_re : forall (pat rs : bytes),
  stable unit record (to_split rs (regex_scan (find_lit pat))).
Proof. exact lit_stable. Qed.
Print Assumptions C07_stable_literal_re.

(* RS assigned by the program while a regexSplitter is reading the file (the splitter sees the
   recompiled regex at its next call): still independent of the delivery, provided every regex
   in force satisfies match_final.  State n = records delivered so far. *)
Theorem C07_rs_change_partial : forall (rs_at : nat -> bytes) (find_at : nat -> bytes -> option (Z * Z)),
  (forall n d s e, find_at n d = Some (s, e) -> 0 <= s /\ s <= e /\ e <= zlen d) ->
  (forall n, match_final (find_at n)) ->
  forall last_eof chunks, reader_ok last_eof O chunks ->
  scan nat record (regex_split_sched rs_at find_at) last_eof O chunks
  = scan nat record (regex_split_sched rs_at find_at) false O [concat chunks].
Proof.
  intros rs_at find_at Hb Hm last_eof chunks Hr.
  exact (chunk_independence nat record _ (sched_stable rs_at find_at Hb Hm) last_eof O chunks Hr).
Qed.
Print Assumptions C07_rs_change_partial.

(* goawk, every RS: the sequence of ($0, RT) - hence NR - does not depend on the delivery.
   For a regex RS this needs match_final (guard excluding F-C07-1, F-C07-1b). *)
Theorem C07_goawk_chunk_independence_partial : forall (find : bytes -> option (Z * Z)),
  (forall d s e, find d = Some (s, e) -> 0 <= s /\ s <= e /\ e <= zlen d) ->
  forall rs, (rs_is_regex rs = true -> match_final find) ->
  forall last_eof chunks, reader_ok last_eof O chunks ->
  scan unit record (goawk_split rs find) last_eof tt chunks
  = scan unit record (goawk_split rs find) false tt [concat chunks].
Proof. exact goawk_chunk_independence. Qed.
Print Assumptions C07_goawk_chunk_independence_partial.

(* goawk, RS = "": the sequence of ($0, RT) and NR does not depend on the delivery, no guard
   (was C07_blank_chunk_partial, records only, while F-C07-2 / F-C07-3 were open) *)
Theorem C07_blank_chunk_independence : forall (find : bytes -> option (Z * Z)),
  (forall d s e, find d = Some (s, e) -> 0 <= s /\ s <= e /\ e <= zlen d) ->
  forall last_eof chunks, reader_ok last_eof O chunks ->
  scan unit record (goawk_split [] find) last_eof tt chunks
  = scan unit record (goawk_split [] find) false tt [concat chunks].
Proof. exact goawk_blank_chunk_independent. Qed.
Print Assumptions C07_blank_chunk_independence.

(* for every RS and every delivery reading ends normally: no split function panics, advances
   outside the data or delivers a token without advancing *)
Theorem C07_never_fails : forall (find : bytes -> option (Z * Z)),
  (forall d s e, find d = Some (s, e) -> 0 <= s /\ s <= e /\ e <= zlen d) ->
  forall rs last_eof chunks, reader_ok last_eof O chunks ->
  snd (scan unit record (goawk_split rs find) last_eof tt chunks) = Done.
Proof. exact goawk_scan_never_fails. Qed.
Print Assumptions C07_never_fails.

(* ------------------------------------------------------------------ losslessness *)

(* regex RS: each record followed by its RT, concatenated in order, reproduces the input -
   under EVERY delivery, stable regex or not *)
Theorem C07_regex_lossless : forall (find : bytes -> option (Z * Z)),
  (forall d s e, find d = Some (s, e) -> 0 <= s /\ s <= e /\ e <= zlen d) ->
  forall rs, rs_is_regex rs = true ->
  forall last_eof chunks, reader_ok last_eof O chunks ->
  let r := scan unit record (goawk_split rs find) last_eof tt chunks in
  snd r = Done /\ concat (map (fun t => fst t ++ snd t) (fst r)) = concat chunks.
Proof. exact goawk_regex_lossless. Qed.
Print Assumptions C07_regex_lossless.

(* single-byte RS (any byte value): the records joined by RS reproduce the input up to one
   final RS, no record contains RS, and there is a record iff the input is non-empty *)
Theorem C07_byte_join : forall (sep : Z) (data : bytes),
  let recs := byte_records sep data in
  (data = join [sep] recs \/ data = join [sep] recs ++ [sep]) /\
  Forall (fun r => ~ In sep r) recs /\
  (recs = [] <-> data = []).
Proof. exact byte_join. Qed.
Print Assumptions C07_byte_join.

(* RS = "\n": the records are the "\n"-separated pieces with one trailing CR dropped *)
Theorem C07_lines_spec : forall data : bytes,
  lines_records data = map (strip_last 13) (byte_records 10 data).
Proof. exact lines_spec. Qed.
Print Assumptions C07_lines_spec.

(* RS = "", input without CR: the records are the blank-line separated paragraphs (maximal
   runs of non-empty lines joined by "\n"); with C07_blank_chunk_independence: under every delivery *)
Theorem C07_paragraph_spec : forall (find : bytes -> option (Z * Z)) (data : bytes),
  ~ In 13 data ->
  map fst (fst (reference unit record (goawk_split [] find) tt data)) = paragraphs data.
Proof. exact paragraph_spec. Qed.
Print Assumptions C07_paragraph_spec.

Example C07_ex_paragraphs :           (* "\na\nb\n\n\nc\n" -> "a\nb", "c" *)
  paragraphs [10; 97; 10; 98; 10; 10; 10; 99; 10] = [[97; 10; 98]; [99]].
Proof. vm_compute. reflexivity. Qed.

(* RS = "", input without CR: leading newlines, then each record followed by its RT, reproduce
   the input (was C07_blank_RT_statement, refuted by "\nabc\n" while F-C07-3 was open) *)
Theorem C07_blank_RT_lossless : forall (find : bytes -> option (Z * Z)) (data : bytes),
  ~ In 13 data ->
  ztake (skip_nl data) data ++
  concat (map (fun t => fst t ++ snd t)
            (fst (reference unit record (goawk_split [] find) tt data))) = data.
Proof. exact blank_reconstruct. Qed.
Print Assumptions C07_blank_RT_lossless.

Example C07_ex_blank_RT_offset :       (* the former F-C07-3 witness "\nabc\n": RT is "\n" *)
  fst (reference unit record (goawk_split [] (find RNone)) tt [10; 97; 98; 99; 10])
  = [([97; 98; 99], [10])].
Proof. vm_compute. reflexivity. Qed.

(* ------------------------------------------------------------------ the full statement and where the pinned tree violates it *)

Definition str (s : list Z) : bytes := s.

(* "records, NR and RT are a function of the input bytes and RS alone", with Lib/Regex.v's
   matcher as the regex engine *)
Definition C07_full_statement : Prop :=
  forall (rs : bytes) (r : re) last_eof chunks, reader_ok last_eof O chunks ->
  scan unit record (goawk_split rs (find r)) last_eof tt chunks
  = scan unit record (goawk_split rs (find r)) false tt [concat chunks].

(* F-C07-1: RS = "x+", reads "ax" then "xb": records a, "", b instead of a, b *)
Theorem C07_regex_chunk_refuted : ~ C07_full_statement.
Proof.
  intros H.
  specialize (H [120; 43] (RPlus (RChr 120)) false [[97; 120]; [120; 98]]).
  assert (R : reader_ok false O [[97; 120]; [120; 98]]) by (cbn; exact I).
  specialize (H R). vm_compute in H. discriminate H.
Qed.
Print Assumptions C07_regex_chunk_refuted.

Example C07_regex_chunk_witness :
  scan unit record (goawk_split [120; 43] (find (RPlus (RChr 120)))) false tt [[97; 120]; [120; 98]]
    = ([([97], [120]); ([], [120]); ([98], [])], Done) /\
  scan unit record (goawk_split [120; 43] (find (RPlus (RChr 120)))) false tt [[97; 120; 120; 98]]
    = ([([97], [120; 120]); ([98], [])], Done).
Proof. split; vm_compute; reflexivity. Qed.

(* F-C07-1b: the decided match need not touch the end of the buffered data:
   RS = "ab|abcd", reads "xabc" then "dy": x, cdy instead of x, y *)
Definition re_ab_abcd : re :=
  RAlt (RCat (RChr 97) (RChr 98)) (RCat (RCat (RCat (RChr 97) (RChr 98)) (RChr 99)) (RChr 100)).
Example C07_regex_nontouching_witness :
  fst (scan unit record (goawk_split [97;98;124;97;98;99;100] (find re_ab_abcd)) false tt
         [[120; 97; 98; 99]; [100; 121]])
    = [([120], [97; 98]); ([99; 100; 121], [])] /\
  fst (scan unit record (goawk_split [97;98;124;97;98;99;100] (find re_ab_abcd)) false tt
         [[120; 97; 98; 99; 100; 121]])
    = [([120], [97; 98; 99; 100]); ([121], [])].
Proof. split; vm_compute; reflexivity. Qed.

(* the former F-C07-2 witness: RS = "", reads "a\n\n" then "\nb": RT of record 1 is "\n\n\n" *)
Example C07_ex_blank_RT_run :
  scan unit record (goawk_split [] (find RNone)) false tt [[97; 10; 10]; [10; 98]]
    = ([([97], [10; 10; 10]); ([98], [])], Done) /\
  scan unit record (goawk_split [] (find RNone)) false tt [[97; 10; 10; 10; 98]]
    = ([([97], [10; 10; 10]); ([98], [])], Done).
Proof. split; vm_compute; reflexivity. Qed.

(* ------------------------------------------------------------------ non-vacuity *)

(* the hypotheses are satisfiable and the theorems speak about real runs *)
Example C07_ex_reader_ok : reader_ok true O [[97]; []; []; [44; 98]; []].
Proof. cbn. repeat split; unfold max_empty_reads; lia. Qed.

Example C07_ex_byte_run :               (* RS = 0xFF: newScanner picks byteSplitter *)
  scan unit record (goawk_split [255] (find RNone)) true tt [[97]; []; [255; 98]; [255]]
  = ([([97], [255]); ([98], [255])], Done).
Proof. vm_compute. reflexivity. Qed.

Example C07_ex_lines_run :
  scan unit record lines_split false tt [[97; 13]; [10; 98; 13]]
  = ([([97], [10]); ([98], [10])], Done).
Proof. vm_compute. reflexivity. Qed.
