(* C02 — Running any accepted program never crashes the host.
   Statements only (closed by [exact]), non-vacuity examples, the refuted full statement for the
   one-byte record separator, and the primitive no-panic theorems of other properties restated. *)
From Coq Require Import String.
From Verif Require Import Lib.Base Lib.Dyadic Model.Ast Model.Instr Model.Compiler Model.Prims Model.VM
  Model.Encode Model.Verifier Model.Decode Model.PrimsToy Gen.Consts Gen.Panics
  Proofs.VerifierBase Proofs.VerifierSound Proofs.VerifierProgram Proofs.VerifierDepth Proofs.VerifierPanics Proofs.Decode Proofs.VerifierShape.
From Verif Require Import Properties.C01.

(* ---- 1. the bytecode verifier is sound ------------------------------------------------- *)

(* For EVERY implementation P of the interpreter's primitive operations whose CallBuiltin takes
   and leaves the numbers of values that vm.go's callBuiltin does ([prims_shape]), every function
   table F all of whose bodies pass the check, every code unit C that passes the check for a
   frame of [nlocals] values with [d0] values above the base: from ANY machine state with that
   frame length and a call depth not above the maximum, ANY stack holding at least d0 values,
   for ANY number of steps, the machine of Model/VM.v never reaches [VStuck] -- no evaluation-stack
   underflow, no fetch or jump off an instruction boundary, no frame index outside the frame, no
   call of a function that is not in the table.  Unbounded in inputs, state and steps. *)
Theorem C02_checked_code_never_stuck :
  forall (value St err : Type) (P : prims value St err), prims_shape P ->
  forall F : list cfunc, check_funcs F = true ->
  forall nlocals infunc d0 dend C, check_code (ftable_of F) nlocals infunc d0 dend C = true ->
  forall fuel stk (m : mstate value St),
    d0 <= zlen stk -> zlen (frame m) = nlocals -> depth m <= maxCallDepth ->
    run P F fuel C 0 stk m <> VStuck.
Proof. exact check_code_never_stuck. Qed.
Print Assumptions C02_checked_code_never_stuck.

(* ... and when the unit completes the evaluation stack is exactly where the annotation says
   (back at the frame base for statements), frame and call depth are restored; Return leaves a
   function with the stack at the activation's base; a for-in break never escapes its unit. *)
Theorem C02_checked_code_balanced :
  forall (value St err : Type) (P : prims value St err), prims_shape P ->
  forall F : list cfunc, check_funcs F = true ->
  forall nlocals infunc d0 dend C, check_code (ftable_of F) nlocals infunc d0 dend C = true ->
  forall fuel stk (m : mstate value St),
    d0 <= zlen stk -> zlen (frame m) = nlocals -> depth m <= maxCallDepth ->
    match run P F fuel C 0 stk m with
    | VDone stk' m' => zlen stk' = zlen stk - d0 + dend /\ zlen (frame m') = nlocals /\ depth m' = depth m
    | VRet _ stk' m' => infunc = true /\ zlen stk' = zlen stk - d0 /\ depth m' = depth m
    | VBrk _ _ => False
    | VStuck => False
    | _ => True
    end.
Proof. exact check_code_balanced. Qed.
Print Assumptions C02_checked_code_balanced.

(* whole program: every unit (BEGIN, END, each pattern, each action body) of a program that
   passes [check_program], started the way executeAll / execActions start it *)
Theorem C02_checked_program_never_stuck :
  forall (value St err : Type) (P : prims value St err) (p : cprogram),
  prims_shape P -> check_program p = true ->
  forall c dend, unit_of p c dend ->
  forall fuel stk (s : St),
    match run P (c_funcs p) fuel c 0 stk {| ms := s; frame := []; depth := 0 |} with
    | VStuck => False
    | VDone stk' m' => zlen stk' = zlen stk + dend /\ frame m' = [] /\ depth m' = 0
    | VRet _ _ _ => False
    | VBrk _ _ => False
    | _ => True
    end.
Proof. exact checked_program_never_stuck. Qed.
Print Assumptions C02_checked_program_never_stuck.

(* the call depth of EVERY machine state visited during a run of checked code stays at or below
   maxCallDepth (the value regenerated from interp/vm.go); one call more is the run-time error *)
Theorem C02_call_depth_bounded :
  forall (value St err : Type) (P : prims value St err), prims_shape P ->
  forall F : list cfunc, check_funcs F = true ->
  forall nlocals infunc d0 dend C, check_code (ftable_of F) nlocals infunc d0 dend C = true ->
  forall fuel stk (m : mstate value St),
    d0 <= zlen stk -> zlen (frame m) = nlocals -> depth m <= maxCallDepth ->
    all_states P F (fun m' => depth m' <= maxCallDepth) fuel C 0 stk m.
Proof. intros value St err P Hs F HF. exact (check_code_depth_bounded value St err P F Hs HF). Qed.
Print Assumptions C02_call_depth_bounded.

(* table operands: every instruction the machine can fetch from checked code addresses a
   global, array, special variable, constant, native function inside its table *)
Theorem C02_limits_sound : forall L C,
  check_limits L C = true -> forall ip i, fetch C ip = Some i -> instr_in_limits L i = true.
Proof. exact check_limits_sound. Qed.
Print Assumptions C02_limits_sound.

(* ---- 2. the decoder that feeds the verifier with the real compiled code ------------------ *)

(* decoding inverts the plain encoding, for every code list whose instructions have an opcode *)
Theorem C02_decode_inverts_encoding : forall c, forallb encodable c = true -> decode (enc_raw c) = Some c.
Proof. exact decode_enc_raw. Qed.
Print Assumptions C02_decode_inverts_encoding.

(* ... and the words Model/Encode.v emits (what C01 compares word for word with the Go
   compiler's output) decode to the same code with every constant replaced by its table index *)
Theorem C02_decode_inverts_compiler_encoding : forall p c,
  forallb scopes_encodable c = true -> decode (fst (enc_code p c)) = Some (abs_code p c).
Proof. exact decode_enc_code. Qed.
Print Assumptions C02_decode_inverts_compiler_encoding.

(* the verdict does not depend on constants: the code decoded from the words the compiler model
   emits passes the check exactly when the model's own code does (so, with C01's word-for-word
   correspondence, a passed check on the real words of an explored program is a passed check on
   the code Model/Compiler.v produces for it) *)
Theorem C02_check_decoded_iff_encoded : forall FT nl inf d0 dend p c,
  forallb scopes_encodable c = true ->
  exists c', decode (fst (enc_code p c)) = Some c' /\
             check_code FT nl inf d0 dend c' = check_code FT nl inf d0 dend c.
Proof. exact check_decoded_iff_encoded. Qed.
Print Assumptions C02_check_decoded_iff_encoded.

(* every opcode of internal/compiler/opcodes.go (regenerated table) has exactly one decoder entry *)
Theorem C02_opcode_table_complete : op_tab_ok = true.
Proof. exact op_tab_complete. Qed.
Print Assumptions C02_opcode_table_complete.

(* ---- 3. every panic-raising / panic-handling site of the repository is classified --------- *)

Theorem C02_all_panic_sites_classified : forall s, In s sites -> classify s <> None.
Proof. exact all_sites_classified. Qed.
Print Assumptions C02_all_panic_sites_classified.

Theorem C02_classification_has_no_stale_entry : entries_live = true.
Proof. exact entries_are_live. Qed.
Print Assumptions C02_classification_has_no_stale_entry.

(* no site is classified reachable any more (the three that were -- ParseProgram's re-panic,
   fromNative, setSpecial's MustCompile -- are protected by the repairs of F-C02-1, 3, 4, 7) *)
Theorem C02_reachable_sites : reachable_sites = [].
Proof. exact reachable_sites_are. Qed.
Print Assumptions C02_reachable_sites.

(* ---- 4. the one run-time MustCompile: setSpecial(RS) with a one-byte separator (was F-C02-1, repaired) ---- *)

(* no empty or one-byte record separator -- any of the 256 bytes -- makes setSpecial panic *)
Theorem C02_rs_one_byte_never_panics : forall rs, (length rs <= 1)%nat -> set_rs_short rs = RsOk.
Proof. exact rs_one_byte_never_panics. Qed.
Print Assumptions C02_rs_one_byte_never_panics.

(* the utf8.ValidString test is what prevents it: MustCompile(QuoteMeta(b)) alone panics exactly
   on the non-ASCII bytes *)
Theorem C02_rs_guard_is_needed : forall b, must_compile_quoted [b] = RsPanic <-> ~ (0 <= b < 128).
Proof. exact must_compile_quoted_exact. Qed.
Print Assumptions C02_rs_guard_is_needed.

(* the former witness: RS = "\xff" *)
Example C02_rs_former_witness : set_rs_short [255] = RsOk.
Proof. reflexivity. Qed.

(* ---- 4b. CSV/TSV input: $i after `getline var` (was finding F-C02-8, repaired) ------------------ *)

(* whatever sequence of records read by the main loop, records read by `getline var` /
   `getline arr[k]`, uses of NF, reads of $i and changes of INPUTMODE in the middle of the stream
   happens on a stream opened in CSV/TSV input mode (its splitter is fixed when the scanner is
   created), getField never indexes p.fieldsIsTrueStr out of range *)
Theorem C02_csv_fields_never_panic : forall ops, f_run fs_init ops <> None.
Proof. exact csv_fields_never_panic. Qed.
Print Assumptions C02_csv_fields_never_panic.

(* ... because a record read into a variable leaves the current record's fields as they were *)
Theorem C02_getline_var_keeps_fields : forall s n, f_step s (OGetlineVar n) = Some s.
Proof. exact getline_var_keeps_fields. Qed.
Print Assumptions C02_getline_var_keeps_fields.

(* the former witness: BEGIN { n = NF; getline x; print $1 } with a three-field first record *)
Example C02_csv_former_witness : f_run fs_init [ONF; OGetlineVar 3; OField 1] <> None.
Proof. discriminate. Qed.

(* NR == 1 { INPUTMODE = ""; n = NF; getline x; print $3 } on "p,q" / "a,b,c": the CSV scanner
   outlives the switch to default mode; getline restores p.fields whatever the current mode *)
Example C02_csv_mode_switch_witness :
  f_run fs_init [ORecord 2 1; OSetMode false; ONF; OGetlineVar 3; OField 3] <> None.
Proof. discriminate. Qed.

(* ---- non-vacuity ---------------------------------------------------------------------------- *)

(* a primitive record meeting [prims_shape] exists: any record, with CallBuiltin forced to the table *)
Example C02_hypothesis_satisfiable : prims_shape (reshape Z tstate unit toy_plain).
Proof. apply reshape_shape. Qed.

(* the compiled example program of C01 (function call, while with break/continue, print, for-in)
   passes the check and, run on the toy primitives, ends with the stack where it started *)
Definition ex_cfuncs : list cfunc := map comp_func ex_funcs.
Example C02_example_checks :
  check_funcs ex_cfuncs = true /\
  check_code (ftable_of ex_cfuncs) 0 false 0 0 (comp_block ex_prog) = true /\
  (exists m', run (reshape Z tstate unit toy_plain) ex_cfuncs 400 (comp_block ex_prog) 0 [5; 6] m0 = VDone [5; 6] m').
Proof. split; [vm_compute; reflexivity|]. split; [vm_compute; reflexivity|]. eexists. vm_compute. reflexivity. Qed.

(* what the check rejects: a Drop on an empty stack, a jump into the middle of an instruction,
   a local outside the frame, a call of a missing function, an unbalanced for-in body, a Return at
   top level -- and the machine really gets stuck on the first of them *)
Example C02_rejects :
  check_code [] 0 false 0 0 [IDrop] = false /\
  check_code [] 0 false 0 0 [IJump 1; INum 0; IDrop] = false /\
  check_code [] 1 true 0 0 [ILocal 1; IDrop] = false /\
  check_code [] 0 false 0 0 [ICallUser 0 []; IDrop] = false /\
  check_code [] 0 false 0 0 [IForIn SGlobal 0 SGlobal 0 2; INum 0] = false /\
  check_code [] 0 false 0 0 [IReturnNull] = false /\
  run toy_plain [] 5 [IDrop] 0 [] m0 = VStuck.
Proof. repeat split; vm_compute; reflexivity. Qed.

(* the decoder on real words: `BEGIN { print $1 }` as the Go compiler emits it *)
Example C02_decode_example :
  decode [opn "FieldInt"; 1; opn "Print"; 1; redir_tok RNone] = Some [IFieldInt 1; IPrint 1 RNone].
Proof. vm_compute. reflexivity. Qed.

(* ---- 5. primitive operations: no-panic theorems of other properties, as C02 corollaries ---- *)

From Verif Require Import Model.Builtins Proofs.BuiltinsBytes Properties.C10.

(* substr never slices out of range, whatever doubles arrive (NaN, +-inf, |x| >= 2^63)  [C10] *)
Theorem C02_prim_substr_no_panic : forall s x y, go_len s ->
  (exists r, substr_bytes s x = Ok r) /\ (exists r, substr_len_bytes s x y = Ok r).
Proof. intros s x y H. split; [exact (C10_substr_no_panic s x H)|exact (C10_substr_len_no_panic s x y H)]. Qed.
Print Assumptions C02_prim_substr_no_panic.

From Verif Require Import Model.Scanner Model.Splitters Proofs.Scanner Properties.C07.

(* record reading: for every RS and every delivery of the input no split function panics,
   advances outside the data or stalls  [C07] *)
Theorem C02_prim_record_reading_never_fails : forall (find : bytes -> option (Z * Z)),
  (forall d s e, find d = Some (s, e) -> 0 <= s /\ s <= e /\ e <= zlen d) ->
  forall rs last_eof chunks, reader_ok last_eof O chunks ->
  snd (scan unit record (goawk_split rs find) last_eof tt chunks) = Done.
Proof. exact C07_never_fails. Qed.
Print Assumptions C02_prim_record_reading_never_fails.

From Verif Require Import Model.Resolver Properties.C16.

(* the resolver never indexes Params out of range nor reflects on a missing native function  [C16] *)
Theorem C02_prim_resolver_no_panic : forall (pi : oracle) (P : program),
  resolve pi P <> RPanic.
Proof. exact C16_no_panic. Qed.
Print Assumptions C02_prim_resolver_no_panic.

From Coq Require Import Permutation.
From Verif Require Import Model.Native Proofs.NativeCheck Proofs.NativeCall Proofs.NativeRun Properties.C17.

(* calls of native Go functions whose signature checkNativeFunc accepts (user-defined types of the
   documented kinds included) never panic in callNative  [C17] *)
Theorem C02_prim_native_call_no_panic : forall pf pp ff tbl idx s body args,
  nindex tbl idx = NOk (s, body) -> wf_sig s -> acceptable_sig s = true -> body_ok s body ->
  (variadic s = true \/ zlen args <= zlen (params s)) ->
  exists r, call_native pf pp ff tbl idx args = NOk r.
Proof.
  intros pf pp ff tbl idx s body args H1 H2 H3 H6 H7.
  destruct (C17_valid_sig_no_panic pf pp ff tbl idx s body args H1 H2 H3 H6 H7) as [r [Hr _]].
  exists r. exact Hr.
Qed.
Print Assumptions C02_prim_native_call_no_panic.

(* whatever values Go's typing allows in Funcs (nil, non-functions, functions of any shape), in
   both iteration orders, for every called name and argument list: parse + set-up + call never
   panic  [C17] *)
Theorem C02_prim_funcs_values_never_panic : forall pf pp ff funcs_r funcs_i awk name args,
  NoDup (map fst funcs_i) -> Permutation.Permutation funcs_r funcs_i ->
  (forall n f, In (n, f) funcs_i -> go_typed f) ->
  forall k, run pf pp ff funcs_r funcs_i awk name args <> OPanic k.
Proof. exact C17_never_panics. Qed.
Print Assumptions C02_prim_funcs_values_never_panic.

From Verif Require Import Model.Printf Proofs.PrintfParse Properties.C09.

(* sprintf / printf: argument indexing, the %c slice, types[i+1], stars[0] and the cut of ".*" out
   of the cached format never go out of range, whatever the format and arguments  [C09] *)
Theorem C02_prim_sprintf_no_panic : forall chars ffmt format args,
  (forall x, PrintfParse.no_panic (ffmt x)) -> PrintfParse.no_panic (Printf.sprintf chars ffmt format args).
Proof. exact C09_sprintf_no_panic. Qed.
Print Assumptions C02_prim_sprintf_no_panic.

From Verif Require Import Model.Value Properties.C05.

(* the numeric-prefix scanner (hasNaNPrefix / hasInfPrefix / hasHexPrefix and the digit loops)
   never indexes past the string  [C05] *)
Theorem C02_prim_prefix_scan_no_panic : forall s, Value.scan_prefix s <> Value.PSPanic.
Proof. exact C05_prefix_scan_no_panic. Qed.
Print Assumptions C02_prim_prefix_scan_no_panic.

From Verif Require Import Model.Fields Proofs.FieldsSpec Properties.C06.

(* $0 / fields / NF: no script of record, field and NF updates makes the record code slice or
   index out of range  [C06] *)
Theorem C02_prim_fields_no_panic : forall rx am, C06.engine_ok rx am ->
  forall ops, Forall (FieldsSpec.op_safe rx) ops -> Fields.run rx am ops (Fields.init rx) <> Panic.
Proof. exact C06_no_panic. Qed.
Print Assumptions C02_prim_fields_no_panic.
