(* C11 — Input bookkeeping: NR, FNR, FILENAME, operands, getline, ranges, next, exit. *)
From Verif Require Import Lib.Base Model.Input.
