(* C11 — Input bookkeeping: NR, FNR, FILENAME, operands, getline, ranges, next, exit.
   Only statements closed by [exact] of a lemma proved in Proofs/, Print Assumptions and
   non-vacuity examples.  The two defects the first build found (F-C11-1, F-C11-2) are repaired in
   the tree; their former [_full_statement]s are theorems now (C11_next_anywhere..., C11_assign_value).

   Vocabulary (Model/Input.v, Proofs/Input*.v).  The AWK program is an ARBITRARY deterministic
   machine: a type [U] of program states, [step : U -> st -> req * U] (the next request of the
   program: a getline form, an assignment to NR/FNR/ARGV/ARGC/$0/a variable, a trace, or the end of
   the current block with outcome value / next / nextfile / exit / error) and
   [enter : blk -> U -> U] (start BEGIN, a pattern, a rule body, END).  Rule bodies, pattern
   expressions, functions and loops live inside [U]; the theorems hold for every [U], [step], [enter].
   [st] is the state of goawk's input subsystem; [log s] is the (ghost) history of events;
   [hist s] = the history oldest first.  [exec_all] = executeAll, [main_loop] = execActions,
   [exec_rules] = one record through all rules, [run] = p.execute of one block,
   [next_line] = nextLine, [do_getline] = the Getline* opcodes. *)
From Verif Require Import Lib.Base Model.Input Proofs.Input Proofs.InputLift Proofs.InputHist Proofs.InputCtl
  Proofs.InputMain Proofs.InputScript Proofs.InputRange Proofs.InputHistory.

(* ------------------------------------------------------------------------------------------ *)
(* main_input_order + assign_operands_timing.
   For every program that leaves ARGV, ARGC and the file "-" alone (invariant [G] of its own state
   under which all its requests are [neutral]), at the end of every run -- normal end, exit, or
   run-time error -- the main-input events of the history (file opened, record delivered or
   abandoned by nextfile, assignment operand processed, unopenable operand), in order, followed by
   what the final state would still deliver, are exactly the stream [plan_ops] determined by the
   operand list: operands left to right, each var=value processed at the moment it is reached,
   empty operands skipped, stdin iff no file operand was seen. *)
Theorem C11_main_input_order :
  forall (U : Type) (step : U -> st -> req * U) (enter : blk -> U -> U) (e : env) (G : U -> Prop)
         (fuel : nat) (rules : list rule) (has_end : bool) (u : U) (a0 : bytes) (args : list bytes)
         (sin : list record) (u' : U) (s' : st),
    (forall u s, G u -> neutral (fst (step u s)) /\ G (snd (step u s))) ->
    (forall b u, G u -> G (enter b u)) -> G u ->
    exec_all U step enter e fuel rules has_end u (init_st a0 args sin) = FOk u' s' \/
    exec_all U step enter e fuel rules has_end u (init_st a0 args sin) = FErr u' s' ->
    pev_of (hist s') ++ plan e s' = plan_ops e args false sin.
Proof. exact main_input_order. Qed.
Print Assumptions C11_main_input_order.

(* If the main loop runs to the end of the input, the events it produced are exactly the plan of the
   state it started in, and (no nextfile) the (FILENAME, record) pairs delivered to the loop and to
   plain getline / getline var are exactly the records of that plan, in order. *)
Theorem C11_main_loop_complete :
  forall (U : Type) (step : U -> st -> req * U) (enter : blk -> U -> U) (e : env) (G : U -> Prop)
         fuel n rules flags u s u' s' fl',
    (forall u s, G u -> neutral (fst (step u s)) /\ G (snd (step u s))) ->
    (forall b u, G u -> G (enter b u)) -> G u ->
    main_loop U step enter e fuel n rules flags u s = LCont u' s' fl' ->
    exists new, log s' = new ++ log s /\ pev_of (rev new) = plan e s /\
                (no_skip new -> delivered (rev new) = recs_of (plan e s)).
Proof. exact main_loop_complete. Qed.
Print Assumptions C11_main_loop_complete.

(* the specification stream, equation by equation *)
Theorem C11_plan_no_operands : forall e sin,
  plan_ops e [] false sin = PFile b_dash :: map (PRec b_dash) sin /\ plan_ops e [] true sin = [].
Proof. exact plan_ops_end. Qed.
Theorem C11_plan_empty_operand : forall e ops hd sin, plan_ops e ([] :: ops) hd sin = plan_ops e ops hd sin.
Proof. exact plan_ops_empty. Qed.
Theorem C11_plan_assignment : forall e name ops hd sin v raw val,
  noargvars e = false -> parse_assign name = Some (v, raw) -> operand_value raw = Some val -> assign_ok v val = true ->
  plan_ops e (name :: ops) hd sin = PAssign v val :: plan_ops e ops hd sin.
Proof. exact plan_ops_assign. Qed.
Theorem C11_plan_dash : forall e ops hd sin,
  plan_ops e (b_dash :: ops) hd sin = PFile b_dash :: map (PRec b_dash) sin ++ plan_ops e ops true [].
Proof. exact plan_ops_dash. Qed.
Theorem C11_plan_file : forall e name ops hd sin recs,
  (if noargvars e then None else parse_assign name) = None -> name <> [] -> bytes_eqb name b_dash = false ->
  blookup (fs e) name = Some recs ->
  plan_ops e (name :: ops) hd sin = PFile name :: map (PRec name) recs ++ plan_ops e ops true sin.
Proof. exact plan_ops_file. Qed.
Theorem C11_plan_unopenable : forall e name ops hd sin,
  (if noargvars e then None else parse_assign name) = None -> name <> [] -> bytes_eqb name b_dash = false ->
  blookup (fs e) name = None ->
  plan_ops e (name :: ops) hd sin = PBad name :: plan_ops e ops hd sin.
Proof. exact plan_ops_nofile. Qed.
(* stdin iff no file operand: only empty operands and assignments => the assignments, then standard input *)
Theorem C11_stdin_iff_no_file_operand : forall e ops sin,
  Forall (skipped_operand e) ops ->
  exists assigns, Forall is_assign assigns /\
    plan_ops e ops false sin = assigns ++ PFile b_dash :: map (PRec b_dash) sin.
Proof. exact plan_ops_no_file_operand. Qed.
Print Assumptions C11_plan_file.
Print Assumptions C11_stdin_iff_no_file_operand.

(* every single call of nextLine moves a prefix of the plan into the history, never needs more
   fuel than argc - idx, and leaves ARGV and ARGC alone *)
Theorem C11_next_line_step : forall e s res s',
  next_line e s = (res, s') -> res <> NLUnmod ->
  res <> NLFuel /\
  exists new, log s' = new ++ log s /\ argv s' = argv s /\ argc s' = argc s /\
    pev_of (rev new) ++ plan e s' = plan e s.
Proof. exact next_line_plan. Qed.
Print Assumptions C11_next_line_step.

(* every request other than ARGV/ARGC edits and getline <"-" keeps history ++ plan constant *)
Theorem C11_request_step : forall e r s s', neutral r -> prim e r s = Some s' -> advances e s s'.
Proof. exact prim_advances. Qed.
Print Assumptions C11_request_step.

(* the same for the extracted script machine that the correspondence check runs *)
Theorem C11_script_main_input_order : forall e p fuel args sin k' s',
  clean_prog p = true ->
  script_exec e p fuel args sin = FOk k' s' \/ script_exec e p fuel args sin = FErr k' s' ->
  pev_of (hist s') ++ plan e s' = plan_ops e args false sin.
Proof. exact script_main_input_order. Qed.
Print Assumptions C11_script_main_input_order.

(* ------------------------------------------------------------------------------------------ *)
(* counters.  For EVERY program (no restriction), at the end of every run NR, FNR, FILENAME, the exit
   status and the variables are the fold of the history: NR +1 per record delivered (main loop,
   getline, getline var) and nothing else except explicit assignments (NR=... operand, NR = ...);
   FNR likewise and 0 at each file switch; FILENAME = the last file switched to; status = the last
   exit value; variables = operand assignments, program assignments and getline var in order. *)
Theorem C11_counters :
  forall (U : Type) (step : U -> st -> req * U) (enter : blk -> U -> U) (e : env)
         fuel rules has_end u a0 args sin u' s',
    exec_all U step enter e fuel rules has_end u (init_st a0 args sin) = FOk u' s' \/
    exec_all U step enter e fuel rules has_end u (init_st a0 args sin) = FErr u' s' ->
    obs_of s' = fold_left (obs_ev e) (hist s') (0, 0, [], 0, []).
Proof. exact counters_of_history. Qed.
Print Assumptions C11_counters.

(* one request, one call of nextLine: the observables move by exactly the new events *)
Theorem C11_counters_step : forall e r s s', prim e r s = Some s' -> tracks e s s'.
Proof. exact prim_tracks. Qed.
Theorem C11_counters_next_line : forall e s res s', next_line e s = (res, s') -> tracks e s s'.
Proof. exact next_line_tracks. Qed.

(* NR = NR0 + number of main-input records taken, over any stretch of any program that does not assign NR *)
Theorem C11_nr_counts_records :
  forall (U : Type) (step : U -> st -> req * U) (e : env) fuel u s o u' s',
    run U step e fuel u s = ROk o u' s' ->
    exists new, log s' = new ++ log s /\
      (forallb (fun v => negb (writes_nr v)) new = true -> NR s' = NR s + count_recs new).
Proof. exact nr_counts_records. Qed.
Print Assumptions C11_nr_counts_records.

(* FNR = number of records since the last file switch *)
Theorem C11_fnr_since_file_switch : forall l1 name l2 x,
  forallb (fun v => negb (writes_fnr v)) l2 = true ->
  fold_left fnr_ev (l1 ++ EvSetFile name :: l2) x = count_recs l2.
Proof. exact fnr_since_file_switch. Qed.

(* the exit status is the last exit value *)
Theorem C11_exit_status_last : forall l x n l',
  forallb (fun v => match v with EvExit _ => false | _ => true end) l' = true ->
  fold_left status_ev (l ++ EvExit n :: l') x = n.
Proof. exact status_fold_last. Qed.
Print Assumptions C11_exit_status_last.

(* ------------------------------------------------------------------------------------------ *)
(* the write sets of the getline forms *)

(* getline <file (any target): NR, FNR, FILENAME and the operand cursor are untouched *)
Theorem C11_getline_file_frame : forall e f tg s s',
  do_getline e (SFile f) tg s = Some s' ->
  NR s' = NR s /\ FNR s' = FNR s /\ FILENAME s' = FILENAME s /\ idx s' = idx s /\ cur s' = cur s /\
  argv s' = argv s /\ argc s' = argc s /\ had s' = had s.
Proof. exact getline_file_frame. Qed.
(* cmd | getline (any target): the same, and stdin is untouched *)
Theorem C11_getline_cmd_frame : forall e c tg s s',
  do_getline e (SCmd c) tg s = Some s' ->
  NR s' = NR s /\ FNR s' = FNR s /\ FILENAME s' = FILENAME s /\ idx s' = idx s /\ cur s' = cur s /\
  argv s' = argv s /\ argc s' = argc s /\ had s' = had s /\ stdin s' = stdin s.
Proof. exact getline_cmd_frame. Qed.
(* getline var (any source): $0 and the fields, hence NF, are untouched *)
Theorem C11_getline_var_frame : forall e sr v s s',
  do_getline e sr (TVar v) s = Some s' -> line s' = line s /\ fields s' = fields s.
Proof. exact getline_var_frame. Qed.
(* the same with the input mode spelled out: in default, CSV and TSV mode alike ([m] = None, Some 44,
   Some 9: the fields of a record are whatever the mode's splitter gives, [split_mode]) a getline into
   a variable -- unredirected, from a file, from a command -- changes neither $0 nor any field nor NF *)
Theorem C11_getline_var_frame_every_mode : forall (m : option Z) fs cmds globals nav sr v s s',
  do_getline (mkEnv fs cmds globals nav m) sr (TVar v) s = Some s' -> line s' = line s /\ fields s' = fields s.
Proof. exact getline_var_frame_mode. Qed.
(* ... and var receives the record read *)
Theorem C11_getline_var_value : forall e sr v s s',
  do_getline e sr (TVar v) s = Some s' -> ret s' = 1 ->
  exists l s1, rd_read e sr s = Some (1, l, s1) /\ blookup (vars s') v = Some l.
Proof. exact getline_var_value. Qed.
(* plain getline with a record available: $0, NF, NR, FNR *)
Theorem C11_getline_main_line : forall e s name r rest,
  cur s = Some (name, r :: rest) ->
  exists s', do_getline e SMain TLine s = Some s' /\ ret s' = 1 /\
    NR s' = NR s + 1 /\ FNR s' = FNR s + 1 /\ FILENAME s' = FILENAME s /\
    line s' = r /\ fields s' = split_mode e r /\ vars s' = vars s /\ cur s' = Some (name, rest).
Proof. exact getline_main_line. Qed.
(* getline var with a record available: var, NR, FNR -- not $0, not NF *)
Theorem C11_getline_main_var : forall e s name r rest v,
  cur s = Some (name, r :: rest) ->
  exists s', do_getline e SMain (TVar v) s = Some s' /\ ret s' = 1 /\
    NR s' = NR s + 1 /\ FNR s' = FNR s + 1 /\ FILENAME s' = FILENAME s /\
    line s' = line s /\ fields s' = fields s /\ vars s' = bupdate (vars s) v r /\ cur s' = Some (name, rest).
Proof. exact getline_main_var. Qed.
(* nextLine itself never touches $0, the fields, the getline streams, the output, the status *)
Theorem C11_next_line_frame : forall e s res s',
  next_line e s = (res, s') ->
  line s' = line s /\ fields s' = fields s /\ out s' = out s /\ rd s' = rd s /\ rdstdin s' = rdstdin s /\
  ret s' = ret s /\ status s' = status s.
Proof. exact next_line_frame. Qed.
Print Assumptions C11_getline_file_frame.
Print Assumptions C11_getline_var_frame.
Print Assumptions C11_next_line_frame.

(* ------------------------------------------------------------------------------------------ *)
(* range_spec: with side-effect-free patterns p1 p2 and the flag initially off, record i is selected
   iff some record j <= i matches p1 and no record in [j, i) matches p2 -- i.e. the selected records
   are the maximal segments from a p1-record through the next p2-record inclusive, possibly the same record *)
Theorem C11_range_spec : forall (p1 p2 : record -> bool) (recs : list record) (f : bool) (i : nat),
  nth i (range_select p1 p2 f recs) false = true <->
  (i < length recs)%nat /\
  ((f = true /\ forall k, (k < i)%nat -> p2 (nth k recs []) = false) \/
   exists j, (j <= i)%nat /\ p1 (nth j recs []) = true /\
             forall k, (j <= k < i)%nat -> p2 (nth k recs []) = false).
Proof. exact range_select_spec. Qed.
Print Assumptions C11_range_spec.

(* the range case of execActions is range_step: per-rule flag in, (matched, flag) out *)
Theorem C11_range_rule :
  forall (U : Type) (step : U -> st -> req * U) (enter : blk -> U -> U) (e : env) fuel r i f u s p1 p2,
    rk r = PRange -> pure_pat U step enter e fuel (BPat i false) p1 -> pure_pat U step enter e fuel (BPat i true) p2 ->
    exists u', eval_pat U step enter e fuel r i f u s =
               PVal (fst (range_step (p1 (line s)) (p2 (line s)) f)) (snd (range_step (p1 (line s)) (p2 (line s)) f)) u' s.
Proof. exact eval_pat_range. Qed.
Print Assumptions C11_range_rule.

(* end to end: the program  "p1, p2"  (one range rule, no action) with side-effect-free patterns: if the
   main loop reaches the end of input, it has printed exactly the records selected by range_select
   (C11_range_spec: the segments) among the records [recs] nextLine handed out, in order *)
Theorem C11_range_program_prints :
  forall (U : Type) (step : U -> st -> req * U) (enter : blk -> U -> U) (e : env) (fuel : nat) (p1 p2 : record -> bool),
    pure_pat U step enter e fuel (BPat 0 false) p1 -> pure_pat U step enter e fuel (BPat 0 true) p2 ->
    forall n f u s u' s' fl',
      main_loop U step enter e fuel n [mkRule PRange false] [f] u s = LCont u' s' fl' ->
      exists recs, delivers s s' recs /\
        out s' = rev (map OPrint (select (range_select p1 p2 f recs) recs)) ++ out s.
Proof. exact range_program_prints. Qed.
Print Assumptions C11_range_program_prints.

(* ------------------------------------------------------------------------------------------ *)
(* next / nextfile / exit *)

(* next_unwinds: the body of a matching rule ends with "next" (executed at any depth inside U:
   function, loop): the remaining rules are not run, nothing else changes, the loop continues *)
Theorem C11_next_unwinds :
  forall (U : Type) (step : U -> st -> req * U) (enter : blk -> U -> U) (e : env)
         fuel r rules i done f fl u s f' u1 s1 u2 s2,
    eval_pat U step enter e fuel r i f u s = PVal true f' u1 s1 -> has_body r = true ->
    run U step e fuel (enter (BBody i) u1) s1 = ROk ONext u2 s2 ->
    exec_rules U step enter e fuel (r :: rules) i done (f :: fl) u s = LCont u2 s2 (rev (f' :: done) ++ fl).
Proof. exact exec_rules_next. Qed.
(* nextfile_unwinds: the same, and the rest of the current file is dropped ... *)
Theorem C11_nextfile_unwinds :
  forall (U : Type) (step : U -> st -> req * U) (enter : blk -> U -> U) (e : env)
         fuel r rules i done f fl u s f' u1 s1 u2 s2,
    eval_pat U step enter e fuel r i f u s = PVal true f' u1 s1 -> has_body r = true ->
    run U step e fuel (enter (BBody i) u1) s1 = ROk ONextfile u2 s2 ->
    exec_rules U step enter e fuel (r :: rules) i done (f :: fl) u s = LCont u2 (drop_file s2) (rev (f' :: done) ++ fl).
Proof. exact exec_rules_nextfile. Qed.
(* ... so that the next record comes from the next operand *)
Theorem C11_nextfile_plan : forall e s, plan e (drop_file s) = planF e (argv s) (argc s) (idx s) (had s) (stdin s).
Proof. exact drop_file_plan. Qed.
Print Assumptions C11_next_unwinds.
Print Assumptions C11_nextfile_unwinds.

(* next anywhere in a main rule: also when it is executed inside a function called from the PATTERN
   expression the record is abandoned and the loop continues (the former full statement; finding
   F-C11-1 is repaired: execActions routes errNext/errNextfile from the pattern sites like from a body) *)
Theorem C11_next_anywhere :
  forall (U : Type) (step : U -> st -> req * U) (enter : blk -> U -> U) (e : env)
         fuel r rules i done f fl u s u1 s1,
    rk r = PExpr ->
    run U step e fuel (enter (BPat i false) u) s = ROk ONext u1 s1 ->
    exec_rules U step enter e fuel (r :: rules) i done (f :: fl) u s = LCont u1 s1 (rev (f :: done) ++ fl).
Proof. exact exec_rules_pat_next. Qed.
Theorem C11_nextfile_anywhere :
  forall (U : Type) (step : U -> st -> req * U) (enter : blk -> U -> U) (e : env)
         fuel r rules i done f fl u s u1 s1,
    rk r = PExpr ->
    run U step e fuel (enter (BPat i false) u) s = ROk ONextfile u1 s1 ->
    exec_rules U step enter e fuel (r :: rules) i done (f :: fl) u s = LCont u1 (drop_file s1) (rev (f :: done) ++ fl).
Proof. exact exec_rules_pat_nextfile. Qed.
(* from the start pattern of a closed range the flag stays off, from the stop pattern of an open range it stays on *)
Theorem C11_next_from_range_start :
  forall (U : Type) (step : U -> st -> req * U) (enter : blk -> U -> U) (e : env)
         fuel r rules i done fl u s u1 s1,
    rk r = PRange ->
    run U step e fuel (enter (BPat i false) u) s = ROk ONext u1 s1 ->
    exec_rules U step enter e fuel (r :: rules) i done (false :: fl) u s = LCont u1 s1 (rev (false :: done) ++ fl).
Proof. exact exec_rules_range_start_next. Qed.
Theorem C11_next_from_range_stop :
  forall (U : Type) (step : U -> st -> req * U) (enter : blk -> U -> U) (e : env)
         fuel r rules i done fl u s u1 s1,
    rk r = PRange ->
    run U step e fuel (enter (BPat i true) u) s = ROk ONext u1 s1 ->
    exec_rules U step enter e fuel (r :: rules) i done (true :: fl) u s = LCont u1 s1 (rev (true :: done) ++ fl).
Proof. exact exec_rules_range_stop_next. Qed.
(* nextfile at the two range sites (first pattern of a closed range, second pattern of an open range):
   the record is abandoned AND the rest of the current file is dropped ([drop_file], so that by
   C11_nextfile_plan the next record comes from the next operand); the flag keeps its value *)
Theorem C11_nextfile_from_range_start :
  forall (U : Type) (step : U -> st -> req * U) (enter : blk -> U -> U) (e : env)
         fuel r rules i done fl u s u1 s1,
    rk r = PRange ->
    run U step e fuel (enter (BPat i false) u) s = ROk ONextfile u1 s1 ->
    exec_rules U step enter e fuel (r :: rules) i done (false :: fl) u s = LCont u1 (drop_file s1) (rev (false :: done) ++ fl).
Proof. exact exec_rules_range_start_nextfile. Qed.
Theorem C11_nextfile_from_range_stop :
  forall (U : Type) (step : U -> st -> req * U) (enter : blk -> U -> U) (e : env)
         fuel r rules i done fl u s u1 s1,
    rk r = PRange ->
    run U step e fuel (enter (BPat i true) u) s = ROk ONextfile u1 s1 ->
    exec_rules U step enter e fuel (r :: rules) i done (true :: fl) u s = LCont u1 (drop_file s1) (rev (true :: done) ++ fl).
Proof. exact exec_rules_range_stop_nextfile. Qed.
Print Assumptions C11_nextfile_from_range_stop.
(* the OPENING record: the first pattern of a closed range matches and next / nextfile is executed in a
   function called from the second pattern on that same record: the range flag is SET afterwards -- the
   following records are in the range although none of them matched the first pattern *)
Theorem C11_next_from_range_stop_on_opening_record :
  forall (U : Type) (step : U -> st -> req * U) (enter : blk -> U -> U) (e : env)
         fuel r rules i done fl u s u1 s1 u2 s2,
    rk r = PRange ->
    run U step e fuel (enter (BPat i false) u) s = ROk (OVal true) u1 s1 ->
    run U step e fuel (enter (BPat i true) u1) s1 = ROk ONext u2 s2 ->
    exec_rules U step enter e fuel (r :: rules) i done (false :: fl) u s = LCont u2 s2 (rev (true :: done) ++ fl).
Proof. exact exec_rules_opening_record_next. Qed.
Theorem C11_nextfile_from_range_stop_on_opening_record :
  forall (U : Type) (step : U -> st -> req * U) (enter : blk -> U -> U) (e : env)
         fuel r rules i done fl u s u1 s1 u2 s2,
    rk r = PRange ->
    run U step e fuel (enter (BPat i false) u) s = ROk (OVal true) u1 s1 ->
    run U step e fuel (enter (BPat i true) u1) s1 = ROk ONextfile u2 s2 ->
    exec_rules U step enter e fuel (r :: rules) i done (false :: fl) u s = LCont u2 (drop_file s2) (rev (true :: done) ++ fl).
Proof. exact exec_rules_opening_record_nextfile. Qed.
Print Assumptions C11_next_from_range_stop_on_opening_record.
Print Assumptions C11_nextfile_from_range_stop_on_opening_record.

Print Assumptions C11_next_anywhere.
Print Assumptions C11_nextfile_anywhere.

(* the former witness  function f() { next }  f() { }  END { T(9) }  over file "f" = [a; b]:
   both records are read and abandoned, END runs, no error *)
Definition wit_next_prog : sprog :=
  mkProg [] [mkSRule (SPExpr (mkPat [SNext] CTrue)) (Some [])] [STrace 9 []] [].
Definition wit_env : env := mkEnv [([102], [[97]; [98]])] [] [] false None.
Example C11_ex_next_in_pattern :
  match script_exec wit_env wit_next_prog 50 [[102]] [] with
  | FOk _ s => NR s = 2 /\ out s = [OTrace 9 2 2 [102] [98] 1 0 [] [[98]]]
  | _ => False
  end.
Proof. vm_compute. split; reflexivity. Qed.

(* exit_semantics *)
(* exit in BEGIN: the main loop is not entered; END (if any) runs once, from the state BEGIN left *)
Theorem C11_exit_in_begin :
  forall (U : Type) (step : U -> st -> req * U) (enter : blk -> U -> U) (e : env) fuel rules has_end u s n u1 s1,
    run U step e fuel (enter BBegin u) s = ROk (OExit n) u1 s1 ->
    exec_all U step enter e fuel rules has_end u s =
    if negb has_end then FOk u1 s1
    else match run U step e fuel (enter BEnd u1) s1 with
         | RFuel => FFuel | RUnmod => FUnmod
         | ROk o3 u3 s3 => if is_exit o3 || is_val o3 then FOk u3 s3 else FErr u3 s3
         end.
Proof. exact exec_all_begin_exit. Qed.
(* exit in a main rule (or pattern): the rest of the input is skipped, END runs once from that state *)
Theorem C11_exit_in_main :
  forall (U : Type) (step : U -> st -> req * U) (enter : blk -> U -> U) (e : env) fuel rules has_end u s b u1 s1 n u2 s2,
    run U step e fuel (enter BBegin u) s = ROk (OVal b) u1 s1 ->
    main_loop U step enter e fuel fuel rules (map (fun _ => false) rules) u1 s1 = LStop (OExit n) u2 s2 ->
    rules <> [] ->
    exec_all U step enter e fuel rules has_end u s =
    if negb has_end then FOk u2 s2
    else match run U step e fuel (enter BEnd u2) s2 with
         | RFuel => FFuel | RUnmod => FUnmod
         | ROk o3 u3 s3 => if is_exit o3 || is_val o3 then FOk u3 s3 else FErr u3 s3
         end.
Proof. exact exec_all_main_exit. Qed.
Theorem C11_exit_in_rule_body :
  forall (U : Type) (step : U -> st -> req * U) (enter : blk -> U -> U) (e : env)
         fuel r rules i done f fl u s f' u1 s1 u2 s2 n,
    eval_pat U step enter e fuel r i f u s = PVal true f' u1 s1 -> has_body r = true ->
    run U step e fuel (enter (BBody i) u1) s1 = ROk (OExit n) u2 s2 ->
    exec_rules U step enter e fuel (r :: rules) i done (f :: fl) u s = LStop (OExit n) u2 s2.
Proof. exact exec_rules_exit. Qed.
(* exit stops the block it is in at once (in END: nothing more of END runs, and executeAll returns) *)
Theorem C11_exit_stops_block :
  forall (U : Type) (step : U -> st -> req * U) (e : env) fuel u s n u',
    step u s = (RDone (OExit n), u') ->
    exists s', run U step e (S fuel) u s = ROk (OExit n) u' s' /\
               status s' = match n with Some k => k | None => status s end /\ out s' = out s /\ NR s' = NR s.
Proof. exact run_exit_stops. Qed.
(* the input is exhausted: END runs once, from the state in which nextLine reported the end ... *)
Theorem C11_end_after_eof :
  forall (U : Type) (step : U -> st -> req * U) (enter : blk -> U -> U) (e : env) fuel rules has_end u s b u1 s1 u2 s2 fl,
    run U step e fuel (enter BBegin u) s = ROk (OVal b) u1 s1 ->
    main_loop U step enter e fuel fuel rules (map (fun _ => false) rules) u1 s1 = LCont u2 s2 fl ->
    (rules <> [] \/ has_end = true) ->
    exec_all U step enter e fuel rules has_end u s =
    if negb has_end then FOk u2 s2
    else match run U step e fuel (enter BEnd u2) s2 with
         | RFuel => FFuel | RUnmod => FUnmod
         | ROk o3 u3 s3 => if is_exit o3 || is_val o3 then FOk u3 s3 else FErr u3 s3
         end.
Proof. exact exec_all_main_eof. Qed.
(* ... end_sees_last_record: and in that state $0 and the fields are those left by the processing of
   the last record (s0 = state after the last iteration, or the initial one if there was no record) *)
Theorem C11_end_sees_last_record :
  forall (U : Type) (step : U -> st -> req * U) (enter : blk -> U -> U) (e : env) fuel rules n flags u s u' s' fl',
    main_loop U step enter e fuel n rules flags u s = LCont u' s' fl' ->
    exists s0, loop_reaches U step enter e fuel rules (u, s, flags) (u', s0, fl') /\
               next_line e s0 = (NLEof, s') /\ line s' = line s0 /\ fields s' = fields s0.
Proof. exact main_loop_end_record. Qed.
Print Assumptions C11_exit_in_begin.
Print Assumptions C11_exit_in_main.
Print Assumptions C11_end_sees_last_record.

(* ------------------------------------------------------------------------------------------ *)
(* assignment operands: name=value *)

(* an operand name=value with a well-formed name assigns exactly value, whatever bytes it contains
   (the former full statement; finding F-C11-2 is repaired: varRegex carries the s flag) *)
Theorem C11_assign_value : forall c rest v,
  is_alpha_ c = true -> forallb name_char rest = true ->
  parse_assign (c :: rest ++ 61 :: v) = Some (c :: rest, v).
Proof. exact parse_assign_spec. Qed.
Print Assumptions C11_assign_value.

(* the former witness: the operand "g=a\nb" now yields the value "a\nb" *)
Example C11_ex_assign_newline : parse_assign [103; 61; 97; 10; 98] = Some ([103], [97; 10; 98]).
Proof. vm_compute. reflexivity. Qed.

(* ------------------------------------------------------------------------------------------ *)
(* operation histories: several Execute calls on one Interpreter ([exec_history]: resetCore +
   setExecuteConfig + executeAll per run; [reset] = ResetVars between the runs).
   Every run is executeAll from the INITIAL input state [init_st] (operand cursor 1, no file seen,
   NR = FNR = 0, no open stream, status 0) and, inside exec_all, from all-false range flags: nothing of
   the input bookkeeping of run k-1 is visible in run k; only the program's own state U may be carried. *)
Theorem C11_history_runs_start_fresh :
  forall (U : Type) (step : U -> st -> req * U) (enter : blk -> U -> U) (a0 : bytes)
         reset fuel rules has_end u0 runs u,
    Forall2 (fun (r : run_in) (x : fin U) =>
               let '(e, args, sin) := r in
               exists uk, x = exec_all U step enter e fuel rules has_end uk (init_st a0 args sin))
            runs (exec_history U step enter a0 reset fuel rules has_end u0 u runs).
Proof. exact exec_history_fresh_input. Qed.
(* with ResetVars each run IS the fresh run *)
Theorem C11_history_reset_is_fresh :
  forall (U : Type) (step : U -> st -> req * U) (enter : blk -> U -> U) (a0 : bytes) fuel rules has_end u0 runs,
    exec_history U step enter a0 true fuel rules has_end u0 u0 runs =
    map (fun r : run_in => let '(e, args, sin) := r in
           exec_all U step enter e fuel rules has_end u0 (init_st a0 args sin)) runs.
Proof. exact exec_history_reset. Qed.
(* the history function the correspondence check evaluates ([script_history], extracted): with or
   without ResetVars it is the list of the fresh runs, and run k depends on the inputs of run k only *)
Theorem C11_script_history_is_fresh : forall p fuel reset runs u,
  exec_history (list stmt) (sstep p) (senter p) [103;111;97;119;107] reset fuel (map rule_of (sp_rules p))
               (match sp_end p with [] => false | _ => true end) [] u runs
  = script_history p fuel runs.
Proof. exact script_history_is_fresh. Qed.
Theorem C11_script_history_run_independent : forall p fuel runs k e args sin,
  nth_error runs k = Some (e, args, sin) ->
  nth_error (script_history p fuel runs) k = Some (script_exec e p fuel args sin).
Proof. exact script_history_nth. Qed.
Print Assumptions C11_history_runs_start_fresh.
Print Assumptions C11_script_history_is_fresh.
Print Assumptions C11_script_history_run_independent.

(* the seeded-defect shape: /S/,/E/ { T(1) }  run on f1 = [a; b S] (range open at the end of the run),
   then on f2 = [c]: the second run selects nothing *)
Definition ex_hist_env : env :=
  mkEnv [([102; 49], [[97]; [98; 32; 83]]); ([102; 50], [[99]])] [] [] false None.
Definition ex_hist_prog : sprog :=
  mkProg [] [mkSRule (SPRange (mkPat [] (CHas 83)) (mkPat [] (CHas 69))) (Some [STrace 1 []])] [] [].
Example C11_ex_history :
  map (fun x => match x with FOk _ s => Some (length (out s)) | _ => None end)
      (script_history ex_hist_prog 100 [(ex_hist_env, [[102; 49]], []); (ex_hist_env, [[102; 50]], [])])
  = [Some 1%nat; Some 0%nat].
Proof. vm_compute. reflexivity. Qed.

(* ------------------------------------------------------------------------------------------ *)
(* non-vacuity: the hypotheses are met by concrete programs, and the conclusions compute *)

Definition ex_env : env :=
  mkEnv [([102; 49], [[97]; [98; 32; 83]]); ([102; 50], [[99]])] [] [[103; 48]] false None.
(* BEGIN { }  { T(1) ; getline g0 }  END { T(9) }   over operands  f1 g0=1 "" f2 *)
Definition ex_prog : sprog :=
  mkProg [] [mkSRule SPNone (Some [STrace 1 [[103; 48]]; SGetline SMain (TVar [103; 48])])] [STrace 9 []] [].
Definition ex_args : list bytes := [[102; 49]; [103; 48; 61; 49]; []; [102; 50]].

Example C11_ex_clean : clean_prog ex_prog = true.
Proof. vm_compute. reflexivity. Qed.

(* the run ends normally; the whole plan was consumed; the history's events are the plan of the operands;
   NR = 3 records, FNR = 1, FILENAME = f2, g0 = "1" (getline g0 stored "b S", then the operand g0=1 was
   applied when f1 was exhausted, then the last getline g0 hit the end of input and stored nothing) *)
Example C11_ex_run :
  match script_exec ex_env ex_prog 100 ex_args [] with
  | FOk _ s => pev_of (hist s) = plan_ops ex_env ex_args false [] /\ plan ex_env s = [] /\
               NR s = 3 /\ FNR s = 1 /\ FILENAME s = [102; 50] /\ blookup (vars s) [103; 48] = Some [49] /\
               plan_ops ex_env ex_args false [] =
                 [PFile [102; 49]; PRec [102; 49] [97]; PRec [102; 49] [98; 32; 83]; PAssign [103; 48] [49];
                  PFile [102; 50]; PRec [102; 50] [99]]
  | _ => False
  end.
Proof. vm_compute. repeat split; reflexivity. Qed.

(* range: S..E segments; records: p, S, p, E, p, SE, p   (S = 83, E = 69) *)
Example C11_ex_range :
  range_select (fun r => mem_byte 83 r) (fun r => mem_byte 69 r) false
    [[112]; [83]; [112]; [69]; [112]; [83; 69]; [112]]
  = [false; true; true; true; false; true; false].
Proof. vm_compute. reflexivity. Qed.

(* the program  /S/,/E/  as a script: runs to the end and prints the segments of file f1 = [a; b S] *)
Definition ex_range_prog : sprog :=
  mkProg [] [mkSRule (SPRange (mkPat [] (CHas 83)) (mkPat [] (CHas 69))) None] [] [].
Example C11_ex_range_run :
  match script_exec ex_env ex_range_prog 100 [[102; 49]] [] with
  | FOk _ s => out s = [OPrint [98; 32; 83]]
  | _ => False
  end.
Proof. vm_compute. reflexivity. Qed.
(* its patterns are pure in the sense of C11_range_program_prints *)
Example C11_ex_pure_pat :
  pure_pat (list stmt) (sstep ex_range_prog) (senter ex_range_prog) ex_env 5 (BPat 0 false) (fun r => mem_byte 83 r).
Proof. intros u s. exists []. reflexivity. Qed.

(* CSV mode (separator 44): { getline g0; T(1) } over f1 = ["a,b,c"; "d"]: after the getline into g0
   the current record still has its three fields (the seeded-defect shape of round 3) *)
Definition ex_csv_env : env := mkEnv [([102; 49], [[97; 44; 98; 44; 99]; [100]])] [] [[103; 48]] false (Some 44).
Definition ex_csv_prog : sprog :=
  mkProg [] [mkSRule SPNone (Some [SGetline SMain (TVar [103; 48]); STrace 1 [[103; 48]]])] [] [].
Example C11_ex_csv_getline_var :
  match script_exec ex_csv_env ex_csv_prog 100 [[102; 49]] [] with
  | FOk _ s => out s = [OTrace 1 2 2 [102; 49] [97; 44; 98; 44; 99] 3 1 [[100]] [[97]; [98]; [99]]]
  | _ => False
  end.
Proof. vm_compute. reflexivity. Qed.

(* assignment operand parsing: "g0=x y" *)
Example C11_ex_assign : parse_assign [103; 48; 61; 120; 32; 121] = Some ([103; 48], [120; 32; 121]).
Proof. vm_compute. reflexivity. Qed.

(* a neutral machine exists for every U-invariant: the script machine with G = clean_block *)
Example C11_ex_neutral : forall k s, clean_block k = true ->
  neutral (fst (sstep ex_prog k s)) /\ clean_block (snd (sstep ex_prog k s)) = true.
Proof. exact (sstep_clean ex_prog C11_ex_clean). Qed.
