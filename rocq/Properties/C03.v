(* C03 — Parsing is total; errors carry a position inside the source.
   This file contains only statements closed by [exact] of a lemma proved in Proofs/,
   examples, and Print Assumptions.

   Vocabulary (Model/Lexer.v): [scan_all src ds] runs the model of lexer.NewLexer / Scan /
   ScanRegex over the source [src] until EOF or ILLEGAL; [ds] are the client's decisions
   (after each DIV / DIV_ASSIGN token: call ScanRegex or not) and is universally quantified.
   [pos_of_offset src k] is the specification: line = 1 + number of LF before offset k,
   column = 1 + number of bytes other than CR between the last LF before k and k.
   Ghost field of a reported token: [tstart], the offset at which its position was captured.

   History: on the tree before the fix commits "lexer unread restores nextPos from pos" and
   "lexer position stays at end of input" the statement C03_lexer_positions was false
   (findings F-C03-1, F-C03-3, F-C03-4; the former refutation witnesses are the Examples at the
   end of this file, now with their true positions). *)
From Verif Require Import Lib.Base Lib.Utf8 Model.Lexer
  Proofs.LexerPos Proofs.LexerScan Proofs.LexerTokens Proofs.LexerShow Proofs.LexerMain Proofs.LexerParsePos
  Gen.ParsePos.
Open Scope Z_scope.

(* Totality of the lexer: for every source and every client, the model never panics (no index
   or slice out of range, ScanRegex never called out of turn), the fuel length+2 always
   suffices, and the token stream ends with EOF or ILLEGAL (and only there). *)
Theorem C03_lexer_total : forall (src : bytes) (ds : list bool),
  exists os, scan_all src ds = LOk os /\ ends_final os.
Proof. exact lexer_total. Qed.
Print Assumptions C03_lexer_total.

(* The full statement about token positions: every token other than ILLEGAL is reported at the
   true line and column of its first byte; every ILLEGAL token at the line and column of an
   offset 0..len of the source.  All sources, all clients, no guard. *)
Definition C03_lexer_positions_statement : Prop :=
  forall src ds os, scan_all src ds = LOk os -> forall o, In o os -> token_claim src (otok o).

Theorem C03_lexer_positions : C03_lexer_positions_statement.
Proof. exact lexer_positions. Qed.
Print Assumptions C03_lexer_positions.

(* The specification advances like the lexer should: one byte at a time. *)
Theorem C03_pos_of_offset_step : forall src k c,
  index src k = Ok c -> pos_of_offset src (k + 1) = adv (pos_of_offset src k) c.
Proof. exact pos_of_offset_step. Qed.
Print Assumptions C03_pos_of_offset_step.

(* positions_exist: the position of every offset 0..len of the source is one the CLI can show:
   the model of goawk.go showSourceLine (checked indexing and slicing) does not panic on it,
   and it returns the prefix of the line up to the column. *)
Theorem C03_positions_exist : forall src k, 0 <= k <= zlen src ->
  exists line, show_source_line src (pos_of_offset src k)
               = Ok (line, ztake (snd (pos_of_offset src k) - 1) line) /\
               valid_pos src (pos_of_offset src k).
Proof. exact show_source_line_ok. Qed.
Print Assumptions C03_positions_exist.

(* hence every position the lexer reports can be shown: showSourceLine cannot be driven out of
   range by any lexer position *)
Theorem C03_reported_positions_showable : forall src ds os,
  scan_all src ds = LOk os ->
  forall o, In o os ->
  valid_pos src (tpos (otok o)) /\ exists r, show_source_line src (tpos (otok o)) = Ok r.
Proof. exact reported_positions_showable. Qed.
Print Assumptions C03_reported_positions_showable.

(* Table theorem (tables regenerated from parser/parser.go, internal/resolver/*.go on every
   check): every position given to ast.PosErrorf is p.pos, a saved copy of it, a ...Pos field
   of an AST node, a value of p.multiExprs, or the literal {1,1}; every stored position is
   p.pos or such a copy; p.pos is only assigned from lexer.Scan / lexer.ScanRegex.  So every
   ParseError position is a position reported by the lexer (to which the theorems above
   apply) or 1:1. *)
Theorem C03_parser_reports_lexer_positions :
  forallb site_ok pos_error_sites = true /\
  forallb site_ok pos_store_sites = true /\
  forallb scan_only cur_assign_sites = true /\
  (10 <=? length pos_error_sites)%nat = true /\ (10 <=? length pos_store_sites)%nat = true /\
  (2 <=? length cur_assign_sites)%nat = true.
Proof. exact parser_reports_lexer_positions. Qed.
Print Assumptions C03_parser_reports_lexer_positions.

(* Table theorem 2 (regenerated on every check): every type assertion without comma-ok in the
   packages behind ParseProgram (a failing one would escape ParseProgram as a runtime panic) is
   the deliberate re-panic of a recover(), or on a node the parser builds with that type, or
   protected by the resolver's check of the same un-reassigned argument expression (the slot
   typing being C16_sound). *)
Theorem C03_unchecked_assertions_classified :
  forallb assert_ok unchecked_asserts = true /\ (2 <=? length unchecked_asserts)%nat = true.
Proof. exact unchecked_assertions_classified. Qed.
Print Assumptions C03_unchecked_assertions_classified.

(* Table theorem 3 (regenerated on every check): the parser's context counters (loopDepth) are
   raised and lowered symmetrically, with no return in between, in every function of parser.go. *)
Theorem C03_context_counters_balanced :
  forallb counter_ok counter_sites = true /\ has_loop_depth = true.
Proof. exact context_counters_balanced. Qed.
Print Assumptions C03_context_counters_balanced.

(* The model's token numbers and keyword table are those of lexer/token.go (regenerated). *)
Theorem C03_token_numbers_agree : gen_tokens = model_tokens.
Proof. exact token_numbers_agree. Qed.
Print Assumptions C03_token_numbers_agree.

Theorem C03_keywords_agree :
  List.map (fun kv => (lit (fst kv), tok_value gen_tokens (snd kv))) gen_keywords = keywords.
Proof. exact keywords_agree. Qed.
Print Assumptions C03_keywords_agree.

(* ---- examples: the inputs on which the tree was wrong before the repair ------------------- *)
Definition summary (r : lres (list obs)) : list (position * Z * Z) :=
  match r with LOk os => map (fun o => (tpos (otok o), tkind (otok o), tstart (otok o))) os | _ => [] end.

(* 1e LF (F-C03-1): NEWLINE was reported at 2:0, EOF at 3:1 *)
Example C03_ex_dangling_lf :
  summary (scan_all [49; 101; 10] [])
  = [((1, 1), T_NUMBER, 0); ((1, 2), T_NAME, 1); ((1, 3), T_NEWLINE, 2); ((2, 1), T_EOF, 3)].
Proof. vm_compute. reflexivity. Qed.

(* 1e+ LF 1 (F-C03-1, F-C03-2): "+" was reported at 2:-1, NEWLINE at 2:0 *)
Example C03_ex_dangling_sign_lf :
  summary (scan_all [49; 101; 43; 10; 49] [])
  = [((1, 1), T_NUMBER, 0); ((1, 2), T_NAME, 1); ((1, 3), T_ADD, 2); ((1, 4), T_NEWLINE, 3);
     ((2, 1), T_NUMBER, 4); ((2, 2), T_EOF, 5)].
Proof. vm_compute. reflexivity. Qed.

(* 1e CR LF 2 (F-C03-3): NEWLINE was reported at 1:2 *)
Example C03_ex_dangling_cr :
  summary (scan_all [49; 101; 13; 10; 50] [])
  = [((1, 1), T_NUMBER, 0); ((1, 2), T_NAME, 1); ((1, 3), T_NEWLINE, 3); ((2, 1), T_NUMBER, 4); ((2, 2), T_EOF, 5)].
Proof. vm_compute. reflexivity. Qed.

(* a double quote and a backslash (F-C03-4): ILLEGAL was reported at 1:4; 1:3 is the end of input *)
Example C03_ex_backslash_at_end :
  summary (scan_all [34; 92] []) = [((1, 3), T_ILLEGAL, 2)].
Proof. vm_compute. reflexivity. Qed.

(* BEGIN{x=1e5 LF y=/a+/}  with the client asking for the regex *)
Example C03_ex_regex :
  match scan_all [66;69;71;73;78;123;120;61;49;101;53;10;121;61;47;97;43;47;125] [true] with
  | LOk os => length os = 12%nat
  | _ => False
  end.
Proof. vm_compute. reflexivity. Qed.
