(* C03 — Parsing is total; errors carry a position inside the source.
   This file contains only statements closed by [exact] of a lemma proved in Proofs/,
   non-vacuity examples, refutation witnesses, and Print Assumptions.

   Vocabulary (Model/Lexer.v): [scan_all src ds] runs the model of lexer.NewLexer / Scan /
   ScanRegex over the source [src] until EOF or ILLEGAL; [ds] are the client's decisions
   (after each DIV / DIV_ASSIGN token: call ScanRegex or not) and is universally quantified.
   [pos_of_offset src k] is the specification: line = 1 + number of LF before offset k,
   column = 1 + number of bytes other than CR between the last LF before k and k.
   Ghost fields of a reported token: [tstart] the offset at which its position was captured,
   [tbad] an earlier un-read crossed a CR/LF, [tover] next() ran again after the end. *)
From Verif Require Import Lib.Base Lib.Utf8 Model.Lexer
  Proofs.LexerPos Proofs.LexerScan Proofs.LexerTokens Proofs.LexerShow Proofs.LexerMain Proofs.LexerParsePos
  Gen.ParsePos.
Open Scope Z_scope.

(* Totality of the lexer: for every source and every client, the model never panics (no index
   or slice out of range, ScanRegex never called out of turn), the fuel length+2 always
   suffices, and the token stream ends with EOF or ILLEGAL (and only there). *)
Theorem C03_lexer_total : forall (src : bytes) (ds : list bool),
  exists os, scan_all src ds = LOk os /\ ends_final os.
Proof. exact lexer_total. Qed.
Print Assumptions C03_lexer_total.

(* The full statement about token positions.  It is FALSE on the pinned tree. *)
Definition C03_lexer_positions_statement : Prop :=
  forall src ds os, scan_all src ds = LOk os -> forall o, In o os -> token_claim src (otok o).

Theorem C03_lexer_positions_refuted : ~ C03_lexer_positions_statement.
Proof. exact lexer_positions_refuted. Qed.
Print Assumptions C03_lexer_positions_refuted.

(* Second, independent way in which it is false: the source of two bytes, a double quote and a backslash
   (an unterminated string ending in a backslash), gets its ILLEGAL token at 1:4; offsets 0..2 are 1:1..1:3. *)
Theorem C03_illegal_position_refuted :
  exists src os o, scan_all src [] = LOk os /\ In o os /\ tbad (otok o) = false /\
    tkind (otok o) = T_ILLEGAL /\
    ~ (exists k, 0 <= k <= zlen src /\ tpos (otok o) = pos_of_offset src k).
Proof. exact illegal_position_refuted. Qed.
Print Assumptions C03_illegal_position_refuted.

(* The guarded statement: every token reported while no earlier NUMBER's dangling exponent was
   un-read across a line end (tbad = false) has the true position of its first byte; an ILLEGAL
   token additionally needs that next() did not overrun the end (tover = false) and then
   designates an existing offset 0..len.  All sources, all clients. *)
Theorem C03_lexer_positions_partial : forall (src : bytes) (ds : list bool) os,
  scan_all src ds = LOk os ->
  forall o, In o os -> token_guard (otok o) -> token_claim src (otok o).
Proof. exact lexer_positions_guarded. Qed.
Print Assumptions C03_lexer_positions_partial.

(* What the flag means in the source text: a token is flagged only if an EARLIER token of the
   stream is a NUMBER whose text is directly followed by e/E, an optional + or -, and CR or LF
   (a dangling exponent at a line end) -- the input class of findings F-C03-1 and F-C03-3. *)
Theorem C03_bad_has_cause : forall src ds os pre o post,
  scan_all src ds = LOk os -> os = pre ++ o :: post -> tbad (otok o) = true ->
  exists n, In n pre /\ tkind (otok n) = T_NUMBER /\
            dangling_eol src (tstart (otok n) + zlen (tval (otok n))).
Proof. exact bad_has_cause. Qed.
Print Assumptions C03_bad_has_cause.

(* The same theorem with a purely textual guard: if nowhere in the source an e/E is followed,
   directly or after one sign, by CR or LF, every token other than ILLEGAL is reported at the
   true line and column of its first byte. *)
Theorem C03_lexer_positions_textual_guard : forall src ds os,
  no_dangling_eol src -> scan_all src ds = LOk os ->
  forall o, In o os -> tkind (otok o) <> T_ILLEGAL ->
  tpos (otok o) = pos_of_offset src (tstart (otok o)) /\ 0 <= tstart (otok o) <= zlen src.
Proof. exact lexer_positions_textual_guard. Qed.
Print Assumptions C03_lexer_positions_textual_guard.

(* What the second flag means in the source text: tover is raised only if the last byte of the
   source is a backslash -- the input class of finding F-C03-4. *)
Theorem C03_over_has_cause : forall src ds os,
  scan_all src ds = LOk os -> forall o, In o os -> tover (otok o) = true ->
  getch src (zlen src - 1) = 92.
Proof. exact over_has_cause. Qed.
Print Assumptions C03_over_has_cause.

(* Both guards textual: a source without a dangling exponent at a line end and not ending in a
   backslash -- in particular every source the command line tool builds from files whose numbers
   are well formed, since it appends a newline -- has every token, ILLEGAL included, reported at a
   position that exists, and every other token at the true position of its first byte. *)
Theorem C03_lexer_positions_textual : forall src ds os,
  no_dangling_eol src -> getch src (zlen src - 1) <> 92 -> scan_all src ds = LOk os ->
  forall o, In o os -> token_claim src (otok o).
Proof. exact lexer_positions_textual. Qed.
Print Assumptions C03_lexer_positions_textual.

(* the guard can only fail after the first token *)
Theorem C03_first_token_unaffected : forall src ds os,
  scan_all src ds = LOk os -> exists o rest, os = o :: rest /\ tbad (otok o) = false.
Proof. exact first_token_unaffected. Qed.
Print Assumptions C03_first_token_unaffected.

(* The specification advances like the lexer should: one byte at a time. *)
Theorem C03_pos_of_offset_step : forall src k c,
  index src k = Ok c -> pos_of_offset src (k + 1) = adv (pos_of_offset src k) c.
Proof. exact pos_of_offset_step. Qed.
Print Assumptions C03_pos_of_offset_step.

(* positions_exist: the position of every offset 0..len of the source is one the CLI can show:
   the model of goawk.go showSourceLine (checked indexing and slicing) does not panic on it,
   and it returns the prefix of the line up to the column. *)
Theorem C03_positions_exist : forall src k, 0 <= k <= zlen src ->
  exists line, show_source_line src (pos_of_offset src k)
               = Ok (line, ztake (snd (pos_of_offset src k) - 1) line) /\
               valid_pos src (pos_of_offset src k).
Proof. exact show_source_line_ok. Qed.
Print Assumptions C03_positions_exist.

(* hence every guarded token position can be shown *)
Theorem C03_guarded_positions_showable : forall src ds os,
  scan_all src ds = LOk os ->
  forall o, In o os -> token_guard (otok o) ->
  valid_pos src (tpos (otok o)) /\ exists r, show_source_line src (tpos (otok o)) = Ok r.
Proof. exact guarded_positions_showable. Qed.
Print Assumptions C03_guarded_positions_showable.

(* ... and an unguarded one cannot: source 1e+LF, the NEWLINE token at 2:0 makes
   showSourceLine slice [:-1] (the CLI panic, finding F-C03-2) *)
Theorem C03_show_source_line_refuted :
  exists src os o, scan_all src [] = LOk os /\ In o os /\ show_source_line src (tpos (otok o)) = Panic.
Proof. exact show_source_line_refuted. Qed.
Print Assumptions C03_show_source_line_refuted.

(* Table theorem (tables regenerated from parser/parser.go, internal/resolver/*.go on every
   check): every position given to ast.PosErrorf is p.pos, a saved copy of it, a ...Pos field
   of an AST node, a value of p.multiExprs, or the literal {1,1}; every stored position is
   p.pos or such a copy; p.pos is only assigned from lexer.Scan / lexer.ScanRegex.  So every
   ParseError position is a position reported by the lexer (to which the theorems above
   apply) or 1:1. *)
Theorem C03_parser_reports_lexer_positions :
  forallb site_ok pos_error_sites = true /\
  forallb site_ok pos_store_sites = true /\
  forallb scan_only cur_assign_sites = true /\
  (10 <=? length pos_error_sites)%nat = true /\ (10 <=? length pos_store_sites)%nat = true /\
  (2 <=? length cur_assign_sites)%nat = true.
Proof. exact parser_reports_lexer_positions. Qed.
Print Assumptions C03_parser_reports_lexer_positions.

(* The model's token numbers and keyword table are those of lexer/token.go (regenerated). *)
Theorem C03_token_numbers_agree : gen_tokens = model_tokens.
Proof. exact token_numbers_agree. Qed.
Print Assumptions C03_token_numbers_agree.

Theorem C03_keywords_agree :
  List.map (fun kv => (lit (fst kv), tok_value gen_tokens (snd kv))) gen_keywords = keywords.
Proof. exact keywords_agree. Qed.
Print Assumptions C03_keywords_agree.

(* ---- non-vacuity: the hypotheses are met by concrete sources ------------------------------ *)
(* BEGIN{x=1e5 LF y=/a+/}  with the client asking for the regex: every token is guarded *)
Example C03_ex_all_guarded :
  match scan_all [66;69;71;73;78;123;120;61;49;101;53;10;121;61;47;97;43;47;125] [true] with
  | LOk os => forallb (fun o => negb (tbad (otok o)) && negb (tover (otok o))) os = true /\ length os = 12%nat
  | _ => False
  end.
Proof. vm_compute. split; reflexivity. Qed.

(* the witness of the refutation, spelled out: 1e LF gives NUMBER 1:1, NAME 1:2, NEWLINE 2:0, EOF 3:1;
   the guard is conservative: the NAME token is already flagged although its own position is still true *)
Example C03_ex_witness :
  match scan_all [49; 101; 10] [] with
  | LOk os => map (fun o => (tpos (otok o), tkind (otok o), tbad (otok o))) os
              = [((1, 1), T_NUMBER, false); ((1, 2), T_NAME, true); ((2, 0), T_NEWLINE, true); ((3, 1), T_EOF, true)]
  | _ => False
  end.
Proof. vm_compute. reflexivity. Qed.

(* the same source with a space before the line end is lexed with true positions *)
Example C03_ex_repaired_by_space :
  match scan_all [49; 101; 32; 10] [] with
  | LOk os => map (fun o => (tpos (otok o), tkind (otok o), tbad (otok o))) os
              = [((1, 1), T_NUMBER, false); ((1, 2), T_NAME, false); ((1, 4), T_NEWLINE, false); ((2, 1), T_EOF, false)]
  | _ => False
  end.
Proof. vm_compute. reflexivity. Qed.

(* the textual guard holds for a concrete source with an exponent: x=1e5 LF *)
Example C03_ex_textual_guard : no_dangling_eol [120; 61; 49; 101; 53; 10].
Proof.
  intros j (He & Hr).
  assert (Hj : 0 <= j < 6).
  { destruct (Z_lt_dec j 0); [rewrite getch_out in He by (left; lia); lia|].
    destruct (Z_lt_dec j 6); [lia|]. rewrite getch_out in He by (right; change (zlen [120; 61; 49; 101; 53; 10]) with 6; lia). lia. }
  assert (Hc : j = 0 \/ j = 1 \/ j = 2 \/ j = 3 \/ j = 4 \/ j = 5) by lia.
  unfold eol in Hr.
  destruct Hc as [->|[->|[->|[->|[->| ->]]]]]; vm_compute in He, Hr; lia.
Qed.
