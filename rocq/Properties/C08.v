(* C08 — CSV/TSV input follows RFC 4180; CSV output reads back to the same fields.
   (statements are added as the proofs land) *)
From Verif Require Import Lib.Base Lib.Utf8 Model.Csv.
