(* C08 — CSV/TSV input follows RFC 4180; CSV output reads back to the same fields.
   Only statements closed by [exact] of a lemma proved in Proofs/, non-vacuity examples and
   Print Assumptions.  (The [_refuted] witnesses of the BOM defects F-C08-1/2/4 and of the lost
   single empty field F-C08-3 are gone with the defects: their full statements are theorems
   here; the former witnesses are kept as examples of the repaired behaviour.) *)
From Verif Require Import Lib.Base Lib.Utf8 Model.Csv Proofs.CsvBase Proofs.CsvFuel Proofs.CsvRoundtrip
  Proofs.CsvAccount Proofs.CsvChunks Proofs.CsvScanner Proofs.CsvRfc Proofs.CsvOutput.

(* ------------------------------------------------------------------------- *)
(* separator / comment validation: interp.validCSVSeparator, validateCSVInputConfig *)

Theorem C08_sep_validation : forall r,
  valid_csv_separator r = true <->
  r <> 0 /\ r <> 34 /\ r <> 13 /\ r <> 10 /\ r <> 65533 /\
  (0 <= r < 55296 \/ 57343 < r <= 1114111).
Proof. exact valid_sep_iff. Qed.
Print Assumptions C08_sep_validation.

Theorem C08_config_validation : forall sep com,
  validate_csv_input sep com = true <->
  valid_sep sep /\ (com = 0 \/ valid_sep com) /\ sep <> com.
Proof. exact validate_csv_input_iff. Qed.
Print Assumptions C08_config_validation.

(* the splitter's loops always terminate within the fuel scan gives them *)
Theorem C08_scan_total : forall c s data stale nz e, snd (scan c s data stale nz e) <> OFuel.
Proof. exact scan_never_fuel. Qed.
Print Assumptions C08_scan_total.

(* ------------------------------------------------------------------------- *)
(* the reader against the RFC 4180 specification                              *)

(* For EVERY input byte string the fields of every record the reader delivers are those of
   the independent specification rfc_parse (lexer + six-state machine in Model/Csv.v: a
   leading byte-order mark ignored, quoted fields may hold separators, doubled quotes and line
   breaks, lenient bare quotes, blank and comment lines skipped, CR LF accepted and folded
   inside quotes, a lone CR closing the input ignored).  Proved for single-byte separators and
   comment characters; header mode on or off (the header row is the first row of the
   specification). *)
Theorem C08_reader_is_rfc : forall c data,
  valid_sep (c_sep c) -> c_sep c < 128 ->
  (c_comment c = 0 \/ (valid_sep (c_comment c) /\ c_comment c < 128)) -> c_sep c <> c_comment c ->
  map ev_fields (read_file c data) = rfc_parse (c_sep c) (c_comment c) data.
Proof. exact reader_is_rfc. Qed.
Print Assumptions C08_reader_is_rfc.

Example C08_ex_rfc :
  let data := [239; 187; 191; 35; 120; 10; 10; 97; 44; 34; 98; 34; 34; 44; 13; 10; 99; 34; 44; 100; 34; 101; 13; 10;
               34; 103; 34; 104; 34; 10; 13; 10; 105; 13] in
  rfc_parse 44 35 data = [[[97]; [98; 34; 44; 10; 99]; [100; 34; 101]]; [[103; 34; 104]]; [[105]]] /\
  map ev_fields (read_file (mkCfg 44 35 false) data) = rfc_parse 44 35 data.
Proof. vm_compute. split; reflexivity. Qed.

(* ------------------------------------------------------------------------- *)
(* write -> read round trip                                                   *)

(* Every list of rows of CR-free field values (rows of at least one field: print needs an
   argument) written by print in CSV/TSV output mode is read back as exactly those rows, for
   every valid separator; $0 of each record read back is the text that was written for it.
   [row_ok fs] = fs <> [] /\ no CR in any field.  The one remaining premise is inherent: the
   first field of the output must not start with the bytes of a BOM (the reader is required to
   ignore a leading BOM). *)
Theorem C08_roundtrip : forall c rows,
  valid_sep (c_sep c) -> c_comment c = 0 -> c_header c = false -> Forall row_ok rows ->
  prefix_of bom (write_csv (c_sep c) false rows) = false ->
  read_file c (write_csv (c_sep c) false rows) =
  map (fun fs => ERecord (join_fields (c_sep c) false fs) fs) rows.
Proof. exact roundtrip_file. Qed.
Print Assumptions C08_roundtrip.

(* one call of csvSplitter.scan on a written row: whatever follows the row's newline, whatever
   the buffer holds behind the data (stale, nz), atEOF or not; also for a row standing alone
   at EOF without its newline (T = []) *)
Theorem C08_scan_reads_written_row : forall c e, valid_sep (c_sep c) ->
  forall T, (exists rest, T = 10 :: rest) \/ (T = [] /\ e = true) ->
  forall fs s stale nz,
  c_comment c = 0 -> c_header c = false -> 0 <= nz ->
  fs <> [] -> Forall (nob 13) fs ->
  (st_noBOM s = true \/ prefix_of bom (rtext c fs ++ T) = false) ->
  scan c s (rtext c fs ++ T) stale nz e =
    (mkSt true (st_row s + 1), ORecord (zlen (rtext c fs) + zlen (fl1 T)) (rtext c fs) fs).
Proof. exact scan_written_row. Qed.
Print Assumptions C08_scan_reads_written_row.

(* $0 rebuilt by joinFields after a field assignment and parsed again (ensureFields) *)
Theorem C08_rebuilt_record_reparses : forall c s fs stale nz,
  valid_sep (c_sep c) -> c_comment c = 0 -> c_header c = false -> 0 <= nz -> row_ok fs ->
  (st_noBOM s = true \/ prefix_of bom (join_fields (c_sep c) false fs) = false) ->
  scan c s (join_fields (c_sep c) false fs) stale nz true =
    (mkSt true (st_row s + 1),
     ORecord (zlen (join_fields (c_sep c) false fs)) (join_fields (c_sep c) false fs) fs).
Proof. exact roundtrip_rebuilt. Qed.
Print Assumptions C08_rebuilt_record_reparses.

(* the row that used to be lost (F-C08-3, repaired): a single empty field is written as two
   quotes and comes back *)
Example C08_single_empty_field :
  write_csv 44 false [[[97]]; [[]]; [[98]]] = [97; 10; 34; 34; 10; 98; 10] /\
  read_file (mkCfg 44 0 false) (write_csv 44 false [[[97]]; [[]]; [[98]]]) =
  [ERecord [97] [[97]]; ERecord [34; 34] [[]]; ERecord [98] [[98]]].
Proof. vm_compute. split; reflexivity. Qed.

(* the two inherent exclusions are real: a first field starting with the comment character
   reads back as a comment line; a first field starting with the BOM bytes loses them *)
Example C08_comment_field_lost :
  read_file (mkCfg 44 35 false) (write_csv 44 false [[[35; 120]; [121]]; [[122]]])
  = [ERecord [122] [[122]]].
Proof. vm_compute. reflexivity. Qed.
Example C08_bom_field_lost :
  map ev_fields (read_file (mkCfg 44 0 false) (write_csv 44 false [[[239; 187; 191; 97]; [98]]; [[99]]]))
  = [[[97]; [98]]; [[99]]].
Proof. vm_compute. reflexivity. Qed.

(* non-vacuity: rows with separators, quotes, line breaks, leading blanks, empty fields, a
   single empty field, a multi-byte separator *)
Example C08_ex_rows_ok :
  Forall row_ok [[[97; 44; 98]; [99; 34; 100]; [101; 10; 102]]; [[]; [32; 120]]; [[10]]; [[]]].
Proof. repeat constructor; try discriminate; unfold nob; repeat constructor; discriminate. Qed.
Example C08_ex_roundtrip :
  let rows := [[[97; 44; 98]; [99; 34; 100]; [101; 10; 102]]; [[]; [32; 120]]; [[10]]; [[]]] in
  write_csv 233 false rows =
    [97; 44; 98; 195; 169; 34; 99; 34; 34; 100; 34; 195; 169; 34; 101; 10; 102; 34; 10;
     195; 169; 34; 32; 120; 34; 10; 34; 10; 34; 10; 34; 34; 10] /\
  read_file (mkCfg 233 0 false) (write_csv 233 false rows) =
  map (fun fs => ERecord (join_fields 233 false fs) fs) rows.
Proof. vm_compute. split; reflexivity. Qed.
Example C08_ex_valid_sep : valid_sep 233 /\ valid_sep 44 /\ valid_sep 9 /\ valid_sep 128512.
Proof. repeat split; vm_compute; reflexivity. Qed.

(* ------------------------------------------------------------------------- *)
(* every printed row reaches its destination                                  *)

(* "written by print in CSV/TSV output mode": whatever the destination of the print is - an
   unbuffered writer, a *bufio.Writer of any size, a file or command stream that embeds one,
   any stack of buffered writers - after the end of the run the sink holds what it held (or had
   buffered) before, followed by the text of every row printed to it, complete and in order.
   [o_bufio] = the writer's dynamic type is *bufio.Writer.  (F-C08-5, a *bufio.Writer smaller
   than 4096 bytes losing every row, is repaired: no guard, no refutation any more.) *)
Theorem C08_output : forall sep crlf o rows,
  emit_rows sep crlf o rows = d_total (o_d o) ++ write_csv sep crlf rows.
Proof. exact emit_rows_complete. Qed.
Print Assumptions C08_output.

(* a stack of bufio.Writers loses and reorders nothing; closing delivers everything *)
Theorem C08_buffered_writes_complete : forall d p,
  d_total (d_write d p) = d_total d ++ p /\ delivered (d_close d) = d_total d.
Proof. intros d p. split; [apply d_total_write | apply delivered_close]. Qed.
Print Assumptions C08_buffered_writes_complete.

(* print > "file" (a stream embedding a 64 KiB bufio.Writer), appended to what the file held;
   standard output as a 64 KiB *bufio.Writer; a row larger than every buffer *)
Example C08_ex_destinations :
  emit_rows 44 false (mkOut false (DBuf 65536 [] (DRaw [112; 10]))) [[[97]; [98]]; [[]]; [[99; 32; 100]]]
    = [112; 10; 97; 44; 98; 10; 34; 34; 10; 99; 32; 100; 10] /\
  emit_rows 9 false (mkOut true (DBuf 65536 [] (DRaw []))) [[[97]; [98]]; [[]]]
    = [97; 9; 98; 10; 34; 34; 10] /\
  emit_rows 44 false (mkOut false (DBuf 8 [] (DBuf 4 [] (DRaw [])))) [[repeat 120 20; [121]]; [[122]]]
    = repeat 120 20 ++ [44; 121; 10; 122; 10] /\
  (* the former witness of F-C08-5: standard output as a 16-byte *bufio.Writer *)
  emit_rows 44 false (mkOut true (DBuf 16 [] (DRaw []))) [[[97]; [98]]; [[]]]
    = [97; 44; 98; 10; 34; 34; 10].
Proof. vm_compute. repeat split; reflexivity. Qed.

(* ------------------------------------------------------------------------- *)
(* $0 is the record's own text                                                *)

(* $0 cannot depend on what the Scanner's buffer happens to hold behind the data it hands to
   the splitter ([nz] is a capacity: not negative) *)
Theorem C08_dollar0_own_text : forall c, valid_sep (c_sep c) ->
  forall s data stale nz stale' nz' e, 0 <= nz -> 0 <= nz' ->
    scan c s data stale nz e = scan c s data stale' nz' e.
Proof. exact scan_behind_irrelevant. Qed.
Print Assumptions C08_dollar0_own_text.

(* advance never leaves the data; $0 = data[skip:advance] without its line terminator (CRs
   removed after a CR LF inside quotes), with skip behind a BOM the call skipped; the slice
   cannot panic *)
Theorem C08_dollar0_accounting : forall c s data stale nz e, valid_sep (c_sep c) -> 0 <= nz ->
  match snd (scan c s data stale nz e) with
  | ORecord adv tok fields =>
      0 <= adv <= zlen data /\
      exists skip cr, 0 <= skip <= adv /\
        (negb (st_noBOM s) && prefix_of bom data = true -> 3 <= skip) /\
        tok = finish_token cr (ztake (adv - skip) (zdrop skip data))
  | OHeader adv _ => 0 <= adv <= zlen data
  | OPanic => False
  | _ => True
  end.
Proof. exact scan_accounting. Qed.
Print Assumptions C08_dollar0_accounting.

(* the former witnesses of F-C08-1 and F-C08-4, repaired: with a leading BOM $0 of the first
   record is "a,b", and a first record reaching the end of an 8-byte buffer is read *)
Example C08_bom_dollar0 :
  read_csv (mkCfg 44 0 false) 65536 10485760 [[239; 187; 191; 97; 44; 98; 10; 99; 44; 100; 10]]
  = ([ERecord [97; 44; 98] [[97]; [98]]; ERecord [99; 44; 100] [[99]; [100]]], FEOF).
Proof. vm_compute. reflexivity. Qed.
Example C08_bom_at_capacity :
  read_csv (mkCfg 44 0 false) 8 64 [[239; 187; 191; 97; 44; 98; 99; 10]]
  = ([ERecord [97; 44; 98; 99] [[97]; [98; 99]]], FEOF).
Proof. vm_compute. reflexivity. Qed.

(* ------------------------------------------------------------------------- *)
(* none of this depends on how the input is chunked                           *)

(* (1) a row decided before EOF is decided identically (advance, $0, fields, state) whatever
       arrives later, whatever the buffer holds behind the data, and at EOF; *)
Theorem C08_scan_stable : forall c s data stale nz more stale' nz' e',
  valid_sep (c_sep c) -> 0 <= nz -> 0 <= nz' ->
  decided (snd (scan c s data stale nz false)) ->
  scan c s (data ++ more) stale' nz' e' = scan c s data stale nz false.
Proof. exact scan_stable. Qed.
Print Assumptions C08_scan_stable.

(* (2) a "need more data" answer leaves the splitter's state as it was (BOM flag included); *)
Theorem C08_need_more_keeps_state : forall c s data stale nz e s',
  scan c s data stale nz e = (s', ONeed) -> s' = s.
Proof. exact scan_need_state. Qed.
Print Assumptions C08_need_more_keeps_state.

(* (3) hence the Scanner loop ([arun]: buffered bytes + reads still to come, one split call
   per iteration, a read after every nil token, stop at EOF) delivers, for EVERY way of
   cutting ANY input into reads, exactly the events (header names, $0, fields) of the
   splitter run over the whole input. *)
Theorem C08_chunk_independent : forall c, valid_sep (c_sep c) -> forall chunks,
  arun (S (msr [] chunks false)) c (mkSt false 0) [] chunks false = read_file c (concat chunks).
Proof. exact csv_chunk_independent. Qed.
Print Assumptions C08_chunk_independent.

(* (4) the same for the buffer-level model of bufio.Scanner (the one that is run against the
   implementation, stale bytes and capacity included), for inputs shorter than half the buffer
   (goawk: 64 KiB buffer; the bound is a limit of this refinement proof, not of the code) *)
Theorem C08_reader_is_whole_input_reader : forall c cap maxtok chunks,
  valid_sep (c_sep c) -> 2 * zlen (concat chunks) < cap ->
  read_csv c cap maxtok chunks = (read_file c (concat chunks), FEOF).
Proof. exact read_csv_is_read_file. Qed.
Print Assumptions C08_reader_is_whole_input_reader.

Theorem C08_chunk_independent_buffer_model : forall c cap maxtok chunks,
  valid_sep (c_sep c) -> 2 * zlen (concat chunks) < cap ->
  read_csv c cap maxtok chunks = read_csv c cap maxtok [concat chunks].
Proof. exact read_csv_chunk_independent. Qed.
Print Assumptions C08_chunk_independent_buffer_model.

Theorem C08_roundtrip_any_chunking : forall c cap maxtok rows chunks,
  valid_sep (c_sep c) -> c_comment c = 0 -> c_header c = false -> Forall row_ok rows ->
  concat chunks = write_csv (c_sep c) false rows ->
  prefix_of bom (concat chunks) = false -> 2 * zlen (concat chunks) < cap ->
  read_csv c cap maxtok chunks =
  (map (fun fs => ERecord (join_fields (c_sep c) false fs) fs) rows, FEOF).
Proof. exact read_csv_roundtrip. Qed.
Print Assumptions C08_roundtrip_any_chunking.

Example C08_ex_chunks :
  let chunks := [[97; 44; 34]; [98; 10]; [99; 34; 10; 100]; [44; 101; 13]; [10; 102]] in
  arun (S (msr [] chunks false)) (mkCfg 44 0 true) (mkSt false 0) [] chunks false =
  [EHeader [[97]; [98; 10; 99]]; ERecord [100; 44; 101] [[100]; [101]]; ERecord [102] [[102]]].
Proof. vm_compute. reflexivity. Qed.

(* the former witness of F-C08-2, repaired: BOM + first line arriving in two reads, and a
   BOM file whose only line has no newline *)
Example C08_bom_split :
  read_csv (mkCfg 44 0 true) 65536 10485760 [[239; 187; 191; 97; 44; 98]; [10; 49; 44; 50; 10]]
  = ([EHeader [[97]; [98]]; ERecord [49; 44; 50] [[49]; [50]]], FEOF) /\
  read_csv (mkCfg 44 0 false) 65536 10485760 [[239; 187; 191; 97; 44; 98]]
  = ([ERecord [97; 44; 98] [[97]; [98]]], FEOF).
Proof. vm_compute. split; reflexivity. Qed.
