(* C14 — A reused Interpreter behaves like a fresh one.
   Only statements closed by [exact] of a lemma proved in Proofs/, non-vacuity examples, Print Assumptions.

   Reading guide.  A state maps the field names of `struct interp` to abstract values.  newInterp, resetCore,
   resetVars, ResetRand, the Execute/ExecuteContext prologue and setExecuteConfig are modelled function by
   function (Model/Reuse.v) and tied to the Go source by the generated table Gen/InterpFields.v; a run
   (executeAll) and the Vars loop of setExecuteConfig are ARBITRARY transformers constrained only by [hyps]:
   they write no field outside the generated write sets, never resize globals / the global arrays, and the
   Vars loop is non-interfering.  [reachable] = every state obtainable from New by any sequence of ResetVars,
   ResetRand, accepted-and-run or rejected Execute/ExecuteContext calls. *)
From Coq Require Import String List ZArith Bool.
From Verif Require Import Lib.Base Gen.InterpFields Model.Reuse Proofs.ReuseTable Proofs.Reuse.
Import ListNotations.
Open Scope string_scope.

(* ---- layer (a): the generated table ---- *)

(* every struct field is classified, every field type, writer function and method call is known, and
   Execute/ExecuteContext call resetCore, setExecuteConfig, executeAll in this order *)
Theorem C14_table_wf : table_wf = true.
Proof. exact table_wf_holds. Qed.
Print Assumptions C14_table_wf.

(* the hand-written model functions bind exactly the fields, with exactly the constants, that the translator
   finds assigned in resetCore, resetVars, ResetRand, Execute, ExecuteContext, newInterp, setExecuteConfig *)
Theorem C14_model_matches_table : model_matches_table = true.
Proof. exact model_matches_table_holds. Qed.
Print Assumptions C14_model_matches_table.

(* FULL statement reset_complete: every mutable RunState field is certainly assigned by resetCore or
   setExecuteConfig, every Variable field by resetVars, the random state by ResetRand, every ConfigSet field by
   setExecuteConfig or the prologue, constants are never written again.  It is FALSE for the pinned tree: *)
Theorem C14_reset_complete_refuted : ~ reset_complete.
Proof. exact reset_complete_refuted. Qed.
Print Assumptions C14_reset_complete_refuted.

(* ... exactly three fields are written during a run and reset nowhere (F-C14-1: fieldNames, fieldIndexes;
   F-C14-2: reparseCSV) *)
Theorem C14_unreset_fields_exact : unreset_fields = ["fieldNames"; "fieldIndexes"; "reparseCSV"].
Proof. exact unreset_fields_exact. Qed.
Print Assumptions C14_unreset_fields_exact.

Theorem C14_reset_complete_partial : reset_complete_except leaking_fields.
Proof. exact reset_complete_partial. Qed.
Print Assumptions C14_reset_complete_partial.

(* ---- layer (b): all histories ---- *)

(* FULL statement: for every reachable state g, whether or not ResetVars (rv) / ResetRand (rr) are called, and
   every Config, Execute/ExecuteContext on the reused interpreter and on a new one (into which the not-reset
   variables / random state of g were copied) get the same verdict from setExecuteConfig and enter executeAll
   agreeing on ALL observable fields (everything but caches and scratch).  FALSE for the pinned tree: *)
Theorem C14_reuse_eq_fresh_refuted : ~ reuse_eq_fresh_full.
Proof. exact reuse_eq_fresh_refuted. Qed.
Print Assumptions C14_reuse_eq_fresh_refuted.

(* ... also with the header names excluded (reparseCSV alone breaks it) *)
Theorem C14_reuse_eq_fresh_refuted_reparseCSV :
  ~ reuse_statement (fun en => filter (fun f => negb (mem f ["fieldNames"; "fieldIndexes"])) (obs_fields en)).
Proof. exact reuse_eq_fresh_refuted_reparseCSV. Qed.
Print Assumptions C14_reuse_eq_fresh_refuted_reparseCSV.

(* PARTIAL (guard: the three leaking fields are not observed): the statement holds for every history. *)
Theorem C14_reuse_eq_fresh_partial : reuse_statement obs_fields_partial.
Proof. exact reuse_eq_fresh_partial. Qed.
Print Assumptions C14_reuse_eq_fresh_partial.

(* after ResetVars and ResetRand: the same verdict and the same observable state as New + Execute *)
Theorem C14_reuse_eq_fresh_after_resets :
  forall sv e pc F I run, hyps sv I run ->
  forall g en c, reachable sv e pc F I run g -> c_funcs c = F ->
    let r := m_prepare sv e en c (m_resetVars (m_resetRand e g)) in
    let f := m_prepare sv e en c (m_newInterp e pc) in
    snd r = snd f /\ (snd r = None -> agree (obs_fields_partial en) (fst r) (fst f)).
Proof. exact reuse_eq_fresh_after_resets. Qed.
Print Assumptions C14_reuse_eq_fresh_after_resets.

(* hence anything the rest of the run computes from those fields (output, exit status, error) is the same *)
Theorem C14_same_outcome :
  forall sv e pc F I run, hyps sv I run ->
  forall (O : Type) (outcome : state -> O) rv rr g en c,
    (forall s1 s2, agree (obs_fields_partial en) s1 s2 -> outcome s1 = outcome s2) ->
    reachable sv e pc F I run g -> c_funcs c = F ->
    snd (m_prepare sv e en c (reused e rv rr g)) = None ->
    outcome (fst (m_prepare sv e en c (reused e rv rr g))) =
    outcome (fst (m_prepare sv e en c (carry rv rr g (fresh e pc)))).
Proof. exact same_outcome. Qed.
Print Assumptions C14_same_outcome.

(* interp.New + Execute on a new interpreter = ExecProgram (newInterp + setExecuteConfig, no resetCore): the
   same verdict and the same value of EVERY observable field (no field excepted) at the start of executeAll *)
Theorem C14_execprogram_eq_new_execute :
  forall sv e pc (F : val), sv_noninterference sv ->
    (forall vars s f, ~ In f may_setVarByName -> fst (sv vars s) f = s f) ->
    forall c, c_funcs c = F ->
      let a := m_prepare sv e EExec c (fresh e pc) in
      let b := m_setExecuteConfig sv e c (fresh e pc) in
      snd a = snd b /\ (snd a = None -> agree (obs_fields EExec) (fst a) (fst b)).
Proof. exact execprogram_eq_new_execute. Qed.
Print Assumptions C14_execprogram_eq_new_execute.

(* every reachable state keeps the program constants, the sizes of globals / global arrays, and nativeFuncs *)
Theorem C14_reachable_invariant :
  forall sv e pc F I run, hyps sv I run -> forall g, reachable sv e pc F I run g -> Inv e pc F g.
Proof. exact reachable_invariant_hyps. Qed.
Print Assumptions C14_reachable_invariant.

(* ---- non-vacuity ---- *)

(* the hypotheses are satisfiable: the identity Vars loop and a run that reads a CSV header *)
Example C14_ex_hyps : hyps sv_id unit run_header.
Proof. exact hyps_example. Qed.

(* the observable fields the partial theorem speaks about: 63 of the 77 struct fields under Execute *)
Example C14_ex_obs : length (obs_fields_partial EExec) = 63%nat /\ length all_fields = 77%nat /\
                     length (obs_fields_partial (ECtx true VNil VNil)) = 66%nat.
Proof. vm_compute. repeat split; reflexivity. Qed.

(* the witness of the refutation: after a header run, the prepared reused interpreter still has the names *)
Example C14_ex_witness :
  let g := run_header tt (fst (m_prepare sv_id env0 EExec config0 (fresh env0 pc0))) in
  fst (m_prepare sv_id env0 EExec config0 (m_resetVars (m_resetRand env0 g))) "fieldNames" = VL [VS [97]; VS [98]] /\
  fst (m_prepare sv_id env0 EExec config0 (fresh env0 pc0)) "fieldNames" = VNil /\
  predict_diff sv_id env0 pc0 EExec config0 true true g = PDiff ["fieldNames"; "reparseCSV"].
Proof. vm_compute. repeat split; reflexivity. Qed.
