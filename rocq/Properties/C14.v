(* C14 — A reused Interpreter behaves like a fresh one.
   Only statements closed by [exact] of a lemma proved in Proofs/, non-vacuity examples, Print Assumptions.

   Reading guide.  A state maps the field names of `struct interp` to abstract values.  newInterp, resetCore,
   resetVars, ResetRand, the Execute/ExecuteContext prologue and setExecuteConfig are modelled function by
   function (Model/Reuse.v) and tied to the Go source by the generated table Gen/InterpFields.v; a run
   (executeAll) and the Vars loop of setExecuteConfig are ARBITRARY transformers constrained only by [hyps]:
   they write no field outside the generated write sets, never resize globals / the global arrays, and the
   Vars loop is non-interfering.  [reachable] = every state obtainable from New by any sequence of ResetVars,
   ResetRand, accepted-and-run or rejected Execute/ExecuteContext calls. *)
From Coq Require Import String List ZArith Bool.
From Verif Require Import Lib.Base Gen.InterpFields Model.Reuse Proofs.ReuseTable Proofs.Reuse.
Import ListNotations.
Open Scope string_scope.

(* ---- layer (a): the generated table ---- *)

(* every struct field is classified, every field type, writer function and method call is known, and
   Execute/ExecuteContext call resetCore, setExecuteConfig, executeAll in this order *)
Theorem C14_table_wf : table_wf = true.
Proof. exact table_wf_holds. Qed.
Print Assumptions C14_table_wf.

(* the hand-written model functions bind exactly the fields, with exactly the constants, that the translator
   finds assigned in resetCore, resetVars, ResetRand, Execute, ExecuteContext, newInterp, setExecuteConfig *)
Theorem C14_model_matches_table : model_matches_table = true.
Proof. exact model_matches_table_holds. Qed.
Print Assumptions C14_model_matches_table.

(* reset_complete: every mutable RunState field is certainly assigned by resetCore or setExecuteConfig, every
   Variable field by resetVars, the random state by ResetRand, every ConfigSet field by setExecuteConfig or the
   prologue, constants are never written again, and no field is unclassified.  (It was false for the pinned
   tree: fieldNames, fieldIndexes, reparseCSV -- F-C14-1, F-C14-2, repaired in resetCore.) *)
Theorem C14_reset_complete : reset_complete.
Proof. exact reset_complete_holds. Qed.
Print Assumptions C14_reset_complete.

(* the three formerly leaking fields are still written during a run, and resetCore now assigns them *)
Theorem C14_formerly_leaking_reset :
  forallb (fun f => mem f may_run && mem f (must_fields fn_resetCore)) ["fieldNames"; "fieldIndexes"; "reparseCSV"] = true.
Proof. exact formerly_leaking_reset. Qed.
Print Assumptions C14_formerly_leaking_reset.

(* the caches that survive resetCore by design (formatCache, regexCache) are filled by functions that mention no
   field of struct interp but the cache itself and program constants: an entry cannot depend on Chars, the
   modes, CONVFMT or anything else a later Config or run can change *)
Theorem C14_caches_config_independent : caches_config_independent = true.
Proof. exact caches_config_independent_holds. Qed.
Print Assumptions C14_caches_config_independent.

(* ---- layer (b): all histories ---- *)

(* reuse_eq_fresh, FULL statement: for every reachable state g, whether or not ResetVars (rv) / ResetRand (rr)
   are called, and every Config, Execute/ExecuteContext on the reused interpreter and on a new one (into which
   the not-reset variables / random state of g were copied) get the same verdict from setExecuteConfig and
   enter executeAll agreeing on ALL observable fields (everything but caches and scratch). *)
Theorem C14_reuse_eq_fresh : reuse_eq_fresh_full.
Proof. exact reuse_eq_fresh. Qed.
Print Assumptions C14_reuse_eq_fresh.

(* after ResetVars and ResetRand: the same verdict and the same observable state as New + Execute *)
Theorem C14_reuse_eq_fresh_after_resets :
  forall sv e pc F I run, hyps sv I run ->
  forall g en c, reachable sv e pc F I run g -> c_funcs c = F ->
    let r := m_prepare sv e en c (m_resetVars (m_resetRand e g)) in
    let f := m_prepare sv e en c (m_newInterp e pc) in
    snd r = snd f /\ (snd r = None -> agree (obs_fields en) (fst r) (fst f)).
Proof. exact reuse_eq_fresh_after_resets. Qed.
Print Assumptions C14_reuse_eq_fresh_after_resets.

(* hence anything the rest of the run computes from those fields (output, exit status, error) is the same *)
Theorem C14_same_outcome :
  forall sv e pc F I run, hyps sv I run ->
  forall (O : Type) (outcome : state -> O) rv rr g en c,
    (forall s1 s2, agree (obs_fields en) s1 s2 -> outcome s1 = outcome s2) ->
    reachable sv e pc F I run g -> c_funcs c = F ->
    snd (m_prepare sv e en c (reused e rv rr g)) = None ->
    outcome (fst (m_prepare sv e en c (reused e rv rr g))) =
    outcome (fst (m_prepare sv e en c (carry rv rr g (fresh e pc)))).
Proof. exact same_outcome. Qed.
Print Assumptions C14_same_outcome.

(* interp.New + Execute on a new interpreter = ExecProgram (newInterp + setExecuteConfig, no resetCore): the
   same verdict and the same value of EVERY observable field (no field excepted) at the start of executeAll *)
Theorem C14_execprogram_eq_new_execute :
  forall sv e pc (F : val), sv_noninterference sv ->
    (forall vars s f, ~ In f may_setVarByName -> fst (sv vars s) f = s f) ->
    forall c, c_funcs c = F ->
      let a := m_prepare sv e EExec c (fresh e pc) in
      let b := m_setExecuteConfig sv e c (fresh e pc) in
      snd a = snd b /\ (snd a = None -> agree (obs_fields EExec) (fst a) (fst b)).
Proof. exact execprogram_eq_new_execute. Qed.
Print Assumptions C14_execprogram_eq_new_execute.

(* every reachable state keeps the program constants, the sizes of globals / global arrays, and nativeFuncs *)
Theorem C14_reachable_invariant :
  forall sv e pc F I run, hyps sv I run -> forall g, reachable sv e pc F I run g -> Inv e pc F g.
Proof. exact reachable_invariant_hyps. Qed.
Print Assumptions C14_reachable_invariant.

(* ---- non-vacuity ---- *)

(* the hypotheses are satisfiable: the identity Vars loop and a run that reads a CSV header *)
Example C14_ex_hyps : hyps sv_id unit run_header.
Proof. exact hyps_example. Qed.

(* the observable fields the theorem speaks about: 67 of the 80 struct fields under Execute, 70 under
   ExecuteContext (the other 10: caches, scratch, and the two setLine shadows savedInputMode/savedCSVInputConfig) *)
Example C14_ex_obs : length (obs_fields EExec) = 67%nat /\ length all_fields = 80%nat /\
                     length (obs_fields (ECtx true VNil VNil)) = 70%nat.
Proof. vm_compute. repeat split; reflexivity. Qed.

(* the history that refuted the statement before the repair: a run that read a CSV header and left reparseCSV
   set; Execute's preparation now clears both, and the model predicts no differing observable field *)
Example C14_ex_header_run_is_reset :
  let g := run_header tt (fst (m_prepare sv_id env0 EExec config0 (fresh env0 pc0))) in
  g "fieldNames" = VL [VS [97]; VS [98]] /\ g "reparseCSV" = VB true /\
  fst (m_prepare sv_id env0 EExec config0 g) "fieldNames" = VNil /\
  fst (m_prepare sv_id env0 EExec config0 g) "reparseCSV" = VB false /\
  predict_diff sv_id env0 pc0 EExec config0 false false g = PDiff [].
Proof. exact header_run_is_reset. Qed.
