(* C04 — Expressions group by the POSIX AWK precedence and associativity table. (placeholder, theorems follow) *)
From Verif Require Import Lib.Base Model.ExprAst Model.ExprParser.

Example C04_ex_smoke :
  parse_expr false [TNumber [49]; TAdd; TNumber [50]; TMul; TNumber [51]]
  = POk (EBinary BAdd (ENum [49]) (EBinary BMul (ENum [50]) (ENum [51])), []).
Proof. vm_compute. reflexivity. Qed.
