(* C04 — Expressions group by the POSIX AWK precedence and associativity table.
   Only statements closed by [exact] of a lemma proved in Proofs/, non-vacuity examples,
   refuted full statements with their witnesses, and Print Assumptions.

   Vocabulary (Proofs/PrecSpec.v): [table]/[tlevel]/[lreq]/[rreq] = the POSIX table as data;
   [par full pe req e] = e with grouping nodes inserted (full=false: only where the table requires
   them; full=true: around every operand; pe=true: as a print argument, where an exposed > is
   parenthesised); [flat] = the tokens of a tree with explicit grouping nodes;
   [pp_min pe e] = flat (par false pe 0 e), [pp_full pe e] = fully parenthesised writing;
   [wf e] = group-free tree derivable from the grammar (lvalues where required, right operand of
   concatenation starts with an operand-only token, no bare /re/ after ~, no $$x++).
   Fix round: _cond now reads the branches of ?: with the tower's own expr()/printExpr() (repair of
   F-C04-1/2), so [fits]/[ok] treat the branches in the tower of the condition.
   [p_lv n LExpr pc None ts] = the model of parser.expr() (pc=false) / parser.printExpr() (pc=true)
   with fuel n. *)
From Verif Require Import Lib.Base Model.ExprAst Model.ExprParser Proofs.ExprParserMono Proofs.ExprParserRel
  Proofs.PrecSpec Proofs.ExprParserPrinted Proofs.ExprParserMin Proofs.ExprParserPrint Proofs.ExprParserGetline Gen.ConcatStart Proofs.ExprParserTable.

(* more fuel never changes an answer other than "out of fuel" *)
Theorem C04_fuel_monotone : forall n m l pc pend ts r,
  (n <= m)%nat -> p_lv n l pc pend ts = POk r -> p_lv m l pc pend ts = POk r.
Proof. intros n m l pc pend ts r H. apply p_lv_mono. exact H. Qed.
Print Assumptions C04_fuel_monotone.

(* general lemma: any writing that respects the table (fits), at any position k of either tower,
   followed by a token no open level consumes, is read back as exactly the tree written *)
Theorem C04_parse_printed : forall e k pc rest,
  fits pc (rk k) e -> ok pc e (hd_tok rest) = true -> (pc = true -> k <> LGetline) ->
  (tok_cont pc (hd_tok rest) <= rk k)%nat ->
  exists n0, forall n, (n0 <= n)%nat -> p_lv n k pc None (flat e ++ rest) = POk (e, rest).
Proof. exact parse_printed. Qed.
Print Assumptions C04_parse_printed.

(* both printers produce writings that respect the table, for every well-formed tree *)
Theorem C04_printers_fit : forall e, wf e -> forall full pc pe req,
  (pc = true -> pe = true) -> fits pc (pos req) (par full pe req e).
Proof. intros e H full pc pe req. apply fits_par; [apply fits_pnode | exact H]. Qed.
Print Assumptions C04_printers_fit.

(* MAIN: for every well-formed tree of any depth, in the plain tower (pe=false) and in the print
   tower (pe=true), the minimal and the fully parenthesised writing are both accepted and both
   yield e once grouping nodes are removed *)
Theorem C04_main : forall e pe rest,
  wf e -> tok_cont false (hd_tok rest) = 0%nat ->
  exists n0, forall n, (n0 <= n)%nat ->
    exists e1 e2,
      p_lv n LExpr pe None (pp_min pe e ++ rest) = POk (e1, rest) /\
      p_lv n LExpr pe None (pp_full pe e ++ rest) = POk (e2, rest) /\
      strip e1 = e /\ strip e2 = e.
Proof. exact pp_min_full_parse. Qed.
Print Assumptions C04_main.

(* print a1, .., an > dest: > is the redirection, never a comparison — for ALL well-formed arguments
   and both writings.  This is the full statement that was refuted before the repair of F-C04-1
   (the guard "the last argument does not end in an unparenthesised ?:" is gone). *)
Definition C04_print_gt_full_statement : Prop := print_gt_full_statement.
Theorem C04_print_gt : C04_print_gt_full_statement.
Proof. exact print_gt_is_redirect. Qed.
Print Assumptions C04_print_gt.

(* the same for a pipe (formerly refuted, F-C04-2) *)
Definition C04_print_pipe_full_statement : Prop := print_pipe_full_statement.
Theorem C04_print_pipe : C04_print_pipe_full_statement.
Proof. exact print_pipe_is_redirect. Qed.
Print Assumptions C04_print_pipe.

(* all three redirection tokens > >> | at once *)
Theorem C04_print_redirects : forall rt rd fl a args dest rest,
  redir_of rt = Some rd ->
  all_wf wf (a :: args) -> wf dest ->
  let args' := map (par fl true 0) (a :: args) in
  let dest' := par fl false 0 dest in
  tok_cont false (hd_tok rest) = 0%nat ->
  exists n0, forall n, (n0 <= n)%nat ->
    p_simple_stmt n (TPrint :: commas flat args' ++ rt :: flat dest' ++ rest)
    = POk (TopPrint false rd (Some dest') args', rest).
Proof. exact print_redirects. Qed.
Print Assumptions C04_print_redirects.

(* F-C04-3 (deliberate, left as it is): the table statement without the $$x++ guard of wf is false *)
Definition C04_table_full_statement : Prop := table_full_statement. (* wf without the $$x++ guard *)
Theorem C04_table_refuted : ~ C04_table_full_statement.            (* $$x++ is read as $(($x)++) *)
Proof. exact table_full_refuted. Qed.
Print Assumptions C04_table_refuted.

(* `expr | getline` binds looser than concatenation (and than everything down to ||): the whole
   expression to the left of the bar is the command *)
Theorem C04_getline_binds_looser : forall e rest,
  wf e -> (3 <= tlevel e)%nat -> tok_cont false (hd_tok rest) = 0%nat ->
  exists n0, forall n, (n0 <= n)%nat ->
    p_lv n LExpr false None (pp_min false e ++ TPipe :: TGetline :: rest)
    = POk (EGetline (Some (par false false 0 e)) None None, rest).
Proof. exact getline_binds_looser. Qed.
Print Assumptions C04_getline_binds_looser.

Corollary C04_getline_after_concat : forall l r rest,
  wf (EBinary BConcat l r) -> tok_cont false (hd_tok rest) = 0%nat ->
  exists n0, forall n, (n0 <= n)%nat ->
    p_lv n LExpr false None (pp_min false (EBinary BConcat l r) ++ TPipe :: TGetline :: rest)
    = POk (EGetline (Some (par false false 0 (EBinary BConcat l r))) None None, rest).
Proof. intros l r rest H. apply getline_binds_looser; [exact H | cbn; lia]. Qed.
Print Assumptions C04_getline_after_concat.

(* table theorems (Gen/ConcatStart.v is regenerated from lexer/token.go and parser.concat() on every
   check): the model's "starts a concatenation operand" predicate is, on every token, the loop condition
   of parser.concat() as written (fixed tokens + FIRST_FUNC..LAST_FUNC with its comparison operators);
   the model's built-in tokens are exactly that range *)
Theorem C04_concat_start_table :
  forallb (fun t => opt_bool_eqb (concat_start t) (go_concat_start (tok_name t))) all_toks = true.
Proof. exact concat_start_is_generated. Qed.
Print Assumptions C04_concat_start_table.

Theorem C04_func_range_table :
  take_through last_func (drop_until first_func token_names) = map bfn_name all_bfn /\
  concat_lo = first_func /\ concat_hi = last_func.
Proof. split; [exact func_range_is_model | exact concat_bounds_are_func_range]. Qed.
Print Assumptions C04_func_range_table.

(* ---- non-vacuity ---- *)

(* x = 1 + 2 * - 3 ^ 2 ? a[1] : $ 2 "s"   is well-formed *)
Definition ex_tree : expr :=
  EAssign (EVar [120])
    (ECond (EBinary BAdd (ENum [49]) (EBinary BMul (ENum [50]) (EUnary UMinus (EBinary BPow (ENum [51]) (ENum [50])))))
           (EIndex [97] [ENum [49]])
           (EBinary BConcat (EField (ENum [50])) (EStr [115]))).
Example C04_ex_wf : wf ex_tree.
Proof.
  cbn. repeat (first [ match goal with |- _ /\ _ => split | |- _ \/ _ => right end
                     | reflexivity | exact I | discriminate | (intros; congruence) | lia
                     | (intros _ pe; destruct pe; cbn) | (intros pe; destruct pe; cbn) ]).
Qed.
Example C04_ex_pp_min :
  pp_min false ex_tree =
  [TName [120]; TAssign; TNumber [49]; TAdd; TNumber [50]; TMul; TSub; TNumber [51]; TPow; TNumber [50];
   TQuestion; TName [97]; TLBracket; TNumber [49]; TRBracket; TColon; TDollar; TNumber [50]; TString [115]].
Proof. vm_compute. reflexivity. Qed.
Example C04_ex_parse : exists g, parse_expr false (pp_min false ex_tree) = POk (g, []) /\ strip g = ex_tree.
Proof. eexists. split; vm_compute; reflexivity. Qed.
Example C04_ex_parse_full : exists g, parse_expr false (pp_full false ex_tree) = POk (g, []) /\ strip g = ex_tree.
Proof. eexists. split; vm_compute; reflexivity. Qed.

(* the former witnesses of F-C04-1/2 on the model of the repaired parser:
   print 1 ? 2 : 3 > "f"  redirects,  print 1 ? 2 : 3 | "f"  pipes *)
Example C04_ex_print_cond_gt :
  p_simple_stmt 60 (TPrint :: pp_min true w_cond ++ TGreater :: pp_min false w_dest ++ [TRBrace])
  = POk (TopPrint false RGreater (Some w_dest) [w_cond], [TRBrace]).
Proof. exact w_print_gt_computed. Qed.
Example C04_ex_print_cond_pipe :
  p_simple_stmt 60 (TPrint :: pp_min true w_cond ++ TPipe :: pp_min false w_dest ++ [TRBrace])
  = POk (TopPrint false RPipe (Some w_dest) [w_cond], [TRBrace]).
Proof. exact w_print_pipe_computed. Qed.
(* and a comparison inside a branch of a print argument is written with parentheses *)
Example C04_ex_print_cond_branch :
  pp_min true (ECond (ENum [49]) (EBinary BGt (ENum [50]) (ENum [49])) (ENum [51]))
  = [TNumber [49]; TQuestion; TLParen true; TNumber [50]; TGreater; TNumber [49]; TRParen; TColon; TNumber [51]].
Proof. vm_compute. reflexivity. Qed.

(* getline: "a" "b" | getline  is  ("a" "b") | getline, and  x = "c" | getline y  assigns the result *)
Example C04_ex_getline_concat :
  parse_expr false [TString [97]; TString [98]; TPipe; TGetline]
  = POk (EGetline (Some (EBinary BConcat (EStr [97]) (EStr [98]))) None None, []).
Proof. vm_compute. reflexivity. Qed.
Example C04_ex_getline_assign :
  parse_expr false [TName [120]; TAssign; TString [99]; TPipe; TGetline; TName [121]]
  = POk (EAssign (EVar [120]) (EGetline (Some (EStr [99])) (Some (EVar [121])) None), []).
Proof. vm_compute. reflexivity. Qed.
