(* C10 — String, regex and int() builtins obey their defining equations.
   This file contains only statements closed by [exact] of a lemma proved in
   Proofs/, non-vacuity examples, and Print Assumptions. *)
From Verif Require Import Lib.Base Lib.Dyadic Lib.Utf8 Model.Builtins Proofs.BuiltinsBytes.

(* substr(s, m): starts at position trunc(m), taken as 1 if smaller; all remaining characters.
   Holds for every double m other than NaN, including +-inf and |m| >= 2^63. *)
Theorem C10_substr_spec : forall (s : bytes) (x : fnum) (t : ext),
  go_len s -> etrunc x = Some t -> substr_bytes s x = Ok (spec_drop s t).
Proof. exact substr_bytes_spec. Qed.
Print Assumptions C10_substr_spec.

(* substr(s, m, n): the next trunc(n) characters, none if negative, all remaining if it exceeds *)
Theorem C10_substr_len_spec : forall (s : bytes) (x y : fnum) (tx ty : ext),
  go_len s -> etrunc x = Some tx -> etrunc y = Some ty ->
  substr_len_bytes s x y = Ok (spec_take (spec_drop s tx) ty).
Proof. exact substr_len_bytes_spec. Qed.
Print Assumptions C10_substr_len_spec.

(* no argument whatsoever (NaN included) makes substr slice out of range *)
Theorem C10_substr_no_panic : forall s x, go_len s -> exists r, substr_bytes s x = Ok r.
Proof. exact substr_bytes_no_panic. Qed.
Print Assumptions C10_substr_no_panic.

Theorem C10_substr_len_no_panic : forall s x y, go_len s -> exists r, substr_len_bytes s x y = Ok r.
Proof. exact substr_len_bytes_no_panic. Qed.
Print Assumptions C10_substr_len_no_panic.

(* int(x) is x truncated toward zero for every finite x, however large *)
Theorem C10_int_spec : forall m e, builtin_int (FFin m e) = FFin (ftrunc m e) 0.
Proof. exact int_spec. Qed.
Print Assumptions C10_int_spec.

Theorem C10_trunc_is_truncation : forall m e, e < 0 ->
  let t := ftrunc m e in let d := 2 ^ (- e) in
  (0 <= m -> t * d <= m < (t + 1) * d) /\ (m <= 0 -> (t - 1) * d < m <= t * d).
Proof. exact ftrunc_spec_neg_exp. Qed.
Print Assumptions C10_trunc_is_truncation.

(* index(s,t): 0 iff t occurs nowhere, else the first position p with substr(s,p,length t) = t *)
Theorem C10_index_spec : forall (s t : bytes),
  exists i, builtin_index false s t = Ok i /\
  ((i = 0 /\ forall k, 0 <= k <= zlen s -> is_prefix t (zdrop k s) = false) \/
   (1 <= i <= zlen s + 1 /\ ztake (zlen t) (zdrop (i - 1) s) = t /\
    forall k, 1 <= k < i -> is_prefix t (zdrop (k - 1) s) = false)).
Proof. exact index_bytes_spec. Qed.
Print Assumptions C10_index_spec.

(* non-vacuity: the hypotheses are met by concrete arguments, and the huge-argument cases
   that the pinned tree got wrong (F-C10-1, F-C10-2) are covered by the statements *)
Example C10_ex_huge_pos :                          (* substr("hello", 1e30) = "" *)
  substr_bytes [104;101;108;108;111] (of_bits 5055640609639927018) = Ok [].
Proof. vm_compute. reflexivity. Qed.
Example C10_ex_huge_len :                          (* substr("hello", 2, 1e30) = "ello" *)
  substr_len_bytes [104;101;108;108;111] (of_bits 4611686018427387904) (of_bits 5055640609639927018)
  = Ok [101;108;108;111].
Proof. vm_compute. reflexivity. Qed.
Example C10_ex_int_huge :                          (* int(1e30) = 1e30 *)
  canon (builtin_int (of_bits 5055640609639927018)) = canon (of_bits 5055640609639927018).
Proof. vm_compute. reflexivity. Qed.
Example C10_ex_hyp : go_len [104;101;108;108;111] /\ etrunc (of_bits 5055640609639927018) <> None.
Proof. split; [unfold go_len; vm_compute; reflexivity | vm_compute; discriminate]. Qed.
