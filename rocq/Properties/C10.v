(* C10 — String, regex and int() builtins obey their defining equations.
   This file contains only statements closed by [exact] of a lemma proved in
   Proofs/, non-vacuity examples, and Print Assumptions. *)
From Verif Require Import Lib.Base Lib.Dyadic Lib.Utf8 Model.Builtins Proofs.BuiltinsBytes.

(* substr(s, m): starts at position trunc(m), taken as 1 if smaller; all remaining characters.
   Holds for every double m other than NaN, including +-inf and |m| >= 2^63. *)
Theorem C10_substr_spec : forall (s : bytes) (x : fnum) (t : ext),
  go_len s -> etrunc x = Some t -> substr_bytes s x = Ok (spec_drop s t).
Proof. exact substr_bytes_spec. Qed.
Print Assumptions C10_substr_spec.

(* substr(s, m, n): the next trunc(n) characters, none if negative, all remaining if it exceeds *)
Theorem C10_substr_len_spec : forall (s : bytes) (x y : fnum) (tx ty : ext),
  go_len s -> etrunc x = Some tx -> etrunc y = Some ty ->
  substr_len_bytes s x y = Ok (spec_take (spec_drop s tx) ty).
Proof. exact substr_len_bytes_spec. Qed.
Print Assumptions C10_substr_len_spec.

(* no argument whatsoever (NaN included) makes substr slice out of range *)
Theorem C10_substr_no_panic : forall s x, go_len s -> exists r, substr_bytes s x = Ok r.
Proof. exact substr_bytes_no_panic. Qed.
Print Assumptions C10_substr_no_panic.

Theorem C10_substr_len_no_panic : forall s x y, go_len s -> exists r, substr_len_bytes s x y = Ok r.
Proof. exact substr_len_bytes_no_panic. Qed.
Print Assumptions C10_substr_len_no_panic.

(* int(x) is x truncated toward zero for every finite x, however large *)
Theorem C10_int_spec : forall m e, builtin_int (FFin m e) = FFin (ftrunc m e) 0.
Proof. exact int_spec. Qed.
Print Assumptions C10_int_spec.

Theorem C10_trunc_is_truncation : forall m e, e < 0 ->
  let t := ftrunc m e in let d := 2 ^ (- e) in
  (0 <= m -> t * d <= m < (t + 1) * d) /\ (m <= 0 -> (t - 1) * d < m <= t * d).
Proof. exact ftrunc_spec_neg_exp. Qed.
Print Assumptions C10_trunc_is_truncation.

(* index(s,t): 0 iff t occurs nowhere, else the first position p with substr(s,p,length t) = t *)
Theorem C10_index_spec : forall (s t : bytes),
  exists i, builtin_index false s t = Ok i /\
  ((i = 0 /\ forall k, 0 <= k <= zlen s -> is_prefix t (zdrop k s) = false) \/
   (1 <= i <= zlen s + 1 /\ ztake (zlen t) (zdrop (i - 1) s) = t /\
    forall k, 1 <= k < i -> is_prefix t (zdrop (k - 1) s) = false)).
Proof. exact index_bytes_spec. Qed.
Print Assumptions C10_index_spec.

(* non-vacuity: the hypotheses are met by concrete arguments, and the huge-argument cases
   that the pinned tree got wrong (F-C10-1, F-C10-2) are covered by the statements *)
Example C10_ex_huge_pos :                          (* substr("hello", 1e30) = "" *)
  substr_bytes [104;101;108;108;111] (of_bits 5055640609639927018) = Ok [].
Proof. vm_compute. reflexivity. Qed.
Example C10_ex_huge_len :                          (* substr("hello", 2, 1e30) = "ello" *)
  substr_len_bytes [104;101;108;108;111] (of_bits 4611686018427387904) (of_bits 5055640609639927018)
  = Ok [101;108;108;111].
Proof. vm_compute. reflexivity. Qed.
Example C10_ex_int_huge :                          (* int(1e30) = 1e30 *)
  canon (builtin_int (of_bits 5055640609639927018)) = canon (of_bits 5055640609639927018).
Proof. vm_compute. reflexivity. Qed.
Example C10_ex_hyp : go_len [104;101;108;108;111] /\ etrunc (of_bits 5055640609639927018) <> None.
Proof. split; [unfold go_len; vm_compute; reflexivity | vm_compute; discriminate]. Qed.

(* ======================================================================================
   Character mode (-c), regex builtins, replacement strings, split, compile sites
   ====================================================================================== *)
From Verif Require Import Lib.Regex Model.BuiltinsRegex Proofs.BuiltinsUtf8 Proofs.BuiltinsRegex
  Proofs.BuiltinsEngine Gen.RegexSites Proofs.BuiltinsSites.

(* ---- character mode: positions and lengths count characters ------------------------- *)
(* substr(s, m) / substr(s, m, n) in character mode: the runes (= what Go's `for range s`
   visits: a well-formed UTF-8 sequence or one invalid byte) from max(1, trunc m) on, the next
   max(0, trunc n) of them.  Every double except NaN, every string incl. invalid UTF-8. *)
Theorem C10_substr_chars_spec : forall s x tx,
  go_len s -> etrunc x = Some tx -> substr_chars s x = Ok (concat (spec_drop (runes s) tx)).
Proof. exact substr_chars_spec. Qed.
Print Assumptions C10_substr_chars_spec.

Theorem C10_substr_len_chars_spec : forall s x y tx ty,
  go_len s -> etrunc x = Some tx -> etrunc y = Some ty ->
  substr_len_chars s x y = Ok (concat (spec_take (spec_drop (runes s) tx) ty)).
Proof. exact substr_len_chars_spec. Qed.
Print Assumptions C10_substr_len_chars_spec.

(* chars_mode_safe: on valid UTF-8 the result is valid UTF-8 (no sequence is ever cut), for all
   doubles including NaN; in particular no panic *)
Theorem C10_chars_mode_safe : forall s x y, valid_utf8 s = true ->
  (exists r, substr_chars s x = Ok r /\ valid_utf8 r = true) /\
  (exists r, substr_len_chars s x y = Ok r /\ valid_utf8 r = true).
Proof. exact chars_mode_safe. Qed.
Print Assumptions C10_chars_mode_safe.

(* ascii_modes_agree: all bytes < 128 -> character mode = byte mode, for substr (all doubles),
   index, length, and match (any engine whose matches lie inside the text) *)
Theorem C10_ascii_modes_agree : forall s, is_ascii s = true ->
  (forall x, substr_chars s x = substr_bytes s x) /\
  (forall x y, substr_len_chars s x y = substr_len_bytes s x y) /\
  (forall t, builtin_index true s t = builtin_index false s t) /\
  builtin_length true s = builtin_length false s /\
  (forall ff, engine_bounds ff -> builtin_match ff true s = builtin_match ff false s).
Proof. exact ascii_modes_agree. Qed.
Print Assumptions C10_ascii_modes_agree.

(* ---- match --------------------------------------------------------------------------- *)
(* match_substr: whatever match the engine reports for s, substr(s, RSTART, RLENGTH) is exactly
   that match, in byte mode and (when the match lies on character boundaries) in character
   mode; RSTART = 0, RLENGTH = -1 when there is none *)
Theorem C10_match_substr : forall ff, engine_bounds ff ->
  forall chars s a b,
  go_len s -> ff s 0 = Some (a, b) -> (chars = true -> on_rune_boundaries s a b) ->
  exists rstart rlength,
    builtin_match ff chars s = Ok (rstart, rlength) /\
    (if chars then substr_len_chars else substr_len_bytes) s (FFin rstart 0) (FFin rlength 0)
      = Ok (sub_str s a b) /\
    slice s a b = Ok (sub_str s a b).
Proof. exact match_substr. Qed.
Print Assumptions C10_match_substr.

Theorem C10_match_none : forall ff chars s, ff s 0 = None -> builtin_match ff chars s = Ok (0, -1).
Proof. exact match_none. Qed.
Print Assumptions C10_match_none.

(* the same for the executable leftmost-longest engine Lib/Regex: no hypothesis left *)
Theorem C10_match_substr_re : forall r chars s a b,
  go_len s -> find r s = Some (a, b) ->
  exists rstart rlength,
    match_re r chars s = Ok (rstart, rlength) /\
    (if chars then substr_len_chars else substr_len_bytes) s (FFin rstart 0) (FFin rlength 0)
      = Ok (sub_str s a b) /\
    slice s a b = Ok (sub_str s a b).
Proof. exact match_substr_re. Qed.
Print Assumptions C10_match_substr_re.

(* ---- sub / gsub ---------------------------------------------------------------------- *)
(* Go's ReplaceAllStringFunc calls its function exactly on the matches FindAllStringIndex
   reports (the non-overlapping matches, an empty match directly after a match skipped), in
   order, and copies the text between them *)
Theorem C10_replace_all_is_find_all : forall ff, engine_bounds ff -> engine_step ff ->
  forall s f, replace_all ff s f = Ok (weave_st s f (all_matches_gen ff s) 0 0).
Proof. exact replace_all_weave. Qed.
Print Assumptions C10_replace_all_is_find_all.

(* gsub_amp_identity: gsub(r, "&", t) leaves t unchanged and returns the number of matches *)
Theorem C10_gsub_amp_identity : forall ff, engine_bounds ff -> engine_step ff ->
  forall s, builtin_sub ff true [38] s = Ok (s, zlen (all_matches_gen ff s)).
Proof. exact gsub_amp_identity. Qed.
Print Assumptions C10_gsub_amp_identity.

(* gsub replaces every one of those matches by the expanded replacement ... *)
Theorem C10_gsub_spec : forall ff, engine_bounds ff -> engine_step ff ->
  forall repl s,
  builtin_sub ff true repl s =
  Ok (weave s (expand_repl repl) (all_matches_gen ff s) 0, zlen (all_matches_gen ff s)).
Proof. exact gsub_spec. Qed.
Print Assumptions C10_gsub_spec.

(* ... and sub performs exactly the first of gsub's replacements *)
Theorem C10_sub_is_first_of_gsub : forall ff, engine_bounds ff -> engine_step ff ->
  forall repl s,
  builtin_sub ff false repl s =
  Ok (weave s (expand_repl repl) (firstn 1 (all_matches_gen ff s)) 0,
      Z.min 1 (zlen (all_matches_gen ff s))).
Proof. exact sub_is_first_of_gsub. Qed.
Print Assumptions C10_sub_is_first_of_gsub.

(* the matches are ordered, non-overlapping and inside the text *)
Theorem C10_matches_sorted : forall ff, engine_bounds ff ->
  forall s, sorted_in 0 (zlen s) (all_matches_gen ff s).
Proof. exact all_matches_gen_sorted. Qed.
Print Assumptions C10_matches_sorted.

(* amp_expansion: & is the match, \& a literal ampersand, \\ a backslash, all else itself *)
Theorem C10_amp_expansion : forall m r,
  expand_repl (38 :: r) m = m ++ expand_repl r m /\
  expand_repl (92 :: 38 :: r) m = 38 :: expand_repl r m /\
  expand_repl (92 :: 92 :: r) m = 92 :: expand_repl r m /\
  (forall c, c <> 38 -> c <> 92 -> expand_repl (c :: r) m = c :: expand_repl r m) /\
  (forall c, c <> 38 -> c <> 92 -> expand_repl (92 :: c :: r) m = 92 :: c :: expand_repl r m) /\
  expand_repl [92] m = [92] /\
  expand_repl [] m = [].
Proof. exact amp_expansion. Qed.
Print Assumptions C10_amp_expansion.

(* the executable engine meets both hypotheses, and its matches lie on character boundaries;
   the generic FindAll loop over it is Lib/Regex.all_matches *)
Theorem C10_engine_hypotheses_hold : forall r,
  engine_bounds (find_from r) /\ engine_step (find_from r) /\
  (forall s a b, find r s = Some (a, b) -> on_rune_boundaries s a b) /\
  (forall s, all_matches_gen (find_from r) s = all_matches r s).
Proof. exact engine_hypotheses_hold. Qed.
Print Assumptions C10_engine_hypotheses_hold.

Theorem C10_gsub_amp_identity_re : forall r s, sub_re r true [38] s = Ok (s, zlen (all_matches r s)).
Proof. exact gsub_amp_identity_re. Qed.
Print Assumptions C10_gsub_amp_identity_re.

Theorem C10_sub_is_first_of_gsub_re : forall r repl s,
  sub_re r false repl s =
  Ok (weave s (expand_repl repl) (firstn 1 (all_matches r s)) 0, Z.min 1 (zlen (all_matches r s))) /\
  sub_re r true repl s =
  Ok (weave s (expand_repl repl) (all_matches r s) 0, zlen (all_matches r s)).
Proof. exact sub_gsub_re. Qed.
Print Assumptions C10_sub_is_first_of_gsub_re.

(* ---- split --------------------------------------------------------------------------- *)
(* split_join: separator of at most one character other than " ", s not empty: the pieces
   joined by the separator give back s; the array has exactly the keys 1..n, n returned *)
Theorem C10_split_join : forall ff sep s,
  bytes_eqb sep [32] = false -> s <> [] -> rune_count sep <= 1 ->
  exists parts,
    builtin_split ff sep false s = Ok (zlen parts, number_from 1 parts) /\
    join sep parts = s /\
    map fst (number_from 1 parts) = zseq 1 (length parts) /\
    map snd (number_from 1 parts) = parts.
Proof. exact split_join. Qed.
Print Assumptions C10_split_join.

(* a single byte separator: n = number of occurrences + 1, no piece contains the separator *)
Theorem C10_split_single_byte : forall c s,
  let parts := strings_split s [c] in
  length parts = S (count_occ Z.eq_dec s c) /\ Forall (fun p => ~ In c p) parts.
Proof. exact split_single_byte. Qed.
Print Assumptions C10_split_single_byte.

(* split in the regex regime never slices out of range *)
Theorem C10_split_regex_no_panic : forall ff, engine_bounds ff -> forall e s, exists l, re_split ff e s = Ok l.
Proof. exact re_split_no_panic. Qed.
Print Assumptions C10_split_regex_no_panic.

(* ---- longest_everywhere (table re-extracted from the repository on every check) ------- *)
Theorem C10_longest_everywhere :
  (forall s, In s regex_sites -> site_ok s = true) /\
  (forall s, In s regex_sites -> classify classification s = Some Matching ->
     rs_longest s = true /\ rs_early_uses s = [] /\ rs_fall_longest s = true) /\
  classification_used = true /\
  length regex_sites = 8%nat.
Proof. exact longest_everywhere_sites. Qed.
Print Assumptions C10_longest_everywhere.

(* ---- non-vacuity ---------------------------------------------------------------------- *)
Definition re_a_ab_abc : re := RAlt (RChr 97) (RAlt (RCat (RChr 97) (RChr 98)) (RCat (RChr 97) (RCat (RChr 98) (RChr 99)))).
Definition s_xabcx : bytes := [120;97;98;99;120].
Definition s_hello_utf8 : bytes := [104;195;169;108;108;111].      (* "héllo" *)

Example C10_ex_match_longest :                     (* match("xabcx", /a|ab|abc/): RSTART 2, RLENGTH 3 *)
  find re_a_ab_abc s_xabcx = Some (1, 4) /\ match_re re_a_ab_abc false s_xabcx = Ok (2, 3) /\ go_len s_xabcx.
Proof. split; [vm_compute; reflexivity|]. split; [vm_compute; reflexivity|unfold go_len; vm_compute; reflexivity]. Qed.

Example C10_ex_match_chars :                       (* match("héllo", /l+/) in character mode: 3, 2 *)
  match_re (RPlus (RChr 108)) true s_hello_utf8 = Ok (3, 2) /\
  match_re (RPlus (RChr 108)) false s_hello_utf8 = Ok (4, 2) /\
  valid_utf8 s_hello_utf8 = true /\ is_ascii s_hello_utf8 = false /\ is_ascii s_xabcx = true.
Proof. repeat split; vm_compute; reflexivity. Qed.

Example C10_ex_gsub :                              (* gsub(/a|ab|abc/, "[&]", "xabcxab") = 2, "x[abc]x[ab]" *)
  sub_re re_a_ab_abc true [91;38;93] [120;97;98;99;120;97;98] =
    Ok ([120;91;97;98;99;93;120;91;97;98;93], 2) /\
  sub_re re_a_ab_abc false [91;38;93] [120;97;98;99;120;97;98] =
    Ok ([120;91;97;98;99;93;120;97;98], 1) /\
  sub_re (RStar (RChr 120)) true [45] [97;120;98] = Ok ([45;97;45;98;45], 3).   (* gsub(/x*/, "-", "axb") = "-a-b-" *)
Proof. repeat split; vm_compute; reflexivity. Qed.

Example C10_ex_split :                             (* split("a,b,,c", arr, ",") = 4 *)
  split_re REps [44] false [97;44;98;44;44;99] = Ok (4, [(1,[97]); (2,[98]); (3,[]); (4,[99])]) /\
  bytes_eqb [44] [32] = false /\ rune_count [44] <= 1.
Proof. split; [vm_compute; reflexivity|]. split; [reflexivity|vm_compute; discriminate]. Qed.

Example C10_ex_substr_chars :                      (* substr("héllo", 2, 2) in character mode = "él" *)
  substr_len_chars s_hello_utf8 (of_bits 4611686018427387904) (of_bits 4611686018427387904) = Ok [195;169;108].
Proof. vm_compute. reflexivity. Qed.
