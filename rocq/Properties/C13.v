(* C13 — Output reaches each destination completely, in order, exactly once.
   Only statements closed by [exact] of a lemma proved in Proofs/Streams*.v,
   Print Assumptions, non-vacuity examples, and the refuted full statements
   with their witnesses.  The model is rocq/Model/Streams.v; the vocabulary of
   the statements (expected_file, expected_stdout, alias_free, ...) is
   rocq/Proofs/StreamsSpec.v. *)
From Verif Require Import Lib.Base Model.Streams Proofs.StreamsBase Proofs.StreamsSpec
  Proofs.StreamsStdout Proofs.StreamsOrder Proofs.StreamsFiles Proofs.StreamsMisc Proofs.StreamsWriter
  Proofs.StreamsPrefix Proofs.StreamsTrace Proofs.StreamsReuse.

(* ---------- delivered_in_order ---------- *)

(* Files.  For every program, every command behaviour, every buffer size,
   every mode of Output and every failure offset of standard output: when the
   run has ended -- normally, by exit, or by a run-time error -- no stream is
   left open and every file t holds exactly
     its old contents (or nothing, from the last "> t" open on)
     followed by every write to t in program order
   (expected_file replays the log: EvOpen n KFile true empties, EvWrite and
   EvChildAppend append).  Premises: the destinations do not alias. *)
Theorem C13_delivered_in_order_files :
  forall (E : env) (F P Q : name -> Prop), alias_free E F P Q ->
  forall (fs0 : list (name * bytes)) (limit : option nat) (ops : list op) (s : state) (r : result),
  Forall (op_within F P Q) ops ->
  run E (init_state fs0 limit) ops = (s, r) ->
  st_outs s = [] /\ forall t, fs_get (st_fs s) t = expected_file E fs0 (st_log s) t.
Proof. exact files_delivered. Qed.
Print Assumptions C13_delivered_in_order_files.

(* Standard output, when its writer never fails: at the end of the run the
   writer has received exactly the writes of the program and of its children
   in the order they were issued -- nothing is left in goawk's buffer. *)
Theorem C13_delivered_in_order_stdout :
  forall (E : env) (fs : list (name * bytes)) (ops : list op) (s : state) (r : result),
  run E (init_state fs None) ops = (s, r) -> sk_data (st_sink s) = expected_stdout (st_log s).
Proof. exact stdout_delivered. Qed.
Print Assumptions C13_delivered_in_order_stdout.

(* Standard output when its writer accepts L bytes and then fails, at any
   offset, in any history, with any Output: what the writer has received at
   the end of the run is exactly the first L bytes of the issued stream (all
   of it if it is shorter) -- never reordered, duplicated or corrupted. *)
Theorem C13_stdout_prefix :
  forall (L : nat) (E : env) (fs : list (name * bytes)) (ops : list op) (s : state) (r : result),
  run E (init_state fs (Some L)) ops = (s, r) ->
  sk_data (st_sink s) = firstn L (expected_stdout (st_log s)).
Proof. exact stdout_prefix. Qed.
Print Assumptions C13_stdout_prefix.

(* Program order.  The log the theorems above replay is the program's own
   order: the EvWrite events of a run, oldest first, are print statements of
   the program, in program order, each with exactly the bytes of that
   statement and a destination that statement names (statements that fail
   before writing, or are not reached, contribute nothing). *)
Theorem C13_program_order :
  forall E s0 ops s r, writes (st_log s0) = [] -> run E s0 ops = (s, r) ->
  sub_trace ops (rev (writes (st_log s))).
Proof. exact program_order. Qed.
Print Assumptions C13_program_order.

(* the buffer of a file/command stream is a FIFO: flushed ++ kept = old ++ new *)
Theorem C13_stream_buffer_fifo : forall cap buf p f r, buf_bytes cap buf p = (f, r) -> f ++ r = buf ++ p.
Proof. exact buf_bytes_spec. Qed.
Print Assumptions C13_stream_buffer_fifo.

(* one name = one stream until close(): while a stream is open for n, > n,
   >> n and | n all write to it; nothing is opened and nothing is truncated *)
Theorem C13_one_stream_per_name : forall E s n r r' ps, amem n (st_outs s) = true ->
  step E s (Print (DRedir r n) ps) = step E s (Print (DRedir r' n) ps).
Proof. exact one_stream_per_name. Qed.
Print Assumptions C13_one_stream_per_name.

Theorem C13_print_to_open_stream : forall E s n r ps os, amem n (st_ins s) = false -> alookup n (st_outs s) = Some os ->
  exists s' os', step E s (Print (DRedir r n) ps) = (set_outs s' (aset n os' (st_outs s')), if os_err os' then Fail else Running) /\
    write_ostream E (add_log s (EvWrite (match os_kind os with KFile => WFile n | KCmd => WCmd n end) (concat ps))) n os (concat ps) = (s', os').
Proof. exact print_to_open_stream. Qed.
Print Assumptions C13_print_to_open_stream.

(* ---------- a reused Interpreter ---------- *)
(* however a run went and ended, its closeAll leaves no output or input stream registered *)
Theorem C13_run_closes_everything : forall E s ops,
  st_outs (fst (run E s ops)) = [] /\ st_ins (fst (run E s ops)) = [].
Proof. exact run_closes_everything. Qed.
Print Assumptions C13_run_closes_everything.

(* every Execute on a reused Interpreter starts with no registered stream (closeAll closed them
   all, resetCore forgot them all -- and forgot nothing that was still open), on the file system
   the earlier runs left: a name is opened afresh in every run *)
Theorem C13_every_execute_starts_clean : forall E limit progs s,
  st_outs s = [] -> st_ins s = [] ->
  Forall (fun s0 => st_outs s0 = [] /\ st_ins s0 = []) (starts E s limit progs) /\
  Forall (fun sr => st_outs (fst sr) = [] /\ st_ins (fst sr) = []) (run_many E s limit progs).
Proof. exact every_execute_starts_clean. Qed.
Print Assumptions C13_every_execute_starts_clean.

Theorem C13_reset_core_keeps_files : forall s limit, st_fs (reset_core s limit) = st_fs s.
Proof. exact reset_core_keeps_files. Qed.
Print Assumptions C13_reset_core_keeps_files.

(* ---------- flush_before_child ---------- *)
(* Every process (system, print | cmd, cmd | getline) starts when goawk holds
   no byte of standard output that could still be delivered: its buffer is
   empty, or the writer has failed for good.  All histories, all failures. *)
Theorem C13_flush_before_child :
  forall E s0 ops s r, Forall start_ok (st_log s0) -> run E s0 ops = (s, r) -> Forall start_ok (st_log s).
Proof. exact flush_before_child. Qed.
Print Assumptions C13_flush_before_child.

(* ---------- close_status ---------- *)
(* close(n) returns: the exit status / 256+signal / 512+signal (core) / -1 of
   the command n denotes, 0 for a file, -1 if n is not open *)
Theorem C13_close_status : forall E s n s' oc, good E s -> step E s (Close n) = (s', oc) ->
  oc = Running /\ exists rest, st_obs s' = ORet (close_code E s n) :: rest.
Proof. exact close_status. Qed.
Print Assumptions C13_close_status.

(* close() of a command stream ALWAYS waits for the command and reports the
   command's own exit status -- whatever the final Flush of goawk's buffered
   data into the command's stdin did (EPIPE because the command closed or never
   read its stdin, a sticky earlier error, nothing to flush), whatever state
   standard output is in, whether or not the program waited for the command's
   marker.  The status is what waitExitCode makes of the command's wait status
   (copy_failed can only turn a 0 into -1); the wait is on the log (EvClose). *)
Theorem C13_close_cmd_waits_and_reports : forall E s n os s' oc,
  alookup n (st_ins s) = None -> alookup n (st_outs s) = Some os -> os_kind os = KCmd ->
  step E s (Close n) = (s', oc) ->
  oc = Running /\
  exists copy_failed rest l,
    let code := fst (wait_result (c_exit (e_spec E n)) copy_failed) in
    st_obs s' = ORet code :: rest /\ st_log s' = EvClose n false code :: l.
Proof. exact close_cmd_waits_and_reports. Qed.
Print Assumptions C13_close_cmd_waits_and_reports.

(* a non-zero exit status, a signal, a core dump is reported exactly, always *)
Theorem C13_close_cmd_status_nonzero : forall E s n os s' oc,
  alookup n (st_ins s) = None -> alookup n (st_outs s) = Some os -> os_kind os = KCmd ->
  c_exit (e_spec E n) <> Exited 0 ->
  step E s (Close n) = (s', oc) ->
  exists rest, st_obs s' = ORet (wait_code (c_exit (e_spec E n))) :: rest.
Proof. exact close_cmd_status_nonzero. Qed.
Print Assumptions C13_close_cmd_status_nonzero.

(* [good] holds throughout every run whose standard output never fails *)
Theorem C13_good_throughout : forall E fs ops s r, exec E (init_state fs None) ops = (s, r) -> good E s.
Proof. intros E fs ops s r. apply exec_good. apply init_good. Qed.
Print Assumptions C13_good_throughout.

(* ---------- write_failure_surfaces ---------- *)
(* full statement: the writer under Output accepts k bytes and then fails; no
   child writes to stdout; the program's own statements wrote more than k
   bytes => the run ends in an error *)
Definition C13_write_failure_surfaces_full : Prop :=
  forall (E : env) (fs : list (name * bytes)) (k : nat) (ops : list op) (s : state) (r : result),
  (forall c, c_stdout (e_spec E c) = [] /\ c_echo (e_spec E c) = false) ->
  run E (init_state fs (Some k)) ops = (s, r) ->
  (k < length (own_stdout (st_log s)))%nat -> r = RError.

Definition quiet : cmdspec :=
  {| c_sink := None; c_append := []; c_stdout := []; c_echo := false; c_drain := true; c_closes := false; c_exit := Exited 0 |}.
Definition env_of (m : omode) : env :=
  {| e_spec := fun _ => quiet; e_bad := fun _ => false; e_mode := m; e_fcap := 64 |}.

(* FALSE for a buffered Output (F-C13-1): print "hello" into a 16-byte
   bufio.Writer whose writer fails after 3 bytes: status 0, no error *)
Theorem C13_write_failure_surfaces_refuted : ~ C13_write_failure_surfaces_full.
Proof.
  intros H.
  pose (ops := [Print DStdout [[104; 101; 108; 108; 111]; [10]]]).
  pose proof (H (env_of (Buf 16)) [] 3%nat ops _ _ (fun _ => conj eq_refl eq_refl) (surjective_pairing _)) as X.
  vm_compute in X. assert (Y : RStatus 0 = RError) by (apply X; repeat constructor). discriminate.
Qed.
Print Assumptions C13_write_failure_surfaces_refuted.

(* TRUE for an unbuffered Output (a plain io.Writer or an *os.File) *)
Theorem C13_write_failure_surfaces_partial_unbuffered :
  forall (E : env), e_mode E = Unbuf \/ e_mode E = OsFile ->
  (forall c, c_stdout (e_spec E c) = [] /\ c_echo (e_spec E c) = false) ->
  forall fs k ops s r, run E (init_state fs (Some k)) ops = (s, r) ->
  (k < length (own_stdout (st_log s)))%nat -> r = RError.
Proof. exact write_failure_unbuffered. Qed.
Print Assumptions C13_write_failure_surfaces_partial_unbuffered.

(* buffered Output: once any Flush has failed, the next print fails the run *)
Theorem C13_write_failure_surfaces_partial_buffered :
  forall E cap s ps ops, e_mode E = Buf cap -> bw_err (st_out s) = true -> ps <> [] ->
  snd (run E s (Print DStdout ps :: ops)) = RError.
Proof. exact write_failure_after_failed_flush. Qed.
Print Assumptions C13_write_failure_surfaces_partial_buffered.

(* ---------- single_writer ---------- *)
(* full statement: goawk never uses Output while a live print | cmd child that
   has been given something to write to the shared stdout -- so that the
   goroutine os/exec runs for it may be inside Output.Write -- is not waited for *)
Definition C13_single_writer_full : Prop :=
  forall (E : env) (fs : list (name * bytes)) (limit : option nat) (ops : list op),
  st_overlap (fst (run E (init_state fs limit) ops)) = false.

Definition cat_env (m : omode) : env :=
  {| e_spec := fun _ => {| c_sink := None; c_append := []; c_stdout := []; c_echo := true; c_drain := true; c_closes := false; c_exit := Exited 0 |};
     e_bad := fun _ => false; e_mode := m; e_fcap := 64 |}.

(* FALSE whenever Output is not an *os.File (F-C13-2):
   print "x" | "cat"; fflush("cat"); print "h" *)
Theorem C13_single_writer_refuted : ~ C13_single_writer_full.
Proof.
  intros H.
  pose proof (H (cat_env Unbuf) [] None [Print (DRedir RPipe 14) [[120]]; Fflush (Some 14); Print DStdout [[104]]]) as X.
  vm_compute in X. discriminate.
Qed.
Print Assumptions C13_single_writer_refuted.

(* a child that writes nothing to the shared stdout (since fix c445299, childWriter) never makes
   that goroutine touch Output: print "x" | "cmd"; print "h" is no longer a witness *)
Example C13_silent_child_no_overlap : forall m, In m [OsFile; Unbuf; Buf 16] ->
  let s := fst (run (env_of m) (init_state [] None) [Print (DRedir RPipe 10) [[120]]; Print DStdout [[104]]]) in
  st_overlap s = false /\ st_unmod s = false /\ sk_data (st_sink s) = [104].
Proof. intros m [<- | [<- | [<- | []]]]; vm_compute; auto. Qed.

(* TRUE when Output is an *os.File (children then write to the descriptor themselves) *)
Theorem C13_single_writer_partial :
  forall (E : env), e_mode E = OsFile -> forall fs limit ops,
  st_overlap (fst (run E (init_state fs limit) ops)) = false.
Proof. intros E Hm fs limit ops. rewrite (single_writer_osfile E Hm). reflexivity. Qed.
Print Assumptions C13_single_writer_partial.

(* ---------- the hypotheses are satisfiable; the model computes ---------- *)
(* names as in harness/c13: files 1 2, "cat >> c1" = 10 -> file 3, "cat >> c2; exit 3" = 11 -> file 4,
   "printf xyz >> s2; exit 2" = 13 -> file 5, "printf SYSOUT" = 12 *)
Definition spec0 (c : name) : cmdspec :=
  if c =? 10 then {| c_sink := Some 3; c_append := []; c_stdout := []; c_echo := false; c_drain := true; c_closes := false; c_exit := Exited 0 |}
  else if c =? 11 then {| c_sink := Some 4; c_append := []; c_stdout := []; c_echo := false; c_drain := true; c_closes := false; c_exit := Exited 3 |}
  else if c =? 12 then {| c_sink := None; c_append := []; c_stdout := [83; 89; 83]; c_echo := false; c_drain := false; c_closes := false; c_exit := Exited 0 |}
  else if c =? 13 then {| c_sink := Some 5; c_append := [120; 121; 122]; c_stdout := []; c_echo := false; c_drain := false; c_closes := false; c_exit := Exited 2 |}
  else quiet.
Definition env0 (m : omode) : env := {| e_spec := spec0; e_bad := fun n => n =? 9; e_mode := m; e_fcap := 8 |}.
Definition F0 (n : name) : Prop := n = 1 \/ n = 2.
Definition P0 (c : name) : Prop := c = 10 \/ c = 11.
Definition Q0 (c : name) : Prop := c = 10 \/ c = 11 \/ c = 12 \/ c = 13.

Example C13_alias_free_example : forall m, alias_free (env0 m) F0 P0 Q0.
Proof.
  intros m. unfold F0, P0, Q0. constructor.
  - intros c [-> | ->]; auto.
  - intros c t [-> | [-> | [-> | ->]]]; cbn; intros H; try discriminate; injection H as <-; intros [X | X]; discriminate.
  - intros c1 c2 t [-> | ->] [-> | [-> | [-> | ->]]] Hne; cbn; intros H; try congruence; injection H as <-; congruence.
Qed.

Definition prog0 : list op :=
  [ Print DStdout [[97]; [10]];                 (* print "a" *)
    Print (DRedir RTrunc 1) [[98; 98; 98; 98; 98; 98; 98; 98; 98; 98]];   (* printf "bbbbbbbbbb" > f1 (overflows the 8-byte buffer) *)
    Print (DRedir RPipe 10) [[99]];             (* printf "c" | "cat >> c1" *)
    System 13;                                  (* system("printf xyz >> s2; exit 2") *)
    Print (DRedir RAppend 1) [[100]];           (* >> f1: same stream, no second open *)
    Close 10; Close 10;
    System 12;
    Print DStdout [[101]];
    Exit 3;
    Print DStdout [[102]] ].

Example C13_within_example : Forall (op_within F0 P0 Q0) prog0.
Proof. unfold prog0. repeat (apply Forall_cons; [cbn; unfold F0, P0, Q0; try exact I; lia|]). apply Forall_nil. Qed.

(* a command that has closed its stdin (17: exec 0<&-; : > m1 (file 6); exit 3 -- 18 the same with
   marker 7, "late\n" on the shared stdout and exit 5): the program waits for the marker, then closes *)
Definition spec1 (c : name) : cmdspec :=
  if c =? 17 then {| c_sink := Some 6; c_append := []; c_stdout := []; c_echo := false; c_drain := false; c_closes := true; c_exit := Exited 3 |}
  else if c =? 18 then {| c_sink := Some 7; c_append := []; c_stdout := [108; 97; 116; 101; 10]; c_echo := false; c_drain := false; c_closes := true; c_exit := Exited 5 |}
  else quiet.
Definition env1 (m : omode) : env := {| e_spec := spec1; e_bad := fun _ => false; e_mode := m; e_fcap := 8 |}.

Example C13_epipe_example : forall m, In m [OsFile; Unbuf; Buf 16] ->
  let (s, r) := run (env1 m) (init_state [] None)
      [ Print DStdout [[97]]; Print (DRedir RPipe 18) [[120]]; AwaitFile 7; Close 18;
        Print (DRedir RPipe 17) [[121]]; AwaitFile 6; Fflush (Some 17); Close 17; Print DStdout [[122]] ] in
  r = RStatus 0 /\
  sk_data (st_sink s) = [97; 108; 97; 116; 101; 10; 122] /\      (* a late\n z : the child's output is there before close returns *)
  rev (st_obs s) = [ORet 0; ORet 5; ORet 0; ORet (-1); ORet 3] /\ (* marker read, close = 5; marker read, fflush = -1, close = 3 *)
  st_unmod s = false.
Proof. intros m [<- | [<- | [<- | []]]]; vm_compute; repeat split; auto. Qed.

(* three runs on one Interpreter: run 1 leaves > f1 and | 10 open; run 2 opens f1 afresh (> truncates
   again) and starts the command again; run 3 finds neither open *)
Example C13_reused_example : forall m, In m [OsFile; Unbuf; Buf 16] ->
  let rs := run_many (env0 m) (init_state [(1, [111; 108; 100])] None) None
      [ [Print (DRedir RTrunc 1) [[97]]; Print (DRedir RPipe 10) [[120]]];
        [Print (DRedir RTrunc 1) [[98]]; Print (DRedir RPipe 10) [[121]]; Close 10];
        [Close 1; Close 10; Print (DRedir RAppend 1) [[99]]] ] in
  map (fun sr => (fs_get (st_fs (fst sr)) 1, fs_get (st_fs (fst sr)) 3, rev (st_obs (fst sr)))) rs =
  [ ([97], [120], []); ([98], [120; 121], [ORet 0]); ([98; 99], [120; 121], [ORet (-1); ORet (-1)]) ].
Proof. intros m [<- | [<- | [<- | []]]]; vm_compute; reflexivity. Qed.

(* the run of prog0: files, stdout, close/system results, exit status; the
   same whether Output is buffered or not *)
Example C13_run_example : forall m, In m [OsFile; Unbuf; Buf 4] ->
  let (s, r) := run (env0 m) (init_state [(1, [111; 108; 100])] None) prog0 in
  r = RStatus 3 /\
  sk_data (st_sink s) = [97; 10; 83; 89; 83; 101] /\
  fs_get (st_fs s) 1 = [98; 98; 98; 98; 98; 98; 98; 98; 98; 98; 100] /\
  fs_get (st_fs s) 3 = [99] /\ fs_get (st_fs s) 5 = [120; 121; 122] /\
  rev (st_obs s) = [ORet 2; ORet 0; ORet (-1); ORet 0] /\
  Forall start_ok (st_log s) /\ st_unmod s = false.
Proof.
  intros m [<- | [<- | [<- | []]]]; vm_compute; repeat split; auto;
    repeat constructor; auto.
Qed.
