(* C13 — Output reaches each destination completely, in order, exactly once. *)
From Verif Require Import Lib.Base Model.Streams.
