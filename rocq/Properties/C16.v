(* C16 — Scalar/array typing is sound, exact and independent of declaration order.
   This file contains only statements closed by [exact] of a lemma proved in
   Proofs/, non-vacuity examples, and Print Assumptions.

   Vocabulary (Model/Resolver.v): a program is abstracted to the events the
   resolver reads (Use v scalar/array/unknown, Call f [ArgVar v | ArgExpr es]);
   [resolve pi P] mirrors resolver.Resolve (recordVar, the visitor,
   walkOrdered, the pass loop with its limit of twice the number of variables,
   topoSort, defaulting, index assignment); [pi] says in which order a
   collection of names is gone through: the code sorts by name
   ([resolve_impl] = [resolve name_order_oracle]), the theorems hold for every
   order.  [constraints P] is the specification: one type variable per
   parameter and per global after static scoping; constants from direct uses,
   ARGV/ENVIRON/FIELDS and the special variables; equalities from variables
   passed as arguments; "not an array" for parameters that receive an
   expression; [sat P] = some assignment of scalar/array satisfies all of them.
   [wf0 P] is the property's precondition: functions defined once, calls of
   defined functions (a Go function if native) with no more arguments than
   parameters, no parameter called, no global variable named like a function. *)
From Verif Require Import Lib.Base Model.Resolver Proofs.Resolver Proofs.ResolverSound
  Proofs.ResolverExact Proofs.ResolverOrder Proofs.ResolverFlat Proofs.ResolverNoPanic
  Proofs.ResolverTopo Proofs.ResolverBound Proofs.ResolverLoop Proofs.ResolverMain Proofs.ResolverCutoff Model.ResolverFrame Proofs.ResolverFrame Proofs.ResolverVisit.

(* SOUND.  Whatever the processing order: if the resolver accepts, the types it
   returns satisfy every usage constraint, and every demand the compiler makes
   on them holds (scalarInfo/arrayInfo never reach "internal error", every
   argument in an array-parameter position is a variable of array type, an
   expression is never passed for an array parameter, length(x) sees a typed x). *)
Theorem C16_sound : forall (pi : oracle) (P : program) (F : final),
  perm_oracle pi -> names_ok P ->
  resolve pi P = ROk F ->
  solution P (rho_of (fin_types F)) /\ compile_check P F = true.
Proof. exact impl_sound. Qed.
Print Assumptions C16_sound.

(* A "can't use/pass ... as ..." rejection is never spurious: the usage
   constraints of the program have no solution. *)
Theorem C16_complete : forall (pi : oracle) (P : program) (e : rerr),
  names_ok P ->
  resolve pi P = RErr e -> is_type_error e = true -> ~ sat P.
Proof. exact impl_complete. Qed.
Print Assumptions C16_complete.

(* THE LIMIT IS UNREACHABLE.  For every program (valid or not) and every
   processing order, "too many iterations trying to resolve variable types" is
   never the answer: every update adds a variable or determines the type of
   one, and the limit is twice the number of variables.  (Before the repair of
   F-C16-1 the limit was the constant 100.) *)
Theorem C16_never_gives_up : forall (pi : oracle) (P : program), resolve pi P <> RErr ETooManyIter.
Proof. exact resolve_never_gives_up. Qed.
Print Assumptions C16_never_gives_up.

(* For a program that meets the precondition there are only two outcomes:
   accepted, or a scalar/array type error. *)
Theorem C16_outcomes : forall (pi : oracle) (P : program),
  perm_oracle pi -> wf0 P = true ->
  (exists F, resolve pi P = ROk F) \/ (exists e, resolve pi P = RErr e /\ is_type_error e = true).
Proof. exact impl_outcomes. Qed.
Print Assumptions C16_outcomes.

(* EXACT.  The verdict is exactly satisfiability of the usage constraints ... *)
Theorem C16_exact : forall (pi : oracle) (P : program),
  perm_oracle pi -> wf0 P = true ->
  ((exists F, resolve pi P = ROk F) <-> sat P).
Proof. exact impl_exact. Qed.
Print Assumptions C16_exact.

(* ... the statement that the code with the constant limit refuted (it was
   [Definition C16_full_statement] with [C16_cutoff_refuted]) *)
Theorem C16_full_statement :
  forall pi P, perm_oracle pi -> wf P = true -> ((exists F, resolve pi P = ROk F) <-> sat P).
Proof. exact (fun pi P Hpi Hwf => impl_exact pi P Hpi (wf_wf0 P Hwf)). Qed.
Print Assumptions C16_full_statement.

(* ... in particular every satisfiable program is accepted *)
Theorem C16_accepts_satisfiable : forall (pi : oracle) (P : program),
  perm_oracle pi -> wf0 P = true -> sat P -> exists F, resolve pi P = ROk F.
Proof. exact impl_accepts_satisfiable. Qed.
Print Assumptions C16_accepts_satisfiable.

(* ORDER INDEPENDENT.  Reordering the function definitions and the
   BEGIN/action/END events in any way, together with any change of the
   processing order, changes neither the verdict nor which variables and
   parameters are arrays. *)
Theorem C16_order_independent : forall (pi pi' : oracle) (P P' : program),
  perm_oracle pi -> perm_oracle pi' -> wf0 P = true -> reordered P P' ->
  ((exists F, resolve pi P = ROk F) <-> (exists F', resolve pi' P' = ROk F')) /\
  (forall F F', resolve pi P = ROk F -> resolve pi' P' = ROk F' ->
                forall k, rho_of (fin_types F') k = rho_of (fin_types F) k).
Proof. exact impl_order_independent. Qed.
Print Assumptions C16_order_independent.

Theorem C16_processing_order_irrelevant : forall (pi pi' : oracle) (P : program),
  perm_oracle pi -> perm_oracle pi' -> wf0 P = true ->
  ((exists F, resolve pi P = ROk F) <-> (exists F', resolve pi' P = ROk F')) /\
  (forall F F', resolve pi P = ROk F -> resolve pi' P = ROk F' ->
                forall k, rho_of (fin_types F') k = rho_of (fin_types F) k).
Proof. exact impl_map_order_irrelevant. Qed.
Print Assumptions C16_processing_order_irrelevant.

(* the order the implementation uses (sorted by name) is one of them *)
Theorem C16_impl_order : perm_oracle name_order_oracle /\ forall P, resolve_impl P = resolve name_order_oracle P.
Proof. exact (conj name_order_oracle_perm (fun P => eq_refl)). Qed.
Print Assumptions C16_impl_order.

(* LEAST SOLUTION / RENAMING, abstractly: if the constraint systems of two
   programs correspond under a bijection phi of the type variables (a
   consistent renaming induces one), accepted runs give corresponding types,
   whatever the orders in which the functions were processed ... *)
Theorem C16_types_correspond : forall (P P' : program) (phi psi : key -> key),
  (forall k', phi (psi k') = k') -> (forall k, psi (phi k) = k) ->
  (forall rho, solution P rho <-> solution P' (fun k' => rho (psi k'))) ->
  forall order order' F F',
  names_ok P -> names_ok P' -> covers P order -> covers P' order' ->
  resolve_order_impl order P = ROk F -> resolve_order_impl order' P' = ROk F' ->
  forall k, rho_of (fin_types F') (phi k) = rho_of (fin_types F) k.
Proof. exact impl_types_correspond. Qed.
Print Assumptions C16_types_correspond.

(* ... and the verdicts agree. *)
Theorem C16_verdict_correspond : forall (P P' : program) (phi psi : key -> key),
  (forall k', phi (psi k') = k') ->
  (forall rho, solution P rho <-> solution P' (fun k' => rho (psi k'))) ->
  forall order order',
  wf P = true -> wf P' = true -> covers P order -> covers P' order' ->
  ((exists F, resolve_order_impl order P = ROk F) <-> (exists F', resolve_order_impl order' P' = ROk F')).
Proof. exact impl_verdict_correspond. Qed.
Print Assumptions C16_verdict_correspond.

(* NO PANIC, NO FUEL: for every program and whatever ParserConfig.Funcs holds
   (Go functions, nil, values that are not functions) the model of the resolver
   never indexes funcInfo.Params out of range nor reflects on a non-function,
   and the model's own fuel (topoSort, pass loop) never runs out. *)
Theorem C16_no_panic : forall (pi : oracle) (P : program), resolve pi P <> RPanic.
Proof. exact resolve_no_panic. Qed.
Print Assumptions C16_no_panic.

Theorem C16_no_fuel : forall (pi : oracle) (P : program), perm_oracle pi -> resolve pi P <> RFuel.
Proof. exact resolve_no_fuel. Qed.
Print Assumptions C16_no_fuel.

(* The precondition needs to speak about call heads and names only: the
   per-argument range conditions of [wf] follow from the arity check. *)
Theorem C16_wf_heads_suffice : forall P, wf0 P = true <-> wf P = true.
Proof. exact (fun P => conj (wf0_wf P) (wf_wf0 P)). Qed.
Print Assumptions C16_wf_heads_suffice.

(* The resolver is the resolver with a constant limit ([resolve_cut], what the
   code was before the repair) for the constant [pass_fuel P]; every outcome of
   the constant-limit resolver other than "too many iterations" is its outcome
   under every larger constant. *)
Theorem C16_is_constant_limit : forall (pi : oracle) (P : program), resolve pi P = resolve_cut (pass_fuel P) pi P.
Proof. exact resolve_is_cut. Qed.
Print Assumptions C16_is_constant_limit.

Theorem C16_constant_limit_only : forall (cut d : nat) (pi : oracle) (P : program) (r : rres final),
  resolve_cut cut pi P = r -> r <> RErr ETooManyIter -> resolve_cut (cut + d) pi P = r.
Proof. exact cutoff_only. Qed.
Print Assumptions C16_constant_limit_only.

(* Regression witness of F-C16-1 (101 functions forwarding one parameter, the
   array known only at the caller): satisfiable; rejected under the constant
   limit 100, so that no exactness statement held for that code; accepted now. *)
Theorem C16_former_cutoff_witness :
  wf (chain_prog 101) = true /\ sat (chain_prog 101) /\
  resolve_cut cutoff (seed_oracle 0) (chain_prog 101) = RErr ETooManyIter /\
  ~ constant_limit_exactness cutoff /\
  (exists F, resolve (seed_oracle 0) (chain_prog 101) = ROk F) /\
  (exists F, resolve_impl (chain_prog 101) = ROk F).
Proof.
  exact (conj chain_wf (conj chain_sat (conj chain_rejected_by_constant_limit
        (conj constant_limit_100_refuted (conj chain_accepted chain_accepted_impl))))).
Qed.
Print Assumptions C16_former_cutoff_witness.

(* RUN-TIME CALL FRAME (interp/vm.go CallUser).  The array parameters a caller
   does not supply get pairwise distinct slots beyond every existing array, each
   holding an empty array; the supplied ones are exactly the caller's slots and
   no existing array is touched. *)
Theorem C16_missing_arrays_fresh : forall (A : Type) (empty : A) (args : list nat) (num_arrays : nat) (heap : list A),
  (length args <= num_arrays)%nat ->
  let (arr, heap') := call_arrays empty args num_arrays heap in
  let fresh := skipn (length args) arr in
  length fresh = (num_arrays - length args)%nat /\ NoDup fresh /\
  (forall s, In s fresh -> (length heap <= s)%nat /\ nth_error heap' s = Some empty) /\
  (forall i j si sj, nth_error fresh i = Some si -> nth_error fresh j = Some sj -> i <> j -> si <> sj).
Proof. exact missing_arrays_fresh. Qed.
Print Assumptions C16_missing_arrays_fresh.

Theorem C16_frame_shape : forall (A : Type) (empty : A) (args : list nat) (num_arrays : nat) (heap : list A),
  (length args <= num_arrays)%nat ->
  let (arr, heap') := call_arrays empty args num_arrays heap in
  length arr = num_arrays /\ firstn (length args) arr = args /\
  (forall i, (i < length heap)%nat -> nth_error heap' i = nth_error heap i).
Proof. exact frame_shape. Qed.
Print Assumptions C16_frame_shape.

(* function f(  a, b): two missing array parameters, p.arrays of length 3: slots 3 and 4 *)
Example C16_ex_two_missing : call_arrays 0 [] 2 [7; 8; 9] = ([3; 4]%nat, [7; 8; 9; 0; 0]).
Proof. reflexivity. Qed.

(* NO OCCURRENCE IS SKIPPED.  Every variable use that occurs anywhere in an event
   of a function body or of the top level, however deeply nested in call
   arguments, is a step the visitor runs and contributes its constraint to the
   specification (with soundness: the accepted types satisfy it). *)
Theorem C16_all_uses_visited : forall (e : event) (v : name) (t : ty),
  In (v, t) (uses_of e) -> In (SUse v t) (flat_event e).
Proof. exact all_uses_visited. Qed.
Print Assumptions C16_all_uses_visited.

Theorem C16_use_in_body_constrains : forall P fd e v t,
  In fd (p_funcs P) -> In e (f_body fd) -> In (v, t) (uses_of e) ->
  In (CIs (scope_key P (f_name fd) v) t) (constraints P).
Proof. exact use_in_body_constrains. Qed.
Print Assumptions C16_use_in_body_constrains.

Theorem C16_use_in_main_constrains : forall P e v t,
  In e (p_main P) -> In (v, t) (uses_of e) -> In (CIs (scope_key P [] v) t) (constraints P).
Proof. exact use_in_main_constrains. Qed.
Print Assumptions C16_use_in_main_constrains.

(* non-vacuity *)
Example C16_ex_oracle : perm_oracle (seed_oracle 3).
Proof. exact (seed_oracle_perm 3). Qed.

Example C16_ex_wf0 : wf0 (chain_prog 101) = true.
Proof. apply wf_wf0. exact chain_wf. Qed.

Example C16_ex_reordered : reordered (chain_prog 3)
  {| p_natives := []; p_funcs := rev (p_funcs (chain_prog 3)); p_main := p_main (chain_prog 3) |}.
Proof.
  split; [reflexivity|]. split; [apply Permutation.Permutation_rev | apply Permutation.Permutation_refl].
Qed.

(* a Funcs entry that is not a function: calling it is a parse error, not a panic *)
Example C16_ex_not_a_function :
  resolve_impl {| p_natives := [ {| n_name := [102]; n_in := 0; n_variadic := false; n_func := false |} ];
                  p_funcs := []; p_main := [Call [102] [ArgExpr []]] |} = RErr (ENotFunc [102]).
Proof. vm_compute. reflexivity. Qed.
