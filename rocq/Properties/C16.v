(* C16 — Scalar/array typing is sound, exact and independent of declaration order.
   This file contains only statements closed by [exact] of a lemma proved in
   Proofs/, non-vacuity examples, and Print Assumptions.

   Vocabulary (Model/Resolver.v): a program is abstracted to the events the
   resolver reads (Use v scalar/array/unknown, Call f [ArgVar v | ArgExpr es]);
   [resolve pi P] mirrors resolver.Resolve (recordVar, the visitor,
   walkOrdered, the pass loop with its cut-off of 100, topoSort, defaulting,
   index assignment), Go's map iteration order being an oracle [pi] that may
   return any permutation each time it is asked.  [constraints P] is the
   specification: one type variable per parameter and per global after static
   scoping; constants from direct uses, ARGV/ENVIRON/FIELDS and the special
   variables; equalities from variables passed as arguments; "not an array"
   for parameters that receive an expression; [sat P] = some assignment of
   scalar/array satisfies all of them.  [wf0 P] is the property's
   precondition: functions defined once, calls of defined functions with no
   more arguments than parameters, no parameter called, no global variable
   named like a function. *)
From Verif Require Import Lib.Base Model.Resolver Proofs.Resolver Proofs.ResolverSound
  Proofs.ResolverExact Proofs.ResolverOrder Proofs.ResolverFlat Proofs.ResolverNoPanic
  Proofs.ResolverTopo Proofs.ResolverBound Proofs.ResolverMain Proofs.ResolverCutoff.

(* SOUND.  Whatever the map iteration order: if the resolver accepts, the types
   it returns satisfy every usage constraint, and every demand the compiler
   makes on them holds (scalarInfo/arrayInfo never reach "internal error",
   every argument in an array-parameter position is a variable of array type,
   an expression is never passed for an array parameter, length(x) sees a
   typed x). *)
Theorem C16_sound : forall (pi : oracle) (P : program) (F : final),
  perm_oracle pi -> names_ok P ->
  resolve pi P = ROk F ->
  solution P (rho_of (fin_types F)) /\ compile_check P F = true.
Proof. exact (resolve_sound cutoff). Qed.
Print Assumptions C16_sound.

(* COMPLETE.  A "can't use/pass ... as ..." rejection is never spurious: the
   usage constraints of the program have no solution. *)
Theorem C16_complete : forall (pi : oracle) (P : program) (e : rerr),
  names_ok P ->
  resolve pi P = RErr e -> is_type_error e = true -> ~ sat P.
Proof. exact (resolve_complete cutoff). Qed.
Print Assumptions C16_complete.

(* For a program that meets the precondition there are only three outcomes:
   accepted, a type error, or "too many iterations". *)
Theorem C16_outcomes : forall (pi : oracle) (P : program),
  perm_oracle pi -> wf0 P = true ->
  (exists F, resolve pi P = ROk F) \/
  (exists e, resolve pi P = RErr e /\ is_type_error e = true) \/
  resolve pi P = RErr ETooManyIter.
Proof. exact (main_outcomes cutoff). Qed.
Print Assumptions C16_outcomes.

(* EXACT (partial: the guard excludes the 100-pass cut-off, finding F-C16-1).
   The verdict is exactly satisfiability of the usage constraints. *)
Theorem C16_exact_partial : forall (pi : oracle) (P : program),
  perm_oracle pi -> wf0 P = true ->
  resolve pi P <> RErr ETooManyIter ->
  ((exists F, resolve pi P = ROk F) <-> sat P).
Proof. exact (main_exact cutoff). Qed.
Print Assumptions C16_exact_partial.

(* EXACT for programs with at most 50 distinct parameters and global variables
   (ARGV, ENVIRON, FIELDS counted): there the cut-off provably cannot fire
   (every pass that is followed by another one created a variable or
   determined a type), so the statement is unguarded. *)
Theorem C16_exact_small : forall (pi : oracle) (P : program),
  perm_oracle pi -> wf0 P = true -> 2 * key_count P <= 100 ->
  ((exists F, resolve pi P = ROk F) <-> sat P).
Proof. exact (main_exact_small cutoff). Qed.
Print Assumptions C16_exact_small.

Theorem C16_order_independent_small : forall (pi pi' : oracle) (P P' : program),
  perm_oracle pi -> perm_oracle pi' -> wf0 P = true -> reordered P P' ->
  2 * key_count P <= 100 -> 2 * key_count P' <= 100 ->
  ((exists F, resolve pi P = ROk F) <-> (exists F', resolve pi' P' = ROk F')) /\
  (forall F F', resolve pi P = ROk F -> resolve pi' P' = ROk F' ->
                forall k, rho_of (fin_types F') k = rho_of (fin_types F) k).
Proof. exact (main_order_independent_small cutoff). Qed.
Print Assumptions C16_order_independent_small.

(* ORDER INDEPENDENT (partial: same guard).  Reordering the function definitions
   and the BEGIN/action/END events in any way, together with any change of
   Go's map iteration order, changes neither the verdict nor which variables
   and parameters are arrays. *)
Theorem C16_order_independent_partial : forall (pi pi' : oracle) (P P' : program),
  perm_oracle pi -> perm_oracle pi' -> wf0 P = true -> reordered P P' ->
  resolve pi P <> RErr ETooManyIter -> resolve pi' P' <> RErr ETooManyIter ->
  ((exists F, resolve pi P = ROk F) <-> (exists F', resolve pi' P' = ROk F')) /\
  (forall F F', resolve pi P = ROk F -> resolve pi' P' = ROk F' ->
                forall k, rho_of (fin_types F') k = rho_of (fin_types F) k).
Proof. exact (main_order_independent cutoff). Qed.
Print Assumptions C16_order_independent_partial.

(* Go's randomised map iteration alone never changes verdict or types *)
Theorem C16_map_order_irrelevant_partial : forall (pi pi' : oracle) (P : program),
  perm_oracle pi -> perm_oracle pi' -> wf0 P = true ->
  resolve pi P <> RErr ETooManyIter -> resolve pi' P <> RErr ETooManyIter ->
  ((exists F, resolve pi P = ROk F) <-> (exists F', resolve pi' P = ROk F')) /\
  (forall F F', resolve pi P = ROk F -> resolve pi' P = ROk F' ->
                forall k, rho_of (fin_types F') k = rho_of (fin_types F) k).
Proof. exact (main_map_order_irrelevant cutoff). Qed.
Print Assumptions C16_map_order_irrelevant_partial.

(* LEAST SOLUTION / RENAMING, abstractly: if the constraint systems of two
   programs correspond under a bijection phi of the type variables (a
   consistent renaming induces one), accepted runs give corresponding types,
   whatever the orders in which the functions were processed ... *)
Theorem C16_types_correspond : forall (P P' : program) (phi psi : key -> key),
  (forall k', phi (psi k') = k') -> (forall k, psi (phi k) = k) ->
  (forall rho, solution P rho <-> solution P' (fun k' => rho (psi k'))) ->
  forall cut cut' order order' F F',
  names_ok P -> names_ok P' -> covers P order -> covers P' order' ->
  resolve_order cut order P = ROk F -> resolve_order cut' order' P' = ROk F' ->
  forall k, rho_of (fin_types F') (phi k) = rho_of (fin_types F) k.
Proof. exact types_correspond. Qed.
Print Assumptions C16_types_correspond.

(* ... and the verdicts agree (same guard). *)
Theorem C16_verdict_correspond_partial : forall (P P' : program) (phi psi : key -> key),
  (forall k', phi (psi k') = k') ->
  (forall rho, solution P rho <-> solution P' (fun k' => rho (psi k'))) ->
  forall cut cut' order order',
  wf P = true -> wf P' = true -> covers P order -> covers P' order' ->
  resolve_order cut order P <> RErr ETooManyIter -> resolve_order cut' order' P' <> RErr ETooManyIter ->
  ((exists F, resolve_order cut order P = ROk F) <-> (exists F', resolve_order cut' order' P' = ROk F')).
Proof. exact verdict_correspond. Qed.
Print Assumptions C16_verdict_correspond_partial.

(* NO PANIC, NO FUEL: for every program (valid or not) the model of the resolver
   never indexes funcInfo.Params out of range nor reflects on a missing native
   function, and the model of topoSort terminates within its fuel. *)
Theorem C16_no_panic : forall (pi : oracle) (P : program), resolve pi P <> RPanic.
Proof. exact (resolve_cut_no_panic cutoff). Qed.
Print Assumptions C16_no_panic.

Theorem C16_no_fuel : forall (pi : oracle) (P : program), perm_oracle pi -> resolve pi P <> RFuel.
Proof. exact (resolve_cut_no_fuel cutoff). Qed.
Print Assumptions C16_no_fuel.

(* The precondition needs to speak about call heads and names only: the
   per-argument range conditions of [wf] follow from the arity check. *)
Theorem C16_wf_heads_suffice : forall P, wf0 P = true <-> wf P = true.
Proof. exact (fun P => conj (wf0_wf P) (wf_wf0 P)). Qed.
Print Assumptions C16_wf_heads_suffice.

(* The full statement without the guard is false for the code as it is
   (finding F-C16-1): 101 functions forwarding one parameter, the array known
   only at the caller. *)
Definition C16_full_statement : Prop :=
  forall pi P, perm_oracle pi -> wf P = true -> ((exists F, resolve pi P = ROk F) <-> sat P).

Theorem C16_cutoff_refuted : ~ C16_full_statement.
Proof. exact full_exactness_refuted. Qed.
Print Assumptions C16_cutoff_refuted.

(* The constant 100 decides nothing else: every outcome other than "too many
   iterations" is the outcome under every larger cut-off. *)
Theorem C16_cutoff_only : forall (cut d : nat) (pi : oracle) (P : program) (r : rres final),
  resolve_cut cut pi P = r -> r <> RErr ETooManyIter -> resolve_cut (cut + d) pi P = r.
Proof. exact cutoff_only. Qed.
Print Assumptions C16_cutoff_only.

Theorem C16_cutoff_witness :
  wf (chain_prog 101) = true /\ sat (chain_prog 101) /\
  resolve (seed_oracle 0) (chain_prog 101) = RErr ETooManyIter /\
  (exists F, resolve (seed_oracle 0) (chain_prog 100) = ROk F) /\
  (exists F, resolve_cut 101 (seed_oracle 0) (chain_prog 101) = ROk F).
Proof.
  exact (conj chain_wf (conj chain_sat (conj chain_rejected (conj chain_100_accepted chain_accepted_with_higher_cutoff)))).
Qed.
Print Assumptions C16_cutoff_witness.

(* non-vacuity: the hypotheses are met by concrete oracles and programs; the
   guard of the partial theorems holds for the 100-function chain *)
Example C16_ex_oracle : perm_oracle (seed_oracle 3).
Proof. exact (seed_oracle_perm 3). Qed.

Example C16_ex_guard :
  wf0 (chain_prog 100) = true /\ resolve (seed_oracle 0) (chain_prog 100) <> RErr ETooManyIter.
Proof.
  split; [apply wf_wf0; vm_compute; reflexivity|].
  destruct chain_100_accepted as [F HF]. rewrite HF. discriminate.
Qed.

Example C16_ex_small : 2 * key_count (chain_prog 40) <= 100 /\ key_count (chain_prog 101) = 105.
Proof. split; vm_compute; [discriminate | reflexivity]. Qed.

Example C16_ex_reordered : reordered (chain_prog 3)
  {| p_natives := []; p_funcs := rev (p_funcs (chain_prog 3)); p_main := p_main (chain_prog 3) |}.
Proof.
  split; [reflexivity|]. split; [apply Permutation.Permutation_rev | apply Permutation.Permutation_refl].
Qed.
