(* C16 — Scalar/array typing is sound, exact and independent of declaration order.
   This file contains only statements closed by [exact] of a lemma proved in
   Proofs/, non-vacuity examples, and Print Assumptions.

   Vocabulary (Model/Resolver.v): a program is abstracted to the events the
   resolver reads; [resolve pi P] mirrors resolver.Resolve, with Go's map
   iteration order given by an oracle [pi] (any permutation each time);
   [constraints P] is the specification: one type variable per parameter and
   per global after static scoping, constants from direct uses, equalities
   from variables passed as arguments, "not an array" for expression
   arguments; [sat P] = some assignment satisfies all of them. *)
From Verif Require Import Lib.Base Model.Resolver Proofs.Resolver Proofs.ResolverSound
  Proofs.ResolverExact Proofs.ResolverOrder Proofs.ResolverCutoff.

(* SOUND.  Whatever the map iteration order: if the resolver accepts, the types
   it returns satisfy every usage constraint, and every demand the compiler
   makes on them holds (scalarInfo/arrayInfo never reach "internal error",
   every argument in an array-parameter position is a variable of array type,
   an expression is never passed for an array parameter). *)
Theorem C16_sound : forall (pi : oracle) (P : program) (F : final),
  perm_oracle pi -> names_ok P ->
  resolve pi P = ROk F ->
  solution P (rho_of (fin_types F)) /\ compile_check P F = true.
Proof. exact (resolve_sound cutoff). Qed.
Print Assumptions C16_sound.

(* COMPLETE.  A "can't use/pass ... as ..." rejection is never spurious: the
   usage constraints of the program have no solution. *)
Theorem C16_complete : forall (pi : oracle) (P : program) (e : rerr),
  names_ok P ->
  resolve pi P = RErr e -> is_type_error e = true -> ~ sat P.
Proof. exact (resolve_complete cutoff). Qed.
Print Assumptions C16_complete.

(* EXACT (partial: guard = the 100-pass cut-off did not fire).  For a program
   that meets the property's precondition [wf] (functions defined once, calls
   of defined functions with no more arguments than parameters, no variable
   named like a function) the verdict is exactly satisfiability. *)
Theorem C16_exact_partial : forall (pi : oracle) (P : program),
  perm_oracle pi -> wf P = true ->
  resolve pi P <> RErr ETooManyIter -> resolve pi P <> RFuel ->
  ((exists F, resolve pi P = ROk F) <-> sat P).
Proof. exact (resolve_exact cutoff). Qed.
Print Assumptions C16_exact_partial.

(* ORDER INDEPENDENT (partial: same guard).  Reordering the function definitions
   and the BEGIN/action/END events in any way, and any change of Go's map
   iteration order, changes neither the verdict nor which variables and
   parameters are arrays. *)
Theorem C16_order_independent_partial : forall (pi pi' : oracle) (P P' : program),
  perm_oracle pi -> perm_oracle pi' -> wf P = true -> reordered P P' ->
  resolve pi P <> RErr ETooManyIter -> resolve pi P <> RFuel ->
  resolve pi' P' <> RErr ETooManyIter -> resolve pi' P' <> RFuel ->
  ((exists F, resolve pi P = ROk F) <-> (exists F', resolve pi' P' = ROk F')) /\
  (forall F F', resolve pi P = ROk F -> resolve pi' P' = ROk F' ->
                forall k, rho_of (fin_types F') k = rho_of (fin_types F) k).
Proof. exact (reorder_independent cutoff). Qed.
Print Assumptions C16_order_independent_partial.

(* LEAST SOLUTION / RENAMING, abstractly: if the constraint systems of two
   programs correspond under a bijection phi of the type variables (a
   consistent renaming induces one), accepted runs give corresponding types,
   whatever the orders in which the functions were processed ... *)
Theorem C16_types_correspond : forall (P P' : program) (phi psi : key -> key),
  (forall k', phi (psi k') = k') -> (forall k, psi (phi k) = k) ->
  (forall rho, solution P rho <-> solution P' (fun k' => rho (psi k'))) ->
  forall cut cut' order order' F F',
  names_ok P -> names_ok P' -> covers P order -> covers P' order' ->
  resolve_order cut order P = ROk F -> resolve_order cut' order' P' = ROk F' ->
  forall k, rho_of (fin_types F') (phi k) = rho_of (fin_types F) k.
Proof. exact types_correspond. Qed.
Print Assumptions C16_types_correspond.

(* ... and the verdicts agree (same guard). *)
Theorem C16_verdict_correspond_partial : forall (P P' : program) (phi psi : key -> key),
  (forall k', phi (psi k') = k') ->
  (forall rho, solution P rho <-> solution P' (fun k' => rho (psi k'))) ->
  forall cut cut' order order',
  wf P = true -> wf P' = true -> covers P order -> covers P' order' ->
  resolve_order cut order P <> RErr ETooManyIter -> resolve_order cut' order' P' <> RErr ETooManyIter ->
  ((exists F, resolve_order cut order P = ROk F) <-> (exists F', resolve_order cut' order' P' = ROk F')).
Proof. exact verdict_correspond. Qed.
Print Assumptions C16_verdict_correspond_partial.

(* The full statement without the guard is false for the code as it is
   (finding F-C16-1): 101 functions forwarding one parameter, the array known
   only at the caller. *)
Definition C16_full_statement : Prop :=
  forall pi P, perm_oracle pi -> wf P = true -> ((exists F, resolve pi P = ROk F) <-> sat P).

Theorem C16_cutoff_refuted : ~ C16_full_statement.
Proof. exact full_exactness_refuted. Qed.
Print Assumptions C16_cutoff_refuted.

Theorem C16_cutoff_witness :
  wf (chain_prog 101) = true /\ sat (chain_prog 101) /\
  resolve (seed_oracle 0) (chain_prog 101) = RErr ETooManyIter /\
  (exists F, resolve (seed_oracle 0) (chain_prog 100) = ROk F) /\
  (exists F, resolve_cut 101 (seed_oracle 0) (chain_prog 101) = ROk F).
Proof.
  exact (conj chain_wf (conj chain_sat (conj chain_rejected (conj chain_100_accepted chain_accepted_with_higher_cutoff)))).
Qed.
Print Assumptions C16_cutoff_witness.

(* non-vacuity *)
Example C16_ex_oracle : perm_oracle (seed_oracle 3).
Proof. exact (seed_oracle_perm 3). Qed.
