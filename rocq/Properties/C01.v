(* C01 — Compiled execution preserves the meaning of the parsed program.
   Statements only (closed by [exact]), non-vacuity examples, the refuted full statement. *)
From Verif Require Import Lib.Base Model.Ast Model.Instr Model.Compiler Model.Prims Model.VM Model.AstSem
  Model.PrimsToy Model.CancelToy Model.ExecToy Proofs.PrimsOk Proofs.SimDefs Proofs.CompilerCorrect Proofs.PrimsToyOk
  Proofs.CompLemmas Proofs.ExecToyOk.

(* For every implementation P of the interpreter's primitive operations that satisfies the
   equations [prims_ok] (the two code sites of a duplicated operation agree; x+1 is what Incr
   adds; an integral constant subscript is its decimal string; ...) and the guard
   [concat_indep] (see C01_concat_chain_refuted), for every function table FN, statement list,
   state, stack and fuel: if direct evaluation of the syntax tree completes, returns or aborts
   (next / nextfile / exit / run-time error), then the VM run on the compiled code produces
   exactly that outcome with exactly that state and an unchanged stack, for every sufficiently
   large fuel.  Covers every statement and expression form of internal/ast, the three
   statement-position shortcuts, fused compare-and-branch, FieldInt, constant-index strings,
   ConcatMulti, all six lvalue kinds in all scopes, user calls with array/scalar/missing
   arguments, for-in, break/continue in every loop form. *)
Theorem C01_compile_block_correct_partial :
  forall (value St err : Type) (P : prims value St err) (FN : list func),
  prims_ok P -> concat_indep P ->
  forall n ss m stk r,
  vres_of_x stk (exec_stmts P FN n false ss m) = Some r ->
  exists k0, forall k, (k0 <= k)%nat -> run P (F FN) k (comp_block ss) 0 stk m = r.
Proof. exact compile_block_correct. Qed.
Print Assumptions C01_compile_block_correct_partial.

(* pattern expressions *)
Theorem C01_compile_expr_correct_partial :
  forall (value St err : Type) (P : prims value St err) (FN : list func),
  prims_ok P -> concat_indep P ->
  forall n e m stk r,
  vres_of_e stk (eval P FN n e m) = Some r ->
  exists k0, forall k, (k0 <= k)%nat -> run P (F FN) k (comp_expr e) 0 stk m = r.
Proof. exact compile_expr_correct. Qed.
Print Assumptions C01_compile_expr_correct_partial.

(* equivalent spellings (same syntax-tree meaning) have compiled code with equal behaviour *)
Theorem C01_spellings_agree_partial :
  forall (value St err : Type) (P : prims value St err) (FN : list func),
  prims_ok P -> concat_indep P ->
  forall n1 n2 ss1 ss2 m stk r,
  vres_of_x stk (exec_stmts P FN n1 false ss1 m) = Some r ->
  vres_of_x stk (exec_stmts P FN n2 false ss2 m) = Some r ->
  exists k0, forall k, (k0 <= k)%nat ->
    run P (F FN) k (comp_block ss1) 0 stk m = r /\ run P (F FN) k (comp_block ss2) 0 stk m = r.
Proof. exact spellings_agree. Qed.
Print Assumptions C01_spellings_agree_partial.

(* the evaluation stack is back where it was after every completed statement list *)
Theorem C01_stack_balanced_partial :
  forall (value St err : Type) (P : prims value St err) (FN : list func),
  prims_ok P -> concat_indep P ->
  forall n ss m m' stk,
  exec_stmts P FN n false ss m = RNormal m' ->
  exists k, run P (F FN) k (comp_block ss) 0 stk m = VDone stk m'.
Proof. exact stack_balanced. Qed.
Print Assumptions C01_stack_balanced_partial.

(* compiled code never underflows the stack, fetches outside the code or jumps into the middle
   of an instruction when the tree has a meaning *)
Theorem C01_compiled_never_stuck_partial :
  forall (value St err : Type) (P : prims value St err) (FN : list func),
  prims_ok P -> concat_indep P ->
  forall n ss m stk r,
  vres_of_x stk (exec_stmts P FN n false ss m) = Some r ->
  forall k, run P (F FN) k (comp_block ss) 0 stk m = VStuck -> False.
Proof. exact compiled_never_stuck. Qed.
Print Assumptions C01_compiled_never_stuck_partial.

(* the size of compiled code does not depend on the jump distances of the enclosing loop *)
Theorem C01_code_size_context_independent :
  forall ss l l', same_kind l l' -> csize (comp_stmts l ss) = csize (comp_stmts l' ss).
Proof. exact stmts_size_kind. Qed.
Print Assumptions C01_code_size_context_independent.

(* ---- the executable instance that is run against goawk ----
   [xprims] (Model/ExecToy.v: integers, global scalars and arrays, locals, arithmetic,
   comparisons, user calls, for-in, print of numbers) is the primitive record of the execution
   correspondence (harness/c01: both model semantics vs the implementation's output, status and
   error).  It meets the hypotheses of the theorems above, so for THIS record the statement is
   closed: whatever the tree semantics computes for a program with one BEGIN block, the code the
   model compiler emits computes too. *)
Theorem C01_executable_instance_ok : prims_ok xprims /\ concat_indep xprims.
Proof. exact (conj xprims_ok xprims_indep). Qed.
Print Assumptions C01_executable_instance_ok.

Theorem C01_executable_instance_correct :
  forall (p : program) (b : stmts) (n : nat),
  p_begin p = [b] ->
  good_end (toy_ast_run n p) ->
  exists k0, forall k, (k0 <= k)%nat -> toy_vm_run k p = toy_ast_run n p.
Proof. exact toy_instance_correct. Qed.
Print Assumptions C01_executable_instance_correct.

(* ---- non-vacuity: an instance meeting the hypotheses, and a program run through both
        semantics inside Coq ---- *)
Example C01_hypotheses_satisfiable : prims_ok toy_plain /\ concat_indep toy_plain.
Proof. split; [apply toy_ok|apply toy_plain_indep]. Qed.

(* function f(p) { return p * 2 }
   x = 0; while (x < 4) { x++; if (x == 2) continue; print x, f(x) "" x; if (x > 2) break }
   for (k in A) print k *)
Definition ex_funcs : list func :=
  [ {| f_nscalars := 1; f_narrays := 0;
       f_body := Scons (SReturn (OEsome (EBin (BArith AMul) (EVar SLocal 0) (ENum 2)))) Snil |} ].
Definition ex_prog : stmts :=
  Scons (SExpr (EAssign (LVar SGlobal 0) (ENum 0)))
 (Scons (SWhile (EBin (BCmp CLt) (EVar SGlobal 0) (ENum 4))
          (Scons (SExpr (EIncr (LVar SGlobal 0) false false))
          (Scons (SIf (EBin (BCmp CEq) (EVar SGlobal 0) (ENum 2)) (Scons SContinue Snil) Snil)
          (Scons (SPrint RNone (ENum 0)
                   (Econs (EVar SGlobal 0)
                   (Econs (EConcat (EConcat (EUserCall 0 1 (AconsS (EVar SGlobal 0) Anil)) (EStr [])) (EVar SGlobal 0)) Enil)))
          (Scons (SIf (EBin (BCmp CGt) (EVar SGlobal 0) (ENum 2)) (Scons SBreak Snil) Snil) Snil)))))
 (Scons (SForIn SGlobal 1 SGlobal 0 (Scons (SPrint RNone (ENum 0) (Econs (EVar SGlobal 1) Enil)) Snil)) Snil)).

Definition m0 : mstate Z tstate := {| ms := tinit; frame := []; depth := 0 |}.

Example C01_both_semantics_agree :
  exists m', exec_stmts toy_plain ex_funcs 60 false ex_prog m0 = RNormal m' /\
             run toy_plain (F ex_funcs) 400 (comp_block ex_prog) 0 [] m0 = VDone [] m' /\
             t_out (ms m') = [1; 201; 3; 603; 7; 8].
Proof. eexists. vm_compute. repeat split. Qed.

(* ---- the full statement (without the concatenation guard) is false ---- *)
Definition C01_full_statement : Prop :=
  forall (value St err : Type) (P : prims value St err) (FN : list func),
  prims_ok P ->
  forall n e m stk r,
  vres_of_e stk (eval P FN n e m) = Some r ->
  exists k0, forall k, (k0 <= k)%nat -> run P (F FN) k (comp_expr e) 0 stk m = r.

(* a b (g0 = 5) where concatenation consults global 0 (as CONVFMT steers number-to-string
   conversion in goawk): the tree converts a b before the third operand runs, ConcatMulti
   converts all three afterwards (finding F-C01-3) *)
Definition chain_witness : expr :=
  EConcat (EConcat (ENum 1) (ENum 2)) (EAssign (LVar SGlobal 0) (ENum 5)).

Theorem C01_concat_chain_refuted : ~ C01_full_statement.
Proof.
  intros H.
  destruct (H Z tstate unit toy_dep [] (toy_ok _) 20%nat chain_witness m0 []
              (VDone [130] {| ms := {| t_glob := [5]; t_out := [] |}; frame := []; depth := 0 |})
              ltac:(vm_compute; reflexivity)) as [k0 Hk].
  specialize (Hk (Nat.max k0 50) (Nat.le_max_l _ _)).
  assert (Hrun : run toy_dep (F []) (Nat.max k0 50) (comp_expr chain_witness) 0 [] m0 =
                 VDone [180] {| ms := {| t_glob := [5]; t_out := [] |}; frame := []; depth := 0 |}).
  { eapply Proofs.VMLemmas.run_mono with (k := 50%nat); [vm_compute; reflexivity|discriminate|apply Nat.le_max_r]. }
  rewrite Hrun in Hk. discriminate.
Qed.
Print Assumptions C01_concat_chain_refuted.
