(* C18 — Coverage instrumentation is transparent and its counts are exact.
   This file contains only statements closed by [exact] of a lemma proved in Proofs/,
   non-vacuity examples, refutation witnesses and Print Assumptions.

   Reading guide.  [annotate files mode P] = (A, B): the annotated program and the block table
   (model of cover.Annotate).  [run ... X bump n p q] is the abstract big-step run of a whole
   program (BEGIN, rules over the records, END) with fuel n from state q = (user-visible state,
   __COVER, ghost trace of "statement began" events); expressions, statements' effects, input
   and output are arbitrary functions of the user-visible state ONLY (that is the hypothesis
   that the program does not mention __COVER).  Outcome [OFuel] = the fuel ran out. *)
From Verif Require Import Lib.Base Model.Cover Proofs.CoverBase Proofs.CoverStruct Proofs.CoverSim
  Proofs.CoverMain Proofs.CoverWf Proofs.CoverOwn Proofs.CoverFiles.

(* ---- transparency ------------------------------------------------------------------- *)
(* For every interpreter (all primitives arbitrary), every program without counter statements
   (no restriction on the shape of action bodies or END blocks since the repairs of F-C18-1 in
   cover.annotateStmts and of F-C18-3 in the compiler), both modes,
   every fuel and start state: the annotated program and the original end with the same outcome,
   the same user-visible state (output, variables, exit status) and the same ghost trace; if
   one runs out of fuel so does the other. *)
Theorem C18_transparent :
  forall (E U K V I : Type) (ev_start : E -> U -> estep U K V) (ev_resume : K -> U -> V -> estep U K V)
    (truthy : V -> bool) (nil_v : V) (forin_init : E -> U -> I) (forin_next : E -> I -> U -> option (I * U))
    (next_record : U -> nrec U V) (print_record : U -> U * option V) (skip_file : U -> U)
    (files : ftable) (XA XB : Type) (bumpA : cmode -> Z -> XA -> XA) (bumpB : cmode -> Z -> XB -> XB)
    (mode : cmode) (P : program E),
  nocov_prog P = true ->
  forall n u x xb tr,
  let rA := run E U K V I ev_start ev_resume truthy nil_v forin_init forin_next next_record print_record skip_file
              XA bumpA n (fst (annotate files mode P)) (mkst U XA u x tr) in
  let rP := run E U K V I ev_start ev_resume truthy nil_v forin_init forin_next next_record print_record skip_file
              XB bumpB n P (mkst U XB u xb tr) in
  snd rA = snd rP
  /\ (snd rA <> OFuel V -> s_u _ _ (fst rA) = s_u _ _ (fst rP) /\ s_tr _ _ (fst rA) = s_tr _ _ (fst rP)).
Proof. exact transparent. Qed.
Print Assumptions C18_transparent.

(* the full statement of the design: formerly refuted by {} (F-C18-1) and { { } } (F-C18-3), now a
   theorem.  Remaining premises: nocov_prog P (the parsed program contains no counter statement:
   true of every parser output) and the built-in hypothesis that no primitive touches __COVER. *)
Definition C18_transparent_full_statement : Prop := transparent_full_statement.
Theorem C18_transparent_full : C18_transparent_full_statement.
Proof. exact transparent_full. Qed.
Print Assumptions C18_transparent_full.

(* formerly F-C18-1 (repaired in cover.annotateStmts): an empty action {} is annotated to itself
   and prints nothing in both runs; C18_transparent covers it *)
Example C18_empty_action_transparent :
  snd (Toy.run_toy unit (fun _ _ x => x) Toy.prog_empty_action tt) = ONormal unit /\
  s_u _ _ (fst (Toy.run_toy unit (fun _ _ x => x) Toy.prog_empty_action tt)) = (0%nat, 0%nat) /\
  s_u _ _ (fst (Toy.run_toy cover_array cover_bump (fst (annotate [] MSet Toy.prog_empty_action)) cover_empty)) = (0%nat, 0%nat)
  /\ p_actions (fst (annotate [] MSet Toy.prog_empty_action)) = [mkaction [] (Some [])].
Proof. exact toy_empty_action. Qed.
(* formerly F-C18-3 (repaired in compiler.go, 2d90d40): { { } } gets a Nop like {}: nothing is printed,
   plainly and annotated; END { { } } alone makes the input be read in both runs (records left 2 -> 0) *)
Example C18_only_blocks_transparent :
  s_u _ _ (fst (Toy.run_toy unit (fun _ _ x => x) Toy.prog_block_action tt)) = (0%nat, 0%nat) /\
  s_u _ _ (fst (Toy.run_toy cover_array cover_bump (fst (annotate [] MSet Toy.prog_block_action)) cover_empty)) = (0%nat, 0%nat).
Proof. exact toy_block_action. Qed.
Example C18_end_only_blocks_transparent :
  s_u _ _ (fst (Toy.run_toy unit (fun _ _ x => x) Toy.prog_end_blocks tt)) = (0%nat, 0%nat) /\
  s_u _ _ (fst (Toy.run_toy cover_array cover_bump (fst (annotate [] MSet Toy.prog_end_blocks)) cover_empty)) = (0%nat, 0%nat).
Proof. exact toy_end_blocks. Qed.

(* ---- exact counts ------------------------------------------------------------------- *)
(* Count mode.  Statements are identified by their start position (hypothesis: no two statements
   of statement lists start at the same position).  For every block i of the table there is a
   statement of the program, starting at p, such that: the counter statement i sits immediately
   before it in the annotated tree, block i's reported path/start is FileLine of p, and after
   the run __COVER[i] (0 if absent) = number of times that statement began executing -- in the
   run of the annotated program and, equally, in the plain run of the original program. *)
Theorem C18_count_exact :
  forall (E U K V I : Type) (ev_start : E -> U -> estep U K V) (ev_resume : K -> U -> V -> estep U K V)
    (truthy : V -> bool) (nil_v : V) (forin_init : E -> U -> I) (forin_next : E -> I -> U -> option (I * U))
    (next_record : U -> nrec U V) (print_record : U -> U * option V) (skip_file : U -> U)
    (files : ftable) (XB : Type) (bumpB : cmode -> Z -> XB -> XB) (P : program E),
  nocov_prog P = true -> NoDup (map snd (tagged_prog P)) ->
  let A := fst (annotate files MCount P) in
  let B := snd (annotate files MCount P) in
  forall n u xb,
  let rA := run E U K V I ev_start ev_resume truthy nil_v forin_init forin_next next_record print_record skip_file
              cover_array cover_bump n A (mkst U cover_array u cover_empty []) in
  let rP := run E U K V I ev_start ev_resume truthy nil_v forin_init forin_next next_record print_record skip_file
              XB bumpB n P (mkst U XB u xb []) in
  snd rA <> OFuel V ->
  forall i b, 1 <= i -> nth_error B (Z.to_nat (i - 1)) = Some b ->
  exists p, In (Some i, p) (tagged_prog A) /\ link files b p
            /\ cover_get (s_x _ _ (fst rA)) i = began p (s_tr _ _ (fst rP)).
Proof. exact count_exact. Qed.
Print Assumptions C18_count_exact.

(* Set mode: 1 exactly when that number is positive, else 0 (absent) *)
Theorem C18_set_exact :
  forall (E U K V I : Type) (ev_start : E -> U -> estep U K V) (ev_resume : K -> U -> V -> estep U K V)
    (truthy : V -> bool) (nil_v : V) (forin_init : E -> U -> I) (forin_next : E -> I -> U -> option (I * U))
    (next_record : U -> nrec U V) (print_record : U -> U * option V) (skip_file : U -> U)
    (files : ftable) (XB : Type) (bumpB : cmode -> Z -> XB -> XB) (P : program E),
  nocov_prog P = true -> NoDup (map snd (tagged_prog P)) ->
  let A := fst (annotate files MSet P) in
  let B := snd (annotate files MSet P) in
  forall n u xb,
  let rA := run E U K V I ev_start ev_resume truthy nil_v forin_init forin_next next_record print_record skip_file
              cover_array cover_bump n A (mkst U cover_array u cover_empty []) in
  let rP := run E U K V I ev_start ev_resume truthy nil_v forin_init forin_next next_record print_record skip_file
              XB bumpB n P (mkst U XB u xb []) in
  snd rA <> OFuel V ->
  forall i b, 1 <= i -> nth_error B (Z.to_nat (i - 1)) = Some b ->
  exists p, In (Some i, p) (tagged_prog A) /\ link files b p
            /\ cover_get (s_x _ _ (fst rA)) i = (if 0 <? began p (s_tr _ _ (fst rP)) then 1 else 0).
Proof. exact set_exact. Qed.
Print Assumptions C18_set_exact.

(* ---- the annotation only inserts counters; the blocks partition the statements -------- *)
(* For every program without counter statements (no guard): erasing the counter statements of
   the annotated BEGIN/END/function bodies gives the original bodies back; every counter is
   immediately followed by a statement of the program ([sok_list]); counter indices are exactly
   1..n, each used once, counter i guards the statement at which block i starts ([Seg]);
   sum of numStmts = number of statements in statement lists; the statements (by start
   position) of the annotated program are those of the original, in the same order. *)
Theorem C18_annotation_structure : forall (E : Type) files mode (P : program E),
  nocov_prog P = true ->
  ann_ok files mode P (fst (annotate files mode P)) (snd (annotate files mode P)).
Proof. exact (@annotate_ok). Qed.
Print Assumptions C18_annotation_structure.

(* The annotation keeps the block structure: as many BEGIN blocks, rules, END blocks and functions;
   each rule keeps its pattern and has a body exactly when it had one; a body is empty exactly
   when it was empty -- so whether the program is BEGIN-only (input never opened) is unchanged. *)
Theorem C18_block_structure : forall (E : Type) files mode (P : program E), nocov_prog P = true ->
  let A := fst (annotate files mode P) in
  let same_shape := fun (l' l : list (cstmt E)) => l' = [] <-> l = [] in
  Forall2 same_shape (p_begin A) (p_begin P)
  /\ Forall2 same_shape (p_end A) (p_end P)
  /\ Forall2 same_shape (p_funcs A) (p_funcs P)
  /\ Forall2 (fun a' a => a_pat a' = a_pat a
                /\ match a_body a', a_body a with
                   | None, None => True
                   | Some l', Some l => l' = [] <-> l = []
                   | _, _ => False
                   end) (p_actions A) (p_actions P).
Proof. exact (@block_structure). Qed.
Print Assumptions C18_block_structure.

Theorem C18_partition_sum : forall (E : Type) files mode (P : program E),
  nocov_prog P = true -> sum_num (snd (annotate files mode P)) = nstmts_prog P.
Proof. intros E files mode P H. exact (ao_sum _ _ _ _ _ (annotate_ok files mode P H)). Qed.
Print Assumptions C18_partition_sum.

(* Every statement is counted in exactly one block.  In the annotated tree a statement of a list
   is OWNED by the closest counter statement before it in the same list ([owned_prog] lists every
   statement of every statement list with its owner and start position).  Every statement has
   an owner, which is an index of the block table; numStmts of block j is the number of
   statements owned by counter j; and the statements listed are exactly those of P, in order. *)
Theorem C18_partition : forall (E : Type) files mode (P : program E),
  nocov_prog P = true ->
  let A := fst (annotate files mode P) in
  let B := snd (annotate files mode P) in
  (forall o p, In (o, p) (owned_prog A) -> exists j, o = Some j /\ 1 <= j <= zlen B)
  /\ (forall j b, 1 <= j -> nth_error B (Z.to_nat (j - 1)) = Some b -> b_num b = cnt j (owned_prog A))
  /\ map snd (owned_prog A) = map snd (tagged_prog P).
Proof. exact (@partition). Qed.
Print Assumptions C18_partition.

(* ---- blocks are well formed ---------------------------------------------------------- *)
(* Given the parser's positions are ordered (pos_ok_prog: a statement starts before its end
   position, the statements of a list start in source order -- C03's subject), every tracked
   block has numStmts >= 1 and is FileLine of two raw positions p1 < p2 ... *)
Theorem C18_blocks_raw : forall (E : Type) files mode (P : program E),
  pos_ok_prog P -> Forall (BW files) (snd (annotate files mode P)).
Proof. exact (@blocks_raw). Qed.
Print Assumptions C18_blocks_raw.

(* ... and when p1 and p2 fall into the same program file (same slot of the file table: the
   guard "the block does not straddle two -f files"), the reported block names that file, both
   lines are inside it and start < end lexicographically. *)
Theorem C18_blocks_well_formed : forall files (b : block) p1 p2 k s,
  raw_block files p1 p2 b -> pos_lt p1 p2 ->
  slot files (pline p1) = Some (k, s) -> slot files (pline p2) = Some (k, s) ->
  exists path n, nth_error files k = Some (path, n) /\ b_path b = path
    /\ 1 <= pline (b_start b) <= n /\ 1 <= pline (b_end b) <= n
    /\ pos_lt (b_start b) (b_end b)
    /\ pcol (b_start b) = pcol p1 /\ pcol (b_end b) = pcol p2.
Proof. exact block_in_file. Qed.
Print Assumptions C18_blocks_well_formed.

(* FileReader: AddFile keeps the reader state well formed (line table total = newlines of the
   concatenated source, source newline-terminated) ... *)
Theorem C18_add_file_ok : forall st path content, reader_ok st -> reader_ok (add_file st path content).
Proof. exact add_file_ok. Qed.
Print Assumptions C18_add_file_ok.

(* ... and FileLine is exact: the byte at offset |pre| of the text appended for this file lies on
   global line (newlines before it in the whole source)+1, which FileLine maps to this file and
   to (newlines before the byte inside the file)+1; lines of earlier files keep their image. *)
Theorem C18_file_line_exact : forall files src path content,
  reader_ok (files, src) ->
  exists added, add_file (files, src) path content = (files ++ [(path, count_nl added)], src ++ added)
  /\ (added = content \/ added = content ++ [10])
  /\ (forall pre post, added = pre ++ post -> post <> [] ->
        file_line (files ++ [(path, count_nl added)]) (count_nl (src ++ pre) + 1) = (path, count_nl pre + 1))
  /\ (forall line, 1 <= line <= count_nl src ->
        file_line (files ++ [(path, count_nl added)]) line = file_line files line).
Proof. exact file_line_exact. Qed.
Print Assumptions C18_file_line_exact.

(* WriteProfile and the previous content of the profile file: without -coverappend, or when the
   file did not exist, the result does not depend on the old content (the file is truncated); with
   -coverappend on an existing file the old content is kept and only block lines are added; a
   profile that was not appended has exactly one line per block of the program that ran. *)
Theorem C18_write_profile_overwrites : forall m app existed old abs bl data,
  app && existed = false ->
  write_profile m app existed old abs bl data = write_profile m false false [] abs bl data.
Proof. exact write_profile_overwrites. Qed.
Print Assumptions C18_write_profile_overwrites.
Theorem C18_write_profile_appends : forall m old abs bl data,
  write_profile m true true old abs bl data = old ++ profile_lines abs bl data 0.
Proof. exact write_profile_appends. Qed.
Theorem C18_write_profile_line_count : forall m app existed old abs bl data,
  app && existed = false ->
  Forall (fun b => Forall (fun c => c <> 10) (abs (b_path b))) bl ->
  count_nl (write_profile m app existed old abs bl data) = 1 + zlen bl.
Proof. exact write_profile_line_count. Qed.
Print Assumptions C18_write_profile_line_count.

(* F-C18-2: without the same-file guard the statement fails: "BEGIN { print 1" + "print 2 }" *)
Theorem C18_blocks_straddle_refuted :
  pos_ok_prog straddle_prog /\
  exists b, snd (annotate straddle_files MSet straddle_prog) = [b] /\ ~ pos_lt (b_start b) (b_end b).
Proof. exact straddle_refuted. Qed.
Print Assumptions C18_blocks_straddle_refuted.

(* ---- non-vacuity: a concrete program meets every hypothesis ---------------------------- *)
(* BEGIN { x = 1; if (x) { print } ; y++ }   { next }   END { }  function f() { return } *)
Definition ex_prog : program unit :=
  mkprogram
    [[SSimple KExpr tt (mkpos 1 9) (mkpos 1 14);
      SIf tt (mkpos 1 16) (mkpos 1 23) (mkpos 1 35) [SSimple KPrint tt (mkpos 1 25) (mkpos 1 31)] [];
      SSimple KExpr tt (mkpos 1 35) (mkpos 1 39)]]
    [mkaction [] (Some [SSimple KNext tt (mkpos 2 3) (mkpos 2 8)])]
    [[]]
    [[SSimple KReturn tt (mkpos 4 16) (mkpos 4 23)]].
Example C18_ex_hyps :
  nocov_prog ex_prog = true /\ NoDup (map snd (tagged_prog ex_prog)) /\ pos_ok_prog ex_prog.
Proof.
  split; [reflexivity|]. split.
  - cbn. repeat constructor; cbn; intuition discriminate.
  - unfold pos_ok_prog, ex_prog, pos_ok_stmts, pos_ok_body. cbn.
    repeat (first [apply conj | apply Forall_cons | apply Forall_nil]);
      cbn; unfold pos_ok_stmts, pos_lt, pos_le; cbn; repeat (first [apply conj | exact Logic.I | lia]).
Qed.
Example C18_ex_annotate :
  annotate [([97], 4)] MCount ex_prog =
  (mkprogram
    [[SCover MCount 2; SSimple KExpr tt (mkpos 1 9) (mkpos 1 14);
      SIf tt (mkpos 1 16) (mkpos 1 23) (mkpos 1 35) [SCover MCount 1; SSimple KPrint tt (mkpos 1 25) (mkpos 1 31)] [];
      SCover MCount 3; SSimple KExpr tt (mkpos 1 35) (mkpos 1 39)]]
    [mkaction [] (Some [SCover MCount 4; SSimple KNext tt (mkpos 2 3) (mkpos 2 8)])]
    [[]]
    [[SCover MCount 5; SSimple KReturn tt (mkpos 4 16) (mkpos 4 23)]],
   [mkblock [97] (mkpos 1 25) (mkpos 1 31) 1; mkblock [97] (mkpos 1 9) (mkpos 1 23) 2;
    mkblock [97] (mkpos 1 35) (mkpos 1 39) 1; mkblock [97] (mkpos 2 3) (mkpos 2 8) 1;
    mkblock [97] (mkpos 4 16) (mkpos 4 23) 1]).
Proof. vm_compute. reflexivity. Qed.
Example C18_ex_owned :
  owned_prog (fst (annotate [([97], 4)] MCount ex_prog)) =
  [(Some 2, mkpos 1 9); (Some 2, mkpos 1 16); (Some 1, mkpos 1 25); (Some 3, mkpos 1 35);
   (Some 4, mkpos 2 3); (Some 5, mkpos 4 16)].
Proof. vm_compute. reflexivity. Qed.
Example C18_ex_profile :
  write_profile MCount false false [] (fun p => 47 :: p) (snd (annotate [([97], 4)] MCount ex_prog)) [(2, 1); (1, 1); (3, 1)]
  = (* "mode: count\n/a:1.25,1.31 1 1\n/a:1.9,1.23 2 1\n/a:1.35,1.39 1 1\n/a:2.3,2.8 1 0\n/a:4.16,4.23 1 0\n" *)
    [109;111;100;101;58;32;99;111;117;110;116;10;
     47;97;58;49;46;50;53;44;49;46;51;49;32;49;32;49;10;
     47;97;58;49;46;57;44;49;46;50;51;32;50;32;49;10;
     47;97;58;49;46;51;53;44;49;46;51;57;32;49;32;49;10;
     47;97;58;50;46;51;44;50;46;56;32;49;32;48;10;
     47;97;58;52;46;49;54;44;52;46;50;51;32;49;32;48;10].
Proof. vm_compute. reflexivity. Qed.
