(* C15 — Cancellation stops execution promptly and is otherwise invisible.

   Objects: [run_ctx] = interp/vm.go execute() (Model/VM.v) with the context poll in the head of the
   dispatch loop; [execute_all] = interp.go executeAll/execActions; [cstate] = (p.checkCtx, p.ctxOps)
   plus the ghosts clock (steps so far: instructions executed + records fetched) and done_at (from which clock value
   ctx.Done() is closed).  All statements hold for EVERY implementation [P] of the interpreter's
   primitive operations, every function table, code, stack, state, nesting depth and fuel. *)
From Coq Require Import String.
From Verif Require Import Lib.Base Model.Ast Model.Instr Model.Compiler Model.Prims Model.VM Model.Encode
  Model.Cancel Model.CancelToy
  Proofs.Cancel Proofs.CancelPrompt Proofs.CancelProgram Proofs.CancelTransparent Proofs.CancelRecords
  Proofs.CancelSites Proofs.CancelToy Gen.Consts Gen.DispatchLoop.

Open Scope Z_scope.

(* ======================= 1. invisible ======================= *)

(* Execute (checkCtx = false) or a context that is never cancelled: exactly VM.run, at every depth *)
Theorem C15_never_cancelled_transparent :
  forall (value St err : Type) (P : prims value St err) (F : list cfunc) (cancel_req : St -> bool),
  (forall s, cancel_req s = false) ->
  forall k C ip stk m cs,
  checkCtx cs = false \/ done_at cs = None ->
  exists cs', run_ctx P F cancel_req k C ip stk m cs = (CRes (run P F k C ip stk m), cs') /\
              (checkCtx cs' = false \/ done_at cs' = None).
Proof. exact run_ctx_silent. Qed.
Print Assumptions C15_never_cancelled_transparent.

(* whatever the context does: a result that is not checkContext's error is VM.run's result *)
Theorem C15_invisible_until_it_strikes :
  forall (value St err : Type) (P : prims value St err) (F : list cfunc) (cancel_req : St -> bool)
         k C ip stk m cs r cs',
  run_ctx P F cancel_req k C ip stk m cs = (CRes r, cs') -> run P F k C ip stk m = r.
Proof. exact run_ctx_sim. Qed.
Print Assumptions C15_invisible_until_it_strikes.

(* program level: ExecuteContext(Background/TODO, or a context nobody cancels) == Execute:
   same status / error and same interpreter state after closeAll *)
Theorem C15_executecontext_equals_execute :
  forall (value St err : Type) (P : prims value St err) (F : list cfunc) (cancel_req : St -> bool)
         (IO : ioprims value St err),
  (forall s, cancel_req s = false) ->
  forall fuel cp m0 cancellable d stale,
  cancellable = false \/ d = None ->
  fst (execute_all P F cancel_req IO fuel cp m0 (cs_execute_context cancellable d)) =
  fst (execute_all P F cancel_req IO fuel cp m0 (cs_execute stale)).
Proof. exact execute_context_is_execute. Qed.
Print Assumptions C15_executecontext_equals_execute.

(* histories: a call on a reused Interpreter depends on its own context only.  Execute starts from
   (checkCtx = false, stale ctxOps), ExecuteContext from (checkCtx, ctxOps = 0, its own done_at): the
   result and final state of a call do not depend on the counter state the previous call left, and a
   whole history of calls ([run_calls]) does not depend on the counter state it starts from *)
Theorem C15_call_depends_on_its_own_context_only :
  forall (value St err : Type) (P : prims value St err) (F : list cfunc) (cancel_req : St -> bool)
         (IO : ioprims value St err),
  (forall s, cancel_req s = false) ->
  forall fuel cp m0 prev1 prev2 c,
  fst (execute_all P F cancel_req IO fuel cp m0 (call_cs prev1 c)) =
  fst (execute_all P F cancel_req IO fuel cp m0 (call_cs prev2 c)).
Proof. exact call_independent_of_previous. Qed.
Print Assumptions C15_call_depends_on_its_own_context_only.

Theorem C15_history_independent_of_previous_context :
  forall (value St err : Type) (P : prims value St err) (F : list cfunc) (cancel_req : St -> bool)
         (IO : ioprims value St err),
  (forall s, cancel_req s = false) ->
  forall fuel cp reset cs s prev1 prev2,
  run_calls P F cancel_req IO fuel cp reset s prev1 cs = run_calls P F cancel_req IO fuel cp reset s prev2 cs.
Proof. exact run_calls_independent_of_previous. Qed.
Print Assumptions C15_history_independent_of_previous_context.

Example C15_call_initial_states :
  call_cs (cs_execute_context true (Some 0)) (CallExecuteContext false None) = cs_execute_context false None /\
  call_cs {| checkCtx := true; ctxOps := 617; clock := 5; done_at := Some 3; ops_at_cancel := 2 |} CallExecute = cs_execute 617 /\
  call_cs {| checkCtx := true; ctxOps := 617; clock := 5; done_at := Some 3; ops_at_cancel := 2 |} (CallExecuteContext true None)
    = cs_execute_context true None.
Proof. repeat split. Qed.

(* ======================= 2. prompt ======================= *)

(* the invariant of the interpreter-wide counter; it holds at the start of ExecuteContext *)
Example C15_inv_at_start : Inv (cs_execute_context true (Some 0)) /\ Inv (cs_execute_context true None) /\
                           Inv (cs_execute_context true (Some 123456)).
Proof. repeat split; apply Inv_init; intros t E; inversion E; lia. Qed.

(* every execute call, at every nesting depth, cancelled from outside or by the script: when it
   returns, at most checkContextOps - 1 instructions have been executed since the cancellation;
   checkContext's error is returned only when the context is done; otherwise the invariant holds
   again (so the bound covers the whole program, not one activation) *)
Theorem C15_prompt :
  forall (value St err : Type) (P : prims value St err) (F : list cfunc) (cancel_req : St -> bool)
         k C ip stk m cs x cs',
  Inv cs -> run_ctx P F cancel_req k C ip stk m cs = (x, cs') ->
  (forall t, done_at cs' = Some t -> clock cs' <= t + checkContextOps - 1) /\
  clock cs <= clock cs' /\
  (forall t, done_at cs = Some t -> done_at cs' = Some t) /\
  (forall m', x = CCtx m' -> closed cs' = true) /\
  (forall r, x = CRes r -> Inv cs').
Proof. exact run_ctx_prompt. Qed.
Print Assumptions C15_prompt.

(* ... and it does return: with a cancelled context no evaluation longer than the budget exists *)
Theorem C15_returns :
  forall (value St err : Type) (P : prims value St err) (F : list cfunc) (cancel_req : St -> bool)
         k C ip stk m cs t x cs',
  Inv cs -> done_at cs = Some t -> t + checkContextOps - 1 - clock cs < Z.of_nat k ->
  run_ctx P F cancel_req k C ip stk m cs = (x, cs') -> x <> CRes VFuel.
Proof. exact run_ctx_returns. Qed.
Print Assumptions C15_returns.

(* ExecuteContext as a whole (BEGIN, every record through every rule, END): the same bound; the
   context's error only when the context is done; and once it is done no other error is returned
   (a secondary error after cancellation is replaced by the context's error) *)
Theorem C15_execute_context_prompt :
  forall (value St err : Type) (P : prims value St err) (F : list cfunc) (cancel_req : St -> bool)
         (IO : ioprims value St err) fuel cp m0 d x fin cs',
  (forall t, d = Some t -> 0 <= t) ->
  execute_all P F cancel_req IO fuel cp m0 (cs_execute_context true d) = (x, fin, cs') ->
  (forall t, done_at cs' = Some t -> clock cs' <= t + checkContextOps - 1) /\
  (x = RCtx -> closed cs' = true) /\
  (closed cs' = true -> match x with RErr _ | RSentinel _ => False | _ => True end).
Proof. exact execute_context_prompt. Qed.
Print Assumptions C15_execute_context_prompt.

(* a context cancelled before the call: at most checkContextOps - 1 instructions in all *)
Theorem C15_pre_cancelled :
  forall (value St err : Type) (P : prims value St err) (F : list cfunc) (cancel_req : St -> bool)
         (IO : ioprims value St err) fuel cp m0 x fin cs',
  execute_all P F cancel_req IO fuel cp m0 (cs_execute_context true (Some 0)) = (x, fin, cs') ->
  clock cs' <= checkContextOps - 1 /\ match x with RErr _ | RSentinel _ => False | _ => True end.
Proof. exact execute_context_pre_cancelled. Qed.
Print Assumptions C15_pre_cancelled.

(* the interval is the documented one *)
Example C15_poll_interval : checkContextOps = 1000.
Proof. reflexivity. Qed.

(* the very first dispatch does not poll (the counter goes 1, 2, ... and polls when it reaches
   checkContextOps), so the bound is attained: `BEGIN { while (1) x++ }`-like code under a
   pre-cancelled context executes exactly 999 instructions and returns the context's error *)
Example C15_first_dispatch_does_not_poll :
  poll (cs_execute_context true (Some 0)) =
  (false, {| checkCtx := true; ctxOps := 1; clock := 0; done_at := Some 0; ops_at_cancel := -1 |}).
Proof. reflexivity. Qed.

Definition spin : cprogram :=
  {| c_begin := [IIncrGlobal 1 0; IJump (-5)]; c_actions := []; c_end := []; c_funcs := [] |}.

Example C15_bound_attained :
  let r := toy_run toy_natives (Z.to_nat 1100) spin 0 (cs_execute_context true (Some 0)) in
  tr_res r = RCtx /\ clock (tr_cs r) = 999 /\ ctxOps (tr_cs r) = 0 /\
  option_map c_glob (tr_state r) = Some [500] /\ option_map c_closed (tr_state r) = Some true.
Proof. vm_compute. repeat split; reflexivity. Qed.

(* the script cancels with its 6th instruction, inside a function called from a for-in body: the
   next poll is the 1000th dispatch (993 more instructions: within the bound 6 + 999), it returns
   the context's error through function, for-in and BEGIN; the counter when it cancelled was 6 *)
Definition nested : cprogram :=
  {| c_begin := [INum 4607182418800017408; INum 4607182418800017408; IAssignArray SGlobal 0;     (* a[1] = 1 *)
                 IForIn SGlobal 0 SGlobal 0 4; ICallUser 0 []; IDrop;                              (* for (k in a) f() *)
                 IIncrGlobal 1 1; IJump (-5)];                                                     (* while (1) n++ *)
     c_actions := []; c_end := [];
     c_funcs := [ {| cf_nscalars := 0; cf_narrays := 0; cf_body := [ICallNative 0 0; IDrop; IIncrGlobal 1 1; IJump (-5)] |} ] |}.

Example C15_script_cancel_nested :
  let r := toy_run toy_natives (Z.to_nat 1200) nested 0 (cs_execute_context true None) in
  tr_res r = RCtx /\ done_at (tr_cs r) = Some 6 /\ clock (tr_cs r) = 999 /\ ops_at_cancel (tr_cs r) = 6.
Proof. vm_compute. repeat split; reflexivity. Qed.

(* ======================= 3. output delivered ======================= *)

(* the deferred closeAll has run on every path on which the call returns *)
Theorem C15_output_delivered :
  forall (value St err : Type) (P : prims value St err) (F : list cfunc) (cancel_req : St -> bool)
         (IO : ioprims value St err) fuel cp m0 cs x fin cs',
  execute_all P F cancel_req IO fuel cp m0 cs = (x, fin, cs') ->
  x <> RStuck -> x <> RFuel -> exists m : mstate value St, fin = Some (io_close_all IO (ms m)).
Proof. exact execute_all_closes. Qed.
Print Assumptions C15_output_delivered.

(* ======================= 4. the record loop ======================= *)

(* Under a cancelled context the record loop of execActions returns within the step budget,
   whatever the rules (none at all, or a body that compiled to no opcode) and however long the
   input: the loop polls the shared counter once per record, so a record is a step like an
   instruction.  (Before the repair of F-C15-1 this statement was refuted by the rule `{ {} }` on
   an endless input, and held only for programs whose first rule executes an instruction per record.) *)
Theorem C15_records_full_statement :
  forall (value St err : Type) (P : prims value St err) (F : list cfunc) (cancel_req : St -> bool)
         (IO : ioprims value St err) f n acts inr stk m cs t x cs',
  Inv cs -> done_at cs = Some t -> left t cs < Z.of_nat n -> left t cs < Z.of_nat f ->
  exec_actions P F cancel_req IO n f acts inr stk m cs = (x, cs') -> x <> CRes VFuel.
Proof. intros value St err P F cancel_req IO f. exact (exec_actions_returns value St err P F cancel_req IO f). Qed.
Print Assumptions C15_records_full_statement.

(* the former witnesses: `{ {} }` (a rule without pattern, with an empty but not absent body) and no
   rule at all, on an input that never ends, context cancelled before the call: the 1000th
   iteration polls and returns the context's error; 999 records were fetched (and, for `{ {} }`, printed) *)
Example C15_records_former_witness :
  forall acts inr, (acts, inr) = ([([], Some [])], [false]) \/ (acts, inr) = ([], []) ->
  exists m' cs', exec_actions (ctoy toy_natives) [] c_cancel cio_endless (Z.to_nat 1200) (Z.to_nat 1200)
                   acts inr [] (toy_m0 0) (cs_execute_context true (Some 0)) = (CCtx m', cs') /\
                 clock cs' = 999 /\ c_nr (ms m') = 999.
Proof.
  intros acts inr [E|E]; inversion E; subst; do 2 eexists; vm_compute; repeat split; reflexivity.
Qed.

(* The whole call: ExecuteContext with a context cancelled at t returns (BEGIN, record loop, END all
   within the budget; fuel is only the evaluator's recursion bound), for every program *)
Theorem C15_execute_context_returns :
  forall (value St err : Type) (P : prims value St err) (F : list cfunc) (cancel_req : St -> bool)
         (IO : ioprims value St err) fuel cp m0 t x fin cs',
  0 <= t -> t + checkContextOps - 1 < Z.of_nat fuel ->
  execute_all P F cancel_req IO fuel cp m0 (cs_execute_context true (Some t)) = (x, fin, cs') -> x <> RFuel.
Proof. exact execute_all_returns. Qed.
Print Assumptions C15_execute_context_returns.

(* ======================= 5. the source facts (regenerated tables) ======================= *)

Theorem C15_poll_is_first_in_the_only_dispatch_loop :
  (dispatch_header = "for ip := 0; ip < len(code); "%string /\
   dispatch_head = ["op := code[ip]"; "ip++";
                    "if p.checkCtx { err := p.checkContext() if err != nil { return err } }"]%string) /\
  filter (fun l => String.eqb (snd (fst l)) dispatch_header) loops = [("interp.execute"%string, dispatch_header, 2)].
Proof. split; [exact dispatch_loop_head|exact one_dispatch_loop]. Qed.
Print Assumptions C15_poll_is_first_in_the_only_dispatch_loop.

(* the record loop polls in its head, before the record is fetched *)
Theorem C15_record_loop_polls :
  record_loop_head = ["if p.checkCtx { err := p.checkContext() if err != nil { return err } }"]%string.
Proof. exact record_loop_polls. Qed.
Print Assumptions C15_record_loop_polls.

Theorem C15_every_loop_classified : forallb (fun l => is_some (classify l)) loops = true.
Proof. exact loops_classified. Qed.
Print Assumptions C15_every_loop_classified.

Theorem C15_loops_not_bounded_by_data :
  map (fun l => (fst (fst l), snd (fst l)))
      (filter (fun l => match classify l with Some b => negb (data_bounded b) | None => true end) loops)
  = [ ("csvSplitter.scan", "for"); ("csvSplitter.scan", "for"); ("csvSplitter.scan", "for");
      ("interp.execActions", "for");
      ("interp.execute", "for ip := 0; ip < len(code); ");
      ("interp.nextLine", "for");
      ("interp.pushNulls", "for p.sp+num-1 >= len(p.stack)") ]%string.
Proof. exact loops_not_data_bounded. Qed.
Print Assumptions C15_loops_not_bounded_by_data.

Theorem C15_source_as_modelled :
  (check_context_body = ["p.ctxOps++"; "if p.ctxOps < checkContextOps { return nil }"; "p.ctxOps = 0";
                         "return p.checkContextNow()"]%string /\
   check_now_body = ["select { case <-p.ctxDone: return p.ctx.Err() default: return nil }"]%string) /\
  (execute_context = ["p.interp.resetCore()";
                      "p.interp.checkCtx = ctx != context.Background() && ctx != context.TODO()";
                      "p.interp.ctx = ctx"; "p.interp.ctxDone = ctx.Done()"; "p.interp.ctxOps = 0"]%string /\
   execute_plain = ["p.interp.resetCore()"; "p.interp.checkCtx = false"]%string) /\
  ctxops_writes = [("Interpreter.ExecuteContext", "p.interp.ctxOps = 0");
                   ("interp.checkContext", "p.ctxOps++"); ("interp.checkContext", "p.ctxOps = 0")]%string /\
  poll_sites = [("interp.executeAll", "checkContextNow"); ("interp.executeAll", "checkContextNow");
                ("interp.executeAll", "checkContextNow"); ("interp.execActions", "checkContext");
                ("interp.checkContext", "checkContextNow"); ("interp.execute", "checkContext")]%string /\
  command_sites = [("interp.execShell", "CommandContext", "p.checkCtx"); ("interp.execShell", "Command", "!(p.checkCtx)")]%string.
Proof.
  split; [exact check_context_source|]. split; [exact execute_context_source|].
  split; [exact counter_written_only_here|]. split; [exact polled_only_here|exact child_processes_under_the_context].
Qed.
Print Assumptions C15_source_as_modelled.

(* where p.ctx.Err() is produced: the poll, and system() when waiting for the child failed while the
   context is done (the only place outside the poll that turns cancellation into an error) *)
Theorem C15_context_error_origins :
  ctx_err_sites = [("interp.checkContextNow", ""); ("interp.callBuiltin", "err != nil");
                   ("interp.callBuiltin", "err != nil && p.checkCtx && p.ctx.Err() != nil")]%string.
Proof. exact context_error_origins. Qed.
Print Assumptions C15_context_error_origins.

(* child processes: the Cmd is built by exec.CommandContext / exec.Command and WaitDelay (250 ms) is set on
   every path before execShell returns it, with and without a context *)
Theorem C15_child_wait_is_bounded_on_every_path :
  forallb (fun r => String.eqb (snd r) "yes") exec_shell_returns = true /\
  exec_shell_returns <> [] /\
  exec_shell_makes = [("CommandContext", "cmd"); ("Command", "cmd")]%string /\
  waitdelay_writes = [("interp.execShell", "cmd.WaitDelay = 250 * time.Millisecond")]%string.
Proof. exact exec_shell_sets_waitdelay_on_every_path. Qed.
Print Assumptions C15_child_wait_is_bounded_on_every_path.

Theorem C15_exec_shell_source :
  exec_shell_body =
  ["executable := p.shellCommand[0]"; "args := p.shellCommand[1:]"; "args = append(args, code)";
   "var cmd *exec.Cmd";
   "if p.checkCtx { cmd = exec.CommandContext(p.ctx, executable, args...) } else { cmd = exec.Command(executable, args...) }";
   "cmd.WaitDelay = 250 * time.Millisecond"; "return cmd"]%string.
Proof. exact exec_shell_source. Qed.
Print Assumptions C15_exec_shell_source.

Theorem C15_execute_called_only_from :
  execute_sites = [("interp.executeAll", "p.program.Compiled.Begin"); ("interp.executeAll", "p.program.Compiled.End");
                   ("interp.execActions", "action.Pattern[0]"); ("interp.execActions", "action.Pattern[0]");
                   ("interp.execActions", "action.Pattern[1]"); ("interp.execActions", "action.Body");
                   ("interp.execute", "loopCode"); ("interp.execute", "f.Body")]%string.
Proof. exact execute_called_only_here. Qed.
Print Assumptions C15_execute_called_only_from.

(* ======================= 6. the decoder used by the correspondence ======================= *)

Theorem C15_decoder_inverts_encoder :
  forall pl ws c, decode_code pl ws = Some c -> fst (enc_code pl c) = ws.
Proof. exact decode_code_sound. Qed.
Print Assumptions C15_decoder_inverts_encoder.
