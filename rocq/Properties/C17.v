(* C17 — Go functions exposed to AWK convert arguments and results as documented.
   Only statements closed by [exact] of a lemma proved in Proofs/Native*.v, the full statements
   that the pinned tree violates with their refutations, non-vacuity examples, Print Assumptions.

   Vocabulary (Model/Native.v, Proofs/Native*.v):
     run pf pp ff funcs_r funcs_i awk name args   one call name(args) through ParseProgram+ExecProgram;
                                                  funcs_r / funcs_i = the Funcs map as walked by the
                                                  resolver / by initNativeFuncs (any two orders)
     acceptable name f      the documented shape (not a keyword; a func; documented kinds; (r[, error]))
     spec_values s args     every argument converted to its parameter's type, then zero values up to minIn
     conv v t               the Go value built for AWK value v and a parameter of type t
     go_typed f             what Go's typing/reflect guarantee about a map entry, nothing more
   History: six full statements were false on the originally pinned tree (F-C17-1..6: non-function
   and nil values, user-defined parameter types, user-defined byte-slice results, uint64 above
   2^63); after the repairs they are the theorems C17_invalid_rejected, C17_valid_sig_no_panic,
   C17_conv_uint and C17_never_panics below, with no guard.
   pf pp ff are the three primitives of other properties (parseFloat, parseFloatPrefix, CONVFMT form):
   every theorem holds for all of them. *)
From Coq Require Import Permutation.
From Verif Require Import Lib.Base Lib.Dyadic Model.Native
  Proofs.NativeIndex Proofs.NativeCheck Proofs.NativeConv Proofs.NativeDec Proofs.NativeCall Proofs.NativeRun Proofs.NativeHist.

(* ================= 1. set-up: what is accepted, what is rejected ================= *)

(* checkNativeFunc on any function value, completely: keyword / first undocumented parameter
   (with its index, the variadic parameter judged by its element) / result shape *)
Theorem C17_check_native_func_spec : forall name s b, wf_sig s ->
  check_native_func name (FFunc s b) =
  NOk (if is_keyword name then Some EKeyword
       else match first_invalid 0 (eff_params s) with
            | Some j => Some (EParam j)
            | None => check_results (results s)
            end).
Proof. exact check_native_func_spec. Qed.
Print Assumptions C17_check_native_func_spec.

Theorem C17_accepted_iff_documented_shape : forall name s b, wf_sig s ->
  (check_native_func name (FFunc s b) = NOk None <-> acceptable name (FFunc s b) = true).
Proof. exact check_accepts_iff. Qed.
Print Assumptions C17_accepted_iff_documented_shape.

Theorem C17_documented_kinds : forall t, valid_native_type t = true <-> documented t.
Proof. exact valid_native_type_iff. Qed.
Print Assumptions C17_documented_kinds.

Theorem C17_keyword_rejected : forall name f, is_keyword name = true ->
  check_native_func name f = NOk (Some EKeyword).
Proof. exact keyword_rejected. Qed.
Print Assumptions C17_keyword_rejected.

(* the model's keyword list is lexer.keywordTokens of the repository (regenerated each check) *)
Theorem C17_keywords_table_agrees : keywords = Verif.Gen.Keywords.go_keywords.
Proof. exact keywords_table_agrees. Qed.
Print Assumptions C17_keywords_table_agrees.

(* invalid_rejected: every value that is not of the documented shape — nil and non-function
   values included — gets an error from checkNativeFunc, never a panic *)
Theorem C17_invalid_rejected : forall name f, wf_fval f -> acceptable name f = false ->
  exists e, check_native_func name f = NOk (Some e).
Proof. exact invalid_rejected. Qed.
Print Assumptions C17_invalid_rejected.

(* the parse-time arity check never panics, whatever the map holds ... *)
Theorem C17_resolve_call_no_panic : forall funcs awk name nargs,
  exists r, resolve_call funcs awk name nargs = NOk r.
Proof. exact resolve_call_no_panic. Qed.
Print Assumptions C17_resolve_call_no_panic.

(* ... and calling an entry that is not a function is a parse error *)
Theorem C17_not_a_function_is_parse_error : forall funcs awk name nargs f,
  mem_bytes name awk = false -> lookup name funcs = Some f -> (forall s b, f <> FFunc s b) ->
  resolve_call funcs awk name nargs = NOk (Some PNotFunc).
Proof. exact not_a_function_is_parse_error. Qed.
Print Assumptions C17_not_a_function_is_parse_error.

(* ================= 2. the call: arguments built, no "unexpected type" arm ================= *)

(* for a function checkNativeFunc accepts and an argument count the parser lets through,
   callNative reaches no index / unexpected-argument panic and hands reflect.Call exactly
   spec_values; [finish] is Call + the result dispatch *)
Theorem C17_call_builds_spec_values : forall pf pp ff tbl idx s body args,
  nindex tbl idx = NOk (s, body) -> wf_sig s -> forallb valid_native_type (eff_params s) = true ->
  (variadic s = true \/ zlen args <= zlen (params s)) ->
  call_native pf pp ff tbl idx args = finish (s, body) (spec_values pf pp ff s args).
Proof. exact call_native_builds. Qed.
Print Assumptions C17_call_builds_spec_values.

(* exactly max(#args, minIn) Go arguments ... *)
Theorem C17_argument_count : forall pf pp ff s args,
  zlen (spec_values pf pp ff s args) = Z.max (zlen args) (min_in s).
Proof. exact spec_values_len. Qed.
Print Assumptions C17_argument_count.

(* ... the i-th converted to the type of parameter i (the variadic element type for the tail),
   missing ones the zero value of their parameter *)
Theorem C17_argument_positions : forall pf pp ff s args i,
  wf_sig s -> 0 <= i < Z.max (zlen args) (min_in s) ->
  nth (Z.to_nat i) (spec_values pf pp ff s args) (zero_value TOther) =
  if i <? zlen args then conv pf pp ff (nth (Z.to_nat i) args VNull) (param_ty s i)
  else zero_value (param_ty s i).
Proof. exact spec_values_nth. Qed.
Print Assumptions C17_argument_positions.

Theorem C17_argument_kind : forall pf pp ff v t,
  valid_native_type t = true -> kind_of (gty (conv pf pp ff v t)) = kind_of t.
Proof. exact kind_conv. Qed.
Print Assumptions C17_argument_kind.

(* toNative reaches an "unexpected argument" arm exactly on undocumented types *)
Theorem C17_to_native_panics_iff : forall pf pp ff v t,
  (exists k, to_native pf pp ff v t = NPanic k) <-> valid_native_type t = false.
Proof. exact to_native_panics_iff. Qed.
Print Assumptions C17_to_native_panics_iff.

Definition ex_pf : bytes -> option fnum := fun _ => None.
Definition ex_pp : bytes -> fnum := fun _ => FFin 0 0.
Definition ex_ff : fnum -> bytes := fun _ => [].

(* valid_sig_no_panic: an accepted function (user-defined types of the documented kinds included),
   called with a permitted argument count, never makes callNative panic; it receives exactly
   spec_values; the outcome is the converted result, or the function's own error *)
Theorem C17_valid_sig_no_panic : forall pf pp ff tbl idx s body args,
  nindex tbl idx = NOk (s, body) -> wf_sig s -> acceptable_sig s = true -> body_ok s body ->
  (variadic s = true \/ zlen args <= zlen (params s)) ->
  exists r, call_native pf pp ff tbl idx args = NOk r /\
            returns s (body (spec_values pf pp ff s args)) (spec_values pf pp ff s args) r.
Proof. exact valid_sig_no_panic. Qed.
Print Assumptions C17_valid_sig_no_panic.

(* the type table: for every type checkNativeFunc accepts, toNative followed by the conversion
   to the parameter type yields a value of exactly that type (so reflect.Call takes it) ... *)
Theorem C17_type_table_arguments : forall pf pp ff v t, valid_native_type t = true ->
  (ndo v0 <- to_native pf pp ff v t; convert_arg v0 t) = NOk (conv pf pp ff v t) /\
  gty (conv pf pp ff v t) = t.
Proof. intros pf pp ff v t H. split; [exact (to_native_conv pf pp ff v t H)|exact (gty_conv pf pp ff v t H)]. Qed.
Print Assumptions C17_type_table_arguments.

(* ... and fromNative takes every well-typed value of every accepted result type *)
Theorem C17_type_table_results : forall o,
  valid_native_type (gty o) = true -> data_fits (gty o) (gdat o) -> exists v, from_native o = NOk v.
Proof. exact from_native_ok. Qed.
Print Assumptions C17_type_table_results.

(* the former witnesses of F-C17-4 / F-C17-5 now run: func(MyBool) called with 1 receives true;
   func() MyBytes returning "a" gives the string "a" *)
Definition sig_mybool : sig := {| params := [TBool true]; variadic := false; results := [] |}.
Definition sig_mybytes : sig := {| params := []; variadic := false; results := [TSlice (TUint W8 false) true] |}.

Example C17_ex_defined_param :
  call_native ex_pf ex_pp ex_ff [(sig_mybool, fun _ => [])] 0 [VNum (FFin 1 0)]
  = NOk (CValue VNull [GV (TBool true) (DBool true)]).
Proof. vm_compute. reflexivity. Qed.

Example C17_ex_defined_slice_result :
  call_native ex_pf ex_pp ex_ff [(sig_mybytes, fun _ => [GV (TSlice (TUint W8 false) true) (DBytes [97])])] 0 []
  = NOk (CValue (VStr [97]) []).
Proof. vm_compute. reflexivity. Qed.

(* ================= 3. the conversion table ================= *)

Theorem C17_conv_bool : forall pf pp ff v t, kind_of t = KBool ->
  conv pf pp ff v t = GV t (DBool (v_boolean pf v)).
Proof. exact conv_bool. Qed.
Print Assumptions C17_conv_bool.

Theorem C17_truth_value : forall pf,
  v_boolean pf VNull = false /\ (forall s, v_boolean pf (VStr s) = negb (bytes_eqb s [])) /\
  (forall x, v_boolean pf (VNum x) = negb (is_zero x)) /\
  (forall s f, pf s = Some f -> v_boolean pf (VNumStr s) = negb (is_zero f)) /\
  (forall s, pf s = None -> v_boolean pf (VNumStr s) = negb (bytes_eqb s [])).
Proof. exact v_boolean_table. Qed.
Print Assumptions C17_truth_value.

(* signed integer kinds: a number whose truncation fits the kind arrives truncated toward zero *)
Theorem C17_conv_int : forall pf pp ff v t w m e,
  kind_of t = KInt w -> v_num pp v = FFin m e -> int_range w (ftrunc m e) ->
  conv pf pp ff v t = GV t (DInt (ftrunc m e)).
Proof. exact conv_int. Qed.
Print Assumptions C17_conv_int.

(* unsigned kinds: the same, for every number whose truncation fits the kind (uint64 up to 2^64-1) *)
Theorem C17_conv_uint : forall pf pp ff v t w m e,
  kind_of t = KUint w -> v_num pp v = FFin m e -> uint_range w (ftrunc m e) ->
  conv pf pp ff v t = GV t (DUint (ftrunc m e)).
Proof. exact conv_uint. Qed.
Print Assumptions C17_conv_uint.

Theorem C17_to_uint_in_range : forall w m e, uint_range w (ftrunc m e) -> to_uint w (FFin m e) = ftrunc m e.
Proof. exact to_uint_in_range. Qed.
Print Assumptions C17_to_uint_in_range.

(* what a uint64/uint parameter receives outside its range (as before the repair of F-C17-6):
   negative numbers in the int64 range wrap modulo 2^64; below -2^63, from 2^64 on, NaN, +-Inf: 2^63 *)
Theorem C17_uint64_out_of_range :
  (forall m e, - two63 <= ftrunc m e < 0 -> to_uint64 (FFin m e) = ftrunc m e + two64) /\
  (forall m e, ftrunc m e < - two63 \/ two64 <= ftrunc m e -> to_uint64 (FFin m e) = two63) /\
  to_uint64 FNaN = two63 /\ (forall s, to_uint64 (FInf s) = two63).
Proof. exact to_uint64_out_of_range. Qed.
Print Assumptions C17_uint64_out_of_range.

Theorem C17_conv_float64 : forall pf pp ff v t, kind_of t = KFloat64 ->
  conv pf pp ff v t = GV t (DFloat (v_num pp v)).
Proof. exact conv_f64. Qed.
Print Assumptions C17_conv_float64.

Theorem C17_conv_float32 : forall pf pp ff v t, kind_of t = KFloat32 ->
  conv pf pp ff v t = GV t (DFloat (to_f32 (v_num pp v))).
Proof. exact conv_f32. Qed.
Print Assumptions C17_conv_float32.

(* float32(x): unchanged when x is a float32 ... *)
Theorem C17_float32_exact : forall m e,
  m <> 0 -> Z.log2 (Z.abs m) + 1 <= 24 -> -149 <= e -> e + (Z.log2 (Z.abs m) + 1) <= 128 ->
  to_f32 (FFin m e) = FFin m e.
Proof. exact to_f32_exact. Qed.
Print Assumptions C17_float32_exact.

(* ... else the rounding step picks a nearest multiple of 2^s, the even one on a tie *)
Theorem C17_rounding_step_nearest_even : forall a s, 0 <= a -> 1 <= s ->
  let q := a / 2 ^ s in let r := a mod 2 ^ s in let half := 2 ^ (s - 1) in
  let q' := if (half <? r) || ((r =? half) && Z.odd q) then q + 1 else q in
  Z.abs (a - q' * 2 ^ s) <= half /\ (Z.abs (a - q' * 2 ^ s) = half -> Z.odd q' = false).
Proof. exact fround_step_nearest. Qed.
Print Assumptions C17_rounding_step_nearest_even.

Theorem C17_conv_string : forall pf pp ff v t, kind_of t = KString ->
  conv pf pp ff v t = GV t (DStr (v_str ff v)).
Proof. exact conv_string. Qed.
Print Assumptions C17_conv_string.

Theorem C17_conv_bytes : forall pf pp ff v t, kind_of t = KSlice ->
  conv pf pp ff v t = GV t (DBytes (v_str ff v)).
Proof. exact conv_bytes. Qed.
Print Assumptions C17_conv_bytes.

Theorem C17_string_form : forall ff,
  (forall s, v_str ff (VStr s) = s) /\ (forall s, v_str ff (VNumStr s) = s) /\ v_str ff VNull = [] /\
  (forall z, - two63 <= z < two63 -> v_str ff (VNum (FFin z 0)) = z_to_dec z) /\
  v_str ff (VNum FNaN) = [110;97;110] /\ v_str ff (VNum (FInf false)) = [105;110;102] /\
  v_str ff (VNum (FInf true)) = [45;105;110;102].
Proof. exact v_str_table. Qed.
Print Assumptions C17_string_form.

(* the decimal form of an integer is its numeral: reading it back gives the integer *)
Theorem C17_decimal_form : forall z, Z.abs z < 10 ^ 20 -> dec_value (z_to_dec z) = z.
Proof. exact z_to_dec_value. Qed.
Print Assumptions C17_decimal_form.

Theorem C17_missing_arguments_are_zero_values :
  (forall d, zero_value (TBool d) = GV (TBool d) (DBool false)) /\
  (forall w d, zero_value (TInt w d) = GV (TInt w d) (DInt 0)) /\
  (forall w d, zero_value (TUint w d) = GV (TUint w d) (DUint 0)) /\
  (forall d, zero_value (TFloat32 d) = GV (TFloat32 d) (DFloat (FFin 0 0))) /\
  (forall d, zero_value (TFloat64 d) = GV (TFloat64 d) (DFloat (FFin 0 0))) /\
  (forall d, zero_value (TString d) = GV (TString d) (DStr [])) /\
  (forall e d, zero_value (TSlice e d) = GV (TSlice e d) DNilSlice).
Proof. exact zero_value_table. Qed.
Print Assumptions C17_missing_arguments_are_zero_values.

(* results back to AWK *)
Theorem C17_result_table :
  (forall d b, from_native (GV (TBool d) (DBool b)) = NOk (VNum (FFin (if b then 1 else 0) 0))) /\
  (forall w d z, from_native (GV (TInt w d) (DInt z)) = NOk (VNum (z_to_f64 z))) /\
  (forall w d z, from_native (GV (TUint w d) (DUint z)) = NOk (VNum (z_to_f64 z))) /\
  (forall d x, from_native (GV (TFloat32 d) (DFloat x)) = NOk (VNum x)) /\
  (forall d x, from_native (GV (TFloat64 d) (DFloat x)) = NOk (VNum x)) /\
  (forall d s, from_native (GV (TString d) (DStr s)) = NOk (VStr s)) /\
  (forall e d s, kind_of e = KUint W8 -> from_native (GV (TSlice e d) (DBytes s)) = NOk (VStr s)) /\
  (forall e d, kind_of e = KUint W8 -> from_native (GV (TSlice e d) DNilSlice) = NOk (VStr [])).
Proof. exact from_native_table. Qed.
Print Assumptions C17_result_table.

Theorem C17_integer_result_exact : forall z, Z.abs z < two53 -> z_to_f64 z = FFin z 0.
Proof. exact z_to_f64_exact. Qed.
Print Assumptions C17_integer_result_exact.

(* sent to Go and returned unchanged, a value comes back as the same AWK value *)
Theorem C17_round_trip_int : forall pf pp ff w d z, int_range w z -> Z.abs z < two53 ->
  from_native (conv pf pp ff (VNum (FFin z 0)) (TInt w d)) = NOk (VNum (FFin z 0)).
Proof. exact round_trip_int. Qed.
Print Assumptions C17_round_trip_int.

Theorem C17_round_trip_uint : forall pf pp ff w d z, uint_range w z -> z < two53 ->
  from_native (conv pf pp ff (VNum (FFin z 0)) (TUint w d)) = NOk (VNum (FFin z 0)).
Proof. exact round_trip_uint. Qed.
Print Assumptions C17_round_trip_uint.

Theorem C17_round_trip_string : forall pf pp ff d s,
  from_native (conv pf pp ff (VStr s) (TString d)) = NOk (VStr s).
Proof. exact round_trip_string. Qed.
Print Assumptions C17_round_trip_string.

Theorem C17_round_trip_float64 : forall pf pp ff d x,
  from_native (conv pf pp ff (VNum x) (TFloat64 d)) = NOk (VNum x).
Proof. exact round_trip_f64. Qed.
Print Assumptions C17_round_trip_float64.

(* ================= 4. the two index assignments ================= *)

(* whatever algorithm sort.Strings uses: a sorted permutation of the names is sort_names *)
Theorem C17_sort_characterised : forall l l', sorted l' -> Permutation l l' -> l' = sort_names l.
Proof. exact sort_names_characterised. Qed.
Print Assumptions C17_sort_characterised.

(* indexes_agree: for every set of names and any two iteration orders of the map, the resolver's
   index of a name selects, in the interpreter's table, the function bound to that name *)
Theorem C17_indexes_agree : forall funcs_r funcs_i name tbl,
  NoDup (map fst funcs_i) -> Permutation funcs_r funcs_i ->
  build_table funcs_i (sort_names (map fst funcs_i)) = NOk tbl ->
  In name (map fst funcs_r) ->
  resolver_index funcs_r name = index_of name (sort_names (map fst funcs_i)) /\
  exists s b, lookup name funcs_r = Some (FFunc s b) /\ lookup name funcs_i = Some (FFunc s b) /\
              nindex tbl (resolver_index funcs_r name) = NOk (s, b).
Proof. exact indexes_agree. Qed.
Print Assumptions C17_indexes_agree.

(* ================= 5. the whole run ================= *)

(* "never a panic": for every map whose entries are what Go's typing allows — nil values,
   non-functions and functions of any shape — both iteration orders, every called name
   (AWK-defined or not), every argument list *)
Theorem C17_never_panics : forall pf pp ff funcs_r funcs_i awk name args,
  NoDup (map fst funcs_i) -> Permutation funcs_r funcs_i ->
  (forall n f, In (n, f) funcs_i -> go_typed f) ->
  forall k, run pf pp ff funcs_r funcs_i awk name args <> OPanic k.
Proof. exact run_no_panic. Qed.
Print Assumptions C17_never_panics.

(* the former witnesses: Funcs{"f": 42} / Funcs{"f": nil} called -> parse error; nil not called -> set-up error *)
Example C17_ex_non_func_called :
  run ex_pf ex_pp ex_ff [([102], FNonFunc)] [([102], FNonFunc)] [] [102] [] = OParseError PNotFunc /\
  run ex_pf ex_pp ex_ff [([102], FNil)] [([102], FNil)] [] [102] [] = OParseError PNotFunc.
Proof. split; vm_compute; reflexivity. Qed.

Example C17_ex_nil_not_called :
  init_native_funcs [([103], FFunc {| params := []; variadic := false; results := [] |} (fun _ => [])); ([102], FNil)]
    = NOk (inl ([102], ENotFunc)).
Proof. vm_compute. reflexivity. Qed.

Theorem C17_run_not_a_function : forall pf pp ff funcs_r funcs_i awk name args f,
  mem_bytes name awk = false -> lookup name funcs_r = Some f -> (forall s b, f <> FFunc s b) ->
  run pf pp ff funcs_r funcs_i awk name args = OParseError PNotFunc.
Proof. exact run_not_a_function. Qed.
Print Assumptions C17_run_not_a_function.

(* the call reaches the function of that name with spec_values, result/error as it returns them *)
Theorem C17_run_calls_named_function : forall pf pp ff funcs_r funcs_i awk name args s b,
  NoDup (map fst funcs_i) -> Permutation funcs_r funcs_i ->
  (forall n f, In (n, f) funcs_i -> go_typed f) ->
  (forall n f, In (n, f) funcs_i -> acceptable n f = true) ->
  mem_bytes name awk = false -> lookup name funcs_r = Some (FFunc s b) ->
  (variadic s = true /\ zlen args <= 1000000000 \/ variadic s = false /\ zlen args <= zlen (params s)) ->
  exists r, returns s (b (spec_values pf pp ff s args)) (spec_values pf pp ff s args) r /\
    run pf pp ff funcs_r funcs_i awk name args =
    match r with CValue v recv => OValue v recv | CError id recv => ORunError id recv end.
Proof. exact run_calls_named_function. Qed.
Print Assumptions C17_run_calls_named_function.

(* a non-nil error aborts the run with exactly that error (its identity, not a copy) *)
Theorem C17_run_error_identity : forall pf pp ff funcs_r funcs_i awk name args s b o e id,
  NoDup (map fst funcs_i) -> Permutation funcs_r funcs_i ->
  (forall n f, In (n, f) funcs_i -> go_typed f) ->
  (forall n f, In (n, f) funcs_i -> acceptable n f = true) ->
  mem_bytes name awk = false -> lookup name funcs_r = Some (FFunc s b) ->
  (variadic s = true /\ zlen args <= 1000000000 \/ variadic s = false /\ zlen args <= zlen (params s)) ->
  b (spec_values pf pp ff s args) = [o; e] -> gdat e = DErr id ->
  run pf pp ff funcs_r funcs_i awk name args = ORunError id (spec_values pf pp ff s args).
Proof. exact run_error_identity. Qed.
Print Assumptions C17_run_error_identity.

Theorem C17_run_value : forall pf pp ff funcs_r funcs_i awk name args s b,
  NoDup (map fst funcs_i) -> Permutation funcs_r funcs_i ->
  (forall n f, In (n, f) funcs_i -> go_typed f) ->
  (forall n f, In (n, f) funcs_i -> acceptable n f = true) ->
  mem_bytes name awk = false -> lookup name funcs_r = Some (FFunc s b) ->
  (variadic s = true /\ zlen args <= 1000000000 \/ variadic s = false /\ zlen args <= zlen (params s)) ->
  (forall o e, b (spec_values pf pp ff s args) = [o; e] -> gdat e = DErrNil) ->
  exists v, run pf pp ff funcs_r funcs_i awk name args = OValue v (spec_values pf pp ff s args) /\
    match b (spec_values pf pp ff s args) with
    | [] => v = VNull
    | o :: _ => from_native o = NOk v
    end.
Proof. exact run_value. Qed.
Print Assumptions C17_run_value.

(* any entry of another shape (nil and non-functions included) or keyword-named: the run ends in a
   parse error or in a set-up error naming an entry of another shape — before any AWK code runs *)
Theorem C17_run_rejects_other_shapes : forall pf pp ff funcs_r funcs_i awk name args n0 f0,
  (forall n f, In (n, f) funcs_i -> go_typed f) ->
  In (n0, f0) funcs_i -> acceptable n0 f0 = false ->
  (exists pe, run pf pp ff funcs_r funcs_i awk name args = OParseError pe) \/
  (exists n e f, run pf pp ff funcs_r funcs_i awk name args = OSetupError n e /\ In (n, f) funcs_i /\ acceptable n f = false).
Proof. exact run_rejects_other_shapes. Qed.
Print Assumptions C17_run_rejects_other_shapes.

(* too many arguments to a non-variadic function is a parse error *)
Theorem C17_too_many_args_is_parse_error : forall pf pp ff funcs_r funcs_i awk name args s b,
  mem_bytes name awk = false -> lookup name funcs_r = Some (FFunc s b) ->
  variadic s = false -> zlen (params s) < zlen args ->
  run pf pp ff funcs_r funcs_i awk name args = OParseError PTooMany.
Proof. exact run_too_many_args. Qed.
Print Assumptions C17_too_many_args_is_parse_error.

(* ================= 6. the reusable interpreter: New once, Execute several times ================= *)
(* run_history pf pp ff funcs_r awk name args maps: ParseProgram with funcs_r, interp.New, then one
   Execute per element of maps (the Funcs map of that call, in its iteration order).  The state that
   survives between calls is the native table (None = nil); set-up builds it only when it is nil. *)

(* the invariant: an Execute that ends in a set-up error started without a table and leaves none *)
Theorem C17_failed_setup_leaves_table_nil : forall pf pp ff fr awk name args st m st' n e,
  exec_one pf pp ff fr awk name args st m = (st', OSetupError n e) -> st = None /\ st' = None.
Proof. exact failed_setup_leaves_table_nil. Qed.
Print Assumptions C17_failed_setup_leaves_table_nil.

(* hence the next Execute validates its Funcs map again, exactly like a first one *)
Theorem C17_failed_setup_revalidates : forall pf pp ff fr awk name args st m st' n e m2,
  exec_one pf pp ff fr awk name args st m = (st', OSetupError n e) ->
  exec_one pf pp ff fr awk name args st' m2 = exec_one pf pp ff fr awk name args None m2.
Proof. exact failed_setup_revalidates. Qed.
Print Assumptions C17_failed_setup_revalidates.

Theorem C17_first_execute_is_run : forall pf pp ff fr awk name args m,
  resolve_call fr awk name (zlen args) = NOk None ->
  snd (exec_one pf pp ff fr awk name args None m) = run pf pp ff fr m awk name args.
Proof. exact first_execute_is_run. Qed.
Print Assumptions C17_first_execute_is_run.

(* any number of rejected set-ups, with whatever maps, leave no trace *)
Theorem C17_rejected_setups_leave_no_trace : forall pf pp ff fr awk name args maps1 maps2,
  Forall is_setup_error (exec_history pf pp ff fr awk name args None maps1) ->
  exec_history pf pp ff fr awk name args None (maps1 ++ maps2) =
  exec_history pf pp ff fr awk name args None maps1 ++ exec_history pf pp ff fr awk name args None maps2.
Proof. exact rejected_setups_leave_no_trace. Qed.
Print Assumptions C17_rejected_setups_leave_no_trace.

(* what the code does once a set-up has succeeded: the table is kept and config.Funcs of later
   calls is not looked at (Execute documents that Funcs "must not change between calls") *)
Theorem C17_established_table_is_kept : forall pf pp ff fr awk name args tbl m,
  exec_one pf pp ff fr awk name args (Some tbl) m = (Some tbl, call_outcome pf pp ff fr awk name args tbl).
Proof. exact established_table_is_kept. Qed.
Print Assumptions C17_established_table_is_kept.

(* the documented use — the same map on every Execute, walked in any order each time: history does
   not matter, every Execute is exactly a fresh one-shot run, so every theorem of section 5 holds
   for every Execute *)
Theorem C17_every_execute_is_a_fresh_run : forall pf pp ff fr awk name args maps,
  resolve_call fr awk name (zlen args) = NOk None ->
  NoDup (map fst fr) -> (forall n f, In (n, f) fr -> go_typed f) ->
  Forall (Permutation fr) maps ->
  run_history pf pp ff fr awk name args maps = inr (map (fun m => run pf pp ff fr m awk name args) maps).
Proof. exact every_execute_is_a_fresh_run. Qed.
Print Assumptions C17_every_execute_is_a_fresh_run.

Theorem C17_history_never_panics : forall pf pp ff fr awk name args maps os,
  NoDup (map fst fr) -> (forall n f, In (n, f) fr -> go_typed f) ->
  Forall (Permutation fr) maps ->
  run_history pf pp ff fr awk name args maps = inr os -> forall o k, In o os -> o <> OPanic k.
Proof. exact history_never_panics. Qed.
Print Assumptions C17_history_never_panics.

(* an entry of another shape is rejected at EVERY Execute *)
Theorem C17_history_rejects_every_time : forall pf pp ff fr awk name args maps os n0 f0,
  NoDup (map fst fr) -> (forall n f, In (n, f) fr -> go_typed f) ->
  Forall (Permutation fr) maps ->
  In (n0, f0) fr -> acceptable n0 f0 = false ->
  run_history pf pp ff fr awk name args maps = inr os ->
  forall o, In o os -> exists n e f, o = OSetupError n e /\ In (n, f) fr /\ acceptable n f = false.
Proof. exact history_rejects_every_time. Qed.
Print Assumptions C17_history_rejects_every_time.

(* ================= non-vacuity ================= *)
(* three functions  zz: func(int8, string, ...uint16) (int64, error);  a: func() []byte;  M: func(bool)
   in two different iteration orders *)
Definition ex_sig_zz : sig :=
  {| params := [TInt W8 false; TString false; TSlice (TUint W16 false) false]; variadic := true;
     results := [TInt W64 false; TError] |}.
Definition ex_body_zz (err : gdata) : list gval -> list gval :=
  fun _ => [GV (TInt W64 false) (DInt 42); GV TError err].
Definition ex_sig_a : sig := {| params := []; variadic := false; results := [byte_slice] |}.
Definition ex_sig_M : sig := {| params := [TBool false]; variadic := false; results := [] |}.
Definition ex_funcs (err : gdata) : list (bytes * fval) :=
  [ ([122;122], FFunc ex_sig_zz (ex_body_zz err));
    ([97], FFunc ex_sig_a (fun _ => [GV byte_slice (DBytes [104;105])]));
    ([77], FFunc ex_sig_M (fun _ => [])) ].

(* zz(300.75, 5, -1, 70000) -> receives int8 44 (300 wraps: out of range, not covered by the
   table), "5", uint16 65535, uint16 4464; returns 42 *)
Example C17_ex_run_value :
  run ex_pf ex_pp ex_ff (ex_funcs DErrNil) (rev (ex_funcs DErrNil)) [] [122;122]
      [VNum (FFin 1203 (-2)); VNum (FFin 5 0); VNum (FFin (-1) 0); VNum (FFin 70000 0)]
  = OValue (VNum (FFin 42 0))
      [GV (TInt W8 false) (DInt 44); GV (TString false) (DStr [53]);
       GV (TUint W16 false) (DUint 65535); GV (TUint W16 false) (DUint 4464)].
Proof. vm_compute. reflexivity. Qed.

(* zero fill: zz() receives (int8 0, "") and an empty tail; the error aborts the run *)
Example C17_ex_run_error :
  run ex_pf ex_pp ex_ff (ex_funcs (DErr 7)) (rev (ex_funcs (DErr 7))) [] [122;122] []
  = ORunError 7 [GV (TInt W8 false) (DInt 0); GV (TString false) (DStr [])].
Proof. vm_compute. reflexivity. Qed.

Example C17_ex_too_many : run ex_pf ex_pp ex_ff (ex_funcs DErrNil) (ex_funcs DErrNil) [] [77] [VNull; VNull]
  = OParseError PTooMany.
Proof. vm_compute. reflexivity. Qed.

(* the hypotheses of the run theorems hold for this map *)
Example C17_ex_hyps :
  NoDup (map fst (rev (ex_funcs DErrNil))) /\ Permutation (ex_funcs DErrNil) (rev (ex_funcs DErrNil)) /\
  (forall n f, In (n, f) (rev (ex_funcs DErrNil)) -> go_typed f /\ acceptable n f = true).
Proof.
  split; [|split].
  - cbn. repeat constructor; cbn; intros H; repeat destruct H as [H|H]; try discriminate; exact H.
  - apply Permutation_rev.
  - intros n f Hin. cbn in Hin.
    destruct Hin as [[= <- <-]|[[= <- <-]|[[= <- <-]|[]]]]; (split; [|vm_compute; reflexivity]); cbn [go_typed].
    + split; [intros V; discriminate|intros vals; constructor].
    + split; [intros V; discriminate|].
      intros vals. constructor; [|constructor]. split; [reflexivity|]. right. eexists; reflexivity.
    + split; [intros _; exists [TInt W8 false; TString false], (TUint W16 false), false; reflexivity|].
      intros vals. constructor; [split; [reflexivity|eexists; reflexivity]|].
      constructor; [split; [reflexivity|left; reflexivity]|constructor].
Qed.

(* in-range truncation, concrete: -3.99 -> int16 -3 ; 255.5 -> uint8 255 *)
Example C17_ex_trunc :
  conv ex_pf ex_pp ex_ff (VNum (of_bits 13839539136911397356)) (TInt W16 false) = GV (TInt W16 false) (DInt (-3)) /\
  conv ex_pf ex_pp ex_ff (VNum (FFin 511 (-1))) (TUint W8 true) = GV (TUint W8 true) (DUint 255).
Proof. split; vm_compute; reflexivity. Qed.

(* the former witness of F-C17-6: a uint64 parameter receives 1e19 as 10000000000000000000;
   the values outside the range are as they were: -1 -> 2^64-1, 1e30 and 2^64 -> 2^63 *)
Example C17_ex_uint64 :
  to_uint W64 (FFin 10000000000000000000 0) = 10000000000000000000 /\
  to_uint WP (FFin 18446744073709549568 0) = 18446744073709549568 /\
  to_uint W64 (FFin (-1) 0) = 18446744073709551615 /\
  to_uint W64 (FFin 1 100) = 9223372036854775808 /\ to_uint W64 (FFin 1 64) = 9223372036854775808.
Proof. repeat split; vm_compute; reflexivity. Qed.

(* float32 rounding, concrete: 2^24+1 (tie) -> 2^24 ; 2^24+3 -> 2^24+4 ; 3.4028235677973366e38 -> +inf *)
Example C17_ex_float32 :
  canon (to_f32 (FFin 16777217 0)) = canon (FFin 16777216 0) /\
  canon (to_f32 (FFin 16777219 0)) = canon (FFin 16777220 0) /\
  to_f32 (of_bits 5183643170835005440) = FInf false.
Proof. repeat split; vm_compute; reflexivity. Qed.

Example C17_ex_decimal : z_to_dec (-9223372036854775808) =
  [45;57;50;50;51;51;55;50;48;51;54;56;53;52;55;55;53;56;48;56] /\ z_to_dec 0 = [48] /\ z_to_dec 1205 = [49;50;48;53].
Proof. repeat split; vm_compute; reflexivity. Qed.

(* histories, concrete: a map with a keyword-named entry is rejected at each of three Executes;
   invalid, invalid, then the valid map: two errors, then the call works *)
Definition ex_bad_entry : bytes * fval :=
  ([112;114;105;110;116], FFunc {| params := []; variadic := false; results := [] |} (fun _ => [])).

Example C17_ex_history_rejected_each_time :
  run_history ex_pf ex_pp ex_ff (ex_bad_entry :: ex_funcs DErrNil) [] [122;122] []
    [ex_bad_entry :: ex_funcs DErrNil; rev (ex_bad_entry :: ex_funcs DErrNil); ex_bad_entry :: ex_funcs DErrNil]
  = inr [OSetupError [112;114;105;110;116] EKeyword; OSetupError [112;114;105;110;116] EKeyword;
         OSetupError [112;114;105;110;116] EKeyword].
Proof. vm_compute. reflexivity. Qed.

Example C17_ex_history_invalid_then_valid :
  run_history ex_pf ex_pp ex_ff (ex_funcs DErrNil) [] [122;122] []
    [ex_bad_entry :: ex_funcs DErrNil; ex_funcs DErrNil ++ [ex_bad_entry]; rev (ex_funcs DErrNil); ex_funcs DErrNil]
  = inr [OSetupError [112;114;105;110;116] EKeyword; OSetupError [112;114;105;110;116] EKeyword;
         OValue (VNum (FFin 42 0)) [GV (TInt W8 false) (DInt 0); GV (TString false) (DStr [])];
         OValue (VNum (FFin 42 0)) [GV (TInt W8 false) (DInt 0); GV (TString false) (DStr [])]].
Proof. vm_compute. reflexivity. Qed.
