(* C17 placeholder; theorems follow *)
From Verif Require Import Lib.Base Lib.Dyadic Model.Native.
