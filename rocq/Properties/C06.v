(* C06 — $0, the fields and NF stay mutually consistent under every update. *)
From Verif Require Import Lib.Base Lib.Dyadic Lib.Utf8 Lib.Regex Model.Fields.
