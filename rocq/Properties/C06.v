(* C06 — $0, the fields and NF stay mutually consistent under every update.
   Only statements closed by [exact] of a lemma proved in Proofs/, their Print Assumptions,
   non-vacuity examples, and the witnesses for the defects of the pinned tree.

   Reading guide.  [rx]/[am] = the regular-expression engine (Go's regexp), a parameter;
   the only hypothesis on it is [am_sorted]: FindAllStringIndex returns matches in order
   and inside the text -- proved for the executable engine in C06_engine_ok.
   [run rx am ops (init rx) = Ok s] = "s is the state after the script ops" (ANY list of
   operations, any texts, separators, indexes; the script did not stop with an error).
   [view] = what a program can observe: ($0, the fields after forcing the lazy split, NF). *)
From Verif Require Import Lib.Base Lib.Dyadic Lib.Utf8 Lib.Regex Gen.Consts Model.Fields
  Proofs.FieldsSplit Proofs.FieldsInv Proofs.FieldsSpec Proofs.FieldsRegex Proofs.FieldsObs.

Definition engine_ok (rx : Type) (am : rx -> bytes -> list (Z * Z)) : Prop :=
  forall r s, matches_sorted 0 (zlen s) (am r s).

(* ---------------- invariants over every script ---------------- *)

(* After any script: once the record is split, the flag slice and the field slice have one
   length, int(NF) is the number of fields, and a compiled regex exists whenever FS
   (saved or current) has more than one character. *)
Theorem C06_Inv_reachable : forall rx am, engine_ok rx am ->
  forall ops s, run rx am ops (init rx) = Ok s -> Inv rx s.
Proof. exact Inv_reachable. Qed.
Print Assumptions C06_Inv_reachable.

(* No script makes the record code slice or index out of range (ModField/ModNF carry the
   program's own string function, required not to panic itself). *)
Theorem C06_no_panic : forall rx am, engine_ok rx am ->
  forall ops, Forall (op_safe rx) ops -> run rx am ops (init rx) <> Panic.
Proof. intros rx am H ops Hs. apply run_no_panic; [exact H|apply Inv_init|exact Hs]. Qed.
Print Assumptions C06_no_panic.

(* NF = number of fields, full statement: FALSE on the pinned tree (F-C06-1) ... *)
Theorem C06_NF_is_count_refuted : ~ NF_is_count_full_statement.
Proof. exact NF_is_count_refuted. Qed.
Print Assumptions C06_NF_is_count_refuted.

(* ... and true for every script that assigns only counts (integers printed as integers) to NF *)
Theorem C06_NF_is_count_partial : forall rx am, engine_ok rx am ->
  forall ops s, Forall (op_nf_guard rx) ops -> run rx am ops (init rx) = Ok s ->
  have rx s = true -> nf rx s = count_value (zlen (fields rx s)).
Proof. intros rx am H ops s Hg Hr. exact (NF_is_count_partial rx am H ops s Hg Hr). Qed.
Print Assumptions C06_NF_is_count_partial.

(* ---------------- reads ---------------- *)

(* $i, NF and a full view change nothing observable (they may perform the lazy split) *)
Theorem C06_reads_are_pure : forall rx am s o s' w,
  is_read rx o = true -> exec_op rx am s o = Ok (s', w) -> view rx am s' = view rx am s.
Proof. exact reads_are_pure. Qed.
Print Assumptions C06_reads_are_pure.

(* $x returns $0 for int(x) = 0, else the field counted from the front (x > 0) or from the
   end (x < 0), and "" outside 1..NF *)
Theorem C06_getfield_value : forall rx am, engine_ok rx am ->
  forall s x s' w l fl v, Inv rx s -> view rx am s = Ok (l, fl, v) ->
  exec_op rx am s (GetField rx (IConst x)) = Ok (s', w) ->
  w = OVal (if float_to_int x =? 0 then l else field_at fl (float_to_int x)).
Proof. exact getfield_returns_view. Qed.
Print Assumptions C06_getfield_value.

Theorem C06_viewall_value : forall rx am s s' w,
  exec_op rx am s (ViewAll rx) = Ok (s', w) -> exists l v fl, view rx am s = Ok (l, fl, v) /\ w = OAll v fl.
Proof. exact viewall_returns_view. Qed.
Print Assumptions C06_viewall_value.

(* Reads are invisible for ever: deleting a read from (or inserting it into) ANY script changes
   nothing the rest of the script outputs nor how it ends.  Everything the lazy split
   consults -- FS, its regex, RS, the input mode -- is saved when the record is set (formerly
   F-C06-5: RS and the input mode were not).  No hypothesis on the regex engine at all. *)
Theorem C06_reads_invisible : forall rx am s o s' w ops,
  is_read_op rx o = true -> exec_op rx am s o = Ok (s', w) ->
  fst (trace rx am ops s') = fst (trace rx am ops s) /\
  same_end rx am (snd (trace rx am ops s')) (snd (trace rx am ops s)).
Proof. exact reads_invisible. Qed.
Print Assumptions C06_reads_invisible.

(* reads, getline var, and FS, OFS, RS, INPUTMODE, OUTPUTMODE changes leave the current record as
   it is: in particular a change of FS (or RS, or the input mode) does not re-split it *)
Theorem C06_pure_ops_keep_view : forall rx am s o s' w,
  is_pure rx o = true -> exec_op rx am s o = Ok (s', w) -> view rx am s' = view rx am s.
Proof. exact pure_ops_keep_view. Qed.
Print Assumptions C06_pure_ops_keep_view.

Theorem C06_setFS_pure : forall rx am s f r s', set_fs rx s f r = Ok s' -> view rx am s' = view rx am s.
Proof. exact setFS_pure. Qed.
Print Assumptions C06_setFS_pure.

(* ---------------- $0 assignment / a new record ---------------- *)

(* the new record is split with the FS (and its regex) in force at that moment *)
Theorem C06_assign_record_resplits : forall rx am s t b,
  view rx am (set_line rx s t b) =
  do fl <- split_record rx am (fs rx s) (fs_re rx s) (inmode rx s) (rs rx s) t;
  Ok (t, fl, count_value (zlen fl)).
Proof. exact assign_record_resplits. Qed.
Print Assumptions C06_assign_record_resplits.

(* ... unconditionally: whatever the state before (fields split or not, same text or not,
   flags set by earlier assignments or not), forcing the split of a freshly set record gives
   exactly this state -- fields = split of the text alone, every per-field "true string" flag
   false, NF = their number, FS/RS/input mode saved *)
Theorem C06_set_record_resets : forall rx am s t b,
  ensure_fields rx am (set_line rx s t b) =
  do fl <- split_record rx am (fs rx s) (fs_re rx s) (inmode rx s) (rs rx s) t;
  Ok (mkState rx t b fl (map (fun _ => false) fl) true (count_value (zlen fl))
              (fs rx s) (fs_re rx s) (fs rx s) (fs_re rx s) (rs rx s) (inmode rx s)
              (ofs rx s) (rs rx s) (inmode rx s) (outmode rx s)).
Proof. exact set_record_resets. Qed.
Print Assumptions C06_set_record_resets.

(* ... so no field of a freshly set record is ever a "true string" for comparisons: the typing
   probe (when $i is "10": is ($i < 9) the string or the numeric answer) never says string *)
Theorem C06_record_fields_are_strnum : forall rx am s t b x s' w,
  float_to_int x <> 0 ->
  exec_op rx am (set_line rx s t b) (TypeOf rx (IConst x)) = Ok (s', w) ->
  w = OTyp None \/ w = OTyp (Some false).
Proof. exact typeof_after_record. Qed.
Print Assumptions C06_record_fields_are_strnum.

(* ---------------- $i = t ---------------- *)

(* 1 <= i <= maxFieldIndex: intervening new fields empty, field i = t, $0 = the fields joined
   by the current OFS (CSV-encoded in CSV/TSV output mode: join_fields), NF = max(NF, i) *)
Theorem C06_setfield_spec : forall rx am, engine_ok rx am ->
  forall s s1 i t, Inv rx s -> ensure_fields rx am s = Ok s1 -> 1 <= i <= maxFieldIndex ->
  exists s', set_field rx am s i t = Ok s' /\
    fields rx s' = put (fields rx s1) i t /\
    zlen (fields_true rx s') = zlen (fields rx s') /\
    line rx s' = join_fields rx s (fields rx s') /\ line_true rx s' = true /\
    nf rx s' = count_value (Z.max (zlen (fields rx s1)) i) /\
    have rx s' = true /\
    fs rx s' = fs rx s /\ fs_re rx s' = fs_re rx s /\ saved_fs rx s' = saved_fs rx s /\ saved_re rx s' = saved_re rx s /\
    ofs rx s' = ofs rx s /\ rs rx s' = rs rx s /\ inmode rx s' = inmode rx s /\ outmode rx s' = outmode rx s.
Proof. exact set_field_pos. Qed.
Print Assumptions C06_setfield_spec.

(* negative i counts from the last field; below the first field nothing happens *)
Theorem C06_setfield_negative : forall rx am s s1 i t,
  Inv rx s -> ensure_fields rx am s = Ok s1 -> i < 0 ->
  let j := zlen (fields rx s1) + 1 + i in
  (j < 1 -> set_field rx am s i t = Ok s1) /\
  (1 <= j -> j <= maxFieldIndex -> set_field rx am s i t = set_field rx am s j t).
Proof. exact set_field_neg. Qed.
Print Assumptions C06_setfield_negative.

Theorem C06_setfield_too_large : forall rx am s i t,
  i > maxFieldIndex -> set_field rx am s i t = Err (msg_field_too_large ++ dec_of_Z i).
Proof. exact set_field_too_large. Qed.
Print Assumptions C06_setfield_too_large.

(* the index reaches set_field as floatToInt(x) (saturating): a program's $(x) = t with
   trunc(x) > maxFieldIndex is the "too large" error however large x is (2^63, 1e30, ...) *)
Theorem C06_setfield_huge : forall rx am s m e t,
  ftrunc m e > maxFieldIndex ->
  exec_op rx am s (SetField rx (IConst (FFin m e)) t) =
  Err (msg_field_too_large ++ dec_of_Z (float_to_int (FFin m e))).
Proof. exact setfield_huge. Qed.
Print Assumptions C06_setfield_huge.

(* ... and reading $(x) beyond the last field, 2^63 and more included, gives "" *)
Theorem C06_getfield_huge : forall rx am, engine_ok rx am ->
  forall s m e s' w l fl v, Inv rx s -> view rx am s = Ok (l, fl, v) -> zlen fl < maxint ->
  zlen fl < ftrunc m e ->
  exec_op rx am s (GetField rx (IConst (FFin m e))) = Ok (s', w) -> w = OVal [].
Proof. exact getfield_huge. Qed.
Print Assumptions C06_getfield_huge.

(* ---------------- sub / gsub / ++ / op= with $i or $0 as target ---------------- *)

(* f = the text the operation computes from the old one.  A substitution that was made
   (Some t) IS the assignment $(x) = t, whether or not t differs from the old text: so all of
   C06_setfield_spec / _negative / _too_large / C06_assign_record_resplits apply ($0 rebuilt
   with OFS, NF extended, $0 re-split with the FS in force) ... *)
Theorem C06_modfield_some_is_assignment : forall rx am s x f old s1 fl t,
  get_field rx am s (float_to_int x) = Ok (s1, old, fl) -> f old = Ok (Some t) ->
  exec_op rx am s (ModField rx (IConst x) f) = exec_op rx am s (SetField rx (IConst x) t).
Proof. exact modfield_some_is_assignment. Qed.
Print Assumptions C06_modfield_some_is_assignment.

(* ... and no substitution (None) is just the read of the target *)
Theorem C06_modfield_none_is_read : forall rx am s x f old s1 fl,
  get_field rx am s (float_to_int x) = Ok (s1, old, fl) -> f old = Ok None ->
  exec_op rx am s (ModField rx (IConst x) f) = Ok (s1, ONone) /\ view rx am s1 = view rx am s.
Proof. exact modfield_none_is_read. Qed.
Print Assumptions C06_modfield_none_is_read.

(* ---------------- NF = v ---------------- *)

(* n = int(v), 0 <= n <= maxFieldIndex: the fields are truncated to n or extended with empty
   ones, $0 is rebuilt; NF keeps the VALUE v (the root of F-C06-1) *)
Theorem C06_setnf_spec : forall rx am, engine_ok rx am ->
  forall s s1 v, Inv rx s -> ensure_fields rx am s = Ok s1 ->
  let n := f2i64 (vnum v) in 0 <= n <= maxFieldIndex ->
  exists s', set_nf rx am s v = Ok s' /\
    fields rx s' = resize n (fields rx s1) /\
    zlen (fields_true rx s') = zlen (fields rx s') /\
    line rx s' = join_fields rx s (fields rx s') /\ line_true rx s' = true /\
    nf rx s' = v /\ have rx s' = true /\
    fs rx s' = fs rx s /\ fs_re rx s' = fs_re rx s /\ saved_fs rx s' = saved_fs rx s /\ saved_re rx s' = saved_re rx s /\
    ofs rx s' = ofs rx s /\ rs rx s' = rs rx s /\ inmode rx s' = inmode rx s /\ outmode rx s' = outmode rx s.
Proof. exact set_nf_spec. Qed.
Print Assumptions C06_setnf_spec.

Theorem C06_setnf_errors : forall rx am s v,
  let n := f2i64 (vnum v) in
  (n < 0 -> set_nf rx am s v = Err (msg_nf_negative ++ dec_of_Z n)) /\
  (n > maxFieldIndex -> set_nf rx am s v = Err (msg_nf_too_large ++ dec_of_Z n)).
Proof. exact set_nf_errors. Qed.
Print Assumptions C06_setnf_errors.

(* ---------------- the same, for every state a script can reach ---------------- *)

(* after ANY script, $i = t (1 <= i <= maxFieldIndex) makes the observable record
   ($0, fields, NF) = (fields joined, fields padded with "" and field i = t, max(NF, i)) *)
Theorem C06_reachable_setfield : forall rx am, engine_ok rx am ->
  forall ops s, run rx am ops (init rx) = Ok s ->
  forall s1 i t, ensure_fields rx am s = Ok s1 -> 1 <= i <= maxFieldIndex ->
  exists s', set_field rx am s i t = Ok s' /\
    view rx am s' = Ok (join_fields rx s (put (fields rx s1) i t), put (fields rx s1) i t,
                        count_value (Z.max (zlen (fields rx s1)) i)).
Proof. exact reachable_setfield. Qed.
Print Assumptions C06_reachable_setfield.

(* after ANY script, NF = v with 0 <= int(v) <= maxFieldIndex: fields cut or padded to int(v), $0 rebuilt *)
Theorem C06_reachable_setnf : forall rx am, engine_ok rx am ->
  forall ops s, run rx am ops (init rx) = Ok s ->
  forall s1 v, ensure_fields rx am s = Ok s1 -> 0 <= f2i64 (vnum v) <= maxFieldIndex ->
  exists s', set_nf rx am s v = Ok s' /\
    view rx am s' = Ok (join_fields rx s (resize (f2i64 (vnum v)) (fields rx s1)),
                        resize (f2i64 (vnum v)) (fields rx s1), v).
Proof. exact reachable_setnf. Qed.
Print Assumptions C06_reachable_setnf.

(* after ANY script, $(x) reads $0 / the field from the front or the end / "" and changes nothing *)
Theorem C06_reachable_getfield : forall rx am, engine_ok rx am ->
  forall ops s, run rx am ops (init rx) = Ok s ->
  forall x s' w l fl v, view rx am s = Ok (l, fl, v) ->
  exec_op rx am s (GetField rx (IConst x)) = Ok (s', w) ->
  w = OVal (if float_to_int x =? 0 then l else field_at fl (float_to_int x)) /\ view rx am s' = view rx am s.
Proof. exact reachable_getfield. Qed.
Print Assumptions C06_reachable_getfield.

(* ---------------- getline $i ---------------- *)

(* getline $i, the record read being t, is exactly the assignment $i = t (index evaluated
   before the read, converted once) *)
Theorem C06_getline_field_is_setfield : forall rx am s i t,
  exec_op rx am s (GetlineField rx i t) = exec_op rx am s (SetField rx i t).
Proof. exact getline_field_is_setfield. Qed.
Print Assumptions C06_getline_field_is_setfield.

(* ---------------- the FS rules ---------------- *)

(* a literal separator: joining the pieces with it gives the text back, and no piece contains it *)
Theorem C06_split_literal_roundtrip : forall sep s, join sep (split_lit sep s) = s.
Proof. exact join_split_lit. Qed.
Print Assumptions C06_split_literal_roundtrip.

Theorem C06_split_literal_no_sep : forall sep s,
  sep <> [] -> Forall (fun f => forall a b, f <> a ++ sep ++ b) (split_lit sep s).
Proof. exact split_lit_no_sep. Qed.
Print Assumptions C06_split_literal_no_sep.

(* FS = " ": the separators are exactly space, tab and newline (formerly F-C06-3: every
   Unicode White_Space character was one) ... *)
Theorem C06_split_space_blanks : forall b, is_blank b = true <-> b = 32 \/ b = 9 \/ b = 10.
Proof. exact is_blank_spec. Qed.
Print Assumptions C06_split_space_blanks.

(* ... the three laws that determine the split on every record: nothing from nothing; a
   blank-free non-empty run is one field; a blank between two parts separates them and
   vanishes (so leading, trailing and repeated blanks are ignored) ... *)
Theorem C06_split_space_laws :
  fields_bytes [] [] false = [] /\
  (forall f, Forall nonspace f -> f <> [] -> fields_bytes f [] false = [f]) /\
  (forall a sp b, is_blank sp = true ->
     fields_bytes (a ++ sp :: b) [] false = fields_bytes a [] false ++ fields_bytes b [] false).
Proof. exact (conj fields_bytes_nil (conj fields_bytes_one_run fields_bytes_separator)). Qed.
Print Assumptions C06_split_space_laws.

(* ... every field is non-empty and contains no blank, and the fields are the non-blank bytes
   of the record in order *)
Theorem C06_split_space_fields_ok : forall s,
  Forall (fun f => f <> [] /\ Forall nonspace f) (split_blanks s) /\
  concat (split_blanks s) = filter (fun c => negb (is_blank c)) s.
Proof. exact (fun s => conj (split_blanks_fields_ok s) (split_blanks_concat s)). Qed.
Print Assumptions C06_split_space_fields_ok.

(* a regex FS: the fields and the non-empty matches alternate and rebuild the record; empty
   matches are ignored; never a slice out of range *)
Theorem C06_split_regex_rebuild : forall ln ms,
  matches_sorted 0 (zlen ln) ms ->
  exists fl, split_re_go ln ms 0 = Ok fl /\
             length fl = S (length (nonempty_matches ms)) /\
             rebuild ln fl (nonempty_matches ms) = ln.
Proof. exact split_re_rebuild. Qed.
Print Assumptions C06_split_regex_rebuild.

(* RS = "" with a one-character FS: newline separates too (and a CR before it goes); no field
   keeps a newline *)
Theorem C06_rs_empty_no_newline : forall fl, Forall (fun f => ~ In 10 f) (split_newlines fl).
Proof. exact split_newlines_fields_have_no_newline. Qed.
Print Assumptions C06_rs_empty_no_newline.

(* ---------------- the hypotheses are satisfiable ---------------- *)

(* the executable engine (Lib/Regex.v, the one the correspondence check runs) is an engine_ok *)
Theorem C06_engine_ok : engine_ok re Regex.all_matches.
Proof. exact all_matches_sorted. Qed.
Print Assumptions C06_engine_ok.

Definition b_abc : bytes := [97; 32; 98; 32; 99].                     (* "a b c" *)
Definition v_count (n : Z) : value := count_value n.

(* a script satisfying both guards; it runs, and ends with 4 fields, $0 = "a-b--Z", NF = 4 *)
Definition ex_script : list xop :=
  [ReadRecord re b_abc; SetNF re (v_count 2); SetOFS re [45]; SetField re (IConst (FFin 4 0)) [90]; GetNF re].

Example C06_ex_guards : Forall (op_safe re) ex_script /\ Forall (op_nf_guard re) ex_script.
Proof.
  split; repeat constructor. cbn [op_nf_guard]. exists 2. split; reflexivity.
Qed.

Example C06_ex_run :
  (do s <- run re Regex.all_matches ex_script xinit; view re Regex.all_matches s)
  = Ok ([97; 45; 98; 45; 45; 90], [[97]; [98]; []; [90]], count_value 4).
Proof. vm_compute. reflexivity. Qed.

(* FS change between reading and the first field access: the saved FS splits *)
Example C06_ex_lazy_fs :
  (do s <- run re Regex.all_matches
      [SetFS re [44] None; ReadRecord re [97; 44; 98; 32; 99]; SetFS re [32] None] xinit;
   view re Regex.all_matches s)
  = Ok ([97; 44; 98; 32; 99], [[97]; [98; 32; 99]], count_value 2).
Proof. vm_compute. reflexivity. Qed.

Example C06_ex_huge_index :                  (* $(2^100) = "x" is the "too large" error; $(2^100) reads "" *)
  (exists msg, xexec (set_line re xinit b_abc false) (SetField re (IConst (FFin 1 100)) [120]) = Err msg) /\
  (do (_, w) <- xexec (set_line re xinit b_abc false) (GetField re (IConst (FFin 1 100))); Ok w) = Ok (OVal []).
Proof. split; [eexists|]; vm_compute; reflexivity. Qed.

(* $1 = "x y"; $0 = $0 on "p q": the record is re-split, NF = 3 *)
Example C06_ex_reassign_same_text :
  (do s <- run re Regex.all_matches
       [ReadRecord re [112; 32; 113]; SetField re (IConst (FFin 1 0)) [120; 32; 121];
        ModField re (IConst (FFin 0 0)) (fun old => Ok (Some old))] xinit;
   view re Regex.all_matches s)
  = Ok ([120; 32; 121; 32; 113], [[120]; [121]; [113]], count_value 3).
Proof. vm_compute. reflexivity. Qed.

(* record "10 10"; $1 = "10" (a string now); next record "10 10": $1 is a strnum again *)
Example C06_ex_flags_reset :
  fst (trace re Regex.all_matches
       [ReadRecord re [49; 48; 32; 49; 48]; SetField re (IConst (FFin 1 0)) [49; 48]; TypeOf re (IConst (FFin 1 0));
        ReadRecord re [49; 48; 32; 49; 48]; TypeOf re (IConst (FFin 1 0))] xinit)
  = [ONone; ONone; OTyp (Some true); ONone; OTyp (Some false)].
Proof. vm_compute. reflexivity. Qed.

(* OFS="-"; sub(/b/, "b", $2) on "a  b   c": $0 becomes "a-b-c"; sub(/^/, "", $5): NF = 5 *)
Example C06_ex_sub_same_text :
  (do s <- run re Regex.all_matches
       [SetOFS re [45]; ReadRecord re [97; 32; 32; 98; 32; 32; 32; 99];
        ModField re (IConst (FFin 2 0)) (fun old => Ok (Some old))] xinit;
   view re Regex.all_matches s)
  = Ok ([97; 45; 98; 45; 99], [[97]; [98]; [99]], count_value 3)
  /\
  (do s <- run re Regex.all_matches
       [ReadRecord re [97; 32; 98; 32; 99]; ModField re (IConst (FFin 5 0)) (fun old => Ok (Some old))] xinit;
   view re Regex.all_matches s)
  = Ok ([97; 32; 98; 32; 99; 32; 32], [[97]; [98]; [99]; []; []], count_value 5).
Proof. split; vm_compute; reflexivity. Qed.

(* the witnesses of the findings, on the executable model *)
Example C06_ex_nf_2_7 :                      (* $0 = "a b c"; NF = 2.7  ->  NF reads 2.7, 2 fields *)
  (do s <- run re Regex.all_matches [ReadRecord re b_abc; SetNF re v_2_7] xinit; view re Regex.all_matches s)
  = Ok ([97; 32; 98], [[97]; [98]], v_2_7).
Proof. vm_compute. reflexivity. Qed.

Example C06_ex_getline_field :               (* getline $2 with line "X": $0 = "a X c" *)
  (do (s, _) <- xexec (set_line re xinit b_abc false) (GetlineField re (IConst (FFin 2 0)) [88]);
   view re Regex.all_matches s)
  = Ok ([97; 32; 88; 32; 99], [[97]; [88]; [99]], count_value 3).
Proof. vm_compute. reflexivity. Qed.

Example C06_ex_nbsp :                        (* "a<NBSP>b<VT>c d<CR>" has 2 fields (formerly 4) *)
  split_blanks [97; 194; 160; 98; 11; 99; 32; 100; 13] = [[97; 194; 160; 98; 11; 99]; [100; 13]].
Proof. vm_compute. reflexivity. Qed.

Example C06_ex_rs_change :                   (* FS=","; $0="a,b<NL>c"; [x=$1;] RS=""; NF: 2 either way *)
  let s0 := set_line re (set_fs_plain re [44] xinit) [97; 44; 98; 10; 99] true in
  (do (s1, _) <- xexec s0 (GetField re (IConst (FFin 1 0)));
   Ok (fst (trace re Regex.all_matches [SetRS re []; GetNF re] s1)))
  = Ok (fst (trace re Regex.all_matches [SetRS re []; GetNF re] s0))
  /\ fst (trace re Regex.all_matches [SetRS re []; GetNF re] s0) = [ONone; ONF (count_value 2)].
Proof. split; vm_compute; reflexivity. Qed.
