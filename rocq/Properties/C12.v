(* C12 — NoExec, NoFileWrites and NoFileReads confine every program.
   Only statements closed by [exact] of a lemma proved in Proofs/, Print Assumptions,
   non-vacuity examples.  (The _refuted witness of F-C12-1 is gone: repaired in goawk.)
   Model: Model/Sandbox.v (io.go getOutputStream, getInputScannerFile, getInputScannerPipe,
   nextLine, execShell; vm.go BuiltinSystem, BuiltinClose, getline).  [run_effects c e s h]
   is the trace of a run that issues the requests [h] in program order from state [s] under
   flags [c], the operating system answering as [e] (any answers). *)
From Coq Require Import String.
From Verif Require Import Lib.Base Gen.Consts Gen.IoSites Model.Sandbox
  Proofs.Sandbox Proofs.SandboxRun Proofs.SandboxSites.
Open Scope list_scope.
Open Scope Z_scope.

(* ---- confinement, over all histories (reuse of open names, close and reopen included),
        all starting states, all environments -------------------------------------------- *)

(* NoExec: no process is ever started *)
Theorem C12_noexec_confines : forall c e s h,
  noExec c = true -> forall cmd, ~ In (StartProcess cmd) (run_effects c e s h).
Proof. exact noexec_confines. Qed.
Print Assumptions C12_noexec_confines.

(* NoFileWrites: the open function is never called with a creating/truncating/appending flag *)
Theorem C12_nofilewrites_confines : forall c e s h,
  noFileWrites c = true -> forall n fl, In (CallOpenFile n fl) (run_effects c e s h) -> fl = ORead.
Proof. exact nofilewrites_confines. Qed.
Print Assumptions C12_nofilewrites_confines.

(* NoFileReads: the open function is never called with O_RDONLY (operand or getline) *)
Theorem C12_nofilereads_confines : forall c e s h,
  noFileReads c = true -> forall n, ~ In (CallOpenFile n ORead) (run_effects c e s h).
Proof. exact nofilereads_confines. Qed.
Print Assumptions C12_nofilereads_confines.

(* ... while standard input stays available under every flag combination: as getline < "-",
   as the main input when there are no operands, and as the operand "-" *)
Theorem C12_stdin_dash_available : forall c e s,
  lookup dash (outs s) = None -> lookup dash (ins s) = None ->
  exists s', io_step c e s (ReadFile dash) = ([UseStd StdIn], Continue RNonNeg, s').
Proof. exact stdin_dash_available. Qed.
Print Assumptions C12_stdin_dash_available.

Theorem C12_stdin_main_available : forall c e k v,
  exists s', io_step c e (init_state [] k) (NextLine v) = ([UseStd StdInMain], Continue RNonNeg, s').
Proof. exact stdin_main_available. Qed.
Print Assumptions C12_stdin_main_available.

Theorem C12_stdin_operand_dash_available : forall c e k v,
  exists s', io_step c e (init_state [dash] k) (NextLine v) = ([UseStd StdInMain], Continue RNonNeg, s').
Proof. exact stdin_operand_dash_available. Qed.
Print Assumptions C12_stdin_operand_dash_available.

(* "-" as output, /dev/stdout and /dev/stderr never cause an open or a process start *)
Theorem C12_std_names_never_opened : forall c e s r n,
  (r = OpenWrite n \/ r = OpenAppend n) ->
  n = dash \/ n = dev_stdout \/ n = dev_stderr ->
  forall x, In x (fst (fst (io_step c e s r))) -> is_write_open x = false /\ is_read_open x = false /\ is_start x = false.
Proof. exact std_names_never_opened. Qed.
Print Assumptions C12_std_names_never_opened.

(* ---- each denied attempt ends the run with an error ------------------------------------ *)

(* "attempt": with all three flags cleared the same request in the same state would perform
   an effect that a set flag of c forbids *)

(* every request form — redirections, system, the main loop and (since the repair of
   F-C12-1) plain getline: the step is a Stop with one of the five sandbox errors and has
   touched nothing but standard streams.  This is the former C12_denied_attempt_full_statement,
   now a theorem; its refutation and the guard r <> NextLine ViaGetline are gone. *)
Theorem C12_denied_attempt_stops : forall c e s r,
  attempts c e s r -> denied_stops c e s r.
Proof. exact denied_attempt_stops. Qed.
Print Assumptions C12_denied_attempt_stops.

(* anywhere in a history: the log of the run ends at the denied attempt *)
Theorem C12_denied_attempt_ends_run : forall c e s h1 r h2,
  all_continue (run_log c e s h1) = true ->
  attempts c e (run_state c e s h1) r ->
  exists effs x,
    run_log c e s (h1 ++ r :: h2) = run_log c e s h1 ++ [(effs, Stop x)] /\
    is_sandbox_err x = true /\ forallb is_std effs = true.
Proof. exact denied_attempt_ends_run. Qed.
Print Assumptions C12_denied_attempt_ends_run.

(* the former witness: NoFileReads, operand in1, BEGIN { getline; print > "out" } ends at the
   getline with the NoFileReads error; "out" is not opened *)
Theorem C12_plain_getline_denial_ends_run :
  run_log wit_cfg wit_env wit_state [NextLine ViaGetline; OpenWrite wit_out]
  = [([], Stop ENoFileReads)].
Proof. exact plain_getline_denial_ends_run. Qed.
Print Assumptions C12_plain_getline_denial_ends_run.

(* plain getline and the main loop report the denial of a file operand alike *)
Theorem C12_plain_getline_denied_like_main_loop : forall c e s,
  attempts c e s (NextLine ViaGetline) ->
  snd (fst (io_step c e s (NextLine ViaGetline))) = Stop ENoFileReads /\
  snd (fst (io_step c e s (NextLine ViaMain))) = Stop ENoFileReads.
Proof. exact plain_getline_denied_like_main_loop. Qed.
Print Assumptions C12_plain_getline_denied_like_main_loop.

(* only the denial is propagated: a failing open of the operand still gives getline -1 *)
Theorem C12_plain_getline_open_error_is_minus1 : forall c e s,
  snd (fst (next_line c e s)) = NLErr EOpen ->
  snd (fst (io_step c e s (NextLine ViaGetline))) = Continue RNeg1.
Proof. exact plain_getline_open_error_is_minus1. Qed.
Print Assumptions C12_plain_getline_open_error_is_minus1.

(* a Stop is the last entry of the log of a run: nothing happens after it *)
Theorem C12_stop_ends_run : forall c e h s,
  Forall (fun p => is_continue (snd p) = true) (removelast (run_log c e s h)).
Proof. exact stop_ends_run. Qed.
Print Assumptions C12_stop_ends_run.

(* the fuel of the nextLine loop is never exhausted (the model is total, not truncated) *)
Theorem C12_no_fuel : forall c e s r, snd (fst (io_step c e s r)) <> Fuel.
Proof. exact io_step_no_fuel. Qed.
Print Assumptions C12_no_fuel.

(* ---- every file is opened through the configured function -------------------------------- *)

(* after any run from the initial state: each file stream in the tables comes from a call of
   the open function recorded in the trace, each command stream from a process start *)
Theorem C12_all_opens_via_hook : forall c e args k h,
  let s' := run_state c e (init_state args k) h in
  let E := run_effects c e (init_state args k) h in
  (forall n, lookup n (ins s') = Some KFile -> In (CallOpenFile n ORead) E) /\
  (forall n, lookup n (outs s') = Some KFile -> In (CallOpenFile n OTrunc) E \/ In (CallOpenFile n OAppend) E) /\
  (forall n, lookup n (ins s') = Some KCmd -> In (StartProcess n) E) /\
  (forall n k', lookup n (outs s') = Some k' -> k' <> KFile -> In (StartProcess n) E).
Proof. exact all_opens_via_hook. Qed.
Print Assumptions C12_all_opens_via_hook.

Theorem C12_nofilewrites_no_file_writer : forall c e args k h n,
  noFileWrites c = true -> lookup n (outs (run_state c e (init_state args k) h)) <> Some KFile.
Proof. exact nofilewrites_no_file_writer. Qed.
Print Assumptions C12_nofilewrites_no_file_writer.

Theorem C12_nofilereads_no_file_reader : forall c e args k h n,
  noFileReads c = true -> lookup n (ins (run_state c e (init_state args k) h)) <> Some KFile.
Proof. exact nofilereads_no_file_reader. Qed.
Print Assumptions C12_nofilereads_no_file_reader.

Theorem C12_noexec_no_command_stream : forall c e args k h n,
  noExec c = true ->
  lookup n (ins (run_state c e (init_state args k) h)) <> Some KCmd /\
  lookup n (outs (run_state c e (init_state args k) h)) <> Some KCmd /\
  lookup n (outs (run_state c e (init_state args k) h)) <> Some KNull.
Proof. exact noexec_no_command_stream. Qed.
Print Assumptions C12_noexec_no_command_stream.

(* all three flags set: a run that starts with empty stream tables touches nothing but
   standard input, standard output and standard error *)
Theorem C12_sandboxed_only_std : forall c e h s,
  noExec c = true -> noFileWrites c = true -> noFileReads c = true -> tables_empty s ->
  forallb is_std (run_effects c e s h) = true.
Proof. exact sandboxed_only_std. Qed.
Print Assumptions C12_sandboxed_only_std.

(* a name that is open is reused: no flag test, no open, no start *)
Theorem C12_open_name_reused_out : forall c e s n k r,
  lookup n (ins s) = None -> lookup n (outs s) = Some k ->
  r = OpenWrite n \/ r = OpenAppend n \/ r = PipeTo n ->
  io_step c e s r = ([Reuse n k], Continue RNone, s).
Proof. exact open_name_reused_out. Qed.
Print Assumptions C12_open_name_reused_out.

Theorem C12_open_name_reused_in : forall c e s n k r,
  lookup n (outs s) = None -> lookup n (ins s) = Some k ->
  r = ReadFile n \/ r = ReadCmd n ->
  io_step c e s r = ([Reuse n k], Continue RNonNeg, s).
Proof. exact open_name_reused_in. Qed.
Print Assumptions C12_open_name_reused_in.

(* ---- the source of package interp (tables regenerated from the repository) ----------------- *)

Theorem C12_sites_sensitive_refs_exact : sensitive_refs = committed_refs.
Proof. exact sensitive_refs_exact. Qed.
Print Assumptions C12_sites_sensitive_refs_exact.

Theorem C12_sites_every_reference_classified : forall r, In r sensitive_refs -> classify r <> None.
Proof. exact every_reference_classified. Qed.
Print Assumptions C12_sites_every_reference_classified.

Theorem C12_sites_no_file_opening_call : forall r, In r sensitive_refs ->
  r_call r = true -> (r_pkg r = "os"%string /\ r_sel r = "Environ"%string) \/ r_pkg r = "os/exec"%string.
Proof. exact no_file_opening_call. Qed.
Print Assumptions C12_sites_no_file_opening_call.

Theorem C12_sites_process_creation_only_in_execShell : forall r, In r sensitive_refs ->
  r_pkg r = "os/exec"%string -> r_call r = true -> r_func r = "interp.execShell"%string.
Proof. exact process_creation_only_in_execShell. Qed.
Print Assumptions C12_sites_process_creation_only_in_execShell.

Theorem C12_sites_openfile_sites_exact :
  map s_func openfile_sites = ["interp.getInputScannerFile"; "interp.getOutputStream"; "interp.nextLine"]%string.
Proof. exact openfile_sites_exact. Qed.
Print Assumptions C12_sites_openfile_sites_exact.

Theorem C12_sites_every_open_is_guarded : forall s, In s openfile_sites ->
  (s_arg s = "os.O_RDONLY"%string /\ In "p.noFileReads"%string (s_guards s)) \/
  (s_arg s = write_flags /\ In "p.noFileWrites"%string (s_guards s)).
Proof. exact every_open_is_guarded. Qed.
Print Assumptions C12_sites_every_open_is_guarded.

Theorem C12_sites_execshell_sites_exact :
  map s_func execshell_sites = ["interp.callBuiltin"; "interp.getInputScannerPipe"; "interp.getOutputStream"]%string.
Proof. exact execshell_sites_exact. Qed.
Print Assumptions C12_sites_execshell_sites_exact.

Theorem C12_sites_every_execShell_call_guarded : forall s, In s execshell_sites -> In "p.noExec"%string (s_guards s).
Proof. exact every_execShell_call_guarded. Qed.
Print Assumptions C12_sites_every_execShell_call_guarded.

Theorem C12_sites_every_start_is_guarded :
  forallb start_ok start_sites = true /\ forallb cmdstream_ok cmdstream_sites = true /\
  map s_func start_sites = ["interp.callBuiltin"; "newInCmdStream"; "newOutCmdStream"]%string /\
  map s_func cmdstream_sites = ["interp.getInputScannerPipe"; "interp.getOutputStream"]%string.
Proof. exact every_start_is_guarded. Qed.
Print Assumptions C12_sites_every_start_is_guarded.

Theorem C12_sites_flags_set_only_at_configuration : forall f fld rhs,
  In (f, fld, rhs) field_assigns -> f = "interp.setExecuteConfig"%string.
Proof. exact flags_set_only_at_configuration. Qed.
Print Assumptions C12_sites_flags_set_only_at_configuration.

Theorem C12_sites_only_interp_imports_os : forall pkg path,
  In (pkg, path) repo_imports -> sensitive_path path = true ->
  pkg = "interp"%string /\ In path ["os"; "os/exec"; "syscall"]%string.
Proof. exact only_interp_imports_os. Qed.
Print Assumptions C12_sites_only_interp_imports_os.

Theorem C12_sites_io_functions_have_no_labels : forall s,
  In s (openfile_sites ++ execshell_sites ++ start_sites ++ cmdstream_sites) -> ~ In (s_func s) labelled_funcs.
Proof. exact io_functions_have_no_labels. Qed.
Print Assumptions C12_sites_io_functions_have_no_labels.

(* ---- non-vacuity -------------------------------------------------------------------------- *)

Definition ex_out1 : bytes := [111; 117; 116; 49].     (* "out1" *)
Definition ex_c1 : bytes := [99; 49].                  (* "c1" *)
Definition ex_env : env := env_of_tables [OsOk; OsOk; OsOk] [(wit_in1, 2%nat)] true.

(* without flags the three kinds of effect do occur (so the confinement theorems exclude something) *)
Example C12_ex_effects_occur :
  run_effects (mkConfig false false false false) ex_env (init_state [wit_in1] 0)
    [OpenWrite ex_out1; PipeTo ex_c1; NextLine ViaMain]
  = [CallOpenFile ex_out1 OTrunc; StartProcess ex_c1; CallOpenFile wit_in1 ORead].
Proof. vm_compute. reflexivity. Qed.

(* the same history under all three flags: stopped by the first request *)
Example C12_ex_sandboxed :
  run_log (mkConfig true true true false) ex_env (init_state [wit_in1] 0)
    [OpenWrite ex_out1; PipeTo ex_c1; NextLine ViaMain]
  = [([], Stop ENoFileWrites)].
Proof. vm_compute. reflexivity. Qed.

(* the hypotheses of the denied-attempt theorems are satisfiable, for each caller of nextLine too *)
Example C12_ex_attempt :
  attempts (mkConfig true false false false) ex_env (init_state [] 0) (System ex_c1) /\
  attempts wit_cfg wit_env wit_state (NextLine ViaMain) /\
  attempts wit_cfg wit_env wit_state (NextLine ViaGetline).
Proof. repeat split; vm_compute; reflexivity. Qed.

(* ... and of the open-error theorem: operand in1 whose open fails, no flag set *)
Example C12_ex_open_error :
  snd (fst (next_line (mkConfig false false false false) (env_of_tables [OsFail] [] true) wit_state)) = NLErr EOpen.
Proof. vm_compute. reflexivity. Qed.

(* close and reopen: the second open is gated again (denied here by a state reached with an open stream) *)
Example C12_ex_close_reopen :
  run_log (mkConfig false false false false) ex_env (init_state [] 0)
    [OpenWrite ex_out1; OpenAppend ex_out1; Close ex_out1; OpenAppend ex_out1]
  = [([CallOpenFile ex_out1 OTrunc], Continue RNone); ([Reuse ex_out1 KFile], Continue RNone);
     ([CloseStream ex_out1 KFile], Continue RNonNeg); ([CallOpenFile ex_out1 OAppend], Continue RNone)].
Proof. vm_compute. reflexivity. Qed.

Example C12_ex_tables_empty : tables_empty (init_state [wit_in1; dash] 2).
Proof. split; reflexivity. Qed.

(* the reuse theorems' hypotheses are met after an open *)
Example C12_ex_reuse_hyp :
  let s := run_state (mkConfig false false false false) ex_env (init_state [] 0) [OpenWrite ex_out1] in
  lookup ex_out1 (ins s) = None /\ lookup ex_out1 (outs s) = Some KFile.
Proof. vm_compute. split; reflexivity. Qed.
