(* C05 — Number/string conversion and comparison typing follow the AWK value model.
   Only statements closed by [exact] of a lemma proved in Proofs/, non-vacuity examples,
   the full statements the pinned tree violates with their refutations, and
   Print Assumptions.  Model: Model/Value.v (interp/value.go, the twelve comparison
   opcodes of interp/vm.go, strconv.ParseFloat's syntax and rounding contract). *)
From Verif Require Import Lib.Base Lib.Dyadic Lib.Utf8 Model.Value
  Proofs.ValueCmp Proofs.ValueStr Proofs.ValueScan Proofs.ValueGrammar Proofs.ValueAccept Proofs.ValueFields.
From Verif Require Lib.Regex Model.Fields.

(* ================================================================== *)
(* 1. number -> string                                                 *)
(* ================================================================== *)

(* v.n == float64(int64(v.n)) (amd64 conversion) holds exactly for the integral doubles in
   [-2^63, 2^63) *)
Theorem C05_int_path_exact : forall m e,
  int_path (FFin m e) = true <-> is_integral m e = true /\ in_i64 (ftrunc m e) = true.
Proof. exact int_path_iff. Qed.
Print Assumptions C05_int_path_exact.

(* value.str on every finite double: the exact integer when integral and within int64,
   the CONVFMT/OFMT format otherwise *)
Theorem C05_int_to_string_exact : forall fmt m e,
  num_to_str fmt (FFin m e) =
    if is_integral m e && in_i64 (ftrunc m e) then Ok (format_int (ftrunc m e))
    else format_float fmt m e.
Proof. exact num_to_str_finite. Qed.
Print Assumptions C05_int_to_string_exact.

(* the integer text denotes exactly that integer ... *)
Theorem C05_format_int_value : forall z, int_text_value (format_int z) = z.
Proof. exact format_int_exact. Qed.
Print Assumptions C05_format_int_value.

(* ... and is the canonical numeral: optional '-', digits only, no leading zero *)
Theorem C05_format_int_canonical : forall z,
  exists sg d t, format_int z = sg ++ (48 + d) :: digit_chars t /\
    (sg = [] \/ sg = [45] /\ z < 0) /\ 0 <= d <= 9 /\ Forall (fun x => 0 <= x <= 9) t /\
    (d = 0 -> t = [] /\ z = 0).
Proof. exact format_int_canonical. Qed.
Print Assumptions C05_format_int_canonical.

Example C05_ex_int_paths :
  (* 2^53+2 is on the integer path, 2^63 is not (int64 conversion gives -2^63), -2^63 is, 0.5 is not *)
  int_path (FFin 9007199254740994 0) = true /\ int_path (FFin 1 63) = false /\
  int_path (FFin (-1) 63) = true /\ int_path (FFin 1 (-1)) = false /\
  num_to_str str_fmt6g (FFin (-1) 63) = Ok [45;57;50;50;51;51;55;50;48;51;54;56;53;52;55;55;53;56;48;56] /\
  num_to_str str_fmt6g (FFin 1 63) = Ok [57;46;50;50;51;51;55;101;43;49;56] /\   (* 9.22337e+18 *)
  num_to_str str_fmt6g (FFin 1 (-1)) = Ok [48;46;53].
Proof. vm_compute. repeat split. Qed.

(* ================================================================== *)
(* 2. string -> number: the prefix scanner                             *)
(* ================================================================== *)

(* parseFloatPrefix skips ASCII blanks, then consumes a prefix that is in the AWK numeric
   grammar and at least as long as every grammatical prefix (PSNum); reports zero only when
   every grammatical prefix spells zero ("0" before an x that no hex digit follows) (PSZero);
   reports nan/inf exactly on [sign] n a n / i n f (any case); and never indexes out of range. *)
Theorem C05_prefix_is_longest : forall s,
  let ws := fst (span ascii_space s) in
  let t := snd (span ascii_space s) in
  s = ws ++ t /\ forallb ascii_space ws = true /\ stops ascii_space t /\
  scan_verdict_ok t (scan_prefix s) (zlen ws).
Proof. exact prefix_is_longest. Qed.
Print Assumptions C05_prefix_is_longest.

Theorem C05_prefix_scan_no_panic : forall s, scan_prefix s <> PSPanic.
Proof. exact scan_prefix_no_panic. Qed.
Print Assumptions C05_prefix_scan_no_panic.

(* the text the scanner hands to strconv.ParseFloat is always syntactically accepted by it: the
   value of parseFloatPrefix is the value strconv assigns to the consumed prefix (never the
   "syntax error => 0" fallback) *)
Theorem C05_scan_text_accepted : forall s start c patch,
  scan_prefix s = PSNum start c patch ->
  exists d, go_parse_desc (scan_text c patch) = Some d /\ parse_float_prefix s = Ok (fst (desc_value d)).
Proof. exact scan_text_accepted. Qed.
Print Assumptions C05_scan_text_accepted.

Example C05_ex_scan :
  (* "  -12.5e2xyz" -> "-12.5e2" from offset 2; "0x1p-2z" -> "0x1p-2"; "0x" -> "0"; "0xg" -> zero;
     "+infinity" -> +inf; "1e+" -> "1" *)
  scan_prefix [32;32;45;49;50;46;53;101;50;120;121;122] = PSNum 2 [45;49;50;46;53;101;50] false /\
  scan_prefix [48;120;49;112;45;50;122] = PSNum 0 [48;120;49;112;45;50] false /\
  scan_prefix [48;120;49;65] = PSNum 0 [48;120;49;65] true /\
  scan_prefix [48;120] = PSNum 0 [48] false /\
  scan_prefix [48;120;103] = PSZero /\
  scan_prefix [43;105;110;102;105;110;105;116;121] = PSInf false /\
  scan_prefix [49;101;43] = PSNum 0 [49] false /\
  parse_float_prefix [32;32;45;49;50;46;53;101;50;120;121;122] = Ok (FFin (-5497558138880000) (-42)).
Proof. vm_compute. repeat split. Qed.

(* ================================================================== *)
(* 3. coherence of the two string -> number routines                   *)
(* ================================================================== *)

(* Property text: "the number a numeric-looking input string stands for is the same in
   comparisons, truth tests and arithmetic": whenever parseFloat (comparisons, truth tests)
   accepts s as the number x, parseFloatPrefix (arithmetic) reads the same x.  All strings, all
   values (decimal, hex, inf, nan, out-of-range; rounding included, since both routines hand the
   same text to strconv).  This was C05_coherence_full_statement, refuted on the pinned tree by
   NBSP "12" (F-C05-1, parseFloat trimmed Unicode blanks); since fix 5c04c54 both routines use
   the one asciiSpace table and the statement holds without guard. *)
Theorem C05_coherence : forall s x,
  parse_float s = PFOk x -> parse_float_prefix s = Ok x.
Proof. exact coherence. Qed.
Print Assumptions C05_coherence.

Example C05_ex_coherence_hyp :
  (* " 0x1A \n": both read 26; "1e400": both read +inf; NBSP "12", "12" U+3000: a string for
     parseFloat (and 0 resp. 12 as a prefix), no longer a number for one routine only *)
  parse_float [32;48;120;49;65;32;10] = PFOk (FFin 7318349394477056 (-48)) /\
  parse_float_prefix [32;48;120;49;65;32;10] = Ok (FFin 7318349394477056 (-48)) /\
  parse_float [49;101;52;48;48] = PFOk (FInf false) /\
  parse_float_prefix [49;101;52;48;48] = Ok (FInf false) /\
  parse_float [194;160;49;50] = PFErrSyntax /\
  parse_float [49;50;227;128;128] = PFErrSyntax.
Proof. vm_compute. repeat split. Qed.

(* Property text: input-derived text "that looks entirely like a number" compares numerically: a
   text in the AWK numeric grammar (ASCII blanks around it) is accepted by parseFloat.  This was
   C05_numeric_text_accepted_full_statement, refuted on the pinned tree by "1e400" (F-C05-2,
   strconv's ErrRange made it a string); since fix 2ec8f16 the range error is accepted (+-inf). *)
Theorem C05_numeric_text_accepted : forall s,
  awk_numeral (ascii_trim s) -> exists x, parse_float s = PFOk x.
Proof. exact numeric_text_accepted. Qed.
Print Assumptions C05_numeric_text_accepted.

(* The converse ("compares numerically ONLY IF it looks like a number"): what parseFloat accepts
   is, between ASCII blanks, in the grammar or [sign] inf/infinity/nan.  This was
   C05_accepted_is_numeric_full_statement, refuted on the pinned tree by NBSP "12" (F-C05-1). *)
Theorem C05_accepted_is_numeric : forall s x,
  parse_float s = PFOk x -> awk_numeral (ascii_trim s) \/ awk_special (ascii_trim s).
Proof. exact accepted_is_numeric. Qed.
Print Assumptions C05_accepted_is_numeric.

(* the former witnesses, on the repaired model *)
Example C05_ex_former_witnesses :
  (* "1e400" and "-0x1p1024": numbers (+-inf) for comparisons, truth tests and arithmetic alike *)
  parse_float [49;101;52;48;48] = PFOk (FInf false) /\
  parse_float_prefix [49;101;52;48;48] = Ok (FInf false) /\
  is_true_str (VNumStr [49;101;52;48;48]) = (FInf false, false) /\
  parse_float [45;48;120;49;112;49;48;50;52] = PFOk (FInf true) /\
  parse_float_prefix [45;48;120;49;112;49;48;50;52] = Ok (FInf true) /\
  site_Equals str_fmt6g (VNumStr [49;101;52;48;48]) (VNum (FInf false)) = Ok (VNum fone).
Proof. vm_compute. repeat split. Qed.

(* NBSP "12": not a number for parseFloat, 0 as a prefix, and not in the grammar *)
Example C05_ex_nbsp_is_a_string :
  parse_float [194; 160; 49; 50] = PFErrSyntax /\ parse_float_prefix [194; 160; 49; 50] = Ok (FFin 0 0) /\
  ~ (awk_numeral (ascii_trim [194; 160; 49; 50]) \/ awk_special (ascii_trim [194; 160; 49; 50])).
Proof. exact nbsp12_is_a_string. Qed.

(* ================================================================== *)
(* 4. comparison typing                                                *)
(* ================================================================== *)

(* a value is a numeric operand iff it is unset, a number, or input text parseFloat accepts *)
Theorem C05_numeric_operand : forall v,
  (exists x, numeric_operand v = Some x) <->
  (v = VNull \/ (exists n, v = VNum n) \/ (exists s f, v = VNumStr s /\ parse_float s = PFOk f)).
Proof. exact numeric_operand_cases. Qed.
Print Assumptions C05_numeric_operand.

(* every comparison site compares numerically when both operands are numeric operands and
   bytewise on the two string forms otherwise *)
Theorem C05_compare_mode : forall cf op l r,
  (forall x y, numeric_operand l = Some x -> numeric_operand r = Some y ->
     jump_site op cf l r = Ok (num_cmp op x y)) /\
  (numeric_operand l = None \/ numeric_operand r = None ->
     jump_site op cf l r = do sl <- v_str cf l; do sr <- v_str cf r; Ok (str_cmp op sl sr)).
Proof. exact compare_mode. Qed.
Print Assumptions C05_compare_mode.

(* the twelve sites of vm.go (six expression opcodes, six fused jumps), modelled separately,
   all compute the one specification function *)
Theorem C05_twelve_sites_agree : forall cf op l r,
  expr_site op cf l r = rmap boolean (spec_cmp cf op l r) /\
  jump_site op cf l r = spec_cmp cf op l r.
Proof. exact twelve_sites_agree. Qed.
Print Assumptions C05_twelve_sites_agree.

(* all six operators are read off one three-way outcome *)
Theorem C05_one_outcome : forall cf op l r o,
  spec_order cf l r = Ok o ->
  jump_site op cf l r = Ok (decide op o) /\ expr_site op cf l r = Ok (boolean (decide op o)).
Proof. exact site_outcome. Qed.
Print Assumptions C05_one_outcome.

(* provenance decides the tag: constants and computed strings are strings, everything read from
   outside is a numeric-string candidate *)
Theorem C05_provenance_tags : forall p s,
  prov_value p s = match p with PConst | PComputed => VStr s | _ => VNumStr s end.
Proof. reflexivity. Qed.

(* ================================================================== *)
(* 4b. input text entering through the record: typing is per record    *)
(* ================================================================== *)
(* Over the model of interp.go's record machinery (Model/Fields.v; p.fieldsIsTrueStr is
   fields_true), for ANY regex engine and ANY state s - i.e. whatever earlier records, field
   assignments, NF changes, FS changes left behind. *)

(* a record arrives (setLine(t, false)): $0 and every existing field are numeric-string
   candidates; only a position beyond NF reads as the string "" *)
Theorem C05_fresh_record_flags : forall rx all_matches (s : Fields.state rx) t k s1 f b,
  Fields.get_field rx all_matches (Fields.set_line rx s t false) k = Ok (s1, f, b) ->
  b = false \/ (k <> 0 /\ f = [] /\ b = true /\
                (let n := zlen (Fields.fields rx s1) in let j := if k <? 1 then n + 1 + k else k in j < 1 \/ j > n)).
Proof. exact fresh_record_flags. Qed.
Print Assumptions C05_fresh_record_flags.

(* record-to-record independence: text and typing of every field of a record depend only on the
   record and on FS / RS / input mode - not on the history *)
Theorem C05_fresh_record_independent_of_history : forall rx all_matches (s s' : Fields.state rx) t k,
  Fields.fs rx s = Fields.fs rx s' -> Fields.fs_re rx s = Fields.fs_re rx s' ->
  Fields.rs rx s = Fields.rs rx s' -> Fields.inmode rx s = Fields.inmode rx s' ->
  match Fields.get_field rx all_matches (Fields.set_line rx s t false) k,
        Fields.get_field rx all_matches (Fields.set_line rx s' t false) k with
  | Ok (_, f, b), Ok (_, f', b') => f = f' /\ b = b'
  | Err m, Err m' => m = m'
  | Panic, Panic => True
  | Unmod, Unmod => True
  | _, _ => False
  end.
Proof. exact fresh_record_independent. Qed.
Print Assumptions C05_fresh_record_independent_of_history.

(* after "$0 = t" the fields are re-split and are numeric-string candidates again *)
Theorem C05_assigned_record_flags : forall rx all_matches (s : Fields.state rx) t k s0 s1 f b,
  Fields.set_field rx all_matches s 0 t = Ok s0 -> Fields.get_field rx all_matches s0 k = Ok (s1, f, b) ->
  (k = 0 /\ b = true) \/ b = false \/ (k <> 0 /\ f = [] /\ b = true).
Proof. exact assigned_record_flags. Qed.
Print Assumptions C05_assigned_record_flags.

(* hence a field of a freshly read record is a numeric operand exactly when parseFloat accepts
   its text (by C05_numeric_text_accepted / C05_accepted_is_numeric: when it is in the AWK numeric
   grammar between ASCII blanks) - whatever came before *)
Theorem C05_fresh_field_numeric_iff : forall rx all_matches (s : Fields.state rx) t k s1 f b,
  Fields.get_field rx all_matches (Fields.set_line rx s t false) k = Ok (s1, f, b) ->
  (exists x, numeric_operand (field_value f b) = Some x) <-> (exists x, parse_float f = PFOk x).
Proof. exact fresh_field_numeric_iff. Qed.
Print Assumptions C05_fresh_field_numeric_iff.

Example C05_ex_history :
  (* record "a 5 x", $2 = "seen" (field 2 is a string), then record "b 10 9": field 2 is the
     numeric string "10" again and compares numerically: ($2 < 9) = 0 *)
  (do s1 <- xset_field (xread Fields.xinit [97;32;53;32;120]) 2 [115;101;101;110];
   do (s2, v) <- xfield s1 2;
   do (s3, w) <- xfield (xread s2 [98;32;49;48;32;57]) 2;
   do r <- site_Less str_fmt6g w (VNum (FFin 9 0));
   Ok (v, w, r)) = Ok (VStr [115;101;101;110], VNumStr [49;48], VNum fzero).
Proof. vm_compute. reflexivity. Qed.

(* ================================================================== *)
(* 5. mutual consistency of the six operators                          *)
(* ================================================================== *)

Theorem C05_ne_not_eq : forall cf l r o,
  spec_order cf l r = Ok o ->
  exists b, jump_site OEq cf l r = Ok b /\ jump_site ONe cf l r = Ok (negb b).
Proof. exact ne_not_eq. Qed.
Print Assumptions C05_ne_not_eq.

Theorem C05_lt_gt_swap : forall cf l r o,
  spec_order cf l r = Ok o ->
  exists b, jump_site OLt cf l r = Ok b /\ jump_site OGt cf r l = Ok b.
Proof. exact lt_gt_swap. Qed.
Print Assumptions C05_lt_gt_swap.

Theorem C05_trichotomy : forall cf l r o,
  ~ nan_operand l -> ~ nan_operand r -> spec_order cf l r = Ok o ->
  exists lt eq gt, jump_site OLt cf l r = Ok lt /\ jump_site OEq cf l r = Ok eq /\ jump_site OGt cf l r = Ok gt /\
    ((lt = true /\ eq = false /\ gt = false) \/ (lt = false /\ eq = true /\ gt = false) \/
     (lt = false /\ eq = false /\ gt = true)).
Proof. exact trichotomy. Qed.
Print Assumptions C05_trichotomy.

Theorem C05_le_not_gt : forall cf l r o,
  ~ nan_operand l -> ~ nan_operand r -> spec_order cf l r = Ok o ->
  exists b, jump_site OGt cf l r = Ok b /\ jump_site OLe cf l r = Ok (negb b).
Proof. exact le_not_gt. Qed.
Print Assumptions C05_le_not_gt.

Theorem C05_ge_not_lt : forall cf l r o,
  ~ nan_operand l -> ~ nan_operand r -> spec_order cf l r = Ok o ->
  exists b, jump_site OLt cf l r = Ok b /\ jump_site OGe cf l r = Ok (negb b).
Proof. exact ge_not_lt. Qed.
Print Assumptions C05_ge_not_lt.

(* a comparison used as a condition - in direct position (loop bottom tests: the fused jump) or
   in inverted position (if, ?:, loop top tests: == / != through the other one's fused jump,
   ordering comparisons evaluated and tested with JumpFalse) - enters the guarded code exactly
   when the comparison is true as an expression.  All operands, NaN included. *)
Theorem C05_condition_forms_agree : forall cf op l r,
  cond_direct op cf l r = spec_cmp cf op l r /\ cond_inverted op cf l r = spec_cmp cf op l r.
Proof. exact condition_forms_agree. Qed.
Print Assumptions C05_condition_forms_agree.

(* facts about the opcodes (not about a defect): the fused jump of the opposite operator is the
   negation when no operand is NaN ... *)
Theorem C05_opposite_jump_is_negation_non_nan : forall cf op l r o,
  ~ nan_operand l -> ~ nan_operand r -> spec_order cf l r = Ok o ->
  exists b, jump_site op cf l r = Ok b /\ jump_site (inv_op op) cf l r = Ok (negb b).
Proof. exact inverse_jump_is_negation. Qed.
Print Assumptions C05_opposite_jump_is_negation_non_nan.

(* ... and is not for a NaN operand (both are false) - which is why the compiler does not fuse a
   negated ordering comparison into the opposite jump *)
Theorem C05_opposite_jump_not_negation_for_nan :
  exists cf l r, jump_site OLt cf l r = Ok false /\ jump_site (inv_op OLt) cf l r = Ok false /\
                 cond_inverted OLt cf l r = Ok false.
Proof. exists str_fmt6g, (VNumStr [110; 97; 110]), (VNum fone). vm_compute. repeat split. Qed.

(* string order = bytewise lexicographic, a strict total order *)
Theorem C05_string_order_lexicographic : forall a b, s_lt a b = true <-> lex_lt a b.
Proof. exact s_lt_lex. Qed.
Print Assumptions C05_string_order_lexicographic.

Theorem C05_string_order_strict_total :
  (forall a, s_lt a a = false) /\
  (forall a b c, s_lt a b = true -> s_lt b c = true -> s_lt a c = true) /\
  (forall a b, (s_lt a b = true /\ a <> b /\ s_lt b a = false) \/
               (s_lt a b = false /\ a = b /\ s_lt b a = false) \/
               (s_lt a b = false /\ a <> b /\ s_lt b a = true)).
Proof. exact string_order_strict_total. Qed.
Print Assumptions C05_string_order_strict_total.

Example C05_ex_cmp_hyp :
  (* the hypotheses of the consistency theorems are met: field " 10 " against field "9" is numeric
     (10 > 9), constant "10" against 9 is a string comparison ("10" < "9") *)
  spec_order str_fmt6g (VNumStr [32;49;48;32]) (VNumStr [57]) = Ok (Some Gt) /\
  ~ nan_operand (VNumStr [32;49;48;32]) /\ ~ nan_operand (VNumStr [57]) /\
  spec_order str_fmt6g (VStr [49;48]) (VNum (FFin 9 0)) = Ok (Some Lt) /\
  site_Less str_fmt6g (VStr [49;48]) (VNum (FFin 9 0)) = Ok (VNum fone) /\
  site_JumpGreater str_fmt6g (VNumStr [32;49;48;32]) (VNumStr [57]) = Ok true.
Proof.
  vm_compute. repeat split; try reflexivity; intro H; discriminate.
Qed.
