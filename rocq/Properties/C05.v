(* C05 (in progress) *)
From Verif Require Import Lib.Base Lib.Dyadic Lib.Utf8 Model.Value Proofs.Value.
