(* C19 - Parsing is deterministic; a parsed Program is immutable and shareable.
   Only statements closed by [exact] of a lemma proved in Proofs/, non-vacuity
   examples, refutation witnesses and Print Assumptions.

   Vocabulary.  [resolve pi P] is C16's model of resolver.Resolve (Model/Resolver.v),
   Go's randomised map iteration being the oracle [pi] (any permutation, each time
   it is asked: [perm_oracle]); [names_ok P]: function names are not empty (the
   parser).  [final_equiv F F']: two results have the same type for every variable
   and parameter, the same global indexes and the same local indexes;
   [lookup_final F fn v] is ResolvedProgram.LookupVar (scope, type, index) on a
   result - with func_info (LookupFunc, which does not depend on the run) all the
   compiler reads.  [order_outcomes cut P]: the outcomes of resolve_order over every
   permutation of the function list; [one_error cut P]: those of them that are
   errors are one and the same error (computable).
   Gen/ProgramWrites.v: the alias analysis of the repository source (translator/gen_c19.go). *)
From Verif Require Import Lib.Base Model.Resolver Model.Determinism Proofs.Resolver Proofs.ResolverExact
  Proofs.ResolverFlat Proofs.ResolverSound Proofs.DeterminismSort Proofs.DeterminismDom Proofs.DeterminismPerm
  Proofs.Determinism Proofs.DeterminismWitness Proofs.DeterminismTables Proofs.ResolverCutoff Gen.ProgramWrites.
From Coq Require Import Permutation String.

(* ============ 1. PARSING IS DETERMINISTIC ============================================== *)

(* TYPES AND INDEXES (no guard).  Two accepted runs of the resolver on the same
   program, under any two map iteration orders, agree on the type of every
   variable and parameter and on every index: index assignment is a function of
   the SET of names (globals are sorted before they are numbered, locals follow
   the parameter list), and the set of names in the finished table is a function
   of the program. *)
Theorem C19_accepted_deterministic : forall (pi pi' : oracle) (P : program) (F F' : final),
  perm_oracle pi -> perm_oracle pi' -> names_ok P ->
  resolve pi P = ROk F -> resolve pi' P = ROk F' -> final_equiv F F'.
Proof. exact (accepted_deterministic cutoff). Qed.
Print Assumptions C19_accepted_deterministic.

(* ... hence the same answer to every LookupVar ... *)
Theorem C19_lookup_deterministic : forall F F',
  final_equiv F F' -> forall fn v, lookup_final F fn v = lookup_final F' fn v.
Proof. exact lookup_deterministic. Qed.
Print Assumptions C19_lookup_deterministic.

(* ... hence the same compiled program: anything computed from the syntax tree by
   asking LookupVar (the compiler: Model/Compiler.v is a function of the tree
   annotated with exactly these answers) gives the same result. *)
Theorem C19_compiled_deterministic : forall (A : Type)
    (compile : (name -> name -> option (scope * ty * Z)) -> A) (F F' : final),
  (forall l l', (forall fn v, l fn v = l' fn v) -> compile l = compile l') ->
  final_equiv F F' -> compile (lookup_final F) = compile (lookup_final F').
Proof. exact (@compiled_deterministic). Qed.
Print Assumptions C19_compiled_deterministic.

(* sort.Strings is canonical: the order in which the map delivered the names is irrelevant *)
Theorem C19_sorted_names_canonical : forall l l', Permutation l l' -> sort_names l = sort_names l'.
Proof. exact sort_names_canonical. Qed.
Print Assumptions C19_sorted_names_canonical.

(* An accepted program meets C16's precondition (calls name defined functions
   with at most as many arguments as parameters, no name clash): C16's theorems
   apply to everything the resolver accepts. *)
Theorem C19_accepted_wf : forall (pi : oracle) (P : program) (F : final),
  perm_oracle pi -> names_ok P -> resolve pi P = ROk F -> wf0 P = true.
Proof. exact (accepted_wf0 cutoff). Qed.
Print Assumptions C19_accepted_wf.

(* VERDICT (partial: the guard excludes the 100-pass cut-off, finding F-C19-2).
   For EVERY program - valid or not - acceptance does not depend on the map order. *)
Theorem C19_verdict_deterministic_partial : forall (pi pi' : oracle) (P : program),
  perm_oracle pi -> perm_oracle pi' -> names_ok P ->
  resolve pi P <> RErr ETooManyIter -> resolve pi' P <> RErr ETooManyIter ->
  ((exists F, resolve pi P = ROk F) <-> (exists F', resolve pi' P = ROk F')).
Proof. exact (verdict_deterministic_partial cutoff). Qed.
Print Assumptions C19_verdict_deterministic_partial.

(* ENUMERATION.  Whatever the map order, the outcome is one of the outcomes of
   resolve_order over the permutations of the function list: the quantification
   over oracles reduces to a finite enumeration (what modelrun computes). *)
Theorem C19_outcome_enumerated : forall (pi : oracle) (P : program),
  perm_oracle pi -> names_ok P -> In (resolve pi P) (order_outcomes cutoff P).
Proof. exact (outcome_enumerated cutoff). Qed.
Print Assumptions C19_outcome_enumerated.

(* ERROR MESSAGE (partial: guard = the error set over all orders of the functions
   is a singleton, finding F-C19-1 excluded). *)
Theorem C19_error_deterministic_partial : forall (pi pi' : oracle) (P : program) (e e' : rerr),
  perm_oracle pi -> perm_oracle pi' -> names_ok P -> one_error cutoff P = true ->
  resolve pi P = RErr e -> resolve pi' P = RErr e' -> e = e'.
Proof. exact (error_deterministic_partial cutoff). Qed.
Print Assumptions C19_error_deterministic_partial.

(* a program with at most one function: the whole result is determined *)
Theorem C19_single_function_deterministic : forall (pi pi' : oracle) (P : program),
  perm_oracle pi -> perm_oracle pi' -> names_ok P -> (List.length (p_funcs P) <= 1)%nat ->
  resolve pi P = resolve pi' P.
Proof. exact (single_function_deterministic cutoff). Qed.
Print Assumptions C19_single_function_deterministic.

(* THE WHOLE RESULT (partial: both guards): same verdict, same error, same types and indexes *)
Theorem C19_parse_deterministic_partial : forall (pi pi' : oracle) (P : program),
  perm_oracle pi -> perm_oracle pi' -> names_ok P ->
  resolve pi P <> RErr ETooManyIter -> resolve pi' P <> RErr ETooManyIter ->
  one_error cutoff P = true ->
  same_result (resolve pi P) (resolve pi' P).
Proof. exact (parse_deterministic_partial cutoff). Qed.
Print Assumptions C19_parse_deterministic_partial.

(* ---- the full statement, and why it is false for the code as it is ---- *)

Definition C19_full_statement : Prop :=
  forall pi pi' P, perm_oracle pi -> perm_oracle pi' -> names_ok P ->
    same_result (resolve pi P) (resolve pi' P).

Definition C19_error_statement : Prop :=
  forall pi pi' P e e', perm_oracle pi -> perm_oracle pi' -> names_ok P ->
    resolve pi P = RErr e -> resolve pi' P = RErr e' -> e = e'.

Definition C19_verdict_statement : Prop :=
  forall pi pi' P, perm_oracle pi -> perm_oracle pi' -> wf P = true ->
    is_ok (resolve pi P) = is_ok (resolve pi' P).

(* F-C19-1: two functions with independent type errors; which is reported depends on
   the order in which the map of functions is iterated *)
Theorem C19_error_deterministic_refuted : ~ C19_error_statement.
Proof.
  intros H.
  pose proof (H (front_oracle [102]) (front_oracle [103]) two_bad _ _
                (front_oracle_perm _) (front_oracle_perm _) two_bad_names two_bad_f_first two_bad_g_first) as E.
  discriminate E.
Qed.
Print Assumptions C19_error_deterministic_refuted.

(* F-C19-2: a ring of 200 functions forwarding a parameter: accepted when topoSort
   happens to start at f150 (100 passes suffice), rejected with "too many
   iterations" when it starts at the top level - the verdict itself depends on
   the map order.  The program meets the precondition. *)
Theorem C19_verdict_deterministic_refuted : ~ C19_verdict_statement.
Proof.
  intros H.
  pose proof (H (front_oracle (fN 150)) (front_oracle []) ring
                (front_oracle_perm _) (front_oracle_perm _) ring_wf) as E.
  rewrite ring_accepted, ring_rejected in E. discriminate E.
Qed.
Print Assumptions C19_verdict_deterministic_refuted.

Theorem C19_full_statement_refuted : ~ C19_full_statement.
Proof.
  intros H.
  pose proof (H (front_oracle [102]) (front_oracle [103]) two_bad
                (front_oracle_perm _) (front_oracle_perm _) two_bad_names) as E.
  rewrite two_bad_f_first, two_bad_g_first in E. cbn [same_result] in E. discriminate E.
Qed.
Print Assumptions C19_full_statement_refuted.

(* DISASSEMBLY NAMES.  compiler.Program.nativeFuncNames (what Disassemble prints after
   CallNative) is filled from a map iteration over ALL functions.  Partial: the entry
   for index i does not depend on the map order provided no two functions share
   index i ... *)
Theorem C19_disassembly_names_partial : forall (P : program) (order order' : list name) (i : Z),
  Permutation order order' ->
  (forall n n', In n order -> In n' order -> shown_hit P i n = true -> shown_hit P i n' = true -> n = n') ->
  name_shown P order i = name_shown P order' i.
Proof. exact name_shown_deterministic_partial. Qed.
Print Assumptions C19_disassembly_names_partial.

(* ... F-C19-3: a Go function and an AWK function do share one (both are numbered from 0):
   function f(a) { natv(a) } is disassembled as "CallNative f" or "CallNative natv" *)
Definition C19_disassembly_statement : Prop :=
  forall P order order' i, Permutation order order' -> name_shown P order i = name_shown P order' i.

Theorem C19_disassembly_names_refuted : ~ C19_disassembly_statement.
Proof.
  intros H. destruct native_clash_shown as [_ [H1 H2]].
  pose proof (H native_clash [n_natv; [102]] [[102]; n_natv] 0%Z (perm_swap _ _ _)) as E.
  rewrite H1, H2 in E. discriminate E.
Qed.
Print Assumptions C19_disassembly_names_refuted.

(* ============ 2. A PARSED PROGRAM IS READ-ONLY (table theorems) ========================= *)

(* the alias set: where the Program enters package interp and which interpreter
   fields alias it (slice headers copied by newInterp share the backing arrays) *)
Theorem C19_alias_set : list_eqb pair_eqb seeds expected_seeds = true /\
                        list_eqb af_eqb alias_fields expected_alias_fields = true.
Proof. exact (conj seeds_as_expected alias_set_as_expected). Qed.
Print Assumptions C19_alias_set.

(* PROGRAM READ-ONLY: nowhere in the repository is there an assignment, op-assignment,
   ++/--, append, copy, delete, clear, address-taking or channel send whose target
   may lie in memory reachable from a parser.Program held by an interpreter *)
Theorem C19_program_read_only : filter of_program write_sites = [].
Proof. exact program_read_only. Qed.
Print Assumptions C19_program_read_only.

(* the only foreign code that receives a reference into the Program: methods of
   *regexp.Regexp documented as safe for concurrent use; no call through a function
   value receives one *)
Theorem C19_program_escapes :
  forallb (fun s => str_mem (pw_text s) regexp_concurrency_safe && String.eqb (pw_kind s) "recv")
          (filter of_program ext_calls) = true /\
  map pw_text (filter of_program ext_calls) = ["(*regexp.Regexp).MatchString"%string] /\
  dyn_calls = [].
Proof.
  exact (conj program_escapes_only_to_safe_regexp_methods (conj shared_regex_methods_listed no_dynamic_escape)).
Qed.
Print Assumptions C19_program_escapes.

(* INTERPRETER STATE IS PRIVATE: the package-level variables are exactly the listed
   ones; outside func init the only write whose target may be reachable from one is
   the classified append in execShell (harmless: cap = len, see DeterminismTables.v);
   references to them leave the repository only to exec.Command and to
   concurrency-safe regexp methods *)
Theorem C19_interp_state_private :
  list_eqb2 pv_eqb pkg_vars expected_pkg_vars = true /\
  forallb (fun s => negb (of_program s) && existsb (key_eqb (site_key s)) classified_global_writes) write_sites = true /\
  forallb (fun s => str_mem (pw_text s) global_escape_ok) ext_calls = true /\
  assumed_fresh = ["os/exec.Command"%string; "os/exec.CommandContext"%string].
Proof.
  exact (conj pkg_vars_as_expected (conj all_write_sites_classified
          (conj globals_escape_only_to_known_functions analysis_assumptions))).
Qed.
Print Assumptions C19_interp_state_private.

(* ============ non-vacuity ================================================================= *)

Example C19_ex_oracles : perm_oracle (front_oracle [102]) /\ perm_oracle (seed_oracle 5).
Proof. exact (conj (front_oracle_perm _) (seed_oracle_perm 5)). Qed.

(* the guards of the partial theorems hold for an accepted program with two functions ... *)
Example C19_ex_accepted : names_ok good_prog /\ one_error cutoff good_prog = true /\
  is_ok (resolve (front_oracle [102]) good_prog) = true /\ is_ok (resolve (front_oracle [103]) good_prog) = true.
Proof. exact good_prog_accepted. Qed.

(* ... and for a rejected one with a single erroneous function; the guard excludes the witness *)
Example C19_ex_one_error : names_ok one_bad /\ one_error cutoff one_bad = true /\
  resolve (front_oracle [103]) one_bad = RErr (EUse TArray n_a TScalar).
Proof. exact one_bad_guard. Qed.

Example C19_ex_guard_excludes_witness : one_error cutoff two_bad = false.
Proof. exact two_bad_guard. Qed.
