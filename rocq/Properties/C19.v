(* C19 - Parsing is deterministic; a parsed Program is immutable and shareable.
   Only statements closed by [exact] of a lemma proved in Proofs/, non-vacuity
   examples, refutation witnesses and Print Assumptions.

   Vocabulary.  [resolve pi P] is C16's model of resolver.Resolve (Model/Resolver.v),
   generic in the order [pi] in which the keys of each iterated map are seen (any
   permutation, each time it is asked: [perm_oracle]).  Since the repair of
   F-C19-1/1b/2 the code sorts those keys: what Go's randomised iteration delivers
   ([pi]) is sorted before use, the implementation is [resolve (sorting pi) P]
   (= resolve_sorting pi P).  [names_ok P]: function names are not empty (the parser).  [final_equiv F F']: two results have the same type for every variable
   and parameter, the same global indexes and the same local indexes;
   [lookup_final F fn v] is ResolvedProgram.LookupVar (scope, type, index) on a
   result - with func_info (LookupFunc, which does not depend on the run) all the
   compiler reads.  [order_outcomes cut P]: the outcomes of resolve_order over every
   permutation of the function list; [one_error cut P]: those of them that are
   errors are one and the same error (computable).
   Gen/ProgramWrites.v: the alias analysis of the repository source (translator/gen_c19.go). *)
From Verif Require Import Lib.Base Model.Resolver Model.Determinism Proofs.Resolver Proofs.ResolverExact
  Proofs.ResolverFlat Proofs.ResolverSound Proofs.DeterminismSort Proofs.DeterminismDom Proofs.DeterminismPerm
  Proofs.ResolverLoop Proofs.Determinism Proofs.DeterminismSorted Proofs.DeterminismWitness Proofs.DeterminismTables Proofs.ResolverCutoff
  Gen.ProgramWrites.
From Coq Require Import Permutation String.

(* ============ 1. PARSING IS DETERMINISTIC ============================================== *)

(* THE FULL STATEMENT.  For every program - valid or not - and any two map iteration
   orders the resolver returns the SAME result: same verdict, same error, same tables
   (Leibniz equality of the whole result; no guard, not even names_ok). *)
Theorem C19_parse_deterministic : forall (pi pi' : oracle) (P : program),
  perm_oracle pi -> perm_oracle pi' -> resolve (sorting pi) P = resolve (sorting pi') P.
Proof. exact impl_parse_deterministic. Qed.
Print Assumptions C19_parse_deterministic.

Definition C19_full_statement : Prop :=
  forall pi pi' P, perm_oracle pi -> perm_oracle pi' ->
    same_result (resolve_sorting pi P) (resolve_sorting pi' P).

Theorem C19_full_statement_holds : C19_full_statement.
Proof.
  intros pi pi' P Hpi Hpi'. unfold resolve_sorting.
  rewrite (impl_parse_deterministic pi pi' P Hpi Hpi'). apply same_result_refl.
Qed.
Print Assumptions C19_full_statement_holds.

(* the implementation is C16's model under the oracle "sorted": a permutation oracle,
   so every theorem of C16 (sound, complete, exact, no panic, never "too many iterations") is a
   theorem about the implementation; and it is the run the model runner computes *)
Theorem C19_impl_is_instance : forall (pi : oracle) (P : program),
  perm_oracle pi -> perm_oracle (sorting pi) /\ resolve (sorting pi) P = resolve name_order_oracle P.
Proof. exact (fun pi P Hpi => conj (sorting_perm pi Hpi) (impl_is_name_order pi P Hpi)). Qed.
Print Assumptions C19_impl_is_instance.

(* ---- what holds for ANY order of the walk (also for the code before the repair, and
   for whatever order a later change may choose): the rest of this section ---- *)

(* TYPES AND INDEXES (no guard).  Two accepted runs of the resolver on the same
   program, under any two map iteration orders, agree on the type of every
   variable and parameter and on every index: index assignment is a function of
   the SET of names (globals are sorted before they are numbered, locals follow
   the parameter list), and the set of names in the finished table is a function
   of the program. *)
Theorem C19_accepted_deterministic : forall (pi pi' : oracle) (P : program) (F F' : final),
  perm_oracle pi -> perm_oracle pi' -> names_ok P ->
  resolve pi P = ROk F -> resolve pi' P = ROk F' -> final_equiv F F'.
Proof. exact impl_accepted_deterministic. Qed.
Print Assumptions C19_accepted_deterministic.

(* ... hence the same answer to every LookupVar ... *)
Theorem C19_lookup_deterministic : forall F F',
  final_equiv F F' -> forall fn v, lookup_final F fn v = lookup_final F' fn v.
Proof. exact lookup_deterministic. Qed.
Print Assumptions C19_lookup_deterministic.

(* ... hence the same compiled program: anything computed from the syntax tree by
   asking LookupVar (the compiler: Model/Compiler.v is a function of the tree
   annotated with exactly these answers) gives the same result. *)
Theorem C19_compiled_deterministic : forall (A : Type)
    (compile : (name -> name -> option (scope * ty * Z)) -> A) (F F' : final),
  (forall l l', (forall fn v, l fn v = l' fn v) -> compile l = compile l') ->
  final_equiv F F' -> compile (lookup_final F) = compile (lookup_final F').
Proof. exact (@compiled_deterministic). Qed.
Print Assumptions C19_compiled_deterministic.

(* sort.Strings is canonical: the order in which the map delivered the names is irrelevant *)
Theorem C19_sorted_names_canonical : forall l l', Permutation l l' -> sort_names l = sort_names l'.
Proof. exact sort_names_canonical. Qed.
Print Assumptions C19_sorted_names_canonical.

(* An accepted program meets C16's precondition (calls name defined functions
   with at most as many arguments as parameters, no name clash): C16's theorems
   apply to everything the resolver accepts. *)
Theorem C19_accepted_wf : forall (pi : oracle) (P : program) (F : final),
  perm_oracle pi -> names_ok P -> resolve pi P = ROk F -> wf0 P = true.
Proof. exact impl_accepted_wf0. Qed.
Print Assumptions C19_accepted_wf.

(* VERDICT under an arbitrary walk order - no guard since C16's repair of the pass limit
   (C16_never_gives_up: the resolver never answers "too many iterations").
   For EVERY program - valid or not - acceptance does not depend on the order of the walk. *)
Theorem C19_verdict_any_order : forall (pi pi' : oracle) (P : program),
  perm_oracle pi -> perm_oracle pi' -> names_ok P ->
  ((exists F, resolve pi P = ROk F) <-> (exists F', resolve pi' P = ROk F')).
Proof. exact impl_verdict_any_order. Qed.
Print Assumptions C19_verdict_any_order.

(* ENUMERATION.  Whatever the map order, the outcome is one of the outcomes of
   resolve_order over the permutations of the function list: the quantification
   over oracles reduces to a finite enumeration (what modelrun computes). *)
Theorem C19_outcome_enumerated : forall (pi : oracle) (P : program),
  perm_oracle pi -> names_ok P -> In (resolve pi P) (order_outcomes (pass_fuel P) P).
Proof. exact impl_outcome_enumerated. Qed.
Print Assumptions C19_outcome_enumerated.

(* ERROR MESSAGE under an arbitrary walk order (guard = the error set over all orders of
   the functions is a singleton; otherwise the order decides, see
   C19_ex_walk_order_decides_error). *)
Theorem C19_error_any_order : forall (pi pi' : oracle) (P : program) (e e' : rerr),
  perm_oracle pi -> perm_oracle pi' -> names_ok P -> one_error (pass_fuel P) P = true ->
  resolve pi P = RErr e -> resolve pi' P = RErr e' -> e = e'.
Proof. exact impl_error_any_order. Qed.
Print Assumptions C19_error_any_order.

(* a program with at most one function: the whole result is determined *)
Theorem C19_single_function_deterministic : forall (pi pi' : oracle) (P : program),
  perm_oracle pi -> perm_oracle pi' -> names_ok P -> (List.length (p_funcs P) <= 1)%nat ->
  resolve pi P = resolve pi' P.
Proof. exact impl_single_function. Qed.
Print Assumptions C19_single_function_deterministic.

(* THE WHOLE RESULT under arbitrary walk orders (one guard left: the error set is a
   singleton): same verdict, same error, same types and indexes *)
Theorem C19_result_any_order : forall (pi pi' : oracle) (P : program),
  perm_oracle pi -> perm_oracle pi' -> names_ok P ->
  one_error (pass_fuel P) P = true ->
  same_result (resolve pi P) (resolve pi' P).
Proof. exact impl_result_any_order. Qed.
Print Assumptions C19_result_any_order.

(* ---- why the sort is load-bearing: the order of the walk IS observable ---- *)

(* two functions with independent type errors: the generic resolver reports f's or g's
   error depending on which is walked first (the former F-C19-1); sorted: f's *)
Example C19_ex_walk_order_decides_error :
  names_ok two_bad /\
  resolve (front_oracle [102]) two_bad = RErr (EUse TArray n_a TScalar) /\
  resolve (front_oracle [103]) two_bad = RErr (EUse TArray n_b TScalar) /\
  resolve name_order_oracle two_bad = RErr (EUse TArray n_a TScalar).
Proof. exact (conj two_bad_names (conj two_bad_f_first (conj two_bad_g_first two_bad_sorted))). Qed.

(* DISASSEMBLY NAMES - full.  compiler.Program.nativeFuncNames (what Disassemble prints
   after CallNative) is filled from a map iteration over the functions, entering the
   native ones only (repair of F-C19-3): the entry for every index is independent of
   the order in which the map delivers the functions. *)
Theorem C19_disassembly_names : forall (P : program) (order order' : list name) (i : Z),
  Permutation order order' -> name_shown P order i = name_shown P order' i.
Proof. exact name_shown_deterministic. Qed.
Print Assumptions C19_disassembly_names.

(* the former witness: function f(a) { natv(a) } with the Go function natv, both index 0 *)
Example C19_ex_native_clash :
  name_shown native_clash [n_natv; [102]] 0%Z = Some n_natv /\
  name_shown native_clash [[102]; n_natv] 0%Z = Some n_natv.
Proof. exact (proj2 native_clash_shown). Qed.

(* ============ 2. A PARSED PROGRAM IS READ-ONLY (table theorems) ========================= *)

(* the alias set: where the Program enters package interp and which interpreter
   fields alias it (slice headers copied by newInterp share the backing arrays) *)
Theorem C19_alias_set : seeds = expected_seeds /\ alias_fields = expected_alias_fields.
Proof. exact (conj seeds_as_expected alias_set_as_expected). Qed.
Print Assumptions C19_alias_set.

(* PROGRAM READ-ONLY: nowhere in the repository is there an assignment, op-assignment,
   ++/--, append, copy, delete, clear, address-taking or channel send whose target
   may lie in memory reachable from a parser.Program held by an interpreter *)
Theorem C19_program_read_only : filter of_program write_sites = [].
Proof. exact program_read_only. Qed.
Print Assumptions C19_program_read_only.

(* the only foreign code that receives a reference into the Program: methods of
   *regexp.Regexp documented as safe for concurrent use; no call through a function
   value receives one *)
Theorem C19_program_escapes :
  forallb (fun s => str_mem (pw_text s) regexp_concurrency_safe && String.eqb (pw_kind s) "recv")
          (filter of_program ext_calls) = true /\
  map pw_text (filter of_program ext_calls) = ["(*regexp.Regexp).MatchString"%string] /\
  dyn_calls = [].
Proof.
  exact (conj program_escapes_only_to_safe_regexp_methods (conj shared_regex_methods_listed no_dynamic_escape)).
Qed.
Print Assumptions C19_program_escapes.

(* INTERPRETER STATE IS PRIVATE: the package-level variables are exactly the listed
   ones; outside func init the only write whose target may be reachable from one is
   the classified append in execShell (harmless: cap = len, see DeterminismTables.v);
   references to them leave the repository only to exec.Command and to
   concurrency-safe regexp methods *)
Theorem C19_interp_state_private :
  list_eqb2 pv_eqb pkg_vars expected_pkg_vars = true /\
  forallb (fun s => negb (of_program s) && existsb (key_eqb (site_key s)) classified_global_writes) write_sites = true /\
  forallb (fun s => str_mem (pw_text s) global_escape_ok) ext_calls = true /\
  assumed_fresh = ["os/exec.Command"%string; "os/exec.CommandContext"%string].
Proof.
  exact (conj pkg_vars_as_expected (conj all_write_sites_classified
          (conj globals_escape_only_to_known_functions analysis_assumptions))).
Qed.
Print Assumptions C19_interp_state_private.

(* NO OTHER ORDER-SENSITIVE SITE.  The `for ... range <map>` statements of the front end
   (parser, lexer, internal/ast, internal/resolver, internal/compiler), with their complete
   text, and the callers of IterVars/IterFuncs are exactly the classified ones
   (Proofs/DeterminismTables.v gives the reason for each: sorted before use / iterations
   independent / minimum under a total order / writes at distinct indexes) *)
Theorem C19_map_iteration_sites :
  list_eqb site5_eqb map_ranges (map fst classified_map_ranges) = true /\
  list_eqb site5_eqb iter_callers (map fst classified_iter_callers) = true.
Proof. exact (conj map_ranges_classified iter_callers_classified). Qed.
Print Assumptions C19_map_iteration_sites.

(* ============ non-vacuity ================================================================= *)

Example C19_ex_oracles : perm_oracle (front_oracle [102]) /\ perm_oracle (seed_oracle 5).
Proof. exact (conj (front_oracle_perm _) (seed_oracle_perm 5)). Qed.

(* the guards of the partial theorems hold for an accepted program with two functions ... *)
Example C19_ex_accepted : names_ok good_prog /\ one_error (pass_fuel good_prog) good_prog = true /\
  is_ok (resolve (front_oracle [102]) good_prog) = true /\ is_ok (resolve (front_oracle [103]) good_prog) = true.
Proof. exact good_prog_accepted. Qed.

(* ... and for a rejected one with a single erroneous function; the guard excludes the witness *)
Example C19_ex_one_error : names_ok one_bad /\ one_error (pass_fuel one_bad) one_bad = true /\
  resolve (front_oracle [103]) one_bad = RErr (EUse TArray n_a TScalar).
Proof. exact one_bad_guard. Qed.

Example C19_ex_guard_excludes_witness : one_error (pass_fuel two_bad) two_bad = false.
Proof. exact two_bad_guard. Qed.
