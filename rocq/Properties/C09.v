(* C09 — printf and sprintf format like C printf; print uses OFMT.  (statements follow) *)
From Verif Require Import Lib.Base Lib.Dyadic Lib.Utf8 Model.Printf.
