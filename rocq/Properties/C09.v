(* C09 — printf and sprintf format like C printf; print uses OFMT.
   Only statements closed by [exact] of a lemma proved in Proofs/, non-vacuity
   examples, refutation witnesses computed on the faithful model, and
   Print Assumptions.

   Model (Model/Printf.v): parseFmtTypes, sprintf's argument conversion, the part
   of fmt.Sprintf goawk reaches (doPrintf, printArg, badVerb, fmtInteger, fmtS,
   fmtBs, fmtSbx, pad), printArgs / value.str.  Specification (Proofs/PrintfSpec.v):
   ISO C printf for d i o u x X c s, written from the standard.
   Floating conversions are outside the Coq model (fmt's float printer is not
   modelled): they are checked by the harness against an exact reference. *)
From Coq Require Import String.
From Verif Require Import Lib.Base Lib.Dyadic Lib.Utf8 Model.Printf
  Proofs.PrintfSpec Proofs.PrintfBase Proofs.PrintfInt Proofs.PrintfDir
  Proofs.PrintfScan Proofs.PrintfSprintf Proofs.PrintfParse Proofs.PrintfPrint Proofs.PrintfStr Proofs.PrintfMulti.

(* ================= format parsing and run-time errors ================= *)

(* parseFmtTypes is total: a format error (one of two), or a translated format whose recorded
   '*'-precision offsets are consistent (each lies inside the format, they increase by at least 2,
   and the type of the conversion follows) *)
Theorem C09_fmt_parse_total : forall s,
  (exists e, parse_fmt_types s = Err e /\ (e = err_expected \/ exists c, e = err_invalid c)) \/
  (exists g ts st, parse_fmt_types s = Ok (g, ts, st) /\ stars_ok ts st 0 (zlen g)).
Proof. exact fmt_parse_total. Qed.
Print Assumptions C09_fmt_parse_total.

(* a conversion specification of C's grammar between literal text: the verb is rewritten
   (i u -> d, c -> s), g and G without a precision get C's default .6, the argument types are 'd'
   for a '*' width, 'p' for a '*' precision (with the offset of its ".*") and then the conversion's type *)
Theorem C09_parse_directive : forall d pre post,
  wf_dir d = true -> no_pct pre = true -> no_pct post = true ->
  parse_fmt_types (pre ++ render d ++ post)
  = Ok (pre ++ go_render d ++ post, dir_tys d ++ [conv_ty (d_conv d)], dir_stars d (zlen pre + 1)).
Proof. exact parse_render. Qed.
Print Assumptions C09_parse_directive.

Example C09_ex_g_default_precision :      (* F-C09-1 repaired: %g -> %.6g, %-10G -> %-10.6G, %.3g unchanged *)
  parse_fmt_types (bs "%g|%-10G|%.3g|%.*g") = Ok (bs "%.6g|%-10.6G|%.3g|%.*g", [TyF; TyF; TyF; TyP; TyF], [19]).
Proof. vm_compute. reflexivity. Qed.

(* too few arguments: a run-time error *)
Theorem C09_too_few_args_error : forall chars ffmt s g ts st args,
  parse_fmt_types s = Ok (g, ts, st) -> zlen args < zlen ts ->
  sprintf chars ffmt s args = Err (err_args (zlen args) (zlen ts)).
Proof. exact too_few_args_error. Qed.
Print Assumptions C09_too_few_args_error.

(* after any accepted prefix and any specification prefix %[flags][width][.precision], a byte that is
   no conversion character and cannot continue the specification is a run-time error.  This is the
   full statement for unknown conversions; since the repair of F-C09-9 it includes flags, '*' and '.'
   placed after the width or precision (which fmt.Sprintf would have answered with %!verb text). *)
Theorem C09_unknown_verb_error : forall chars ffmt pre gp tp sp fl w p c rest args,
  parse_fmt_types pre = Ok (gp, tp, sp) ->
  forallb is_flag fl = true -> wf_w w = true -> wf_p p = true ->
  verb_info c = None -> is_verb_pos (mode_wp w p) c = true ->
  (fl = [] -> w = WNone -> p = PrNone -> (c =? 37) = false) ->
  sprintf chars ffmt (pre ++ 37 :: spec_text fl w p ++ c :: rest) args = Err (s_fmterr ++ err_invalid c).
Proof. exact unknown_verb_error. Qed.
Print Assumptions C09_unknown_verb_error.

Definition nn (z : Z) : value := VNum (FFin z 0).
Example C09_ex_malformed_directive_error :    (* F-C09-9 repaired *)
  sprintf false ffmt_unmod (bs "%5-d") [nn 42] = Err (bs "format error: invalid format type -")
  /\ sprintf false ffmt_unmod (bs "%.3.2f") [nn 3] = Err (bs "format error: invalid format type .")
  /\ sprintf false ffmt_unmod (bs "%*5d") [nn 3; nn 42] = Err (bs "format error: invalid format type 5")
  /\ sprintf false ffmt_unmod (bs "%5*d %s") [nn 42; nn 2; nn 3] = Err (bs "format error: invalid format type *")
  /\ sprintf false ffmt_unmod (bs "%5%") [] = Err (bs "format error: invalid format type %")
  /\ sprintf false ffmt_unmod (bs "%z") [nn 1] = Err (bs "format error: invalid format type z").
Proof. repeat split; vm_compute; reflexivity. Qed.
Example C09_ex_unknown_verb_hyps :            (* the hypotheses of the theorem for "%5-d": width 5, then '-' *)
  wf_w (WLit [53]) = true /\ verb_info 45 = None /\ is_verb_pos (mode_wp (WLit [53]) PrNone) 45 = true.
Proof. repeat split; reflexivity. Qed.

(* a format ending inside a conversion specification: a run-time error *)
Theorem C09_incomplete_spec_error : forall chars ffmt pre gp tp sp fl w p args,
  parse_fmt_types pre = Ok (gp, tp, sp) ->
  forallb is_flag fl = true -> wf_w w = true -> wf_p p = true ->
  sprintf chars ffmt (pre ++ 37 :: spec_text fl w p) args = Err (s_fmterr ++ err_expected).
Proof. exact incomplete_spec_error. Qed.
Print Assumptions C09_incomplete_spec_error.

(* sprintf never panics (argument indexing, the slice in %c, types[i+1], stars[0] and the cut of
   ".*" out of the format), whatever the format and arguments *)
Theorem C09_sprintf_no_panic : forall chars ffmt format args,
  (forall x, no_panic (ffmt x)) -> no_panic (sprintf chars ffmt format args).
Proof. exact sprintf_no_panic. Qed.
Print Assumptions C09_sprintf_no_panic.

(* its only errors are the format errors above *)
Theorem C09_sprintf_errors : forall chars ffmt format args e,
  (forall x, not_bad (ffmt x)) -> sprintf chars ffmt format args = Err e ->
  (exists c, e = s_fmterr ++ err_invalid c) \/ e = s_fmterr ++ err_expected \/
  exists got want, got < want /\ e = err_args got want.
Proof. exact sprintf_errors. Qed.
Print Assumptions C09_sprintf_errors.

(* the modelled fmt.Sprintf always terminates within its fuel with a string, or declines (float text) *)
Theorem C09_go_sprintf_total : forall s args,
  (exists o, go_sprintf s args = Ok o) \/ go_sprintf s args = Unmod.
Proof. exact go_sprintf_total. Qed.
Print Assumptions C09_go_sprintf_total.

(* ================= integer conversions d i o u x X ================= *)

(* the full statement: every flag combination, width, precision (literal or '*'), every number *)
Definition C09_int_full_statement : Prop :=
  forall chars ffmt d pre post aw ap a extra wv pv v,
  wf_dir d = true -> is_int_conv (d_conv d) = true -> c_defined d = true ->
  no_pct pre = true -> no_pct post = true ->
  (d_width d = WStar -> awk_int (v_num aw) = Some wv) ->
  (d_prec d = PrStar -> awk_int (v_num ap) = Some pv) ->
  awk_int (v_num a) = Some v ->
  sprintf chars ffmt (pre ++ render d ++ post) (args_for d aw ap a extra)
  = Ok (pre ++ c_directive chars d wv pv (AInt v) ++ post).

(* ... is false on the faithful model: printf "%+x", 5 prints +5 (F-C09-2) *)
Theorem C09_int_conversions_refuted : ~ C09_int_full_statement.
Proof.
  intros H.
  specialize (H false ffmt_unmod (mkDir [43] WNone PrNone Cx) [] [] VNull VNull (VNum (FFin 5 0)) [] 0 0 5
                eq_refl eq_refl eq_refl eq_refl eq_refl
                (fun E => ltac:(discriminate E)) (fun E => ltac:(discriminate E)) eq_refl).
  vm_compute in H. discriminate H.
Qed.
Print Assumptions C09_int_conversions_refuted.

(* what holds: d and i for ALL finite numbers (beyond int64 through math/big since the repair of
   F-C09-7), o u x X for numbers in [-2^63, 2^64); all widths and precisions up to fmt's 10^6 limit,
   literal or '*', a negative '*' width and a negative '*' precision included (F-C09-4 repaired); all
   flag combinations except those of [int_ok], which are the findings still open:
   + / space with o u x X (F-C09-2), # with value 0 for x X (F-C09-3), # 0 width without precision
   for x X (F-C09-11), value 0 with precision 0 and + / space / #o (F-C09-12); widths beyond 10^6
   (F-C09-10) are excluded by [lim]. *)
Theorem C09_int_conversions_agree_partial :
  forall chars ffmt d pre post aw ap a extra wv pv v,
  wf_dir d = true -> is_int_conv (d_conv d) = true ->
  no_pct pre = true -> no_pct post = true ->
  lim d wv pv ->
  (d_width d = WStar -> awk_int (v_num aw) = Some wv) ->
  (d_prec d = PrStar -> awk_int (v_num ap) = Some pv) ->
  awk_int (v_num a) = Some v ->
  (conv_ty (d_conv d) = TyU -> - two63 <= v < two64) ->
  int_ok d (resolve d wv pv) v ->
  sprintf chars ffmt (pre ++ render d ++ post) (args_for d aw ap a extra)
  = Ok (pre ++ c_directive chars d wv pv (AInt v) ++ post).
Proof. exact sprintf_int_agree. Qed.
Print Assumptions C09_int_conversions_agree_partial.

(* math/big's Format, which sprintf uses for d and i beyond int64, is C's signed conversion *)
Theorem C09_big_format_signed : forall f r v, st_matches f r -> v <> 0 ->
  big_format f v 10 false = c_signed r v.
Proof. exact big_format_signed. Qed.
Print Assumptions C09_big_format_signed.

(* the formatter core, for every formatter state that matches a resolved C specification *)
Theorem C09_fmt_integer_signed : forall f r v, st_matches f r ->
  ~ (r_prec r = Some 0 /\ v = 0 /\ r_plus r || r_space r = true) ->
  fmt_integer f v 10 true false = c_signed r v.
Proof. exact fmt_integer_signed. Qed.
Print Assumptions C09_fmt_integer_signed.

Theorem C09_fmt_integer_octal : forall f r v, st_matches f r -> unsigned_ok r Co (v mod two64) ->
  fmt_integer f (v mod two64) 8 false false = c_unsigned r Co v.
Proof. exact fmt_integer_o. Qed.
Print Assumptions C09_fmt_integer_octal.

Theorem C09_fmt_integer_hex : forall f r v upper, st_matches f r -> unsigned_ok r Cx (v mod two64) ->
  fmt_integer f (v mod two64) 16 false upper = c_hex r upper v.
Proof. exact fmt_integer_hex. Qed.
Print Assumptions C09_fmt_integer_hex.

(* the digit strings of the specification denote the number *)
Theorem C09_digits_denote : forall base u upper, 0 <= u -> 2 <= base <= 16 ->
  digits_value base (to_digits base u upper) = u.
Proof. exact to_digits_value. Qed.
Print Assumptions C09_digits_denote.

(* ---- one witness per excluded combination (model output vs C) ---- *)
Definition n (z : Z) : value := VNum (FFin z 0).
Definition f63 : value := VNum (FFin 1 63).   (* 2^63 *)

Example C09_plus_unsigned_refuted :      (* F-C09-2  %+x of 5 *)
  sprintf false ffmt_unmod (bs "%+x") [n 5] = Ok (bs "+5")
  /\ c_directive false (mkDir [43] WNone PrNone Cx) 0 0 (AInt 5) = bs "5".
Proof. split; vm_compute; reflexivity. Qed.
Example C09_space_unsigned_refuted :     (* F-C09-2  % u of 5 *)
  sprintf false ffmt_unmod (bs "% u") [n 5] = Ok (bs " 5")
  /\ c_directive false (mkDir [32] WNone PrNone Cu) 0 0 (AInt 5) = bs "5".
Proof. split; vm_compute; reflexivity. Qed.
Example C09_sharp_hex_zero_refuted :     (* F-C09-3  %#x of 0 *)
  sprintf false ffmt_unmod (bs "%#x") [n 0] = Ok (bs "0x0")
  /\ c_directive false (mkDir [35] WNone PrNone Cx) 0 0 (AInt 0) = bs "0".
Proof. split; vm_compute; reflexivity. Qed.
Example C09_ex_star_precision_negative :   (* F-C09-4 repaired: %.*d with -1, 5; %0*.*d keeps its zero padding *)
  sprintf false ffmt_unmod (bs "%.*d|%0*.*d|%.*s") [n (-1); n 5; n 6; n (-1); n 42; n (-7); VStr (bs "abc") (FFin 0 0)]
  = Ok (bs "5|000042|abc")
  /\ c_directive false (mkDir [] WNone PrStar Cd) 0 (-1) (AInt 5) = bs "5"
  /\ c_directive false (mkDir [48] WStar PrStar Cd) 6 (-1) (AInt 42) = bs "000042".
Proof. repeat split; vm_compute; reflexivity. Qed.
Example C09_ex_beyond_int64 :       (* F-C09-7 repaired: %d of 2^63, %+25d of -2^70, %x of 2^63 *)
  sprintf false ffmt_unmod (bs "%d|%+25d|%x") [f63; VNum (FFin (-1) 70); f63]
  = Ok (bs "9223372036854775808|  -1180591620717411303424|8000000000000000")
  /\ c_directive false (mkDir [] WNone PrNone Cd) 0 0 (AInt two63) = bs "9223372036854775808"
  /\ c_directive false (mkDir [43] (WLit [50; 53]) PrNone Cd) 0 0 (AInt (- 2 ^ 70)) = bs "  -1180591620717411303424".
Proof. repeat split; vm_compute; reflexivity. Qed.
Example C09_width_limit_refuted :        (* F-C09-10  %*d with 1000001 *)
  sprintf false ffmt_unmod (bs "%*d") [n 1000001; n 5] = Ok (bs "%!(BADWIDTH)5")
  /\ sprintf false ffmt_unmod (bs "%12345678d|%d") [n 5; n 6] = Ok (bs "%!(NOVERB)%!(EXTRA int64=5, int64=6)").
Proof. split; vm_compute; reflexivity. Qed.
Example C09_sharp_zero_width_hex_refuted :   (* F-C09-11  %#05x of 5 *)
  sprintf false ffmt_unmod (bs "%#05x") [n 5] = Ok (bs "0x00005")
  /\ c_directive false (mkDir [35; 48] (WLit [53]) PrNone Cx) 0 0 (AInt 5) = bs "0x005".
Proof. split; vm_compute; reflexivity. Qed.
Example C09_zero_precision_sign_refuted :    (* F-C09-12  %+.0d of 0, %#.0o of 0 *)
  sprintf false ffmt_unmod (bs "%+.0d") [n 0] = Ok []
  /\ c_directive false (mkDir [43] WNone (PrLit [48]) Cd) 0 0 (AInt 0) = bs "+"
  /\ sprintf false ffmt_unmod (bs "%#.0o") [n 0] = Ok []
  /\ c_directive false (mkDir [35] WNone (PrLit [48]) Co) 0 0 (AInt 0) = bs "0".
Proof. repeat split; vm_compute; reflexivity. Qed.

(* non-vacuity of the partial theorem: %+-*.*d with -6, 3, -42 and % 08i, %#o, %#X, %-#12.5x, %05u *)
Example C09_ex_int_1 :
  sprintf false ffmt_unmod (bs "<%+-*.*d>") [n (-6); n 3; n (-42)] = Ok (bs "<-042  >")
  /\ c_directive false (mkDir [43; 45] WStar PrStar Cd) (-6) 3 (AInt (-42)) = bs "-042  ".
Proof. split; vm_compute; reflexivity. Qed.
Example C09_ex_int_hyps :
  let d := mkDir [43; 45] WStar PrStar Cd in
  wf_dir d = true /\ in_lim d (-6) 3 /\ int_ok d (resolve d (-6) 3) (-42) /\ awk_int (v_num (n (-42))) = Some (-42).
Proof. repeat split; try reflexivity; try (vm_compute; lia); try (vm_compute; discriminate). Qed.
Example C09_ex_int_2 :
  sprintf false ffmt_unmod (bs "% 08i|%#o|%#X|%-#12.5x|%05u|%x") [n 42; n 8; n 255; n 255; n (-1); n (-1)]
  = Ok (bs " 0000042|010|0XFF|0x000ff     |18446744073709551615|ffffffffffffffff").
Proof. vm_compute; reflexivity. Qed.

(* ================= %s ================= *)

Definition C09_string_full_statement : Prop :=
  forall chars ffmt d pre post aw ap a extra wv pv s,
  wf_dir d = true -> d_conv d = Cs -> c_defined d = true ->
  no_pct pre = true -> no_pct post = true -> lim d wv pv ->
  (d_width d = WStar -> awk_int (v_num aw) = Some wv) ->
  (d_prec d = PrStar -> awk_int (v_num ap) = Some pv) ->
  v_str ffmt a = Ok s ->
  sprintf chars ffmt (pre ++ render d ++ post) (args_for d aw ap a extra)
  = Ok (pre ++ c_directive chars d wv pv (AStr s) ++ post).

(* false in byte mode for multi-byte text: printf "%.1s" of e-acute prints both bytes (F-C09-5) *)
Theorem C09_string_conversion_refuted : ~ C09_string_full_statement.
Proof.
  intros H.
  assert (L : lim (mkDir [] WNone (PrLit [49]) Cs) 0 0) by (split; [exact I | vm_compute; discriminate]).
  specialize (H false ffmt_unmod (mkDir [] WNone (PrLit [49]) Cs) [] [] VNull VNull (VStr [195; 169] (FFin 0 0)) [] 0 0 [195; 169]
                eq_refl eq_refl eq_refl eq_refl eq_refl L
                (fun E => ltac:(discriminate E)) (fun E => ltac:(discriminate E)) eq_refl).
  vm_compute in H. discriminate H.
Qed.
Print Assumptions C09_string_conversion_refuted.

(* what holds: ASCII text with any width / precision / '-' flag, or any bytes without width and precision *)
Theorem C09_string_conversion_agree_partial :
  forall chars ffmt d pre post aw ap a extra wv pv s,
  wf_dir d = true -> d_conv d = Cs -> c_defined d = true ->
  no_pct pre = true -> no_pct post = true -> lim d wv pv ->
  (d_width d = WStar -> awk_int (v_num aw) = Some wv) ->
  (d_prec d = PrStar -> awk_int (v_num ap) = Some pv) ->
  v_str ffmt a = Ok s ->
  ascii s = true \/ (d_width d = WNone /\ d_prec d = PrNone) ->
  sprintf chars ffmt (pre ++ render d ++ post) (args_for d aw ap a extra)
  = Ok (pre ++ c_directive chars d wv pv (AStr s) ++ post).
Proof. exact sprintf_s_agree. Qed.
Print Assumptions C09_string_conversion_agree_partial.

Example C09_ex_string :
  sprintf false ffmt_unmod (bs "<%-*.3s>") [n 6; VStr (bs "hello") (FFin 0 0)] = Ok (bs "<hel   >")
  /\ c_directive false (mkDir [45] WStar (PrLit [51]) Cs) 6 0 (AStr (bs "hello")) = bs "hel   ".
Proof. split; vm_compute; reflexivity. Qed.

(* ================= %c ================= *)

(* %c with any width and the - flag: the character padded with spaces *)
Theorem C09_percent_c : forall chars ffmt d pre post aw ap a extra wv pv ch,
  wf_dir d = true -> d_conv d = Cc -> c_defined d = true ->
  no_pct pre = true -> no_pct post = true -> lim d wv pv ->
  (d_width d = WStar -> awk_int (v_num aw) = Some wv) ->
  conv_c chars ffmt a = Ok ch -> rune_count ch = 1 ->
  sprintf chars ffmt (pre ++ render d ++ post) (args_for d aw ap a extra)
  = Ok (pre ++ c_directive chars d wv pv (AChar ch) ++ post).
Proof. exact sprintf_c_agree. Qed.
Print Assumptions C09_percent_c.

(* which character: of a number n (|n| < 2^31) the byte n mod 256, in character mode the rune n;
   of a string its first byte, in character mode its first rune; each is one unit of width *)
Theorem C09_percent_c_number_bytes : forall ffmt x k, awk_int x = Some k -> -2147483648 <= k < 2147483648 ->
  conv_c false ffmt (VNum x) = Ok [k mod 256] /\ rune_count [k mod 256] = 1.
Proof. intros. split; [apply conv_c_number_bytes; assumption | apply rune_count_single]. Qed.
Print Assumptions C09_percent_c_number_bytes.

Theorem C09_percent_c_number_chars : forall ffmt x k, awk_int x = Some k -> -2147483648 <= k < 2147483648 ->
  conv_c true ffmt (VNum x) = Ok (encode_rune k) /\ rune_count (encode_rune k) = 1.
Proof. intros. split; [apply conv_c_number_chars; assumption | apply encode_rune_is_one_unit]. Qed.
Print Assumptions C09_percent_c_number_chars.

Theorem C09_percent_c_string : forall ffmt b t k,
  conv_c false ffmt (VStr (b :: t) k) = Ok [b] /\ rune_count [b] = 1 /\
  conv_c true ffmt (VStr (b :: t) k) = Ok (ztake (snd (decode_rune (b :: t))) (b :: t)) /\
  rune_count (ztake (snd (decode_rune (b :: t))) (b :: t)) = 1.
Proof.
  intros. split; [reflexivity|]. split; [apply rune_count_single|].
  split; [apply conv_c_string_chars | apply first_rune_is_one_unit; discriminate].
Qed.
Print Assumptions C09_percent_c_string.

Example C09_ex_percent_c :
  sprintf false ffmt_unmod (bs "<%5c|%-3c|%c>") [n 65; VStr (bs "xyz") (FFin 0 0); n 321] = Ok (bs "<    A|x  |A>")
  /\ sprintf true ffmt_unmod (bs "%c") [n 8364] = Ok [226; 130; 172]
  /\ sprintf false ffmt_unmod (bs "%c") [VStr [] (FFin 0 0)] = Ok [0].     (* "" prints a NUL: left open by the property *)
Proof. repeat split; vm_compute; reflexivity. Qed.

(* ================= e E f g G of infinities and NaN ================= *)

(* F-C09-6 repaired: the full statement for non-finite arguments — every flag set, width, precision *)
Theorem C09_nonfinite_agree : forall chars ffmt d pre post aw ap a extra wv pv x,
  wf_dir d = true -> is_float_conv (d_conv d) = true ->
  no_pct pre = true -> no_pct post = true -> lim d wv pv ->
  (d_width d = WStar -> awk_int (v_num aw) = Some wv) ->
  (d_prec d = PrStar -> awk_int (v_num ap) = Some pv) ->
  v_num a = x -> (match x with FFin _ _ => False | _ => True end) ->
  sprintf chars ffmt (pre ++ render d ++ post) (args_for d aw ap a extra)
  = Ok (pre ++ c_directive chars d wv pv (ANonFin x) ++ post).
Proof. exact sprintf_nonfinite_agree. Qed.
Print Assumptions C09_nonfinite_agree.

Example C09_ex_nonfinite :
  sprintf false ffmt_unmod (bs "%f|%e|%G|%8E|%-6g|%+f|% 05.1f|%g")
    [VNum (FInf true); VNum (FInf false); VNum (FInf true); VNum FNaN; VNum (FInf false); VNum (FInf false); VNum FNaN; VNum FNaN]
  = Ok (bs "-inf|inf|-INF|     NAN|inf   |+inf|  nan|nan").
Proof. vm_compute. reflexivity. Qed.

(* ================= whole formats ================= *)

(* any number of conversion specifications, each preceded by literal text, arguments taken in
   order, extra arguments ignored: sprintf prints the concatenation of what C prints for each
   (negative '*' precisions anywhere in the format included: the cut positions stay right).
   [item_ok] holds for the integer, string and character conversions under the guards above. *)
Theorem C09_whole_format_agree_partial : forall chars ffmt items post extra,
  Forall (item_ok chars ffmt) items -> no_pct post = true ->
  sprintf chars ffmt (fmt_of items post) (args_of items extra) = Ok (expected chars items post).
Proof. exact sprintf_items. Qed.
Print Assumptions C09_whole_format_agree_partial.

Theorem C09_item_int : forall chars ffmt pre d wv pv aw ap a v,
  wf_dir d = true -> is_int_conv (d_conv d) = true -> no_pct pre = true -> lim d wv pv ->
  (d_width d = WStar -> awk_int (v_num aw) = Some wv) ->
  (d_prec d = PrStar -> awk_int (v_num ap) = Some pv) ->
  awk_int (v_num a) = Some v ->
  (conv_ty (d_conv d) = TyU -> - two63 <= v < two64) ->
  int_ok d (resolve d wv pv) v ->
  exists g, item_ok chars ffmt (mkItem pre d wv pv aw ap a g (AInt v)).
Proof. exact item_ok_int. Qed.
Print Assumptions C09_item_int.

Theorem C09_item_string : forall chars ffmt pre d wv pv aw ap a s,
  wf_dir d = true -> d_conv d = Cs -> c_defined d = true -> no_pct pre = true -> lim d wv pv ->
  (d_width d = WStar -> awk_int (v_num aw) = Some wv) ->
  (d_prec d = PrStar -> awk_int (v_num ap) = Some pv) ->
  v_str ffmt a = Ok s ->
  ascii s = true \/ (d_width d = WNone /\ d_prec d = PrNone) ->
  item_ok chars ffmt (mkItem pre d wv pv aw ap a (GStr s) (AStr s)).
Proof. exact item_ok_s. Qed.
Print Assumptions C09_item_string.

Theorem C09_item_char : forall chars ffmt pre d wv pv aw ap a ch,
  wf_dir d = true -> d_conv d = Cc -> c_defined d = true -> no_pct pre = true -> lim d wv pv ->
  (d_width d = WStar -> awk_int (v_num aw) = Some wv) ->
  conv_c chars ffmt a = Ok ch -> rune_count ch = 1 ->
  item_ok chars ffmt (mkItem pre d wv pv aw ap a (GBytes ch) (AChar ch)).
Proof. exact item_ok_c. Qed.
Print Assumptions C09_item_char.

(* non-vacuity: "n=%.*d %s|%c!" with a negative precision argument, then "ab", 65, and an extra argument *)
Definition ex_items : list ditem :=
  [ mkItem (bs "n=") (mkDir [] WNone PrStar Cd) 0 (-3) VNull (n (-3)) (n 42) (GInt 42) (AInt 42);
    mkItem (bs " ") (mkDir [] WNone PrNone Cs) 0 0 VNull VNull (VStr (bs "ab") (FFin 0 0)) (GStr (bs "ab")) (AStr (bs "ab"));
    mkItem (bs "|") (mkDir [] WNone PrNone Cc) 0 0 VNull VNull (n 65) (GBytes [65]) (AChar [65]) ].
Example C09_ex_whole_format :
  fmt_of ex_items (bs "!") = bs "n=%.*d %s|%c!" /\
  sprintf false ffmt_unmod (bs "n=%.*d %s|%c!") (args_of ex_items [n 7]) = Ok (bs "n=42 ab|A!") /\
  expected false ex_items (bs "!") = bs "n=42 ab|A!".
Proof. repeat split; vm_compute; reflexivity. Qed.
Example C09_ex_whole_format_items_ok : Forall (item_ok false ffmt_unmod) ex_items.
Proof.
  apply Forall_cons; [|apply Forall_cons; [|apply Forall_cons; [|apply Forall_nil]]].
  - destruct (item_ok_int false ffmt_unmod (bs "n=") (mkDir [] WNone PrStar Cd) 0 (-3) VNull (n (-3)) (n 42) 42) as (g & Hg);
      try reflexivity; try discriminate.
    + split; [exact I | vm_compute; split; discriminate].
    + vm_compute. intros (H1 & _). discriminate H1.
    + assert (g = GInt 42) as ->; [|exact Hg].
      destruct Hg as (_ & _ & _ & _ & _ & Hc & _). cbn in Hc. vm_compute in Hc. injection Hc as <-. reflexivity.
  - apply (item_ok_s false ffmt_unmod (bs " ") (mkDir [] WNone PrNone Cs) 0 0 VNull VNull (VStr (bs "ab") (FFin 0 0)) (bs "ab"));
      try reflexivity; try discriminate; [split; exact I | left; reflexivity].
  - apply (item_ok_c false ffmt_unmod (bs "|") (mkDir [] WNone PrNone Cc) 0 0 VNull VNull (n 65) [65]);
      try reflexivity; try discriminate. split; exact I.
Qed.

(* ================= print ================= *)

(* print = the string values joined by OFS, then ORS *)
Theorem C09_print_uses_ofmt : forall ffmt ofs ors args strs,
  Forall2 (fun a s => v_str ffmt a = Ok s) args strs ->
  print_args ffmt ofs ors args = Ok (join ofs strs ++ ors).
Proof. exact print_is_join. Qed.
Print Assumptions C09_print_uses_ofmt.

Definition C09_print_integral_full_statement : Prop :=
  forall ffmt x z, integral_value x z -> num_str ffmt x = Ok (dec z).

(* false for |z| >= 2^63: print 2^63 goes through OFMT (F-C09-8) *)
Theorem C09_print_integral_refuted : ~ C09_print_integral_full_statement.
Proof.
  intros H. specialize (H ffmt_unmod (FFin two63 0) two63 (conj eq_refl eq_refl)). vm_compute in H. discriminate H.
Qed.
Print Assumptions C09_print_integral_refuted.

(* integral numbers within int64 are written as integers whatever OFMT is; the text denotes the number *)
Theorem C09_print_integral_partial : forall ffmt x z, integral_value x z -> - two63 <= z < two63 ->
  num_str ffmt x = Ok (dec z).
Proof. exact num_str_integral. Qed.
Print Assumptions C09_print_integral_partial.

Theorem C09_dec_denotes : forall z,
  dec z = (if z <? 0 then [45] else []) ++ to_digits 10 (Z.abs z) false /\
  digits_value 10 (to_digits 10 (Z.abs z) false) = Z.abs z.
Proof. exact dec_value. Qed.
Print Assumptions C09_dec_denotes.

(* non-integral numbers are written with OFMT (ffmt = the formatting with OFMT / CONVFMT) *)
Theorem C09_print_fraction_uses_ofmt : forall ffmt m e, is_integral m e = false ->
  num_str ffmt (FFin m e) = ffmt (FFin m e).
Proof. exact num_str_fraction. Qed.
Print Assumptions C09_print_fraction_uses_ofmt.

Example C09_ex_print :
  print_args ffmt_unmod (bs ", ") (bs "!") [n 42; VStr (bs "x") (FFin 0 0); VNum (FFin (-9007199254740993) 0); VNull; VNum (FInf true)]
  = Ok (bs "42, x, -9007199254740993, , -inf!").
Proof. vm_compute; reflexivity. Qed.
