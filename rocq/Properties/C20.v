(* C20 — placeholder while the proofs are being written *)
From Verif Require Import Lib.Base Model.ExprAst Model.ExprParser Model.Printer.
