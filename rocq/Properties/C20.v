(* C20 — The printed form of a program is a faithful AWK program.
   Only statements closed by [exact] of a lemma proved in Proofs/, non-vacuity examples, refuted
   full statements with their witnesses, and Print Assumptions.

   Vocabulary.  Model/Printer.v: [pe e] = the pieces (tokens and spaces) Expr.String() writes,
   [pst]/[pprogram] the same for statements and programs, [render] their text, [toks] their tokens;
   [quote] = ast.formatString, [format_regex] = formatRegex, [fmt_num] = NumExpr.String();
   [scan1]/[scan_body]/[scan_regex]/[parse_string] = lexer.scan/scanRegex/parseString;
   [lex_as ts text] = the text lexes to ts under the parser's protocol (ScanRegex where ts has REGEX).
   Proofs/PrinterGroup.v: [gp e] = e with a grouping node wherever parenthesize() writes parentheses.
   C04 (Proofs/PrecSpec.v): [flat] verbatim token writing, [fits pc k e] = the writing of e respects
   the table at a position of rank k (pc: inside the print tower) — the trees the parser builds and
   reads back unchanged (C04_parse_printed); [p_lv], [p_simple_stmt] = the parser model.
   Proofs/PrinterLex.v: [safe str_ok an sp ps] = every token of ps is lexable and is not followed by
   a byte that fuses with it; Proofs/PrinterQuote.v: [quote_safe s]; PrinterRegex.v: [regex_ok s]. *)
From Verif Require Import Lib.Base Lib.Dyadic Gen.Prec Model.ExprAst Model.ExprParser Model.Printer
  Proofs.ExprParserMono Proofs.ExprParserRel Proofs.PrecSpec Proofs.ExprParserPrinted
  Proofs.PrinterGroup Proofs.PrinterFits Proofs.PrinterFitsb Proofs.PrinterRegex Proofs.PrinterLex Proofs.PrinterQuote Proofs.PrinterStmt.

(* ---------------- token level: all trees ---------------- *)

(* the tokens Expr.String() writes are the verbatim writing of gp e, for every tree *)
Theorem C20_printed_tokens : forall e, toks (pe e) = flat (gp e).
Proof. exact toks_pe. Qed.
Print Assumptions C20_printed_tokens.

(* parenthesize only adds grouping nodes *)
Theorem C20_grouping_only : forall e, strip (gp e) = strip e.
Proof. exact strip_gp. Qed.
Print Assumptions C20_grouping_only.

(* the printer's parentheses never take a writing out of the table *)
Theorem C20_printer_fits : forall e pc k, fits pc k e -> fits pc k (gp e).
Proof. exact fits_gp. Qed.
Print Assumptions C20_printer_fits.

(* the hypothesis [fits] is decided by [fitsb]; the harness evaluates fitsb on every expression of
   every tree the real parser builds (image of the parser = trees that fit, on the fragment C04 covers) *)
Theorem C20_fits_decided : forall e pc k, fitsb pc k e = true -> fits pc k e.
Proof. exact fitsb_sound. Qed.
Print Assumptions C20_fits_decided.

(* MAIN (tokens): for every tree the parser can have built (fits), at any level k of either tower,
   the tokens of the printed text are read back as exactly gp e, which is e up to grouping nodes *)
Theorem C20_print_parse : forall e k pc rest,
  fits pc (rk k) e -> ok pc e (hd_tok rest) = true -> (pc = true -> k <> LGetline) ->
  (tok_cont pc (hd_tok rest) <= rk k)%nat ->
  exists n0, forall n, (n0 <= n)%nat ->
    p_lv n k pc None (toks (pe e) ++ rest) = POk (gp e, rest) /\ strip (gp e) = strip e.
Proof. exact print_parse_tokens. Qed.
Print Assumptions C20_print_parse.

(* printing the tree that was read back gives the same pieces, hence the same text: for every tree *)
Theorem C20_idempotent : forall e, pe (gp e) = pe e /\ render (pe (gp e)) = render (pe e).
Proof. intros e. split; [apply pe_gp | apply gp_idem_text]. Qed.
Print Assumptions C20_idempotent.

(* ---------------- text level ---------------- *)

(* ast.formatString / lexer.parseString: every byte string (quote_safe = all elements are bytes) is read back as itself *)
Theorem C20_string_roundtrip : forall s, quote_safe s = true ->
  forall rest sp, scan_body (quote s ++ rest) sp = STok (TString s) sp rest.
Proof. exact string_roundtrip. Qed.
Print Assumptions C20_string_roundtrip.

(* formatRegex / lexer.scanRegex: every regex value the lexer can produce is read back as itself *)
Theorem C20_regex_roundtrip : forall s rest, regex_ok s = true ->
  scan_regex false (regex_escape s ++ 47 :: rest) = Some (s, rest) /\
  scan_regex true (regex_escape s ++ 47 :: rest) = Some (61 :: s, rest).
Proof. intros s rest H. split; [apply regex_roundtrip | apply regex_roundtrip_eq]; exact H. Qed.
Print Assumptions C20_regex_roundtrip.

(* rendering a safe piece list and lexing it gives back its tokens *)
Theorem C20_render_lex : forall ps, safe quote_safe false false ps = true ->
  lex_as false (toks ps) (render ps) = true.
Proof. exact (render_lex quote_safe string_roundtrip). Qed.
Print Assumptions C20_render_lex.

(* the round trip of an expression, text to text: guard = the printed pieces are safe *)
Theorem C20_expr_roundtrip_partial : forall e,
  fits false 0 e -> safe quote_safe false false (pe e) = true ->
  lex_as false (toks (pe e)) (render (pe e)) = true /\
  (exists n0, forall n, (n0 <= n)%nat -> p_lv n LExpr false None (toks (pe e)) = POk (gp e, [])) /\
  strip (gp e) = strip e /\ render (pe (gp e)) = render (pe e).
Proof.
  intros e Hf Hs. split; [apply C20_render_lex; exact Hs|]. split; [|split; [apply strip_gp | apply gp_idem_text]].
  destruct (print_parse_tokens e LExpr false [] Hf) as [n0 H].
  - apply ok_zero. reflexivity.
  - discriminate.
  - cbn. lia.
  - exists n0. intros n Hn. rewrite <- (app_nil_r (toks (pe e))). apply (H n Hn).
Qed.
Print Assumptions C20_expr_roundtrip_partial.

(* UnaryExpr.String() never lets a unary + or - touch a byte of the same sign, for EVERY tree:
   the byte that follows the operator in the printed text is a space or the first byte of an operand
   text that does not begin with that sign (formerly defect F-C20-1: `- -y` printed `--y`) *)
Theorem C20_unary_adjacency : forall op v, exists rest,
  pe (EUnary op v) = PT (un_tok op) :: rest /\
  match op with
  | UMinus => ch (render rest) <> 45
  | UPlus => ch (render rest) <> 43
  | UNot => True
  end.
Proof.
  intros op v. rewrite pe_unary. eexists. split; [reflexivity|].
  destruct op; [exact I | |]; cbn [sign_clash];
    (destruct (ch1 (render (ppar _ v)) =? _) eqn:E; cbn [app];
     [cbn; discriminate | apply Z.eqb_neq in E; exact E]).
Qed.
Print Assumptions C20_unary_adjacency.

(* ---------------- statements (token level) ---------------- *)

(* print / printf a1, .., an : guard = every argument respects the table of the print tower *)
Theorem C20_print_stmt_partial : forall pf a args c rest,
  all_fit (fits true 0) (a :: args) -> stmt_stop c = true ->
  exists n0, forall n, (n0 <= n)%nat ->
    p_simple_stmt n (toks (print_pieces pf (a :: args) RNone None) ++ c :: rest)
    = POk (TopPrint pf RNone None (map gp (a :: args)), c :: rest).
Proof. exact print_stmt_tokens. Qed.
Print Assumptions C20_print_stmt_partial.

Theorem C20_print_redirect_partial : forall pf a args rd dest c rest,
  all_fit (fits true 0) (a :: args) -> rd <> RNone -> fits false 0 dest ->
  ok true (last (a :: args) a) (redir_tok rd) = true -> stmt_stop c = true ->
  exists n0, forall n, (n0 <= n)%nat ->
    p_simple_stmt n (toks (print_pieces pf (a :: args) rd (Some dest)) ++ c :: rest)
    = POk (TopPrint pf rd (Some (gp dest)) (map gp (a :: args)), c :: rest).
Proof. exact print_redirect_tokens. Qed.
Print Assumptions C20_print_redirect_partial.

Theorem C20_expr_stmt : forall e c rest,
  fits false 0 e -> stmt_stop c = true ->
  (match pe e with PT TPrint :: _ | PT TPrintf :: _ => False | _ => True end) ->
  exists n0, forall n, (n0 <= n)%nat ->
    p_simple_stmt n (toks (pe e) ++ c :: rest) = POk (TopExpr (gp e), c :: rest).
Proof. exact expr_stmt_tokens. Qed.
Print Assumptions C20_expr_stmt.

(* Stmts.String() indents the rendered text line by line: the tokens survive when no literal
   text holds a newline byte *)
Theorem C20_indent_partial : forall ps, forallb no_newline_literal ps = true ->
  toks (flat_map indent_piece ps) = toks ps.
Proof. exact indent_keeps_tokens. Qed.
Print Assumptions C20_indent_partial.

(* ---------------- the unguarded statements are false on the faithful model ---------------- *)

(* every byte string is read back from its quoted form (formerly refuted by "\u200bab" and
   "\U000e0001", defect F-C20-3; repaired: \u with all eight digits) *)
Definition C20_string_full_statement : Prop :=
  forall s, forallb byte_ok s = true ->
  forall rest sp, scan_body (quote s ++ rest) sp = STok (TString s) sp rest.
Theorem C20_string_roundtrip_all : C20_string_full_statement.
Proof. exact string_roundtrip. Qed.
Print Assumptions C20_string_roundtrip_all.

Definition w_neg_neg : expr := EUnary UMinus (EUnary UMinus (EVar [121])).     (* - -y  now prints  - -y *)
Definition w_plus_incr : expr := EUnary UPlus (EIncr IIncr true (EVar [121])).  (* + ++y *)
Example C20_ex_unary_text :
  render (pe w_neg_neg) = [45; 32; 45; 121] /\ lex_as false (toks (pe w_neg_neg)) (render (pe w_neg_neg)) = true /\
  render (pe w_plus_incr) = [43; 32; 43; 43; 121] /\ lex_as false (toks (pe w_plus_incr)) (render (pe w_plus_incr)) = true.
Proof. repeat split; vm_compute; reflexivity. Qed.

(* an infinite literal prints 1e999, which the NUMBER scanner reads back whole (formerly +Inf, F-C20-4) *)
Example C20_ex_infinite_literal :
  fmt_num (of_bits 9218868437227405312) = [49; 101; 57; 57; 57] /\
  num_ok (fmt_num (of_bits 9218868437227405312)) = true /\
  lex_as false (toks (pe (ENum (fmt_num (of_bits 9218868437227405312))))) (render (pe (ENum (fmt_num (of_bits 9218868437227405312))))) = true.
Proof. repeat split; vm_compute; reflexivity. Qed.

Definition w_zwsp_ab : bytes := [226; 128; 139; 97; 98].        (* U+200B a b : now printed with the escape backslash-u0000200b *)
Definition w_tag : bytes := [243; 160; 128; 129].               (* U+E0001 : now backslash-u000e0001 *)
Example C20_ex_nonprintable_runes :
  quote w_zwsp_ab = [34; 92; 117; 48; 48; 48; 48; 50; 48; 48; 98; 97; 98; 34] /\
  scan_body (quote w_zwsp_ab) false = STok (TString w_zwsp_ab) false [] /\
  scan_body (quote w_tag) false = STok (TString w_tag) false [].
Proof. repeat split; vm_compute; reflexivity. Qed.

Definition C20_print_stmt_full_statement : Prop := print_stmt_full_statement.
Theorem C20_print_stmt_refuted : ~ C20_print_stmt_full_statement.              (* F-C20-2: print (1, 2 > 1) *)
Proof. exact print_stmt_refuted. Qed.
Print Assumptions C20_print_stmt_refuted.

Definition C20_indent_full_statement : Prop := indent_full_statement.
Theorem C20_indent_refuted : ~ C20_indent_full_statement.                      (* F-C20-5: /a\<newline>b/ in a block *)
Proof. exact indent_refuted. Qed.
Print Assumptions C20_indent_refuted.

(* F-C20-6: 1234567.5 prints 1.23457e+06; that text denotes 1234570, which prints 1234570 *)
Example C20_ex_number_not_idempotent :
  fmt_num (FFin 2469135 (-1)) = [49; 46; 50; 51; 52; 53; 55; 101; 43; 48; 54] /\
  fmt_num (FFin 1234570 0) = [49; 50; 51; 52; 53; 55; 48].
Proof. split; vm_compute; reflexivity. Qed.

(* ---------------- non-vacuity ---------------- *)

(* x = 1 + 2 ^ -3 "s" ~ /a\/b/   is a writing that respects the table; Go prints  2 ^ (-3)  *)
Definition ex_tree : expr :=
  EAssign (EVar [120])
    (EBinary BMatch
       (EBinary BConcat (EBinary BAdd (ENum [49]) (EBinary BPow (ENum [50]) (EUnary UMinus (ENum [51])))) (EStr [115]))
       (EStrRegex [97; 47; 98])).
Example C20_ex_fits : fits false 0 ex_tree.
Proof. cbn. repeat (first [ match goal with |- _ /\ _ => split end | reflexivity | exact I | lia | discriminate ]). Qed.
Example C20_ex_text :
  render (pe ex_tree) = [120;32;61;32;49;32;43;32;50;32;94;32;40;45;51;41;32;34;115;34;32;126;32;47;97;92;47;98;47].
Proof. vm_compute. reflexivity. Qed.
Example C20_ex_safe : safe quote_safe false false (pe ex_tree) = true.
Proof. vm_compute. reflexivity. Qed.
Example C20_ex_lex : lex_as false (toks (pe ex_tree)) (render (pe ex_tree)) = true.
Proof. vm_compute. reflexivity. Qed.
Example C20_ex_parse : parse_expr false (toks (pe ex_tree)) = POk (gp ex_tree, []) /\ gp ex_tree <> ex_tree.
Proof. split; [vm_compute; reflexivity | discriminate]. Qed.

(* print x + 1, y > "f" : the guards of C20_print_redirect_partial hold *)
Example C20_ex_print_guard :
  all_fit (fits true 0) [EBinary BAdd (EVar [120]) (ENum [49]); EVar [121]] /\
  ok true (EVar [121]) (redir_tok RGreater) = true.
Proof. cbn. repeat (first [ match goal with |- _ /\ _ => split end | reflexivity | exact I | lia | discriminate ]). Qed.
(* ... and fail for the unwrapped  print (1, 2 > 1) *)
Example C20_ex_print_guard_fails : ~ all_fit (fits true 0) [w_one; w_gt].
Proof. cbn. intros (_ & (_ & H & _) & _). apply H; reflexivity. Qed.

(* strings and regexes *)
Example C20_ex_quote_safe : quote_safe [97; 34; 92; 10; 1; 255; 195; 169; 226; 128; 139; 122] = true.   (* a, double quote, backslash, LF, ^A, 0xff, e-acute, U+200B, z *)
Proof. vm_compute. reflexivity. Qed.
Example C20_ex_quote_safe_all : quote_safe w_zwsp_ab = true /\ quote_safe w_tag = true.
Proof. split; vm_compute; reflexivity. Qed.
Example C20_ex_regex_ok : regex_ok [97; 47; 92; 92; 47; 92; 46] = true.       (* a / \\ / \. *)
Proof. vm_compute. reflexivity. Qed.
