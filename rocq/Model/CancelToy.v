(* C15: an executable instance of the primitive record for the integer fragment used by the
   correspondence programs (numbers that are integers, global/local scalars, global arrays,
   arithmetic, comparisons, user and native calls, for-in, print of numbers), the four native
   functions of the harness (cancel, cancelfail, fail, rec), and a decoder from the opcode
   words of parser.Program.Compiled (dumped by VerifDumpCompiled) to Model.Instr code.

   The decoder is checked by construction: [decode_code] answers only when re-encoding its
   result with Model/Encode.v's [enc_code] gives back the very words it was given. *)
From Coq Require Import String.
From Verif Require Import Lib.Base Lib.Dyadic Model.Ast Model.Instr Model.Compiler Model.Prims Model.VM
  Model.Encode Model.Cancel Gen.Opcodes Gen.Consts.

Open Scope Z_scope.

(* ------------------------------- state ------------------------------- *)

Record cst : Type := {
  c_glob : list Z;                 (* global scalars *)
  c_arr : list (list (Z * Z));     (* global arrays: key -> value, most recently created key first *)
  c_out : list (list Z);           (* lines written to standard output, newest first *)
  c_cancel : bool;                 (* the script called cancel() / cancelfail() *)
  c_rec : list Z;                  (* arguments of rec(), newest first *)
  c_lines : Z;                     (* records not yet read; record i is the text of the number i *)
  c_nr : Z;                        (* records read *)
  c_exit : Z;                      (* p.exitStatus *)
  c_closed : bool;                 (* closeAll has run *)
  c_unmod : bool                   (* an operation outside the fragment was executed *)
}.

Definition cst_init (lines : Z) : cst :=
  {| c_glob := []; c_arr := []; c_out := []; c_cancel := false; c_rec := []; c_lines := lines; c_nr := 0;
     c_exit := 0; c_closed := false; c_unmod := false |}.

Definition set_glob (s : cst) (g : list Z) : cst :=
  {| c_glob := g; c_arr := c_arr s; c_out := c_out s; c_cancel := c_cancel s; c_rec := c_rec s;
     c_lines := c_lines s; c_nr := c_nr s; c_exit := c_exit s; c_closed := c_closed s; c_unmod := c_unmod s |}.
Definition set_arrs (s : cst) (a : list (list (Z * Z))) : cst :=
  {| c_glob := c_glob s; c_arr := a; c_out := c_out s; c_cancel := c_cancel s; c_rec := c_rec s;
     c_lines := c_lines s; c_nr := c_nr s; c_exit := c_exit s; c_closed := c_closed s; c_unmod := c_unmod s |}.
Definition add_out (s : cst) (l : list Z) : cst :=
  {| c_glob := c_glob s; c_arr := c_arr s; c_out := l :: c_out s; c_cancel := c_cancel s; c_rec := c_rec s;
     c_lines := c_lines s; c_nr := c_nr s; c_exit := c_exit s; c_closed := c_closed s; c_unmod := c_unmod s |}.
Definition set_cancel (s : cst) : cst :=
  {| c_glob := c_glob s; c_arr := c_arr s; c_out := c_out s; c_cancel := true; c_rec := c_rec s;
     c_lines := c_lines s; c_nr := c_nr s; c_exit := c_exit s; c_closed := c_closed s; c_unmod := c_unmod s |}.
Definition add_rec (s : cst) (v : Z) : cst :=
  {| c_glob := c_glob s; c_arr := c_arr s; c_out := c_out s; c_cancel := c_cancel s; c_rec := v :: c_rec s;
     c_lines := c_lines s; c_nr := c_nr s; c_exit := c_exit s; c_closed := c_closed s; c_unmod := c_unmod s |}.
Definition read_line (s : cst) : cst :=
  {| c_glob := c_glob s; c_arr := c_arr s; c_out := c_out s; c_cancel := c_cancel s; c_rec := c_rec s;
     c_lines := c_lines s - 1; c_nr := c_nr s + 1; c_exit := c_exit s; c_closed := c_closed s; c_unmod := c_unmod s |}.
(* nextfile: the only input is standard input, so abandoning the file ends the input *)
Definition drop_input (s : cst) : cst :=
  {| c_glob := c_glob s; c_arr := c_arr s; c_out := c_out s; c_cancel := c_cancel s; c_rec := c_rec s;
     c_lines := 0; c_nr := c_nr s; c_exit := c_exit s; c_closed := c_closed s; c_unmod := c_unmod s |}.
Definition set_exit (s : cst) (v : Z) : cst :=
  {| c_glob := c_glob s; c_arr := c_arr s; c_out := c_out s; c_cancel := c_cancel s; c_rec := c_rec s;
     c_lines := c_lines s; c_nr := c_nr s; c_exit := v; c_closed := c_closed s; c_unmod := c_unmod s |}.
Definition set_closed (s : cst) : cst :=
  {| c_glob := c_glob s; c_arr := c_arr s; c_out := c_out s; c_cancel := c_cancel s; c_rec := c_rec s;
     c_lines := c_lines s; c_nr := c_nr s; c_exit := c_exit s; c_closed := true; c_unmod := c_unmod s |}.
Definition set_unmod (s : cst) : cst :=
  {| c_glob := c_glob s; c_arr := c_arr s; c_out := c_out s; c_cancel := c_cancel s; c_rec := c_rec s;
     c_lines := c_lines s; c_nr := c_nr s; c_exit := c_exit s; c_closed := c_closed s; c_unmod := true |}.

Fixpoint zlist_set (l : list Z) (n : nat) (v : Z) : list Z :=
  match n, l with
  | O, [] => [v]
  | O, _ :: t => v :: t
  | S n', [] => 0 :: zlist_set [] n' v
  | S n', x :: t => x :: zlist_set t n' v
  end.
Fixpoint alist_set (l : list (list (Z * Z))) (n : nat) (v : list (Z * Z)) : list (list (Z * Z)) :=
  match n, l with
  | O, [] => [v]
  | O, _ :: t => v :: t
  | S n', [] => [] :: alist_set [] n' v
  | S n', x :: t => x :: alist_set t n' v
  end.

Definition gget (s : cst) (i : Z) : Z := nth (Z.to_nat i) (c_glob s) 0.
Definition gset (s : cst) (i v : Z) : cst := set_glob s (zlist_set (c_glob s) (Z.to_nat i) v).
Definition aget (s : cst) (i : Z) : list (Z * Z) := nth (Z.to_nat i) (c_arr s) [].
Definition aput (s : cst) (i : Z) (a : list (Z * Z)) : cst := set_arrs s (alist_set (c_arr s) (Z.to_nat i) a).

Fixpoint assoc_find (a : list (Z * Z)) (k : Z) : option Z :=
  match a with [] => None | (k', v) :: t => if k' =? k then Some v else assoc_find t k end.
Fixpoint assoc_set (a : list (Z * Z)) (k v : Z) : option (list (Z * Z)) :=   (* None: key absent *)
  match a with
  | [] => None
  | (k', v') :: t => if k' =? k then Some ((k, v) :: t)
                     else match assoc_set t k v with Some t' => Some ((k', v') :: t') | None => None end
  end.
Definition assoc_put (a : list (Z * Z)) (k v : Z) : list (Z * Z) :=
  match assoc_set a k v with Some a' => a' | None => (k, v) :: a end.
Fixpoint assoc_del (a : list (Z * Z)) (k : Z) : list (Z * Z) :=
  match a with [] => [] | (k', v) :: t => if k' =? k then t else (k', v) :: assoc_del t k end.

(* ------------------------------- primitives ------------------------------- *)

(* run-time errors of the fragment *)
Definition E_DIV : Z := 1.        (* "division by zero" *)
Definition E_MOD : Z := 2.        (* "division by zero in mod" *)
Definition E_NATIVE : Z := 3.     (* the error returned by fail() / cancelfail() *)
Definition E_DEPTH : Z := 4.      (* "calling ... exceeded maximum call depth" *)
Definition E_UNMOD : Z := 99.

Definition int_of_bits (b : Z) : option Z :=
  match of_bits b with
  | FFin m e => if is_integral m e then Some (ftrunc m e) else None
  | _ => None
  end.

(* a string constant that is the canonical decimal spelling of a natural number (the compiler
   turns a constant integer array index into such a string) *)
Fixpoint digits_val (s : bytes) (acc : Z) : option Z :=
  match s with
  | [] => Some acc
  | c :: t => if (48 <=? c) && (c <=? 57) then digits_val t (10 * acc + (c - 48)) else None
  end.
Definition int_of_bytes (s : bytes) : option Z :=
  match s with
  | [] => None
  | [c] => digits_val s 0
  | c :: _ => if c =? 48 then None else digits_val s 0
  end.

Definition cbool (b : bool) : Z := if b then 1 else 0.

Definition carith (op : arith) (l r : Z) : er Z Z :=
  match op with
  | AAdd => EOk (l + r)
  | ASub => EOk (l - r)
  | AMul => EOk (l * r)
  | ADiv => if r =? 0 then EErr E_DIV else if Z.rem l r =? 0 then EOk (Z.quot l r) else EErr E_UNMOD
  | AMod => if r =? 0 then EErr E_MOD else EOk (Z.rem l r)
  | APow => EErr E_UNMOD
  end.

Definition ccmp (c : cmp) (l r : Z) : bool :=
  match c with
  | CEq => l =? r | CNe => negb (l =? r) | CLt => l <? r | CLe => l <=? r | CGt => r <? l | CGe => r <=? l
  end.

(* indexes of the harness's native functions in p.nativeFuncs *)
Record natives : Type := { n_cancel : Z; n_cancelfail : Z; n_fail : Z; n_rec : Z }.

Definition cnative (nv : natives) (s : cst) (fi : Z) (args : list Z) : cst * er Z Z :=
  if fi =? n_cancel nv then (set_cancel s, EOk 0)
  else if fi =? n_cancelfail nv then (set_cancel s, EErr E_NATIVE)
  else if fi =? n_fail nv then (s, EErr E_NATIVE)
  else if fi =? n_rec nv then (match args with [v] => (add_rec s v, EOk 0) | _ => (set_unmod s, EErr E_UNMOD) end)
  else (set_unmod s, EErr E_UNMOD).

Definition un {A} (s : cst) (a : A) : cst * A := (set_unmod s, a).

Definition arr_ok (sc : scope) : bool := match sc with SGlobal => true | _ => false end.

Definition ctoy (nv : natives) : prims Z cst Z :=
  {| p_num := fun b => match int_of_bits b with Some v => v | None => 0 end;
     p_str := fun s => match int_of_bytes s with Some v => v | None => 0 end;
     p_null := 0;
     p_of_bool := cbool;
     p_to_bool := fun v => negb (v =? 0);
     p_num_pos := fun v => 0 <? v;
     p_neg := fun v => - v;
     p_plus := fun v => v;
     p_arith := carith;
     p_aug := carith;
     p_incr := fun a v => v + a;
     p_cmp := fun c _ l r => ccmp c l r;
     p_cmpj := fun c _ l r => ccmp c l r;
     p_concat := fun _ _ _ => 0;
     p_concat_multi := fun _ _ => 0;
     p_index_multi := fun _ _ => 0;
     p_match := fun s _ _ => un s (EErr E_UNMOD);
     p_regex := fun _ _ => 0;
     p_get_field := fun s _ => un s 0;
     p_get_field_int := fun s _ => un s 0;
     p_get_named := fun s _ => un s (EErr E_UNMOD);
     p_get_named_str := fun s _ => un s (EErr E_UNMOD);
     p_set_field := fun s _ _ => un s (EErr E_UNMOD);
     p_get_global := gget;
     p_set_global := gset;
     p_get_special := fun s _ => un s 0;
     p_set_special := fun s _ _ => un s (EErr E_UNMOD);
     p_array_get := fun s sc n k =>
       if arr_ok sc then
         match assoc_find (aget s n) k with
         | Some v => (s, v)
         | None => (aput s n ((k, 0) :: aget s n), 0)       (* a reference creates the element *)
         end
       else un s 0;
     p_array_set := fun s sc n k v => if arr_ok sc then aput s n (assoc_put (aget s n) k v) else set_unmod s;
     p_array_in := fun s sc n k => match assoc_find (aget s n) k with Some _ => true | None => false end;
     p_array_del := fun s sc n k => if arr_ok sc then aput s n (assoc_del (aget s n) k) else set_unmod s;
     p_array_clear := fun s sc n => if arr_ok sc then aput s n [] else set_unmod s;
     p_array_len := fun s sc n => zlen (aget s n);
     p_array_keys := fun s sc n => map fst (aget s n);
     p_builtin_arity := fun _ => 0%nat;
     p_builtin := fun _ s _ => un s (EErr E_UNMOD);
     p_split := fun s _ _ _ _ => un s (EErr E_UNMOD);
     p_sprintf := fun s _ => un s (EErr E_UNMOD);
     p_native := cnative nv;
     p_push_arrays := fun s arrs narr => match arrs with [] => if narr =? 0 then s else set_unmod s | _ => set_unmod s end;
     p_pop_arrays := fun s => s;
     p_err_depth := fun _ => E_DEPTH;
     p_print := fun isprintf s r _ vs =>
       match r with
       | RNone => if isprintf then un s (EErr E_UNMOD) else (add_out s vs, EOk tt)
       | _ => un s (EErr E_UNMOD)
       end;
     p_getline := fun s _ _ => un s (EErr E_UNMOD);
     p_set_line := fun s _ => set_unmod s;
     p_set_exit := set_exit |}.

Definition cio : ioprims Z cst Z :=
  {| io_next_line := fun s => if 0 <? c_lines s then (read_line s, EOk (Some (c_nr s + 1))) else (s, EOk None);
     io_set_record := fun s _ => s;
     io_print_line := fun s => (add_out s [c_nr s], EOk tt);
     io_next_file := drop_input;
     io_exit_status := c_exit;
     io_close_all := set_closed |}.

(* instructions of the fragment (anything else makes the driver answer "unmod") *)
Definition instr_ok (i : instr) : bool :=
  match i with
  | INop | IDupe | IDrop | ISwap | IRote => true
  | INum b => match int_of_bits b with Some _ => true | None => false end
  | IStr s => match int_of_bytes s with Some _ => true | None => false end
  | IGlobal _ | ILocal _ | IAssignGlobal _ | IAssignLocal _ | IIncrGlobal _ _ | IIncrLocal _ _ => true
  | IArray sc _ | IIn sc _ | IAssignArray sc _ | IDelete sc _ | IDeleteAll sc _ | IIncrArray sc _ _
  | ICallLengthArray sc _ => arr_ok sc
  | IAugGlobal op _ | IAugLocal op _ => match op with APow => false | _ => true end
  | IAugArray sc op _ => arr_ok sc && match op with APow => false | _ => true end
  | IArith a => match a with APow => false | _ => true end
  | ICmp _ | INot | IUnaryMinus | IUnaryPlus | IBoolean => true
  | IJump _ | IJumpFalse _ | IJumpTrue _ | IJumpCmp _ _ => true
  | INext | INextfile | IExit | IExitStatus | IBreakForIn | IReturn | IReturnNull | INulls _ => true
  | IForIn vsc _ asc _ _ => arr_ok asc && match vsc with SSpecial => false | _ => true end
  | ICallUser _ arrs => match arrs with [] => true | _ => false end
  | ICallNative _ _ => true
  | IPrint _ r => match r with RNone => true | _ => false end
  | _ => false
  end.

(* ------------------------------- decoder ------------------------------- *)

Open Scope string_scope.
Open Scope Z_scope.

Definition dec := pools -> list Z -> option (instr * list Z).     (* constant pools, words after the opcode *)

Definition d0 (i : instr) : dec := fun _ ws => Some (i, ws).
Definition d1 (f : Z -> instr) : dec := fun _ ws => match ws with a :: r => Some (f a, r) | _ => None end.
Definition d2 (f : Z -> Z -> instr) : dec := fun _ ws => match ws with a :: b :: r => Some (f a b, r) | _ => None end.

Definition scope_of (n : Z) : option scope :=
  if n =? 1 then Some SLocal else if n =? 2 then Some SSpecial else if n =? 3 then Some SGlobal else None.
Definition ds2 (f : scope -> Z -> instr) : dec :=
  fun _ ws => match ws with
              | a :: b :: r => match scope_of a with Some sc => Some (f sc b, r) | None => None end
              | _ => None end.
Definition arith_of (k : Z) : option arith :=
  if k <? 0 then None else
  match nth_error augop_names (Z.to_nat k) with
  | Some n => if String.eqb n "AugOpAdd" then Some AAdd else if String.eqb n "AugOpSub" then Some ASub
              else if String.eqb n "AugOpMul" then Some AMul else if String.eqb n "AugOpDiv" then Some ADiv
              else if String.eqb n "AugOpPow" then Some APow else if String.eqb n "AugOpMod" then Some AMod else None
  | None => None
  end.
Definition daug (f : arith -> Z -> instr) : dec :=
  fun _ ws => match ws with
              | a :: b :: r => match arith_of a with Some op => Some (f op b, r) | None => None end
              | _ => None end.

Fixpoint take_pairs (n : nat) (ws : list Z) : option (list (scope * Z) * list Z) :=
  match n with
  | O => Some ([], ws)
  | S n' => match ws with
            | a :: b :: r => match scope_of a, take_pairs n' r with
                             | Some sc, Some (ps, r') => Some ((sc, b) :: ps, r')
                             | _, _ => None end
            | _ => None end
  end.

Definition dec_table : list (string * dec) :=
  [ ("Nop", d0 INop);
    ("Num", fun pl ws => match ws with
                         | k :: r => if k <? 0 then None else
                                     match nth_error (pl_nums pl) (Z.to_nat k) with Some b => Some (INum b, r) | None => None end
                         | _ => None end);
    ("Str", fun pl ws => match ws with
                         | k :: r => if k <? 0 then None else
                                     match nth_error (pl_strs pl) (Z.to_nat k) with Some b => Some (IStr b, r) | None => None end
                         | _ => None end);
    ("Dupe", d0 IDupe); ("Drop", d0 IDrop); ("Swap", d0 ISwap); ("Rote", d0 IRote);
    ("Global", d1 IGlobal); ("Local", d1 ILocal);
    ("ArrayGlobal", d1 (IArray SGlobal)); ("ArrayLocal", d1 (IArray SLocal));
    ("InGlobal", d1 (IIn SGlobal)); ("InLocal", d1 (IIn SLocal));
    ("AssignGlobal", d1 IAssignGlobal); ("AssignLocal", d1 IAssignLocal);
    ("AssignArrayGlobal", d1 (IAssignArray SGlobal)); ("AssignArrayLocal", d1 (IAssignArray SLocal));
    ("Delete", ds2 IDelete); ("DeleteAll", ds2 IDeleteAll);
    ("IncrGlobal", d2 IIncrGlobal); ("IncrLocal", d2 IIncrLocal);
    ("IncrArrayGlobal", d2 (IIncrArray SGlobal)); ("IncrArrayLocal", d2 (IIncrArray SLocal));
    ("AugAssignGlobal", daug IAugGlobal); ("AugAssignLocal", daug IAugLocal);
    ("AugAssignArrayGlobal", daug (IAugArray SGlobal)); ("AugAssignArrayLocal", daug (IAugArray SLocal));
    ("Add", d0 (IArith AAdd)); ("Subtract", d0 (IArith ASub)); ("Multiply", d0 (IArith AMul));
    ("Divide", d0 (IArith ADiv)); ("Power", d0 (IArith APow)); ("Modulo", d0 (IArith AMod));
    ("Equals", d0 (ICmp CEq)); ("NotEquals", d0 (ICmp CNe)); ("Less", d0 (ICmp CLt)); ("Greater", d0 (ICmp CGt));
    ("LessOrEqual", d0 (ICmp CLe)); ("GreaterOrEqual", d0 (ICmp CGe));
    ("Not", d0 INot); ("UnaryMinus", d0 IUnaryMinus); ("UnaryPlus", d0 IUnaryPlus); ("Boolean", d0 IBoolean);
    ("Jump", d1 IJump); ("JumpFalse", d1 IJumpFalse); ("JumpTrue", d1 IJumpTrue);
    ("JumpEquals", d1 (IJumpCmp CEq)); ("JumpNotEquals", d1 (IJumpCmp CNe)); ("JumpLess", d1 (IJumpCmp CLt));
    ("JumpGreater", d1 (IJumpCmp CGt)); ("JumpLessOrEqual", d1 (IJumpCmp CLe)); ("JumpGreaterOrEqual", d1 (IJumpCmp CGe));
    ("Next", d0 INext); ("Nextfile", d0 INextfile); ("Exit", d0 IExit); ("ExitStatus", d0 IExitStatus);
    ("ForIn", fun _ ws => match ws with
                          | a :: vi :: b :: ai :: off :: r =>
                              match scope_of a, scope_of b with
                              | Some vsc, Some asc => Some (IForIn vsc vi asc ai off, r)
                              | _, _ => None end
                          | _ => None end);
    ("BreakForIn", d0 IBreakForIn);
    ("CallLengthArray", ds2 ICallLengthArray);
    ("CallUser", fun _ ws => match ws with
                             | fi :: n :: r => if n <? 0 then None else
                                               match take_pairs (Z.to_nat n) r with
                                               | Some (ps, r') => Some (ICallUser fi ps, r')
                                               | None => None end
                             | _ => None end);
    ("CallNative", d2 ICallNative);
    ("Return", d0 IReturn); ("ReturnNull", d0 IReturnNull); ("Nulls", d1 INulls);
    ("Print", fun _ ws => match ws with
                          | n :: tok :: r => if tok =? tokn "ILLEGAL" then Some (IPrint n RNone, r) else None
                          | _ => None end) ].

Fixpoint assoc_str (t : list (string * dec)) (n : string) : option dec :=
  match t with [] => None | (k, d) :: t' => if String.eqb k n then Some d else assoc_str t' n end.

Definition decode_instr (nums : pools) (ws : list Z) : option (instr * list Z) :=
  match ws with
  | [] => None
  | w :: r =>
      if w <? 0 then None else
      match nth_error opcode_names (Z.to_nat w) with
      | None => None
      | Some name => match assoc_str dec_table name with Some d => d nums r | None => None end
      end
  end.

Fixpoint decode_words (fuel : nat) (nums : pools) (ws : list Z) : option code :=
  match ws with
  | [] => Some []
  | _ =>
    match fuel with
    | O => None
    | S f => match decode_instr nums ws with
             | Some (i, r) => match decode_words f nums r with Some c => Some (i :: c) | None => None end
             | None => None
             end
    end
  end.

Fixpoint zlist_eqb (a b : list Z) : bool :=
  match a, b with
  | [], [] => true
  | x :: a', y :: b' => (x =? y) && zlist_eqb a' b'
  | _, _ => false
  end.

Definition pool_of (nums : list Z) (strs : list bytes) : pools := {| pl_nums := nums; pl_strs := strs; pl_regexes := [] |}.

(* decode, then re-encode with Model/Encode.v and insist on the identical words *)
Definition decode_code (pl : pools) (ws : list Z) : option code :=
  match decode_words (S (length ws)) pl ws with
  | Some c => if zlist_eqb (fst (enc_code pl c)) ws then Some c else None
  | None => None
  end.

Definition code_ok (c : code) : bool := forallb instr_ok c.

(* ------------------------------- the whole run ------------------------------- *)

Record toy_result : Type := {
  tr_res : xres Z cst Z;
  tr_state : option cst;          (* after closeAll *)
  tr_cs : cstate
}.

Definition toy_m0 (lines : Z) : mstate Z cst := {| ms := cst_init lines; frame := []; depth := 0 |}.

Definition toy_run (nv : natives) (fuel : nat) (cp : cprogram) (lines : Z) (cs0 : cstate) : toy_result :=
  let '(r, fin, cs) := execute_all (ctoy nv) (c_funcs cp) c_cancel cio fuel cp (toy_m0 lines) cs0 in
  {| tr_res := r; tr_state := fin; tr_cs := cs |}.

(* an input that never ends (every read delivers one more record): for the record-loop theorems *)
Definition cio_endless : ioprims Z cst Z :=
  {| io_next_line := fun s => (read_line s, EOk (Some (c_nr s + 1)));
     io_set_record := fun s _ => s;
     io_print_line := fun s => (add_out s [c_nr s], EOk tt);
     io_next_file := fun s => s;
     io_exit_status := c_exit;
     io_close_all := set_closed |}.

Definition toy_natives : natives := {| n_cancel := 0; n_cancelfail := 1; n_fail := 2; n_rec := 3 |}.
