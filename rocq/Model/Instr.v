(* C01: the instruction set of internal/compiler/opcodes.go as an inductive type
   with operands, the size of each instruction in 32-bit opcode words (jump offsets
   count words), and addressing of a code list by word offset. *)
From Verif Require Import Lib.Base Model.Ast.

Inductive instr : Type :=
| INop
| INum (bits : Z) | IStr (s : bytes)
| IDupe | IDrop | ISwap | IRote
| IField | IFieldInt (i : Z) | IFieldByName | IFieldByNameStr (s : bytes)
| IGlobal (i : Z) | ILocal (i : Z) | ISpecial (i : Z)
| IArray (sc : scope) (i : Z)                    (* ArrayGlobal / ArrayLocal *)
| IIn (sc : scope) (i : Z)                       (* InGlobal / InLocal *)
| IAssignField | IAssignFieldSub
| IAssignGlobal (i : Z) | IAssignLocal (i : Z) | IAssignSpecial (i : Z)
| IAssignArray (sc : scope) (i : Z)              (* AssignArrayGlobal / AssignArrayLocal *)
| IDelete (sc : scope) (i : Z) | IDeleteAll (sc : scope) (i : Z)
| IIncrField (amt : Z) | IIncrGlobal (amt i : Z) | IIncrLocal (amt i : Z) | IIncrSpecial (amt i : Z)
| IIncrArray (sc : scope) (amt i : Z)            (* IncrArrayGlobal / IncrArrayLocal *)
| IAugField (op : arith) | IAugGlobal (op : arith) (i : Z) | IAugLocal (op : arith) (i : Z)
| IAugSpecial (op : arith) (i : Z)
| IAugArray (sc : scope) (op : arith) (i : Z)    (* AugAssignArrayGlobal / AugAssignArrayLocal *)
| IRegex (r : bytes)
| IIndexMulti (n : Z) | IConcatMulti (n : Z)
| IArith (a : arith) | ICmp (c : cmp) | IConcat | IMatch | INotMatch
| INot | IUnaryMinus | IUnaryPlus | IBoolean
| IJump (off : Z) | IJumpFalse (off : Z) | IJumpTrue (off : Z) | IJumpCmp (c : cmp) (off : Z)
| INext | INextfile | IExit | IExitStatus
| IForIn (vsc : scope) (vi : Z) (asc : scope) (ai : Z) (off : Z) | IBreakForIn
| ICallBuiltin (b : builtin) | ICallLengthArray (sc : scope) (i : Z)
| ICallSplit (sc : scope) (i : Z) | ICallSplitSep (sc : scope) (i : Z) (isre : bool)
| ICallSprintf (n : Z)
| ICallUser (fi : Z) (arrs : list (scope * Z)) | ICallNative (fi n : Z)
| IReturn | IReturnNull | INulls (n : Z)
| IPrint (n : Z) (r : redir) | IPrintf (n : Z) (r : redir)
| IGetline (r : redir) | IGetlineField (r : redir)
| IGetlineVar (sc : scope) (r : redir) (i : Z)   (* GetlineGlobal / GetlineLocal / GetlineSpecial *)
| IGetlineArray (r : redir) (sc : scope) (i : Z).

Definition code := list instr.

(* number of opcode words: the opcode itself plus its inline operands *)
Definition isize (i : instr) : Z :=
  match i with
  | INop | IDupe | IDrop | ISwap | IRote | IField | IFieldByName | IAssignField | IAssignFieldSub
  | IArith _ | ICmp _ | IConcat | IMatch | INotMatch | INot | IUnaryMinus | IUnaryPlus | IBoolean
  | INext | INextfile | IExit | IExitStatus | IBreakForIn | IReturn | IReturnNull => 1
  | INum _ | IStr _ | IFieldInt _ | IFieldByNameStr _ | IGlobal _ | ILocal _ | ISpecial _
  | IArray _ _ | IIn _ _ | IAssignGlobal _ | IAssignLocal _ | IAssignSpecial _ | IAssignArray _ _
  | IIncrField _ | IAugField _ | IRegex _ | IIndexMulti _ | IConcatMulti _
  | IJump _ | IJumpFalse _ | IJumpTrue _ | IJumpCmp _ _ | ICallBuiltin _ | ICallSprintf _ | INulls _
  | IGetline _ | IGetlineField _ => 2
  | IDelete _ _ | IDeleteAll _ _ | IIncrGlobal _ _ | IIncrLocal _ _ | IIncrSpecial _ _ | IIncrArray _ _ _
  | IAugGlobal _ _ | IAugLocal _ _ | IAugSpecial _ _ | IAugArray _ _ _
  | ICallLengthArray _ _ | ICallSplit _ _ | ICallNative _ _ | IPrint _ _ | IPrintf _ _
  | IGetlineVar _ _ _ => 3
  | ICallSplitSep _ _ _ | IGetlineArray _ _ _ => 4
  | IForIn _ _ _ _ _ => 6
  | ICallUser _ arrs => 3 + 2 * zlen arrs
  end.

Fixpoint csize (c : code) : Z :=
  match c with [] => 0 | i :: c' => isize i + csize c' end.

(* the instruction that starts at word offset ip (None when ip is not an instruction boundary) *)
Fixpoint fetch (c : code) (ip : Z) : option instr :=
  match c with
  | [] => None
  | i :: c' => if ip =? 0 then Some i else if ip <? isize i then None else fetch c' (ip - isize i)
  end.

(* code[a:] and code[:n] by word offsets; None when a boundary falls inside an instruction *)
Fixpoint drop_words (c : code) (n : Z) : option code :=
  if n =? 0 then Some c else
  match c with
  | [] => None
  | i :: c' => if n <? isize i then None else drop_words c' (n - isize i)
  end.

Fixpoint take_words (c : code) (n : Z) : option code :=
  if n =? 0 then Some [] else
  match c with
  | [] => None
  | i :: c' => if n <? isize i then None else
               match take_words c' (n - isize i) with Some t => Some (i :: t) | None => None end
  end.

Definition sub_code (c : code) (a n : Z) : option code :=
  match drop_words c a with Some d => take_words d n | None => None end.
