(* C10, regex builtins: models of interp/vm.go BuiltinMatch, interp/functions.go split / sub,
   and of the three functions of Go's regexp package they are built on
   (regexp.go allMatches, replaceAll = ReplaceAllStringFunc, Split), plus strings.Fields /
   strings.Split / strings.ToUpper / ToLower (ASCII).  Definitions only.

   The regex engine is a Section variable [ff] = re.doExecute(s, pos) of ONE compiled
   regex: the match found when searching [s] from byte offset [pos], as (start, end).
   Everything is executable by instantiating [ff := Lib.Regex.find_from r]
   (definitions [*_re] at the end). *)
From Verif Require Import Lib.Base Lib.Dyadic Lib.Utf8 Lib.Regex Model.Builtins.

(* distinguished out-of-fuel outcome ("out of fuel"); excluded by the theorems *)
Definition out_of_fuel {A} : res A := Err [111;117;116;32;111;102;32;102;117;101;108].

Section Engine.
  Variable ff : bytes -> Z -> option (Z * Z).

  (* ---- vm.go BuiltinMatch: (RSTART, RLENGTH) ---------------------------- *)
  Definition builtin_match (chars : bool) (s : bytes) : res (Z * Z) :=
    match ff s 0 with                                  (* re.FindStringIndex(s) *)
    | None => Ok (0, -1)
    | Some (a, b) =>
        if chars then
          do pre <- slice s 0 a;
          do m <- slice s a b;
          Ok (rune_count pre + 1, rune_count m)
        else Ok (a + 1, b - a)
    end.

  (* ---- regexp.go allMatches with n = -1 (FindAllStringIndex) -------------
     for pos, prevMatchEnd := 0, -1; pos <= end; { ... }.  Same text as
     Lib.Regex.all_matches_fuel with the engine abstracted. *)
  Fixpoint all_matches_loop (fuel : nat) (s : bytes) (pos prev_end : Z) : list (Z * Z) :=
    match fuel with
    | O => []
    | S f =>
      if pos >? zlen s then [] else
      match ff s pos with
      | None => []
      | Some (a, b) =>
          let accept := negb ((b =? pos) && (a =? prev_end)) in
          let pos' :=
            if b =? pos then
              let w := snd (decode_rune (zdrop pos s)) in
              if w >? 0 then pos + w else zlen s + 1
            else b in
          let rest := all_matches_loop f s pos' b in
          if accept then (a, b) :: rest else rest
      end
    end.

  Definition all_matches_gen (s : bytes) : list (Z * Z) :=
    all_matches_loop (S (S (length s))) s 0 (-1).

  (* ---- regexp.go replaceAll (through ReplaceAllStringFunc) ---------------
     [f count m] is the closure of functions.go sub applied to the matched text, threading
     its captured counter.  The output buffer is built front to back:
     buf = src[lastMatchEnd:a] ++ repl ++ (rest of the loop).  *)
  Fixpoint replace_loop (fuel : nat) (src : bytes) (f : Z -> bytes -> bytes * Z)
           (searchPos lastMatchEnd count : Z) : res (bytes * Z) :=
    match fuel with
    | O => out_of_fuel
    | S fu =>
      if searchPos >? zlen src                          (* for searchPos <= endPos *)
      then (do tl <- slice src lastMatchEnd (zlen src); Ok (tl, count))
      else
      match ff src searchPos with
      | None => do tl <- slice src lastMatchEnd (zlen src); Ok (tl, count)   (* break *)
      | Some (a, b) =>
          do pre <- slice src lastMatchEnd a;           (* src[lastMatchEnd:a[0]] *)
          do rc <- (if (b >? lastMatchEnd) || (a =? 0)
                    then (do m <- slice src a b; Ok (f count m))
                    else Ok ([], count));
          do rest <- slice src searchPos (zlen src);    (* src[searchPos:] *)
          let width := snd (decode_rune rest) in
          let searchPos' :=
            if searchPos + width >? b then searchPos + width
            else if searchPos + 1 >? b then searchPos + 1
            else b in
          do out <- replace_loop fu src f searchPos' b (snd rc);
          Ok (pre ++ fst rc ++ fst out, snd out)
      end
    end.

  Definition replace_all (src : bytes) (f : Z -> bytes -> bytes * Z) : res (bytes * Z) :=
    replace_loop (S (S (length src))) src f 0 0 0.

  (* functions.go sub: the closure.  Only the first replacement for sub(), all for gsub(). *)
  Definition sub_closure (global : bool) (repl : bytes) (count : Z) (m : bytes) : bytes * Z :=
    if negb global && (count >? 0) then (m, count)
    else (expand_repl repl m, count + 1).

  (* functions.go sub: (out, num) *)
  Definition builtin_sub (global : bool) (repl src : bytes) : res (bytes * Z) :=
    replace_all src (sub_closure global repl).

  (* ---- regexp.go Split(s, -1) ------------------------------------------- *)
  Fixpoint re_split_loop (s : bytes) (ms : list (Z * Z)) (beg end_ : Z) : res (list bytes) :=
    match ms with
    | [] => if end_ =? zlen s then Ok []                 (* if end != len(s) { append s[beg:] } *)
            else (do t <- slice s beg (zlen s); Ok [t])
    | (a, b) :: ms' =>
        if b =? 0 then re_split_loop s ms' b a           (* if match[1] != 0 { append } *)
        else
          do p <- slice s beg a;
          do rest <- re_split_loop s ms' b a;
          Ok (p :: rest)
    end.

  (* expr_nonempty: len(re.expr) > 0 -- always true in goawk ("(?s:" ^ r ^ ")") *)
  Definition re_split (expr_nonempty : bool) (s : bytes) : res (list bytes) :=
    if expr_nonempty && is_nil s then Ok [[]]
    else re_split_loop s (all_matches_gen s) 0 0.
End Engine.

(* ---- interp.splitBlanks (split(s, a, " ") and the default FS) --------------
   Since /repo fix 73fc014 the separators are the bytes space, tab and newline only
   (before: strings.Fields, i.e. every Unicode White_Space rune). *)
Definition is_space (r : Z) : bool := (r =? 32) || (r =? 9) || (r =? 10).

Definition space_chunk (c : bytes) : bool := is_space (rune_of c).

(* splitBlanks, stated over the chunks `range s` visits (a multi-byte chunk is never a blank, so this
   is the byte loop of the code).  [cur] = field being collected, [inf] = in a field *)
Fixpoint fields_chunks (cs : list bytes) (cur : bytes) (inf : bool) : list bytes :=
  match cs with
  | [] => if inf then [cur] else []
  | c :: cs' =>
      if space_chunk c
      then (if inf then cur :: fields_chunks cs' [] false else fields_chunks cs' [] false)
      else fields_chunks cs' (cur ++ c) true
  end.

Definition strings_fields (s : bytes) : list bytes := fields_chunks (runes s) [] false.

(* ---- strings.Split(s, sep) (genSplit, n = -1) ----------------------------
   sep = "": explode into the chunks of `range`.  Otherwise cut at every leftmost
   occurrence of sep, continuing after it: walk over s, [skip] = bytes of a just-found
   separator still to be stepped over, [cur] = piece being collected. *)
Fixpoint split_walk (sep s : bytes) (skip : nat) (cur : bytes) : list bytes :=
  match s with
  | [] => [cur]
  | c :: s' =>
      match skip with
      | S k => split_walk sep s' k cur
      | O => if is_prefix sep s
             then cur :: split_walk sep s' (length sep - 1) []
             else split_walk sep s' O (cur ++ [c])
      end
  end.

Definition strings_split (s sep : bytes) : list bytes :=
  if is_nil sep then runes s else split_walk sep s O [].

(* strings.Join *)
Fixpoint join (sep : bytes) (l : list bytes) : bytes :=
  match l with
  | [] => []
  | [a] => a
  | a :: l' => a ++ sep ++ join sep l'
  end.

(* ---- functions.go split (3-argument form: mode = DefaultMode) ------------
   parts, in the order of the case distinction of the Go switch *)
Definition split_parts (ff : bytes -> Z -> option (Z * Z))
           (sep : bytes) (sep_is_regex : bool) (s : bytes) : res (list bytes) :=
  if negb sep_is_regex && bytes_eqb sep [32] then Ok (strings_fields s)
  else if is_nil s then Ok []
  else if negb sep_is_regex && (rune_count sep <=? 1) then Ok (strings_split s sep)
  else re_split ff true s.

(* array[strconv.Itoa(i+1)] = numStr(part): the array as an association list key -> value *)
Fixpoint number_from (i : Z) (parts : list bytes) : list (Z * bytes) :=
  match parts with
  | [] => []
  | p :: ps => (i, p) :: number_from (i + 1) ps
  end.

(* (len(array), array) *)
Definition builtin_split (ff : bytes -> Z -> option (Z * Z))
           (sep : bytes) (sep_is_regex : bool) (s : bytes) : res (Z * list (Z * bytes)) :=
  do parts <- split_parts ff sep sep_is_regex s;
  let arr := number_from 1 parts in
  Ok (zlen arr, arr).

(* ---- strings.ToUpper / ToLower: the ASCII path only, else Unmod ---------- *)
Definition is_ascii (s : bytes) : bool := forallb (fun b => b <? 128) s.

Definition builtin_toupper (s : bytes) : res bytes :=
  if is_ascii s then Ok (map (fun b => if (97 <=? b) && (b <=? 122) then b - 32 else b) s)
  else Unmod.

Definition builtin_tolower (s : bytes) : res bytes :=
  if is_ascii s then Ok (map (fun b => if (65 <=? b) && (b <=? 90) then b + 32 else b) s)
  else Unmod.

(* ---- executable instances over Lib.Regex ---------------------------------- *)
Definition match_re (r : re) := builtin_match (find_from r).
Definition sub_re (r : re) := builtin_sub (find_from r).
Definition split_re (r : re) := builtin_split (find_from r).
