(* C01: direct evaluation of the resolved syntax tree under AWK semantics (the
   reference the compiled program is compared with).  Big-step, fuel-indexed.
   Evaluation order: operands left to right, the operation applied after both are
   evaluated; in assignments the right-hand side first, then the subscripts of the
   target (all three goawk execution paths agree on this); sub/gsub on a field or
   array element read the target before evaluating pattern and replacement.
   [EWrong] marks ill-formed trees (a local index outside the frame, an arity
   mismatch, break outside a loop): the resolver and parser exclude them. *)
From Verif Require Import Lib.Base Model.Ast Model.Instr Model.Compiler Model.Prims Model.VM Gen.Consts.

Section AstSem.
  Variables value St err : Type.
  Variable P : prims value St err.
  Variable FN : list func.               (* the program's functions *)

  Notation mstate := (mstate value St).
  Notation xabort := (xabort err).

  Inductive eres (A : Type) : Type :=
  | ENormal (a : A) (m : mstate)
  | EAbort (x : xabort) (m : mstate)
  | EWrong
  | EFuel.
  Arguments ENormal {A} a m.
  Arguments EAbort {A} x m.
  Arguments EWrong {A}.
  Arguments EFuel {A}.

  Inductive xres : Type :=
  | RNormal (m : mstate)
  | RBreak (m : mstate)
  | RContinue (m : mstate)
  | RReturn (v : value) (m : mstate)
  | RAbort (x : xabort) (m : mstate)
  | RWrong
  | RFuel.

  Definition ebind {A B} (r : eres A) (k : A -> mstate -> eres B) : eres B :=
    match r with
    | ENormal a m => k a m
    | EAbort x m => EAbort x m
    | EWrong => EWrong
    | EFuel => EFuel
    end.
  Definition sbind {A} (r : eres A) (k : A -> mstate -> xres) : xres :=
    match r with
    | ENormal a m => k a m
    | EAbort x m => RAbort x m
    | EWrong => RWrong
    | EFuel => RFuel
    end.

  Notation "'let*' ( a , m ) := r 'in' k" := (ebind r (fun a m => k))
    (at level 200, a name, m name, r at level 100, k at level 200).
  Notation "'let+' ( a , m ) := r 'in' k" := (sbind r (fun a m => k))
    (at level 200, a name, m name, r at level 100, k at level 200).

  Definition of_er {A} (m : mstate) (r : St * er err A) : eres A :=
    match r with
    | (s, EOk a) => ENormal a (with_ms m s)
    | (s, EErr e) => EAbort (XError e) (with_ms m s)
    end.
  Definition of_pure_er {A} (m : mstate) (r : er err A) : eres A :=
    match r with
    | EOk a => ENormal a m
    | EErr e => EAbort (XError e) m
    end.
  Definition of_w {A} (a : A) (w : wres value St err) : eres A :=
    match w with
    | WOk m => ENormal a m
    | WErr e m => EAbort (XError e) m
    | WStuck => EWrong
    end.

  (* an evaluated assignment target *)
  Inductive lref : Type :=
  | RVar (sc : scope) (i : Z)
  | RField (idx : value)
  | RIndex (sc : scope) (i : Z) (key : value).

  Definition lref_read (m : mstate) (r : lref) : eres value :=
    match r with
    | RVar sc i => match var_read P m sc i with Some (m', v) => ENormal v m' | None => EWrong end
    | RField idx => let '(s, v) := p_get_field P (ms m) idx in ENormal v (with_ms m s)
    | RIndex sc i key => let '(s, v) := p_array_get P (ms m) sc i key in ENormal v (with_ms m s)
    end.

  Definition lref_write {A} (a : A) (m : mstate) (r : lref) (v : value) : eres A :=
    match r with
    | RVar sc i => of_w a (var_write P m sc i v)
    | RField idx => match p_set_field P (ms m) idx v with
                    | (s, EOk _) => ENormal a (with_ms m s)
                    | (s, EErr e) => EAbort (XError e) (with_ms m s)
                    end
    | RIndex sc i key => ENormal a (with_ms m (p_array_set P (ms m) sc i key v))
    end.

  Definition redir_src (r : redir) (sv : value) : option value :=
    match r with RNone => None | _ => Some sv end.

  Definition pad_nulls (vs : list value) (nsc : Z) : list value :=
    vs ++ repeat (p_null P) (Z.to_nat (nsc - zlen vs)).

  Fixpoint eval (n : nat) (e : expr) (m : mstate) {struct n} : eres value :=
    match n with
    | O => EFuel
    | S n' =>
      match e with
      | ENum b => ENormal (p_num P b) m
      | EStr s => ENormal (p_str P s) m
      | ERegex r => ENormal (p_regex P (ms m) r) m
      | EField e1 =>
          let* (idx, m1) := eval n' e1 m in
          let '(s, v) := p_get_field P (ms m1) idx in ENormal v (with_ms m1 s)
      | ENamedField e1 =>
          let* (nm, m1) := eval n' e1 m in of_er m1 (p_get_named P (ms m1) nm)
      | EVar sc i => match var_read P m sc i with Some (m', v) => ENormal v m' | None => EWrong end
      | EIndex sc i idx =>
          let* (key, m1) := eval_index n' idx m in
          let '(s, v) := p_array_get P (ms m1) sc i key in ENormal v (with_ms m1 s)
      | EIn idx sc i =>
          let* (key, m1) := eval_index n' idx m in
          ENormal (p_of_bool P (p_array_in P (ms m1) sc i key)) m1
      | EBin op l r =>
          let* (vl, m1) := eval n' l m in
          let* (vr, m2) := eval n' r m1 in
          match op with
          | BArith a => of_pure_er m2 (p_arith P a vl vr)
          | BCmp c => ENormal (p_of_bool P (p_cmp P c (ms m2) vl vr)) m2
          | BMatch => let* (b, m3) := of_er m2 (p_match P (ms m2) vl vr) in ENormal (p_of_bool P b) m3
          | BNotMatch => let* (b, m3) := of_er m2 (p_match P (ms m2) vl vr) in ENormal (p_of_bool P (negb b)) m3
          end
      | EAnd l r =>
          let* (vl, m1) := eval n' l m in
          if p_to_bool P vl
          then let* (vr, m2) := eval n' r m1 in ENormal (p_of_bool P (p_to_bool P vr)) m2
          else ENormal (p_of_bool P false) m1
      | EOr l r =>
          let* (vl, m1) := eval n' l m in
          if p_to_bool P vl
          then ENormal (p_of_bool P true) m1
          else let* (vr, m2) := eval n' r m1 in ENormal (p_of_bool P (p_to_bool P vr)) m2
      | EConcat l r =>
          let* (vl, m1) := eval n' l m in
          let* (vr, m2) := eval n' r m1 in
          ENormal (p_concat P (ms m2) vl vr) m2
      | EUnary op e1 =>
          let* (v, m1) := eval n' e1 m in
          ENormal (match op with
                   | UNeg => p_neg P v
                   | UPlus => p_plus P v
                   | UNot => p_of_bool P (negb (p_to_bool P v))
                   end) m1
      | ECond c t f =>
          let* (vc, m1) := eval n' c m in
          if p_to_bool P vc then eval n' t m1 else eval n' f m1
      | EAssign lv r =>
          let* (v, m1) := eval n' r m in
          let* (ref, m2) := eval_lref n' lv m1 in
          lref_write v m2 ref v
      | EAugAssign lv op r =>
          let* (rv, m1) := eval n' r m in
          let* (ref, m2) := eval_lref n' lv m1 in
          let* (old, m3) := lref_read m2 ref in
          let* (nv, m4) := of_pure_er m3 (p_arith P op old rv) in
          lref_write nv m4 ref nv
      | EIncr lv decr pre =>
          let* (ref, m1) := eval_lref n' lv m in
          let* (old, m2) := lref_read m1 ref in
          if pre then
            let* (nv, m3) := of_pure_er m2 (p_arith P (incr_arith decr) old (p_num P one_bits)) in
            lref_write nv m3 ref nv
          else
            let v := p_plus P old in
            let* (nv, m3) := of_pure_er m2 (p_arith P (incr_arith decr) v (p_num P one_bits)) in
            lref_write v m3 ref nv
      | EGroup e1 => eval n' e1 m
      | ECall b es =>
          let* (vs, m1) := eval_exprs n' es m in
          if negb (Nat.eqb (length vs) (p_builtin_arity P b)) then EWrong else
          let* (rs, m2) := of_er m1 (p_builtin P b (ms m1) vs) in
          match rs with
          | [v] => ENormal v m2
          | _ => EWrong
          end
      | ELengthArray sc i => ENormal (p_array_len P (ms m) sc i) m
      | ESplit s0 sc i =>
          let* (sv, m1) := eval n' s0 m in
          of_er m1 (p_split P (ms m1) sv sc i None)
      | ESplitSep s0 sc i sep isre =>
          let* (sv, m1) := eval n' s0 m in
          let* (sepv, m2) := eval n' sep m1 in
          of_er m2 (p_split P (ms m2) sv sc i (Some (sepv, isre)))
      | ESubVar g re repl sc i =>
          if negb (Nat.eqb (p_builtin_arity P (if g then BGsub else BSub)) 3) then EWrong else
          let* (rev_, m1) := eval n' re m in
          let* (replv, m2) := eval n' repl m1 in
          let* (inv, m3) := lref_read m2 (RVar sc i) in
          let* (rs, m4) := of_er m3 (p_builtin P (if g then BGsub else BSub) (ms m3) [rev_; replv; inv]) in
          match rs with
          | [cnt; out] => lref_write cnt m4 (RVar sc i) out
          | _ => EWrong
          end
      | ESubLv g re repl lv =>
          if negb (Nat.eqb (p_builtin_arity P (if g then BGsub else BSub)) 3) then EWrong else
          if (match lv with LVar _ _ => true | _ => false end) then EWrong else
          let* (ref, m0) := eval_lref n' lv m in
          let* (inv, m1) := lref_read m0 ref in
          let* (rev_, m2) := eval n' re m1 in
          let* (replv, m3) := eval n' repl m2 in
          let* (rs, m4) := of_er m3 (p_builtin P (if g then BGsub else BSub) (ms m3) [rev_; replv; inv]) in
          match rs with
          | [cnt; out] =>
              match ref with
              | RField _ => if p_num_pos P cnt then lref_write cnt m4 ref out else ENormal cnt m4
              | _ => lref_write cnt m4 ref out
              end
          | _ => EWrong
          end
      | ESprintf es =>
          let* (vs, m1) := eval_exprs n' es m in of_er m1 (p_sprintf P (ms m1) vs)
      | EUserCall fi nsc a =>
          let* (vs, m1) := eval_args n' a m in
          if (fi <? 0) || (nsc <? zlen vs) then EWrong else
          match nth_error FN (Z.to_nat fi) with
          | None => EWrong
          | Some fn =>
            if negb (f_nscalars fn =? nsc) then EWrong else
            if maxCallDepth <=? depth m1 then EAbort (XError (p_err_depth P fi)) m1 else
            let m2 := {| ms := p_push_arrays P (ms m1) (args_arrays a) (f_narrays fn);
                         frame := pad_nulls vs nsc; depth := depth m1 + 1 |} in
            match exec_stmts n' false (f_body fn) m2 with
            | RNormal m3 => ENormal (p_null P) (restore P m1 m3)
            | RReturn v m3 => ENormal v (restore P m1 m3)
            | RAbort x m3 => EAbort x (restore P m1 m3)
            | RBreak _ | RContinue _ | RWrong => EWrong
            | RFuel => EFuel
            end
          end
      | ENativeCall fi es =>
          let* (vs, m1) := eval_exprs n' es m in of_er m1 (p_native P (ms m1) fi vs)
      | EGetline r src =>
          let* (sv, m1) := (match r with RNone => ENormal (p_null P) m | _ => eval n' src m end) in
          let* (rl, m2) := of_er m1 (p_getline P (ms m1) r (redir_src r sv)) in
          match rl with
          | (ret, Some line) => ENormal ret (with_ms m2 (p_set_line P (ms m2) line))
          | (ret, None) => ENormal ret m2
          end
      | EGetlineLv r src lv =>
          let* (ref, m0) := eval_lref n' lv m in
          let* (sv, m1) := (match r with RNone => ENormal (p_null P) m0 | _ => eval n' src m0 end) in
          let* (rl, m2) := of_er m1 (p_getline P (ms m1) r (redir_src r sv)) in
          match rl with
          | (ret, Some line) => lref_write ret m2 ref line
          | (ret, None) => ENormal ret m2
          end
      end
    end

  with eval_exprs (n : nat) (es : exprs) (m : mstate) {struct n} : eres (list value) :=
    match n with
    | O => EFuel
    | S n' =>
      match es with
      | Enil => ENormal [] m
      | Econs e es' =>
          let* (v, m1) := eval n' e m in
          let* (vs, m2) := eval_exprs n' es' m1 in
          ENormal (v :: vs) m2
      end
    end

  (* subscript list: one value, or the values joined by SUBSEP *)
  with eval_index (n : nat) (es : exprs) (m : mstate) {struct n} : eres value :=
    match n with
    | O => EFuel
    | S n' =>
      let* (vs, m1) := eval_exprs n' es m in
      match vs with
      | [] => EWrong
      | [v] => ENormal v m1
      | _ => ENormal (p_index_multi P (ms m1) vs) m1
      end
    end

  with eval_lref (n : nat) (lv : lval) (m : mstate) {struct n} : eres lref :=
    match n with
    | O => EFuel
    | S n' =>
      match lv with
      | LVar sc i => ENormal (RVar sc i) m
      | LField e => let* (idx, m1) := eval n' e m in ENormal (RField idx) m1
      | LIndex sc i idx => let* (key, m1) := eval_index n' idx m in ENormal (RIndex sc i key) m1
      end
    end

  (* scalar arguments of a user call, left to right *)
  with eval_args (n : nat) (a : args) (m : mstate) {struct n} : eres (list value) :=
    match n with
    | O => EFuel
    | S n' =>
      match a with
      | Anil => ENormal [] m
      | AconsS e a' =>
          let* (v, m1) := eval n' e m in
          let* (vs, m2) := eval_args n' a' m1 in
          ENormal (v :: vs) m2
      | AconsA _ _ a' => eval_args n' a' m
      end
    end

  with exec (n : nat) (l : bool) (s : stmt) (m : mstate) {struct n} : xres :=
    match n with
    | O => RFuel
    | S n' =>
      match s with
      | SExpr e => let+ (_v, m1) := eval n' e m in RNormal m1
      | SPrint r dest args =>
          let+ (dv, m1) := (match r with RNone => ENormal (p_null P) m | _ => eval n' dest m end) in
          let+ (vs, m2) := eval_exprs n' args m1 in
          let+ (_u, m3) := of_er m2 (p_print P false (ms m2) r (redir_src r dv) vs) in RNormal m3
      | SPrintf r dest args =>
          let+ (dv, m1) := (match r with RNone => ENormal (p_null P) m | _ => eval n' dest m end) in
          let+ (vs, m2) := eval_exprs n' args m1 in
          let+ (_u, m3) := of_er m2 (p_print P true (ms m2) r (redir_src r dv) vs) in RNormal m3
      | SIf c body els =>
          let+ (vc, m1) := eval n' c m in
          if p_to_bool P vc then exec_stmts n' l body m1 else exec_stmts n' l els m1
      | SFor pre c post body =>
          match (match pre with OSnone => RNormal m | OSsome s1 => exec n' false s1 m end) with
          | RNormal m1 => exec_loop n' c post body m1
          | RBreak _ | RContinue _ => RWrong          (* init is a simple statement *)
          | other => other
          end
      | SWhile c body => exec_loop n' (OEsome c) OSnone body m
      | SDoWhile body c =>
          match exec_stmts n' true body m with
          | RNormal m1 | RContinue m1 =>
              let+ (vc, m2) := eval n' c m1 in
              if p_to_bool P vc then exec n' l (SDoWhile body c) m2 else RNormal m2
          | RBreak m1 => RNormal m1
          | other => other
          end
      | SForIn vsc vi asc ai body =>
          (fix loop (ks : list value) (m : mstate) : xres :=
             match ks with
             | [] => RNormal m
             | k :: ks' =>
                 match var_write P m vsc vi k with
                 | WStuck => RWrong
                 | WErr e m1 => RAbort (XError e) m1
                 | WOk m1 =>
                     match exec_stmts n' true body m1 with
                     | RNormal m2 | RContinue m2 => loop ks' m2
                     | RBreak m2 => RNormal m2
                     | other => other
                     end
                 end
             end) (p_array_keys P (ms m) asc ai) m
      | SBreak => if l then RBreak m else RWrong
      | SContinue => if l then RContinue m else RWrong
      | SNext => RAbort XNext m
      | SNextfile => RAbort XNextfile m
      | SExit oe =>
          match oe with
          | OEnone => RAbort XExit m
          | OEsome e => let+ (v, m1) := eval n' e m in RAbort XExit (with_ms m1 (p_set_exit P (ms m1) v))
          end
      | SReturn oe =>
          match oe with
          | OEnone => RReturn (p_null P) m
          | OEsome e => let+ (v, m1) := eval n' e m in RReturn v m1
          end
      | SDelete sc i idx =>
          let+ (key, m1) := eval_index n' idx m in
          RNormal (with_ms m1 (p_array_del P (ms m1) sc i key))
      | SDeleteAll sc i => RNormal (with_ms m (p_array_clear P (ms m) sc i))
      | SBlock body => exec_stmts n' l body m
      end
    end

  with exec_stmts (n : nat) (l : bool) (ss : stmts) (m : mstate) {struct n} : xres :=
    match n with
    | O => RFuel
    | S n' =>
      match ss with
      | Snil => RNormal m
      | Scons s ss' =>
          match exec n' l s m with
          | RNormal m1 => exec_stmts n' l ss' m1
          | other => other
          end
      end
    end

  (* test-first loop (while, for): condition, body, post, repeat *)
  with exec_loop (n : nat) (c : oexpr) (post : ostmt) (body : stmts) (m : mstate) {struct n} : xres :=
    match n with
    | O => RFuel
    | S n' =>
      let+ (go, m1) := (match c with
                        | OEnone => ENormal true m
                        | OEsome e => let* (v, m1) := eval n' e m in ENormal (p_to_bool P v) m1
                        end) in
      if negb go then RNormal m1 else
      match exec_stmts n' true body m1 with
      | RNormal m2 | RContinue m2 =>
          match (match post with OSnone => RNormal m2 | OSsome s1 => exec n' false s1 m2 end) with
          | RNormal m3 => exec_loop n' c post body m3
          | RBreak _ | RContinue _ => RWrong          (* the increment is a simple statement *)
          | other => other
          end
      | RBreak m2 => RNormal m2
      | other => other
      end
    end.

End AstSem.

Arguments ENormal {value St err A}.
Arguments EAbort {value St err A}.
Arguments EWrong {value St err A}.
Arguments EFuel {value St err A}.
Arguments RNormal {value St err}.
Arguments RBreak {value St err}.
Arguments RContinue {value St err}.
Arguments RReturn {value St err}.
Arguments RAbort {value St err}.
Arguments RWrong {value St err}.
Arguments RFuel {value St err}.
Arguments RVar {value}.
Arguments RField {value}.
Arguments RIndex {value}.
Arguments eval {value St err}.
Arguments eval_exprs {value St err}.
Arguments eval_index {value St err}.
Arguments eval_lref {value St err}.
Arguments eval_args {value St err}.
Arguments exec {value St err}.
Arguments exec_stmts {value St err}.
Arguments exec_loop {value St err}.
Arguments lref_read {value St err}.
Arguments lref_write {value St err} P {A}.
Arguments ebind {value St err A B}.
Arguments sbind {value St err A}.
Arguments of_er {value St err A}.
Arguments of_pure_er {value St err A}.
Arguments of_w {value St err A}.
Arguments pad_nulls {value St err}.
Arguments redir_src {value}.
