(* C01: the RESOLVED syntax tree of internal/ast/ast.go (variables carry scope and
   index as resolver.LookupVar gives them; user calls carry the callee's index, its
   number of scalar parameters and, per argument, whether it is passed as an array). *)
From Verif Require Import Lib.Base.

Inductive scope : Type := SLocal | SSpecial | SGlobal.       (* resolver.Scope = 1, 2, 3 *)
Inductive arith : Type := AAdd | ASub | AMul | ADiv | APow | AMod.
Inductive cmp : Type := CEq | CNe | CLt | CLe | CGt | CGe.
Inductive binop : Type := BArith (a : arith) | BCmp (c : cmp) | BMatch | BNotMatch.
Inductive unop : Type := UNeg | UNot | UPlus.
(* redirection of print/printf (none > >> |) and of getline (none | <) *)
Inductive redir : Type := RNone | RPipe | RLess | RGreater | RAppend.

(* builtins compiled as "push the arguments, CallBuiltin op" (compiler.go:865-919) *)
Inductive builtin : Type :=
| BAtan2 | BClose | BCos | BExp | BFflush | BFflushAll | BGsub | BIndex | BInt | BLength
| BLengthArg | BLog | BMatchFn | BRand | BSin | BSqrt | BSrand | BSrandSeed | BSub | BSubstr
| BSubstrLength | BSystem | BTolower | BToupper.

Inductive expr : Type :=
| ENum (bits : Z)                               (* NumExpr: IEEE-754 bit pattern *)
| EStr (s : bytes)
| ERegex (r : bytes)
| EField (e : expr)
| ENamedField (e : expr)
| EVar (sc : scope) (i : Z)
| EIndex (sc : scope) (i : Z) (idx : exprs)
| EIn (idx : exprs) (sc : scope) (i : Z)
| EBin (op : binop) (l r : expr)
| EAnd (l r : expr)
| EOr (l r : expr)
| EConcat (l r : expr)
| EUnary (op : unop) (e : expr)
| ECond (c t f : expr)
| EAssign (lv : lval) (r : expr)
| EAugAssign (lv : lval) (op : arith) (r : expr)
| EIncr (lv : lval) (decr pre : bool)
| EGroup (e : expr)
| ECall (b : builtin) (args : exprs)            (* generic builtins *)
| ELengthArray (sc : scope) (i : Z)
| ESplit (s : expr) (sc : scope) (i : Z)        (* split(s, a) *)
| ESplitSep (s : expr) (sc : scope) (i : Z) (sep : expr) (isre : bool)
| ESubVar (g : bool) (re repl : expr) (sc : scope) (i : Z)      (* sub/gsub on a variable *)
| ESubLv (g : bool) (re repl : expr) (lv : lval)                (* ... on a field or array element *)
| ESprintf (args : exprs)
| EUserCall (fi nsc : Z) (a : args)
| ENativeCall (fi : Z) (args : exprs)
| EGetline (r : redir) (src : expr)             (* src is ignored when r = RNone *)
| EGetlineLv (r : redir) (src : expr) (lv : lval)
with lval : Type :=
| LVar (sc : scope) (i : Z)
| LField (e : expr)
| LIndex (sc : scope) (i : Z) (idx : exprs)
with exprs : Type :=
| Enil
| Econs (e : expr) (es : exprs)
with args : Type :=
| Anil
| AconsS (e : expr) (a : args)                   (* scalar argument: evaluated, on the stack *)
| AconsA (sc : scope) (i : Z) (a : args).        (* array argument: passed by reference *)

Inductive stmt : Type :=
| SExpr (e : expr)
| SPrint (r : redir) (dest : expr) (args : exprs)      (* dest ignored when r = RNone *)
| SPrintf (r : redir) (dest : expr) (args : exprs)
| SIf (c : expr) (body els : stmts)
| SFor (pre : ostmt) (c : oexpr) (post : ostmt) (body : stmts)
| SForIn (vsc : scope) (vi : Z) (asc : scope) (ai : Z) (body : stmts)
| SWhile (c : expr) (body : stmts)
| SDoWhile (body : stmts) (c : expr)
| SBreak | SContinue | SNext | SNextfile
| SExit (e : oexpr)
| SReturn (e : oexpr)
| SDelete (sc : scope) (i : Z) (idx : exprs)
| SDeleteAll (sc : scope) (i : Z)
| SBlock (body : stmts)
with stmts : Type :=
| Snil
| Scons (s : stmt) (ss : stmts)
with ostmt : Type :=
| OSnone
| OSsome (s : stmt)
with oexpr : Type :=
| OEnone
| OEsome (e : expr).

Fixpoint exprs_len (es : exprs) : Z :=
  match es with Enil => 0 | Econs _ es' => 1 + exprs_len es' end.

Fixpoint stmts_is_nil (ss : stmts) : bool := match ss with Snil => true | _ => false end.

(* a function: number of scalar and array parameters, body *)
Record func : Type := { f_nscalars : Z; f_narrays : Z; f_body : stmts }.

(* the units the compiler compiles separately (compiler.go Compile) *)
Record program : Type := {
  p_begin : list stmts;
  p_actions : list (list expr * option stmts);
  p_end : list stmts;
  p_funcs : list func
}.
