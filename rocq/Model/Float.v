(* IEEE-754 binary64 arithmetic on the dyadic representation: every operation computes
   the exact rational result and rounds it to the nearest double, ties to even
   (Model/Value.v round_pos, the rounding used for strconv.ParseFloat there).  The sign
   of zero is not kept.  math.Pow is offered only where the result is exact. *)
From Verif Require Import Lib.Base Lib.Dyadic Model.Value.

(* nearest double of the rational (sign) num/den, num > 0, den > 0 *)
Definition round_signed (neg : bool) (num den : Z) : fnum :=
  let '(v, _) := round_pos num den in if neg then fneg v else v.

(* nearest double of m * 2^e *)
Definition round_dyadic (m e : Z) : fnum :=
  if m =? 0 then FFin 0 0
  else if 0 <=? e then round_signed (m <? 0) (Z.abs m * 2 ^ e) 1
  else round_signed (m <? 0) (Z.abs m) (2 ^ (- e)).

Definition fadd (x y : fnum) : fnum :=
  match x, y with
  | FNaN, _ | _, FNaN => FNaN
  | FInf a, FInf b => if Bool.eqb a b then FInf a else FNaN
  | FInf a, _ => FInf a
  | _, FInf b => FInf b
  | FFin m1 e1, FFin m2 e2 =>
      let e := Z.min e1 e2 in
      round_dyadic (m1 * 2 ^ (e1 - e) + m2 * 2 ^ (e2 - e)) e
  end.

Definition fsub (x y : fnum) : fnum := fadd x (fneg y).

Definition fsign_neg (x : fnum) : bool :=
  match x with FInf s => s | FFin m _ => m <? 0 | FNaN => false end.

Definition fmul (x y : fnum) : fnum :=
  match x, y with
  | FNaN, _ | _, FNaN => FNaN
  | FInf _, FFin 0 _ | FFin 0 _, FInf _ => FNaN
  | FInf _, _ | _, FInf _ => FInf (xorb (fsign_neg x) (fsign_neg y))
  | FFin m1 e1, FFin m2 e2 => round_dyadic (m1 * m2) (e1 + e2)
  end.

(* y is not zero (AWK reports division by zero before dividing) *)
Definition fdiv (x y : fnum) : fnum :=
  match x, y with
  | FNaN, _ | _, FNaN => FNaN
  | FInf _, FInf _ => FNaN
  | FInf _, _ => FInf (xorb (fsign_neg x) (fsign_neg y))
  | _, FInf _ => FFin 0 0
  | FFin m1 e1, FFin m2 e2 =>
      if m2 =? 0 then FNaN
      else if m1 =? 0 then FFin 0 0
      else
        let d := e1 - e2 in
        let num := if 0 <=? d then Z.abs m1 * 2 ^ d else Z.abs m1 in
        let den := if 0 <=? d then Z.abs m2 else Z.abs m2 * 2 ^ (- d) in
        round_signed (xorb (m1 <? 0) (m2 <? 0)) num den
  end.

(* math.Mod: exact; the result has the sign of x *)
Definition fmod (x y : fnum) : fnum :=
  match x, y with
  | FNaN, _ | _, FNaN => FNaN
  | FInf _, _ => FNaN
  | _, FInf _ => x
  | FFin m1 e1, FFin m2 e2 =>
      if m2 =? 0 then FNaN
      else
        let e := Z.min e1 e2 in
        let a := Z.abs m1 * 2 ^ (e1 - e) in
        let b := Z.abs m2 * 2 ^ (e2 - e) in
        let r := a mod b in
        round_dyadic (if m1 <? 0 then - r else r) e
  end.

(* math.Pow for the cases where every intermediate product of the square-and-multiply
   loop is exact: integral base and small non-negative integral exponent *)
Definition fpow (x y : fnum) : option fnum :=
  match canon x, canon y with
  | FFin m1 e1, FFin m2 e2 =>
      if (0 <=? e1) && (0 <=? e2) then
        let b := m1 * 2 ^ e1 in
        let n := m2 * 2 ^ e2 in
        if (0 <=? n) && (n <=? 64) then
          if n =? 0 then Some (FFin 1 0)
          else if (Z.abs b) ^ (2 * n) <? two53 then Some (FFin (b ^ n) 0) else None
        else None
      else None
  | _, _ => None
  end.

Definition f_of_Z (z : Z) : fnum := round_dyadic z 0.
