(* C16, run-time half: the array part of the call frame built by the VM's
   CallUser handler (interp/vm.go).  The caller supplies the slots of the arrays
   it passes; every further array parameter of the function gets a slot of its
   own, appended to p.arrays and holding a new empty array:
     for j := numArrayArgs; j < f.NumArrays; j++ {
         arrays = append(arrays, len(p.arrays))
         p.arrays = append(p.arrays, make(map[string]value)) }
   Definitions only. *)
From Verif Require Import Lib.Base.

(* [n] iterations of the loop; [heap] is p.arrays, [empty] a new map *)
Fixpoint bind_missing {A} (empty : A) (n : nat) (arrays : list nat) (heap : list A) : list nat * list A :=
  match n with
  | O => (arrays, heap)
  | S n' => bind_missing empty n' (arrays ++ [length heap]) (heap ++ [empty])
  end.

(* the local-array slots of the callee, and p.arrays after the call set-up *)
Definition call_arrays {A} (empty : A) (args : list nat) (num_arrays : nat) (heap : list A) : list nat * list A :=
  bind_missing empty (num_arrays - length args) args heap.
