(* C01: a small executable instance of the primitive record (integers as values, globals and
   an output log as state).  It exists to show that the hypotheses of the compiler theorems
   are satisfiable, to run both semantics inside Coq on concrete programs, and to exhibit the
   concatenation-chain divergence when [concat] depends on the state. *)
From Verif Require Import Lib.Base Model.Ast Model.Instr Model.Compiler Model.Prims.

Record tstate : Type := { t_glob : list Z; t_out : list Z }.

Definition tget (s : tstate) (i : Z) : Z := nth (Z.to_nat i) (t_glob s) 0.
Fixpoint list_set (l : list Z) (n : nat) (v : Z) : list Z :=
  match n, l with
  | O, [] => [v]
  | O, _ :: t => v :: t
  | S n', [] => 0 :: list_set [] n' v
  | S n', x :: t => x :: list_set t n' v
  end.
Definition tset (s : tstate) (i v : Z) : tstate :=
  {| t_glob := list_set (t_glob s) (Z.to_nat i) v; t_out := t_out s |}.

Definition tbool (b : bool) : Z := if b then 1 else 0.

Definition tarith (op : arith) (l r : Z) : er unit Z :=
  match op with
  | AAdd => EOk (l + r)
  | ASub => EOk (l - r)
  | AMul => EOk (l * r)
  | ADiv => if r =? 0 then EErr tt else EOk (l / r)
  | APow => EOk (l ^ r)
  | AMod => if r =? 0 then EErr tt else EOk (Z.rem l r)
  end.

Definition tcmp (c : cmp) (l r : Z) : bool :=
  match c with
  | CEq => l =? r | CNe => negb (l =? r) | CLt => l <? r | CLe => l <=? r | CGt => r <? l | CGe => r <=? l
  end.

(* [cc] is the concatenation, possibly state dependent *)
Definition toy (cc : tstate -> Z -> Z -> Z) : prims Z tstate unit :=
  {| p_num := fun b => if b =? one_bits then 1 else b;
     p_str := fun s => zlen s;
     p_null := 0;
     p_of_bool := tbool;
     p_to_bool := fun v => negb (v =? 0);
     p_num_pos := fun v => 0 <? v;
     p_neg := fun v => - v;
     p_plus := fun v => v;
     p_arith := tarith;
     p_aug := tarith;
     p_incr := fun a v => v + a;
     p_cmp := fun c _ l r => tcmp c l r;
     p_cmpj := fun c _ l r => tcmp c l r;
     p_concat := cc;
     p_concat_multi := fun s vs => match vs with [] => 0 | v :: t => fold_left (cc s) t v end;
     p_index_multi := fun _ vs => zlen vs;
     p_match := fun s l r => (s, EOk (l =? r));
     p_regex := fun _ r => zlen r;
     p_get_field := fun s _ => (s, 0);
     p_get_field_int := fun s _ => (s, 0);
     p_get_named := fun s _ => (s, EOk 0);
     p_get_named_str := fun s _ => (s, EOk 0);
     p_set_field := fun s _ _ => (s, EOk tt);
     p_get_global := tget;
     p_set_global := tset;
     p_get_special := fun s _ => (s, 0);
     p_set_special := fun s _ _ => (s, EOk tt);
     p_array_get := fun s _ _ _ => (s, 0);
     p_array_set := fun s _ _ _ _ => s;
     p_array_in := fun _ _ _ _ => false;
     p_array_del := fun s _ _ _ => s;
     p_array_clear := fun s _ _ => s;
     p_array_len := fun _ _ _ => 0;
     p_array_keys := fun _ _ _ => [7; 8];
     p_builtin_arity := fun _ => 1%nat;
     p_builtin := fun _ s vs => (s, EOk [zlen vs]);
     p_split := fun s _ _ _ _ => (s, EOk 0);
     p_sprintf := fun s vs => (s, EOk (zlen vs));
     p_native := fun s _ vs => (s, EOk (zlen vs));
     p_push_arrays := fun s _ _ => s;
     p_pop_arrays := fun s => s;
     p_err_depth := fun _ => tt;
     p_print := fun _ s _ _ vs => ({| t_glob := t_glob s; t_out := t_out s ++ vs |}, EOk tt);
     p_getline := fun s _ _ => (s, EOk (0, None));
     p_set_line := fun s _ => s;
     p_set_exit := fun s _ => s |}.

(* state-independent concatenation: a b = 10 a + b *)
Definition toy_plain : prims Z tstate unit := toy (fun _ a b => 10 * a + b).
(* concatenation that looks at global 0 (as CONVFMT influences number-to-string conversion) *)
Definition toy_dep : prims Z tstate unit := toy (fun s a b => 10 * a + b + tget s 0).

Definition tinit : tstate := {| t_glob := []; t_out := [] |}.
