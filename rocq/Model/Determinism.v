(* C19: what "the same result of parsing" means for the resolver model of C16
   (Model/Resolver.v), and the finite enumeration the model runner uses to
   produce every outcome Go's map iteration order can lead to.
   Definitions only.

   - [lookup_final] is ResolvedProgram.LookupVar read off the final tables
     (scope, type, index): together with [func_info] (ResolvedProgram.LookupFunc,
     which does not depend on the resolver's run at all) it is everything
     internal/compiler reads of the resolver's result.
   - [final_equiv]: two results give the same answers.
   - [perms], [order_outcomes]: resolve_order over every order of the functions.
   - [ring_prog], [two_bad]: the witness programs of the two refutations. *)
From Verif Require Import Lib.Base Model.Resolver.
Open Scope Z_scope.

Fixpoint assoc {A} (k : name) (l : list (name * A)) : option A :=
  match l with
  | [] => None
  | (k', v) :: r => if neqb k k' then Some v else assoc k r
  end.

(* VarInfo.Index; Go's zero value for an entry the index loop never reached *)
Definition idx_of (v : name) (l : list (name * Z)) : Z :=
  match assoc v l with Some i => i | None => 0 end.

(* resolver.lookupVar on the finished tables *)
Definition lookup_final (F : final) (fn v : name) : option (scope * ty * Z) :=
  match (if is_empty fn then None else get (fin_types F) (fn, v)) with
  | Some t =>
      Some (Local, t, idx_of v (match assoc fn (fin_lidx F) with Some l => l | None => [] end))
  | None =>
      match index_of v special_names 1 with
      | Some i => Some (Special, TScalar, i)
      | None =>
          match get (fin_types F) ([], v) with
          | Some t => Some (Global, t, idx_of v (fin_gidx F))
          | None => None
          end
      end
  end.

(* two results that answer every question alike *)
Definition final_equiv (F F' : final) : Prop :=
  (forall k, get (fin_types F) k = get (fin_types F') k) /\
  fin_gidx F = fin_gidx F' /\ fin_lidx F = fin_lidx F'.

(* the verdict and, for an accepted program, the result up to [final_equiv] *)
Definition same_result (r r' : rres final) : Prop :=
  match r, r' with
  | ROk F, ROk F' => final_equiv F F'
  | RErr e, RErr e' => e = e'
  | RPanic, RPanic => True
  | RFuel, RFuel => True
  | _, _ => False
  end.

Definition is_ok {A} (r : rres A) : bool := match r with ROk _ => true | _ => false end.

(* ---------- every order of the functions ------------------------------- *)

Fixpoint insert_all {A} (x : A) (l : list A) : list (list A) :=
  match l with
  | [] => [[x]]
  | y :: r => (x :: l) :: List.map (cons y) (insert_all x r)
  end.
Fixpoint perms {A} (l : list A) : list (list A) :=
  match l with
  | [] => [[]]
  | x :: r => flat_map (insert_all x) (perms r)
  end.

Definition order_outcomes (cut : nat) (P : program) : list (rres final) :=
  List.map (fun o => resolve_order cut o P) (perms (fnames P)).

(* the error part of an outcome: what ParseProgram's error message is made of *)
Definition err_of (r : rres final) : option rerr := match r with RErr e => Some e | _ => None end.

Definition rerr_eqb (a b : rerr) : bool :=
  match a, b with
  | EAlreadyDefined f, EAlreadyDefined g => neqb f g
  | EGlobalFunc f, EGlobalFunc g => neqb f g
  | ECallLocal f, ECallLocal g => neqb f g
  | EUndefined f, EUndefined g => neqb f g
  | ETooManyArgs f, ETooManyArgs g => neqb f g
  | ENotFunc f, ENotFunc g => neqb f g
  | EUse a1 v1 b1, EUse a2 v2 b2 => ty_eqb a1 a2 && neqb v1 v2 && ty_eqb b1 b2
  | EPassVar a1 v1 b1, EPassVar a2 v2 b2 => ty_eqb a1 a2 && neqb v1 v2 && ty_eqb b1 b2
  | EPassExpr, EPassExpr => true
  | ETooManyIter, ETooManyIter => true
  | _, _ => false
  end.

(* "the error set is a singleton": all orders of the functions that are
   rejected are rejected with the same error (computable, per program) *)
Definition one_error (cut : nat) (P : program) : bool :=
  match List.filter (fun r => negb (is_ok r)) (order_outcomes cut P) with
  | [] => true
  | r0 :: rs =>
      forallb (fun r => match err_of r0, err_of r with
                        | Some a, Some b => rerr_eqb a b
                        | _, _ => false
                        end) rs
  end.

(* ---------- the order of the walk after the repair of F-C19-1/2 ------------ *)

(* toposort.go and resolve.go now collect the keys of each map into a slice and
   sort.Strings it before iterating.  Whatever order the map delivers them in
   ([pi]), what the algorithm sees is the sorted list: the implementation is the
   generic resolver of C16 run with the oracle [sorting pi]. *)
Definition sorting (pi : oracle) : oracle := fun k l => sort_names (pi k l).
(* the sorted order itself is C16's [name_order_oracle]; [resolve_sorting pi] is the
   implementation when the maps deliver their keys as [pi] says *)
Definition resolve_sorting (pi : oracle) (P : program) : rres final := resolve (sorting pi) P.

(* ---------- the names kept for the disassembler ---------------------------- *)

(* compiler.go Compile:
     resolved.IterFuncs(func(name string, info resolver.FuncInfo) {
         for len(p.nativeFuncNames) <= info.Index { append "" }
         p.nativeFuncNames[info.Index] = name })
   IterFuncs ranges over the funcInfo map (every function, in map order); since the
   repair of F-C19-3 the callback starts with `if !info.Native { return }`.
   [name_shown P order i] is nativeFuncNames[i] when the map delivered the names in
   [order] (None: never written, ""). *)
Definition shown_hit (P : program) (i : Z) (n : name) : bool :=
  match func_info P n with Some fi => fi_native fi && (fi_index fi =? i) | None => false end.
Definition name_shown (P : program) (order : list name) (i : Z) : option name :=
  fold_left (fun acc n => if shown_hit P i n then Some n else acc) order None.

(* the keys of the funcInfo map *)
Fixpoint dedup (l : list name) : list name :=
  match l with
  | [] => []
  | x :: r => x :: List.filter (fun y => negb (neqb y x)) (dedup r)
  end.
Definition func_keys (P : program) : list name := dedup (List.map n_name (p_natives P) ++ fnames P).

(* function f(a) { natv(a) } with the Go function natv: both have index 0 *)
Definition n_natv : name := [110; 97; 116; 118].
Definition native_clash : program :=
  {| p_natives := [ {| n_name := n_natv; n_in := 1; n_variadic := false; n_func := true |} ];
     p_funcs := [ {| f_name := [102]; f_params := [[97]]; f_body := [Call n_natv [ArgVar [97]]] |} ];
     p_main := [] |}.

(* ---------- witness programs -------------------------------------------- *)

Definition nm (c : Z) (i : nat) : name := [c; 48 + Z.of_nat (i / 100); 48 + Z.of_nat ((i / 10) mod 10); 48 + Z.of_nat (i mod 10)].
Definition fN (i : nat) : name := nm 102 i.             (* f000, f001, ... *)
Definition n_a : name := [97].
Definition n_b : name := [98].
Definition n_x : name := [120].
Definition n_z : name := [122].

(* function f(a) { a[1]=1; a=2 }  function g(b) { b[1]=1; b=2 }  BEGIN { } :
   two independent type errors, neither function is called *)
Definition two_bad : program :=
  {| p_natives := [];
     p_funcs := [ {| f_name := [102]; f_params := [n_a]; f_body := [Use n_a TArray; Use n_a TScalar] |};
                  {| f_name := [103]; f_params := [n_b]; f_body := [Use n_b TArray; Use n_b TScalar] |} ];
     p_main := [] |}.

(* the same with only f in error: function g(b) { b[1]=1 } *)
Definition one_bad : program :=
  {| p_natives := [];
     p_funcs := [ {| f_name := [102]; f_params := [n_a]; f_body := [Use n_a TArray; Use n_a TScalar] |};
                  {| f_name := [103]; f_params := [n_b]; f_body := [Use n_b TArray] |} ];
     p_main := [] |}.

(* function f(a) { a[1]=1; g(a) }  function g(b) { b[2]=1 }  BEGIN { f(x); y = 1 } : accepted *)
Definition n_y : name := [121].
Definition good_prog : program :=
  {| p_natives := [];
     p_funcs := [ {| f_name := [102]; f_params := [n_a]; f_body := [Use n_a TArray; Call [103] [ArgVar n_a]] |};
                  {| f_name := [103]; f_params := [n_b]; f_body := [Use n_b TArray] |} ];
     p_main := [Call [102] [ArgVar n_x]; Use n_y TScalar] |}.

(* function f000(a) { f001(a) } ... function f<n-1>(a) { if (0) f000(z) }
   BEGIN { x[1]=1; f000(x); f<h>(x) } : a ring of n functions forwarding their
   parameter, the array type known only at the two callers in BEGIN *)
Fixpoint ring_funcs (n k : nat) : list fdef :=
  match k with
  | O => []
  | S k' =>
      let i := (n - k)%nat in
      {| f_name := fN i; f_params := [n_a];
         f_body := [if Nat.eqb k' 0 then Call (fN 0) [ArgVar n_z] else Call (fN (S i)) [ArgVar n_a]] |}
      :: ring_funcs n k'
  end.
Definition ring_prog (n h : nat) : program :=
  {| p_natives := []; p_funcs := ring_funcs n n;
     p_main := [Use n_x TArray; Call (fN 0) [ArgVar n_x]; Call (fN h) [ArgVar n_x]] |}.

(* a fixed order instead of an oracle: used to state witnesses by the order
   topoSort produced *)
Fixpoint remove_first (x : name) (l : list name) : list name :=
  match l with
  | [] => []
  | y :: r => if neqb y x then r else y :: remove_first x r
  end.
Definition front_oracle (first : name) : oracle :=
  fun _ l => if mem first l then first :: remove_first first l else l.
